#!/venv/bin/python
"""Apply each seeded mutation to /repo, run the property's check, undo. Usage: tools/seedtest.py [dir ...] [--tier quick] [--all-props]"""
import json
import os
import subprocess
import sys
import time
from pathlib import Path

REPO = os.environ.get("XV_REPO", "/repo")
VERIF = Path(__file__).resolve().parent.parent


def sh(cmd, **kw):
    return subprocess.run(cmd, shell=True, capture_output=True, text=True, **kw)


def clean_repo():
    sh(f"git -C {REPO} checkout -- .")
    st = sh(f"git -C {REPO} status --porcelain").stdout.strip()
    assert st == "", f"/repo not clean: {st}"


def apply_patch(patch):
    r = sh(f"git -C {REPO} apply {patch}")
    if r.returncode == 0:
        return "git-apply"
    r2 = sh(f"cd {REPO} && patch -p1 --fuzz=3 --no-backup-if-mismatch < {patch}")
    if r2.returncode == 0:
        sh(f"find {REPO} -name '*.orig' -delete; find {REPO} -name '*.rej' -delete")
        return "patch-fuzz"
    sh(f"find {REPO} -name '*.orig' -delete; find {REPO} -name '*.rej' -delete")
    return None


def main():
    args = [a for a in sys.argv[1:] if not a.startswith("--")]
    tier = "quick"
    if "--thorough" in sys.argv:
        tier = "thorough"
    dirs = [Path(a).resolve() for a in args] or sorted(Path("/tmp/mut/out").glob("C*/m*")) + sorted((VERIF / "seeded").glob("*"))
    env = dict(os.environ)
    # mutated-tree runs must not overwrite the evidence of the unchanged tree
    env["XV_EVIDENCE_DIR"] = "/tmp/xv_seed_evidence"
    os.makedirs(env["XV_EVIDENCE_DIR"], exist_ok=True)
    results = []
    for d in dirs:
        patch = d / "patch.diff"
        if not patch.exists():
            continue
        meta = json.loads((d / "meta.json").read_text()) if (d / "meta.json").exists() else {}
        pid = meta.get("property") or d.parent.name
        clean_repo()
        how = apply_patch(patch)
        row = {"dir": str(d), "property": pid, "applied": how}
        if not how:
            clean_repo()
            results.append(row)
            print(json.dumps(row))
            continue
        try:
            demo = d / "demo.py"
            if demo.exists():
                r = sh(f"cd {REPO} && /venv/bin/python {demo}", timeout=300)
                row["demo_with_patch"] = r.returncode
            # a change can be outside its nominal property as the checks read it and still break another one:
            # meta.json may name the checks that are expected to catch it
            props = (meta.get("check_properties") or [pid]) if "--all-props" not in sys.argv else [f"C{i:02d}" for i in range(1, 19)]
            for p in props:
                t0 = time.time()
                r = sh(f"cd {VERIF} && ./check {p} --tier {tier}", env=env, timeout=1800)
                viol = [ln for ln in r.stdout.splitlines() if ln.startswith("VIOLATION")]
                row[f"check_{p}"] = {"rc": r.returncode, "violations": [v[:260] for v in viol[:3]], "wall": round(time.time() - t0, 1)}
        finally:
            clean_repo()
        if (d / "demo.py").exists():
            r = sh(f"cd {REPO} && /venv/bin/python {d / 'demo.py'}", timeout=300)
            row["demo_clean"] = r.returncode
        results.append(row)
        print(json.dumps(row))
        sys.stdout.flush()
    det = sum(1 for r in results if any(v.get("rc") == 1 for k, v in r.items() if k.startswith("check_")))
    print(f"SUMMARY detected {det}/{len(results)}")


if __name__ == "__main__":
    main()
