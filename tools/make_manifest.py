#!/usr/bin/env python3
"""Regenerate MANIFEST.json (levels, texts) from one table. Run after changing what a check proves."""
import json
from pathlib import Path

V = Path(__file__).resolve().parent.parent
COMMON_NOTE = ("Trusted: Lean 4.33 kernel (axioms audited each run: propext, Classical.choice, Quot.sound only; no sorry/native_decide); "
               "the translators harness/translate/*.py (regexes via re._parser, parser.py via ast) and the correspondence harness; CPython 3.12.1 as oracle/runtime. "
               "Modelled rather than verified: CPython's re engine (back-tracking semantics for the constructs used), str predicates on non-ASCII (parameters), "
               "ast.literal_eval (uninterpreted), action VALUES of the generated parser (only their truthiness/exception behaviour is in the recogniser model).")

T = {
 "C01": ("proof", "Lean: dead-alternative checker + theorem xonsh_alternatives_inert + certificate on the IR regenerated from parser.py; exact-counter correspondence; differential search vs ast.parse",
   "PARTIAL PROOF. Theorem (Lean, all token lists/fuel/start rules): with the dead-rule witness re-checked by the kernel against the IR regenerated from the shipped parser.py, no xonsh alternative's action ever runs on a Python-lexicon token list (xonsh_alternatives_inert, dead_never_succeeds), and acceptance is decided by the first pass (second_pass_never_accepts). The recogniser model is tied to the code by a correspondence that requires EQUAL outcome, end position, tokens fetched and peek/getnext/reset counts on every sampled input. That each Python alternative builds the node CPython builds is NOT a theorem (the oracle is the CPython binary): it is decided by differential search against ast.parse (types, all fields, all spans) on ASDL-directed programs x 7 layouts, snippet pools, tests/data and the stdlib."),
 "C02": ("proof", "Lean: xonsh_alternatives_inert + second_pass_never_accepts + certificates (start rules end in ENDMARKER, no ERRORTOKEN leaf, dead witness); exhaustive short token sequences vs ast.parse",
   "PARTIAL PROOF. Theorems as for C01 give the property's second sentence (xonsh extensions are reachable only through xonsh-only lexemes) for every Python-lexicon token list; certificates on the regenerated IR: both start rules end in ENDMARKER, no rule tests ERRORTOKEN, the diagnostic pass never returns a tree. 'Accepted => CPython accepts' for the Python core itself is decided by search: all token sequences of length<=3 over a 40-token vocabulary (exhaustive), sampled longer ones, precedence-boundary renderings, single-token edits/deletions and prefixes of valid programs, each against ast.parse."),
 "C03": ("proof", "Lean: tokenize_total (induction, regex nonNull soundness) instantiated on the regexes regenerated from tokenize.py; exact tokenizer and recogniser correspondence; soup/damage search with watchdog",
   "PROOF for the tokenizer, PARTIAL for the parser. Theorem tokenize_total: for every text, every classification of non-ASCII characters and every pattern set passing the kernel-checked progress certificate (every PseudoToken branch but End, every string/f-string/spec scanner consumes >= 1 character; nonNull soundness proved for the back-tracking matcher), the tokenizer model never runs out of loop fuel; instantiated on the regexes regenerated from the working tree (shipped_tokenizer_total). The hand-written tokenizer model is tied to the code by equality of all token 5-tuples and raised errors on thousands of inputs per run. Parser termination and 'only SyntaxError/TokenError escape' are NOT theorems: they are decided by the outcome-class search with a 10 s watchdog (character soup, damaged programs, systematic token deletions, unterminated constructs)."),
 "C04": ("exploration", "oracle search: compile(tree) + structural walk over every generator's accepted inputs",
   "Search only (no theorem yet): compile() of every accepted input (Python, every xonsh construct in 23 contexts incl. binding targets, macros, glued subprocess words), SyntaxError accepted only if the unparsed program is rejected too, plus a structural walk (complete spans inside the text, list fields are lists, Store/Del contexts)."),
 "C05": ("proof", "Lean: xonsh_alternatives_inert (Python parts unaffected) + certificates; differential search: context[xonsh] vs ast.parse(context[translation]) + span check",
   "PARTIAL PROOF. The inertness theorem and the dead-alternative certificate pin which alternatives are the xonsh ones (primary 2,5,6,7; atom 0; target_with_star_atom 2,3; with_stmt 1; proc_cmd 0-6) and prove they never fire on Python text. That each construct's tree equals the tree of its written-out translation in every expression context is decided by search: 60 fixed + ASDL-directed random contexts with a Load-position hole x generated constructs (nested), compared with ast.parse of the translation without positions, plus span(construct node) == construct text."),
 "C06": ("proof", "Lean: proc_args model, theorems procArgs_groups / runs_flatten / glue_words / words_are_source_words; bracket-method table certificate; correspondence on every real proc_args call",
   "PROOF of the splitting law on the model + correspondence. Theorems (all piece lists / layouts): proc_args returns exactly one expression per gap-free run, runs partition the pieces in order, a run of plain tokens is ONE constant holding the verbatim concatenation with span (first.start,last.end), and for every layout of words separated by >=1 blank the arguments are exactly the words (words_are_source_words). Certificate: the four bracket forms map to the four documented runtime methods (table read off the regenerated IR). Tie: every proc_args call made by the real parser on ~2000 generated command lines is replayed through the Lean driver and must give the identical tree shape and spans. The tokenisation of words is covered by search against an independent whitespace splitter."),
 "C07": ("exploration", "oracle search: independent bracket/string-aware comma splitter, textwrap.dedent of the written block, surrounding code vs placeholder program",
   "Search only (no theorem yet)."),
 "C08": ("proof", "Lean: full tokenizer model with exact 5-tuple correspondence; progress/termination theorems; regex certificates; tiling predicate evaluated on the implementation",
   "PARTIAL PROOF. Proved: scan positions only move forward inside the line and stay inside it (handleEndProgs_adv, nextPseudo_adv), single-line tokens are by construction the source slice between their coordinates (mkTok), the scan terminates. The tiling of multi-line string/f-string tokens (text accumulated across lines equals the source slice) is NOT yet a theorem: it is decided by evaluating the property's tiling predicate directly on the implementation's tokens, and by the model==implementation correspondence on all token 5-tuples (incl. the `line` attribute) over snippet pools x 7 layouts, soup, damaged programs, stdlib files."),
 "C09": ("proof", "Lean: tokenizer model + certificates longest_operator_first, tabsize, branch order; differential search vs tokenize.generate_tokens",
   "PARTIAL PROOF. Certificates on the regenerated patterns: operator alternation is longest-first, tab size 8, PseudoToken branch order/names. Agreement with the CPython 3.12 tokenizer binary is decided by search: every numeric-literal spelling, prefix x quote x body, all operator runs of length 2 (sampled 3-4), 400 indentation patterns, programs x layouts, stdlib; type/string/start/end of every significant token."),
 "C10": ("proof", "Lean: tokenizer model incl. f-string mode stack, exact correspondence; differential search vs CPython tokenize/ast.parse with decidable known-finding classes",
   "PARTIAL PROOF / mostly search. The f-string mode machine is part of the Lean tokenizer model (termination theorem, exact correspondence). Agreement with CPython is decided by search over the prefix x quote x parts x field-forms product; ten classes of inputs are known findings (escapes in literal parts, doubled braces, '=' fields, nested spec fields, specs in triple-quoted strings...) with decidable class predicates."),
 "C11": ("exploration", "oracle search: the property's predicate on the attributes of every raised SyntaxError", "Search only (no theorem yet)."),
 "C12": ("exploration", "oracle search: parse_file vs parse_string in child interpreters under 4 locale/encoding environments", "Search only; runtime locale/codec behaviour cannot be exhibited by a Lean model."),
 "C13": ("exploration", "oracle search: permuted histories, after-failure pairs, repetition, 8 threads, each vs a fresh interpreter", "Search only (no theorem yet)."),
 "C14": ("proof", "Lean: tokenizer model (line loop) + correspondence; relation parse(A+B) = parse(A) ++ shift(parse(B)) evaluated on the implementation",
   "PARTIAL. The tokenizer's line loop and mode stack are modelled and tied by exact correspondence; compositionality itself is decided by search on sequences of statements."),
 "C15": ("exploration", "oracle search: the full verbose x py_version grid on every input", "Search only (no theorem yet)."),
 "C16": ("translation_validation", "re-run both documented generation steps under several hash seeds and compare per method by normalised AST",
   "Translation validation by re-generation: both (grammar, generated module) pairs are regenerated into scratch files under PYTHONHASHSEED in {0,1,2,random} and twice in a row, and every rule method / keyword table is compared by normalised AST with the shipped module."),
 "C17": ("exploration", "oracle search: real generator on random well-formed grammars x all token strings <= 5 vs a reference PEG interpreter", "Search only (no theorem yet)."),
 "C18": ("proof", "Lean: cost counters in the recogniser model with EQUAL peek/getnext/reset counts vs the implementation; growth-exponent search over 51 families",
   "PARTIAL. The recogniser model counts tokenizer calls exactly as the implementation does (equality checked input by input). Linearity itself is decided by measuring 51 size-parameterised families (valid and invalid) at doubling sizes."),
}

props = [json.loads(l) for l in open(V / "properties.jsonl")]
checks = []
for p in props:
    pid = p["id"]
    cat, tech, text = T[pid]
    checks.append({
        "property_id": pid,
        "quick_cmd": f"./check {pid} --tier quick",
        "thorough_cmd": f"./check {pid} --tier thorough",
        "evidence_file": f"evidence/{pid}.json",
        "replay_cmd_template": f"./check {pid} --replay {{path}}",
        "engine": "xonshverif",
        "level_claimed": {"category": cat, "text": text, "design_ref": f"DESIGN.md section 3 ({pid}) and section 8 (what is built)"},
        "level_note": COMMON_NOTE,
        "technique": tech,
    })
m = {
    "version": 1,
    "setup_cmd": "./setup.sh",
    "hooks": {"guard": "XONSH_PARSER_VERIF", "enable": "no source hooks: the harness imports /repo in-process and wraps/subclasses from outside", "baseline_off_cmd": "cd /repo && /venv/bin/python -m pytest -ra -q -p no:cacheprovider --timeout=900 --continue-on-collection-errors", "source_commits": [], "add_only": True},
    "engines": [{"name": "xonshverif", "path": "check", "serves_properties": [p["id"] for p in props], "kind_free_text": "Lean 4 model + proofs + kernel-checked certificates on data regenerated from /repo (lean/), translators and correspondence/oracle harness (harness/)"}],
    "checks": checks,
    "notes": "see DESIGN.md; known_findings.json lists genuine defects recorded rather than repaired and the fix: commits made in /repo",
    "not_applicable": [],
}
(V / "MANIFEST.json").write_text(json.dumps(m, indent=1))
print("written", len(checks))
