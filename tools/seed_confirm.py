#!/venv/bin/python
"""Confirm a delivered mutation on /repo's current HEAD and archive it under /verif/seeded/<id>/.

For each source dir (patch.diff or patch.ported.diff, demo.py, notes.md): apply, run the existing test suite, run the
demonstration (must FAIL), undo, run the demonstration again (must PASS).  Kept only if all of that holds.
"""
import json
import os
import re
import shutil
import subprocess
import sys
from pathlib import Path

REPO = os.environ.get("XV_REPO", "/repo")
V = Path(__file__).resolve().parent.parent


def sh(cmd, **kw):
    return subprocess.run(cmd, shell=True, capture_output=True, text=True, **kw)


def clean():
    sh(f"git -C {REPO} checkout -- .")
    assert sh(f"git -C {REPO} status --porcelain").stdout.strip() == ""


def main():
    prefix = next((a.split("=", 1)[1] for a in sys.argv[1:] if a.startswith("--prefix=")), "")
    dirs = [Path(a).resolve() for a in sys.argv[1:] if not a.startswith("--")] or sorted(Path("/tmp/mut/out").glob("C*/m*"))
    for d in dirs:
        pid = d.parent.name
        sid = f"{pid}-{prefix}{d.name}"
        patch = d / "patch.ported.diff" if (d / "patch.ported.diff").exists() else d / "patch.diff"
        clean()
        ok = sh(f"git -C {REPO} apply {patch}").returncode == 0
        if not ok:
            ok = sh(f"cd {REPO} && patch -p1 --fuzz=3 --no-backup-if-mismatch < {patch}").returncode == 0
            sh(f"find {REPO} -name '*.orig' -delete; find {REPO} -name '*.rej' -delete")
        if not ok:
            print(sid, "SKIP: patch does not apply")
            clean()
            continue
        diff = sh(f"git -C {REPO} diff").stdout
        t = sh(f"cd {REPO} && /venv/bin/python -m pytest -q -p no:cacheprovider 2>&1 | tail -1", timeout=900).stdout.strip()
        demo_with = sh(f"cd {REPO} && /venv/bin/python {d / 'demo.py'}", timeout=600)
        clean()
        demo_clean = sh(f"cd {REPO} && /venv/bin/python {d / 'demo.py'}", timeout=600)
        tests_ok = bool(re.search(r"2000 passed, 8 xfailed, 2 xpassed", t))
        keep = tests_ok and demo_with.returncode != 0 and demo_clean.returncode == 0
        print(sid, "KEEP" if keep else "DROP", "| tests:", t[:60], "| demo with patch rc", demo_with.returncode, "| clean rc", demo_clean.returncode)
        if not keep:
            continue
        out = V / "seeded" / sid
        out.mkdir(parents=True, exist_ok=True)
        (out / "patch.diff").write_text(diff)
        shutil.copy(d / "demo.py", out / "demo.py")
        if (d / "notes.md").exists():
            shutil.copy(d / "notes.md", out / "notes.md")
        notes = (d / "notes.md").read_text() if (d / "notes.md").exists() else ""
        meta = {
            "id": sid,
            "property": pid,
            "files_touched": sorted(set(re.findall(r"^\+\+\+ b/(\S+)", diff, re.M))),
            "needs_to_manifest": (re.search(r"(?is)(needed|needs|manifest)[^\n]*\n(.{0,600})", notes) or [None, None, ""])[2].strip()[:600] if notes else "",
            "confirmed_on_repo_head": sh(f"git -C {REPO} rev-parse --short HEAD").stdout.strip(),
            "what_i_ran": [
                "git -C /repo apply patch.diff",
                "cd /repo && /venv/bin/python -m pytest -q -p no:cacheprovider  ->  " + t,
                f"cd /repo && /venv/bin/python demo.py  -> exit {demo_with.returncode} with the patch: {(demo_with.stdout + demo_with.stderr).strip()[-300:]}",
                "git -C /repo checkout -- .",
                f"cd /repo && /venv/bin/python demo.py  -> exit {demo_clean.returncode} on the clean tree",
            ],
            "origin": "written by an independent sub-agent that saw only the property text and a scratch worktree" + (" (patch re-based by hand onto later fix: commits)" if patch.name.endswith("ported.diff") else ""),
        }
        (out / "meta.json").write_text(json.dumps(meta, indent=1))


if __name__ == "__main__":
    main()
