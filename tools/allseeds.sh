#!/bin/bash
# run every quick check under several seeds on the current tree; print one line per (seed, property)
cd "$(dirname "$0")/.."
for s in ${SEEDS:-1 2 3 4 5}; do
  for p in C01 C02 C03 C04 C05 C06 C07 C08 C09 C10 C11 C12 C13 C14 C15 C16 C17 C18; do
    out=$(VERIF_SEED=$s ./check $p 2>&1); rc=$?
    echo "seed=$s $p rc=$rc $(echo "$out" | tail -1 | cut -c1-140)"
    if [ $rc -ne 0 ]; then echo "$out" | grep -E "VIOLATION|Error|error" | head -3 | cut -c1-400; fi
  done
done
