#!/usr/bin/env python3
"""Render seeded/RESULTS.md from the last tools/seedtest.py run (seeded/last_run.jsonl) and the archived metadata."""
import json
import re
from pathlib import Path

V = Path(__file__).resolve().parent.parent
rows = []
for ln in (V / "seeded" / "last_run.jsonl").read_text().splitlines():
    if not ln.startswith("{"):
        continue
    d = json.loads(ln)
    sid = Path(d["dir"]).name
    sd = V / "seeded" / sid
    if not sd.exists():
        continue
    diff = (sd / "patch.diff").read_text()
    files = sorted(set(re.findall(r"^\+\+\+ b/(\S+)", diff, re.M)))
    notes = (sd / "notes.md").read_text() if (sd / "notes.md").exists() else ""
    head = next((x.strip("# ").strip() for x in notes.splitlines() if x.strip()), "")
    head = re.sub(r"^C\d\d\s*[/ ]\s*m\d\s*[-—:]*\s*", "", head)
    how = "missed"
    hits = []
    for k, chk in d.items():
        if not k.startswith("check_") or chk.get("rc") != 1:
            continue
        viol = chk.get("violations", [])
        hits.append((k[6:], "failing input (search)" if any("no-failing-input-found" not in v for v in viol) else "proof obligation / correspondence broke (no failing input found)"))
    if hits:
        own = [h for h in hits if h[0] == d["property"]]
        how = own[0][1] if own else "not by its own check (see notes); " + ", ".join(f"{p}: {h}" for p, h in hits)
    rows.append((sid, d["property"], ", ".join(files), head[:150], how))
out = ["# Seeded changes and what caught them", "",
       "Each change compiles, keeps the existing test suite green (2000 passed, 8 xfailed, 2 xpassed) and makes the property false on some",
       "input (`demo.py`, confirmed on /repo HEAD by `tools/seed_confirm.py`). Written by independent sub-agents that saw only the property text and",
       "a scratch worktree. Last run of `tools/seedtest.py` (quick tier of the property's own check):", "",
       "| id | property | files | change | caught by |", "|---|---|---|---|---|"]
for r in sorted(rows):
    out.append("| " + " | ".join(x.replace("|", "/") for x in r) + " |")
det = sum(1 for r in rows if r[4] != "missed")
out += ["", f"Detected: {det}/{len(rows)}."]
(V / "seeded" / "RESULTS.md").write_text("\n".join(out) + "\n")
print(f"{det}/{len(rows)}")
