#!/bin/bash
# Build the framework offline from files on disk: translators -> Generated Lean modules -> library, certificates, driver.
set -e
cd "$(dirname "$0")"
export PYTHONPATH="$PWD:${XV_REPO:-/repo}${PYTHONPATH:+:$PYTHONPATH}"
mkdir -p .cache evidence replays
/venv/bin/python -X utf8 -c "
import sys; sys.path.insert(0, '.')
from harness import lean
b = lean.build()
print('lean build rc', b['rc'], 'failed', b['failed_modules'], 'wall', b['wall'])
sys.exit(0 if b['rc'] == 0 else 1)
"
echo "setup done"
