#!/bin/bash
# Build the Lean library (generic proofs + model) and warm the caches. Offline, from files on disk only.
set -e
cd "$(dirname "$0")"
mkdir -p .cache evidence replays
if [ -d lean ]; then
  (cd lean && lake build 2>&1 | tail -5)
fi
echo "setup done"
