"""The ASDL of the running interpreter, recovered from the ast class docstrings."""
from __future__ import annotations

import ast
import re
from functools import lru_cache


@lru_cache(None)
def table():
    """{class name: {"sort": base sort name, "fields": [(name, type, kind)], "attributes": [...]}} kind in '1','?','*'."""
    out = {}
    for name in dir(ast):
        cls = getattr(ast, name)
        if not (isinstance(cls, type) and issubclass(cls, ast.AST)) or cls is ast.AST:
            continue
        doc = cls.__doc__ or ""
        m = re.match(r"\s*" + re.escape(name) + r"\((.*)\)\s*$", doc, re.S)
        fields = []
        if m and cls._fields:
            for part in m.group(1).split(","):
                part = part.strip()
                if not part:
                    continue
                ty, fname = part.split()
                kind = "1"
                if ty.endswith("*"):
                    kind, ty = "*", ty[:-1]
                elif ty.endswith("?"):
                    kind, ty = "?", ty[:-1]
                fields.append((fname, ty, kind))
        if [f[0] for f in fields] != list(cls._fields):
            if cls._fields and not name.startswith("_") and name not in ("Index", "ExtSlice", "Suite", "AugLoad", "AugStore", "Param", "Num", "Str", "Bytes", "NameConstant", "Ellipsis"):
                fields = [(f, "?", "?") for f in cls._fields]
        base = cls.__mro__[1].__name__ if cls.__mro__[1] is not ast.AST else name
        out[name] = {"sort": base, "fields": fields, "attributes": list(getattr(cls, "_attributes", ()))}
    return out


def list_fields(clsname):
    return [f for f, _t, k in table().get(clsname, {}).get("fields", []) if k == "*"]
