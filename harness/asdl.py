"""The ASDL of the running interpreter, recovered from the ast class docstrings."""
from __future__ import annotations

import ast
import re
from functools import lru_cache


@lru_cache(None)
def table():
    """{class name: {"sort": base sort name, "fields": [(name, type, kind)], "attributes": [...]}} kind in '1','?','*'."""
    out = {}
    for name in dir(ast):
        cls = getattr(ast, name)
        if not (isinstance(cls, type) and issubclass(cls, ast.AST)) or cls is ast.AST:
            continue
        doc = cls.__doc__ or ""
        m = re.match(r"\s*" + re.escape(name) + r"\((.*)\)\s*$", doc, re.S)
        fields = []
        if m and cls._fields:
            for part in m.group(1).split(","):
                part = part.strip()
                if not part:
                    continue
                ty, fname = part.split()
                kind = "1"
                if ty.endswith("*"):
                    kind, ty = "*", ty[:-1]
                elif ty.endswith("?"):
                    kind, ty = "?", ty[:-1]
                fields.append((fname, ty, kind))
        if [f[0] for f in fields] != list(cls._fields):
            if cls._fields and not name.startswith("_") and name not in ("Index", "ExtSlice", "Suite", "AugLoad", "AugStore", "Param", "Num", "Str", "Bytes", "NameConstant", "Ellipsis"):
                fields = [(f, "?", "?") for f in cls._fields]
        base = cls.__mro__[1].__name__ if cls.__mro__[1] is not ast.AST else name
        out[name] = {"sort": base, "fields": fields, "attributes": list(getattr(cls, "_attributes", ()))}
    return out


def list_fields(clsname):
    return [f for f, _t, k in table().get(clsname, {}).get("fields", []) if k == "*"]


BUILTIN = {"identifier": str, "int": int, "string": (str, bytes), "constant": object}


def type_problems(node):
    """Every field of `node` against its declared ASDL type: sort of child nodes, presence of required fields, None only in
    optional fields (and in the documented `expr?*` places: Dict.keys, defaults of kw-only arguments)."""
    name = type(node).__name__
    out = []
    for fname, ty, kind in table().get(name, {}).get("fields", []):
        if ty == "?":
            continue
        if not hasattr(node, fname):
            if kind == "1":
                out.append(f"{name}.{fname} missing (required {ty})")
            continue
        v = getattr(node, fname)
        items = v if (kind == "*" and isinstance(v, list)) else [v]
        for x in items:
            if x is None:
                if ty == "constant":
                    continue  # None IS a constant value
                if kind == "?" or (name, fname) in (("Dict", "keys"), ("arguments", "kw_defaults")):
                    continue
                out.append(f"{name}.{fname} holds None (declared {ty}{'' if kind == '1' else kind})")
                continue
            if ty in BUILTIN:
                if ty == "int" and isinstance(x, bool):
                    out.append(f"{name}.{fname} is bool")
                elif not isinstance(x, BUILTIN[ty]):
                    out.append(f"{name}.{fname} is {type(x).__name__}, declared {ty}")
                continue
            want = getattr(ast, ty, None)
            if want is not None and not isinstance(x, want):
                out.append(f"{name}.{fname} holds {type(x).__name__}, declared {ty}")
    return out
