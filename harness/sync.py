"""Re-derive everything that is tied to /repo's working tree (called at the start of every check)."""
from __future__ import annotations

import ast
import fcntl
import hashlib
import os
import subprocess
import sys

from harness.common import CACHE, PY, REPO, VERIF


def file_hash(paths) -> str:
    h = hashlib.sha256()
    for p in paths:
        try:
            h.update(p.read_bytes())
        except OSError:
            h.update(b"<missing>")
        h.update(b"\0")
    return h.hexdigest()[:16]


def norm_methods(path):
    """name -> normalised dump of every method / class-level assignment of the parser class."""
    t = ast.parse(path.read_text(encoding="utf-8"))
    cls = [n for n in t.body if isinstance(n, ast.ClassDef)][0]
    d = {}
    for n in cls.body:
        if isinstance(n, (ast.FunctionDef, ast.AsyncFunctionDef)):
            n.returns = None
            d[n.name] = ast.dump(n)
        elif isinstance(n, ast.Assign):
            d[n.targets[0].id] = ast.dump(n.value)
    # what the class needs from the module around it: every free name it uses must be bound the same way
    used = {x.id for x in ast.walk(cls) if isinstance(x, ast.Name)}
    for n in t.body:
        if isinstance(n, ast.Import):
            for a in n.names:
                b = (a.asname or a.name).split(".")[0]
                if b in used:
                    d[f"<module> import {b}"] = a.name
        elif isinstance(n, ast.ImportFrom):
            for a in n.names:
                b = a.asname or a.name
                if b in used:
                    d[f"<module> import {b}"] = f"{'.' * n.level}{n.module or ''}.{a.name}"
        elif isinstance(n, (ast.FunctionDef, ast.AsyncFunctionDef)) and n.name in used:
            d[f"<module> def {n.name}"] = ast.dump(n)
        elif isinstance(n, ast.Assign) and isinstance(n.targets[0], ast.Name) and n.targets[0].id in used:
            d[f"<module> {n.targets[0].id}"] = ast.dump(n.value)
    return d


def regenerate(out_path, grammar=None, hashseed="0"):
    env = dict(os.environ, PYTHONPATH=str(REPO), PYTHONHASHSEED=str(hashseed))
    cmd = [PY, str(REPO / "tasks" / "generator.py"), "-o", str(out_path)]
    if grammar:
        cmd += ["-g", str(grammar)]
    return subprocess.run(cmd, env=env, capture_output=True, text=True, timeout=120, cwd="/")


def ensure(rep=None):
    """Returns the parser variants behavioural checks should exercise: the shipped parser.py and, when the
    grammar in the working tree generates something else, that regenerated parser too."""
    CACHE.mkdir(exist_ok=True)
    lock = open(CACHE / "sync.lock", "w")
    fcntl.flock(lock, fcntl.LOCK_EX)
    try:
        srcs = [REPO / "tasks" / "xonsh.gram", REPO / "tasks" / "generator.py", REPO / "peg_parser" / "parser.py"] + sorted((REPO / "pegen").glob("*.py"))
        key = file_hash(srcs)
        d = CACHE / "regen"
        d.mkdir(exist_ok=True)
        stamp = d / "stamp"
        if not (stamp.exists() and stamp.read_text().split("\n")[0] == key):
            out = d / "parser_regen.py"
            pr = regenerate(out)
            same = "error"
            if pr.returncode == 0:
                try:
                    same = "same" if norm_methods(out) == norm_methods(REPO / "peg_parser" / "parser.py") else "differs"
                except SyntaxError:
                    same = "error"
            stamp.write_text(key + "\n" + same + "\n" + (pr.stderr or "")[-400:])
        state = stamp.read_text().split("\n")[1]
    finally:
        fcntl.flock(lock, fcntl.LOCK_UN)
        lock.close()
    if state == "differs":
        return ("shipped", "regen")
    return ("shipped",)
