"""C12 oracle search: parse_file(path) == parse_string(content) under several process environments."""
from __future__ import annotations

import json
import os
import subprocess
import tempfile
from pathlib import Path

from harness.common import quick_scale, PY, REPO, VERIF, rng, short
from harness.gen import corpus, mutate, pyprog, xonshgen

CHILD = r'''
import ast, json, sys, os
sys.path.insert(0, os.environ["XV_REPO"])
from pathlib import Path
from peg_parser.parser import XonshParser
from peg_parser.tokenize import TokenError
import signal as _signal
class _Hang(BaseException):
    pass
def _on_alarm(signum, frame):
    raise _Hang()
_signal.signal(_signal.SIGALRM, _on_alarm)
_hangs = [0]
def outcome(fn):
    if _hangs[0] >= 8:
        return {"k": "not-run"}  # the parser hangs on input after input: stop burning the budget
    _signal.alarm(8)
    try:
        t = fn()
    except _Hang:
        _hangs[0] += 1
        return {"k": "hang"}
    except SyntaxError as e:
        return {"k": "err", "cls": type(e).__name__, "msg": e.msg, "lineno": e.lineno, "offset": e.offset, "end_lineno": e.end_lineno, "end_offset": e.end_offset, "text": e.text}
    except TokenError as e:
        return {"k": "tokerr", "msg": str(e.args[0])}
    except RecursionError:
        return {"k": "exc", "cls": "RecursionError"}
    except BaseException as e:
        return {"k": "exc", "cls": type(e).__name__, "msg": str(e)[:120]}
    finally:
        _signal.alarm(0)
    return {"k": "tree", "dump": ast.dump(t, include_attributes=True) if t is not None else None}
d = Path(sys.argv[1])
res = []
import io as _io
from peg_parser.tokenize import generate_tokens as _gt
from peg_parser.tokenizer import Tokenizer as _Tz
for _i, p in enumerate(sorted(d.glob("*.src"))):
    if _i % 25 == 0:
        outcome(lambda: XonshParser(_Tz(_gt(_io.StringIO("# settings\nq = (1,\n  2)\nr = 3\n").readline))).parse("file"))
    data = p.read_bytes()
    # what the string entry point is given: the file's text as Path.read_text(encoding="utf-8") returns it
    # (UTF-8, universal newlines) - the same content a Python user holds after reading the file
    with open(p, encoding="utf-8", errors="surrogateescape", newline=None) as fh:
        text = fh.read()
    import re as _re
    mv = _re.search(r"\.v(\d)(\d+)\.", p.name)
    pv = (int(mv.group(1)), int(mv.group(2))) if mv else None
    a = outcome(lambda: XonshParser.parse_file(p, py_version=pv))
    b = outcome(lambda: XonshParser.parse_string(text, mode="exec", py_version=pv))
    res.append([p.name, a, b])
json.dump(res, sys.stdout)
'''

ENVS = [
    ("utf8", {"LC_ALL": "C.UTF-8", "PYTHONUTF8": "0"}),
    ("C", {"LC_ALL": "C", "PYTHONUTF8": "0", "PYTHONCOERCECLOCALE": "0"}),
    ("POSIX-utf8mode", {"LC_ALL": "POSIX", "PYTHONUTF8": "1"}),
    ("latin1", {"LC_ALL": "en_US.ISO-8859-1", "LANG": "en_US.ISO-8859-1", "PYTHONUTF8": "0", "PYTHONCOERCECLOCALE": "0"}),
]


def build_inputs(tier):
    r = rng("C12")
    N = quick_scale() if tier == "quick" else 10
    files = []
    base = list(corpus.PY_STMTS[:40]) + list(xonshgen.XONSH_STMTS)
    for i in range(25 * N):
        g = pyprog.gen_program(r, fstrings=False, maxdepth=3, nstmts=3)
        if g:
            base.append(g[0])
    nonascii = ["x = 'é'\n", "ñ = 1\n# комментарий\ny = ñ\n", "s = '日本語' + 'ü'\nprint(s)\n", "x = 'é' +\n", "def ü(): return 'ß' ß\n", "x = ('é',\n\n 'ü') 3\n", "$(echo ñandú)\n", "f'é{x}ü'\n"]
    base += nonascii
    base += ["s = 'a\\\nb'\n", 't = "x \\\n y" + 1\n', "u = 'a\\\nb' 2\n", "v = f'a{w}\\\nb'\n", "x = 1 + \\\n  2\n", "y = (1,\n  2) 3\n"]
    for s in base:
        files.append(("valid", s))
        files.append(("crlf", mutate.crlf(s)))
        files.append(("nofinal", mutate.no_final_newline(s)))
        files.append(("invalid", mutate.damage(s, r)))
    from harness.props.c11 import INVALID_SNIPPETS

    for s in INVALID_SNIPPETS:
        files.append(("invalid-table", s))
        files.append(("invalid-table-crlf", mutate.crlf("a = 'é'\n" + s)))
    # characters str.splitlines() treats as line boundaries but readline()/the tokenizer do not
    for sep in ["\x0c", "\x0b", "\x1c", "\x1d", "\x1e", "\x85", "\u2028"]:
        for s in INVALID_SNIPPETS[:25]:
            files.append(("odd-separator", f"import os  # {sep} c\n{sep}\n" + s))
        files.append(("odd-separator-valid", f"x = 1  # {sep}\n{sep}\ny = 2\n"))
    # the options must reach both entry points: version-gated syntax under an older py_version
    for s in ["try:\n    pass\nexcept* E:\n    pass\n", "type X = int\n", "def f[T](a): pass\n", "class B[T]: pass\n", "x = 1\n"]:
        for v in ("v38", "v310", "v311", "v312"):
            files.append((f"gated@{v}", s))
    # a file that begins with the UTF-8 byte order mark: both entry points must see (or both must not see) U+FEFF
    for s in ["x = 1\n", "x = 1 +\n", "import os\ny = (a 1)\n", "s = 'é'\n"] + list(INVALID_SNIPPETS[:10]):
        files.append(("bom", "\ufeff" + s))
    files += [("multiline-string", "s = '''a\nb\nc''' 3\n"), ("multiline-string", "x = ('''é\nb''' +\n 1) 2\n"), ("endmarker-error", "@dec\n"), ("endmarker-error", "if x:\n"), ("blank-in-brackets", "x = (1 +\n\n\n 2) 3\n")]
    seen = set()
    def encodable(t):
        try:
            t.encode("utf-8")
            return True
        except UnicodeEncodeError:
            return False  # a lone surrogate cannot be the content of a UTF-8 file

    return [f for f in files if encodable(f[1]) and "\r" not in f[1].replace("\r\n", "") and not ((f[0].split("@")[-1] if "@" in f[0] else "", f[1]) in seen or seen.add((f[0].split("@")[-1] if "@" in f[0] else "", f[1])))]


def compare(a, b):
    """File outcome vs string outcome: identical except for the file name (not compared)."""
    if a["k"] != b["k"]:
        return f"outcome kinds differ: file={a['k']} {a.get('cls', '')} {a.get('msg', '')!r:.60} string={b['k']} {b.get('cls', '')} {b.get('msg', '')!r:.60}"
    if a["k"] == "tree":
        return None if a["dump"] == b["dump"] else "trees differ"
    for k in ("cls", "msg", "lineno", "offset", "end_lineno", "end_offset", "text"):
        if a.get(k) != b.get(k):
            return f"error attribute {k} differs: file={a.get(k)!r:.70} string={b.get(k)!r:.70}"
    return None


def run_children(files, envs):
    """{environment name: [[file name, parse_file outcome, parse_string outcome], ...]} from one child interpreter per
    environment; `files` is a list of (kind, content)."""
    tmp = Path(tempfile.mkdtemp(prefix="xv.c12.", dir="/var/tmp"))
    try:
        for i, (kind, s) in enumerate(files):
            tag = kind.split("@", 1)[1] if "@" in kind else ""  # e.g. "gated@v310": parse both ways with py_version=(3, 10)
            (tmp / (f"{i:05d}.{tag}.src" if tag else f"{i:05d}.src")).write_bytes(s.encode("utf-8", "surrogateescape"))
        child = tmp / "child.py"
        child.write_text(CHILD)
        results = {}
        procs = []
        for name, env in envs:
            e = {k: v for k, v in os.environ.items() if not k.startswith(("LC_", "LANG", "PYTHONUTF8", "PYTHONIOENCODING"))}
            e.update(env)
            e["XV_REPO"] = str(REPO)
            procs.append((name, subprocess.Popen([PY, str(child), str(tmp)], env=e, stdout=subprocess.PIPE, stderr=subprocess.PIPE)))
        for name, p in procs:
            try:
                out, err = p.communicate(timeout=int(os.environ.get("XV_CHILD_TIMEOUT_S", "600")))
            except subprocess.TimeoutExpired:
                # the child is stuck where the per-parse alarm cannot reach (inside a C call): every file counts as a hang
                p.kill()
                p.communicate()
                results[name] = [[f.name, {"k": "hang"}, {"k": "hang"}] for f in sorted(tmp.glob("*.src"))]
                continue
            if p.returncode != 0:
                raise RuntimeError(f"child under {name} failed: {err.decode(errors='replace')[-400:]}")
            results[name] = json.loads(out)
        return results
    finally:
        import shutil

        shutil.rmtree(tmp, ignore_errors=True)


def run(rep, tier, pool, variants=("shipped",)):
    rep.rule = (
        "file contents: valid and damaged Python/xonsh programs, the C11 invalid table, ASCII and non-ASCII (identifiers, strings, comments), "
        "LF/CRLF, with/without final newline, multi-line strings, errors at ENDMARKER; each written to a file and parsed with parse_file and "
        "parse_string in child interpreters under 4 environments (C.UTF-8; C; POSIX with -X utf8; ISO-8859-1 locale); oracle: equality of tree "
        "dump with positions, or of exception class/msg/line/column/end/text; the UTF-8 environment result is also compared across environments; "
        "distinct by (environment, content)"
    )
    files = build_inputs(tier)
    results = run_children(files, ENVS)
    if True:
        base = {r[0]: r for r in results["utf8"]}
        for name, res in results.items():
            for fname, a, b in res:
                kind, s = files[int(fname[:5])]
                ident = (name, s)
                rep.case(ident, True, sample={"env": name, "content": s[:60], "outcome": a["k"]} if len(rep.samples) < 6 else None)
                rep.count(f"env:{name}")
                rep.count(f"kind:{kind}:{a['k']}")
                d = compare(a, b)
                if d is None and name != "utf8":
                    d2 = compare(a, base[fname][1])
                    if d2:
                        d = f"file outcome depends on the environment ({name} vs C.UTF-8): {d2}"
                if d:
                    fid = classify(s, d, a, b, name)
                    if fid:
                        rep.known(fid, f"{d[:110]} on {short(s, 30)}")
                        continue
                    rep.violation(f"C12 [{name}] {d} on {short(s, 50)}", {"property": "C12", "input": s, "environment": dict(ENVS)[name], "file_outcome": a, "string_outcome": b})


def classify(s, d, a, b, env):
    return None
