"""C06 oracle search: subprocess arguments follow source word boundaries; bracket form -> runtime method."""
from __future__ import annotations

import ast

from harness import impl
from harness.common import quick_scale, rng, short
from harness.gen import corpus, xonshgen


def check_one(xsrc: str, expected: str, variant: str = "shipped"):
    try:
        ref = ast.parse(expected, mode="eval")
    except SyntaxError as e:
        return {"skip": "expected-invalid", "msg": e.msg}
    tree, o = impl.parse_tree(xsrc, "eval", variant=variant)
    if tree is None:
        return {"kind": "rejected", "outcome": {k: v for k, v in o.items() if k in ("k", "cls", "msg", "offset")}}
    d = impl.ast_diff(tree, ref, with_attrs=False)
    if d:
        return {"kind": "args-differ", "diffs": d[:3], "got": ast.unparse(tree)[:300]}
    # spans of glued plain words: a Constant argument spans exactly its word
    call = tree.body
    lines = xsrc.split("\n")
    for a in call.args:
        if isinstance(a, ast.Constant) and isinstance(a.value, str) and a.lineno == a.end_lineno:
            text = lines[a.lineno - 1][a.col_offset : a.end_col_offset]
            if text != a.value:
                return {"kind": "word-span", "value": a.value, "span_text": text}
    return {"ok": True}


def check_composite(xsrc: str, ranges, variant: str = "shipped"):
    """Weak oracle for glued words: one argument per whitespace-separated word, in order, spanning exactly the word."""
    tree, o = impl.parse_tree(xsrc, "eval", variant=variant)
    if tree is None:
        return {"kind": "rejected", "outcome": {k: v for k, v in o.items() if k in ("k", "cls", "msg", "offset")}}
    call = tree.body
    if not isinstance(call, ast.Call):
        return {"kind": "not-a-call"}
    got = [(a.lineno, a.col_offset, a.end_lineno, a.end_col_offset) for a in call.args]
    if got != [tuple(x) for x in ranges]:
        return {"kind": "word-boundaries", "got": got, "want": ranges, "unparsed": ast.unparse(tree)[:200]}
    return {"ok": True}


def split_independent(cmd: str):
    """Independent whitespace splitter for commands made of plain words only."""
    return cmd.split()


def dispatch(kind, x, t, variant="shipped"):
    return check_composite(x, t, variant) if kind == "composite" else check_one(x, t, variant)


def build_inputs(tier):
    r = rng("C06")
    N = quick_scale() if tier == "quick" else 60
    cases = []
    for x, t, where in corpus.xonsh_pairs():
        if where == "exprs" and x[:2] in ("$(", "$[", "!(", "![") and "\n" not in x and "!" not in x[2:]:
            cases.append(("pair", x, t, []))
    for _ in range(1200 * N):
        x, t, kinds = xonshgen.gen_subproc(r)
        cases.append(("gen", x, t, kinds))
    # witnesses of the recorded findings and their neighbourhood: bracket groups inside words, keywords as words
    for cmd in ["echo what? x", "ls file?.txt", "echo a ??", "echo $ HOME", "ls *.[ch] x", "echo a[0] b", "echo (a b) c", "echo [a   b]", "echo a(b c)d e", "echo {a,b}", "echo if x", "echo in", "grep for file", "echo a is b", "test x -a not"]:
        exp = f"__xonsh__.subproc_captured({', '.join(repr(w) for w in split_independent(cmd))})"
        cases.append(("plain", f"$({cmd})", exp, ["kf-neighbourhood"]))
    for cmd in ["echo hello!world foo", "ls a.b!c", "echo a#b\n", "echo x #y\n", "tar -f\"my file\" x", "echo f'a' b", "a\\\nb", "echo a\\\nb c"]:
        exp = f"__xonsh__.subproc_captured({', '.join(repr(w) for w in split_independent(cmd))})"
        cases.append(("plain", f"$({cmd})", exp, ["kf-neighbourhood"]))
    # a backslash continuation inside the command: the next line starts a NEW word even in column 0 (blank before the backslash)
    for cmd, words in [("ls -l \\\n-a", ["ls", "-l", "-a"]), ("echo \"x\" \\\n\"y\"", ["echo", '"x"', '"y"']), ("echo a \\\nb c", ["echo", "a", "b", "c"]), ("echo a\t\\\n>> log", ["echo", "a", ">>", "log"]),
                       ("echo a \\\n  b", ["echo", "a", "b"]), ("git commit \\\n-m msg \\\n-q", ["git", "commit", "-m", "msg", "-q"])]:
        for (o, c), m in sorted(xonshgen.METHODS.items()):
            exp = f"__xonsh__.{m}({', '.join(repr(w) for w in words)})"
            cases.append(("plain", f"{o}{cmd}{c}", exp, ["continuation-col0"]))
    # quoted words that span a line end, in LF and CRLF sources: passed verbatim, line end included
    q3 = '"' * 3
    for nl in ["\n", "\r\n"]:
        for cmd, words in [(f"echo {q3}a{nl}b{q3} c", ["echo", f"{q3}a{nl}b{q3}", "c"]), (f"printf 'x\\{nl}y' z", ["printf", f"'x\\{nl}y'", "z"]),
                           (f"git commit -m {q3}one{nl}{nl}two{q3}", ["git", "commit", "-m", f"{q3}one{nl}{nl}two{q3}"]), (f"echo '''k{nl}''' \"l\"", ["echo", f"'''k{nl}'''", '"l"'])]:
            for (o, c), m in sorted(xonshgen.METHODS.items()):
                exp = f"__xonsh__.{m}({', '.join(repr(w) for w in words)})"
                cases.append(("plain", f"{o}{cmd}{c}", exp, ["multiline-quoted-word"]))
    # plain-word-only commands checked against str.split()
    for _ in range(400 * N):
        n = r.randint(1, 6)
        words = []
        for _ in range(n):
            w = r.choice(xonshgen.PLAIN_WORDS)
            if w in xonshgen.PY_KEYWORDS:
                w += "_"
            words.append(w)
        seps = [r.choice([" ", "  ", "\t", " \t"]) for _ in words]
        cmd = "".join(s + w for s, w in zip(seps, words)).lstrip() + r.choice(["", " "])
        (o, c), m = r.choice(sorted(xonshgen.METHODS.items()))
        exp = f"__xonsh__.{m}({', '.join(repr(w) for w in split_independent(cmd))})"
        cases.append(("plain", f"{o}{cmd}{c}", exp, ["plain-split"]))
    # glued words: pieces of different kinds written without whitespace
    for _ in range(500 * N):
        n = r.randint(1, 4)
        (o, c), m = r.choice(sorted(xonshgen.METHODS.items()))
        text = o
        ranges = []
        for i in range(n):
            if i and r.random() < 0.25:
                # continue the command on the next line, often starting exactly in the column where the previous word ended
                col = len(text) - (text.rfind("\n") + 1)
                text += "\n" + " " * (col if r.random() < 0.6 else r.randint(0, 12))
            else:
                text += r.choice(["", " ", "  "]) if i == 0 else r.choice([" ", "\t", "   "])
            start = len(text)
            for j in range(r.randint(1, 4)):
                k = r.random()
                if k < 0.5:
                    w = r.choice(["a", "-x", "=", "/", "b.c", "1", "--k", ":", "+", "%"])
                elif k < 0.75:
                    w = "$" + r.choice(["A", "HOME"])
                elif k < 0.9:
                    w = "@(" + r.choice(["x", "f(1)", "[1, 2]"]) + ")"
                elif k < 0.96:
                    w = r.choice(["'q'", '"w z"'])
                else:
                    w = r.choice(["'''x\ny'''", '"""p q\n  r"""', "'''a\n\nb'''"])  # a quoted piece that spans lines, inside a word
                # a NAME directly after $NAME would extend the name; keep a separator piece
                if text[start:] and (text[-1].isalnum() or text[-1] == "_") and (w[0].isalnum() or w[0] == "_"):
                    w = "/" + w
                text += w
            nl = text.rfind("\n", 0, start) + 1
            enl = text.rfind("\n") + 1
            ranges.append((text.count("\n", 0, start) + 1, start - nl, text.count("\n") + 1, len(text) - enl))
        text += r.choice(["", " "]) + c
        cases.append(("composite", text, ranges, ["composite"]))
    return cases


def classify(x, o):
    """Known-finding classes, decided from the WRITTEN command (see known_findings.json)."""
    import keyword
    import re

    inner = x[2:-1]
    words = inner.split()
    if o.get("kind") in ("args-differ", "rejected") and "?" in inner:
        return "KF-C06-help-mark-in-word"
    if o.get("kind") in ("args-differ", "rejected") and re.search(r"\$\s+\w", inner):
        return "KF-C06-dollar-then-blank"
    if o.get("kind") == "rejected" and any(keyword.iskeyword(w) for w in words):
        return "KF-C06-keyword-as-word"
    if o.get("kind") in ("args-differ", "word-boundaries", "word-span", "rejected") and re.search(r"[\w.\-/]!", inner):
        return "KF-C06-bang-in-word"
    if o.get("kind") in ("args-differ", "word-boundaries", "word-span", "rejected") and "#" in inner:
        return "KF-C06-hash-in-word"
    if o.get("kind") in ("args-differ", "word-boundaries", "word-span", "rejected") and re.search(r"\S\\\r?\n", inner):
        return "KF-C06-continuation-glued-to-word"
    if o.get("kind") == "rejected" and re.search(r"[fF][rRbB]?['\"]", inner):
        return "KF-C06-fstring-word"
    if o.get("kind") in ("args-differ", "word-boundaries", "word-span", "rejected") and re.search(r"[\[({]", inner.replace("@(", "").replace("$(", "").replace("$[", "").replace("${", "").replace("!(", "").replace("![", "").replace("@$(", "")):
        return "KF-C06-bracket-group-in-word"
    return None


def run(rep, tier, pool, variants=("shipped",)):
    rep.rule = (
        "command lines from the shell-word alphabet of the property (70 plain-word spellings incl. number-like/operator-like/non-ASCII, "
        "random words over [A-Za-z0-9_-./=:,+%^~*], quoted strings, $NAME, @(..), @$(..), nested forms) with random spacing, in the four "
        "bracket forms; oracle: an independent translation (str.split for plain commands; generator-side expected call otherwise) parsed by "
        "ast.parse, compared on all fields without positions; plus each glued plain word's Constant spans exactly its text; distinct by text"
    )
    cases = build_inputs(tier)
    for variant in variants:
        res = pool.call("harness.props.c06:dispatch", [(k, x, t, variant) for k, x, t, _ in cases], timeout=30)
        for (kind, x, t, kinds), o in zip(cases, res):
            if o.get("skip"):
                rep.case(x, False)
                continue
            rep.case(x, True, sample={"xonsh": x[:80], "expected": str(t)[:120]} if kind == "gen" else None)
            for k in set(kinds):
                rep.count("word:" + k)
            if o.get("ok"):
                continue
            if o.get("k") in ("hang", "crash", "worker-exc", "not-run"):
                rep.count("infra:" + o["k"])
                continue
            fid = classify(x, o)
            if fid:
                rep.known(fid, short(x, 60))
                continue
            rep.violation(f"C06 {o.get('kind')}: {short(o.get('diffs') or o.get('outcome') or o, 100)} on {short(x, 80)}", {"property": "C06", "input": x, "expected": t, "mode": "eval", "observed": o, "variant": variant})
