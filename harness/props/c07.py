"""C07 oracle search: macros receive verbatim source text; code after a macro is unaffected."""
from __future__ import annotations

import ast
import textwrap

from harness import impl
from harness.common import quick_scale, rng, short
from harness.gen import xonshgen


def find_calls(tree, attr):
    return [n for n in ast.walk(tree) if isinstance(n, ast.Call) and isinstance(n.func, ast.Attribute) and n.func.attr == attr]


def split_top_level_commas(text: str):
    """Independent splitter: commas at bracket depth 0 and outside string literals delimit arguments."""
    import io
    import tokenize as pt

    args = []
    depth = 0
    cur_start = 0
    i = 0
    n = len(text)
    quote = None
    while i < n:
        ch = text[i]
        if quote:
            if ch == "\\":
                i += 2
                continue
            if text.startswith(quote, i):
                i += len(quote)
                quote = None
                continue
            i += 1
            continue
        if ch in "'\"":
            quote = text[i : i + 3] if text[i : i + 3] in ("'''", '"""') else ch
            i += len(quote)
            continue
        if ch in "([{":
            depth += 1
        elif ch in ")]}":
            depth -= 1
        elif ch == "," and depth == 0:
            args.append(text[cur_start:i])
            cur_start = i + 1
        i += 1
    args.append(text[cur_start:])
    return args


def check_call(prefix: str, fn: str, written, suffix: str, variant="shipped"):
    """`prefix f!(a1,a2,..) suffix` : arguments verbatim, surrounding code parsed as if the macro were a plain call."""
    inner = ",".join(written)
    src = f"{prefix}{fn}!({inner}){suffix}"
    tree, o = impl.parse_tree(src, "exec", variant=variant)
    if tree is None:
        return {"kind": "rejected", "src": src, "outcome": {k: v for k, v in o.items() if k in ("k", "cls", "msg", "lineno", "offset")}}
    calls = find_calls(tree, "call_macro")
    if len(calls) != 1:
        return {"kind": "macro-count", "src": src, "n": len(calls)}
    c = calls[0]
    got = [e.value for e in c.args[1].elts]
    want = [a for a in split_top_level_commas(inner) if a.strip()]  # blank arguments are skipped (documented)
    if got != want:
        return {"kind": "args-not-verbatim", "src": src, "got": got, "want": want}
    if ast.unparse(c.args[0]) != ast.unparse(ast.parse(fn, mode="eval").body):
        return {"kind": "callee", "src": src, "got": ast.unparse(c.args[0])}
    # code around the macro: replace the macro by a plain placeholder call and compare shapes
    ref_src = f"{prefix}MACRO_PLACEHOLDER(){suffix}"
    ref, _o = impl.parse_tree(ref_src, "exec", variant=variant)  # the same parser on the macro-free program
    if ref is None:
        return {"skip": "context-invalid"}
    for n in ast.walk(tree):
        for f, v in ast.iter_fields(n):
            if v is c:
                setattr(n, f, ast.Call(func=ast.Name(id="MACRO_PLACEHOLDER", ctx=ast.Load()), args=[], keywords=[]))
            elif isinstance(v, list) and c in v:
                v[v.index(c)] = ast.Call(func=ast.Name(id="MACRO_PLACEHOLDER", ctx=ast.Load()), args=[], keywords=[])
    d = impl.ast_diff(tree, ref, with_attrs=False)
    if d:
        return {"kind": "surrounding-code-changed", "src": src, "diffs": d[:3]}
    return {"ok": True, "src": src}


def check_with(src_stmt: str, ctx: str, body: str, after: str, before: str = "", variant="shipped"):
    src = before + src_stmt + after
    tree, o = impl.parse_tree(src, "exec", variant=variant)
    if tree is None:
        return {"kind": "rejected", "src": src, "outcome": {k: v for k, v in o.items() if k in ("k", "cls", "msg", "lineno", "offset")}}
    nb0 = len(ast.parse(before).body) if before else 0
    calls = find_calls(tree.body[nb0], "enter_macro") if len(tree.body) > nb0 else []
    if len(calls) != 1:
        return {"kind": "macro-count", "src": src, "n": len(calls)}
    got = calls[0].args[1].value
    if got != body:
        return {"kind": "body-not-verbatim", "src": src, "got": got, "want": body}
    # statements before/after parse as they do alone (line-shifted)
    nb = len(ast.parse(before).body) if before else 0
    ref_after, _o = impl.parse_tree(after, "exec", variant=variant)  # the same parser on the following code alone
    if ref_after is None:
        return {"skip": "after-invalid"}
    got_after = tree.body[nb + 1 :]
    if len(got_after) != len(ref_after.body):
        return {"kind": "following-statements", "src": src, "got": len(got_after), "want": len(ref_after.body)}
    d = impl.ast_diff(ast.Module(body=got_after, type_ignores=[]), ref_after, with_attrs=False)
    if d:
        return {"kind": "following-statements-differ", "src": src, "diffs": d[:3]}
    shift = (before + src_stmt).count("\n")
    for a, b in zip(got_after, ref_after.body):
        if a.lineno != b.lineno + shift:
            return {"kind": "following-lines-shifted", "src": src, "got": a.lineno, "want": b.lineno + shift}
    return {"ok": True, "src": src}


def proc_rest_class(rest: str):
    """Does the macro's rest contain a token kind the subprocess-macro rule cannot take? (closing brace, a bracket group
    inside a bracket group, an f-string, a backtick search path)"""
    import re

    if "}" in rest or "`" in rest or re.search(r"(?i)\b[rbp]*f[rbp]*['\"]", rest):
        return True
    depth = 0
    for ch in rest:
        if ch in "([":
            depth += 1
            if depth > 1:
                return True
        elif ch in ")]":
            depth = max(0, depth - 1)
    return False


def check_proc(src_expr: str, cmd: str, rest: str, method: str, prefix: str, suffix: str, variant="shipped"):
    src = f"{prefix}{src_expr}{suffix}"
    tree, o = impl.parse_tree(src, "exec", variant=variant)
    if tree is None:
        return {"kind": "rejected", "src": src, "proc_rest_class": proc_rest_class(rest), "outcome": {k: v for k, v in o.items() if k in ("k", "cls", "msg", "lineno", "offset")}}
    calls = find_calls(tree, method)
    if len(calls) != 1:
        return {"kind": "macro-count", "src": src, "n": len(calls)}
    got = [getattr(a, "value", None) for a in calls[0].args]
    if got != [cmd, rest]:
        return {"kind": "rest-not-verbatim", "src": src, "proc_rest_class": proc_rest_class(rest), "got": got, "want": [cmd, rest]}
    # the code on the following lines parses as it does alone
    after = suffix.split("\n", 1)[1] if "\n" in suffix else ""
    if after.strip() and "\n" not in prefix:
        ref_after, _o = impl.parse_tree(after, "exec", variant=variant)
        if ref_after is not None:
            d = impl.ast_diff(ast.Module(body=tree.body[1:], type_ignores=[]), ref_after, with_attrs=False)
            if d:
                return {"kind": "following-statements-differ", "src": src, "diffs": d[:3]}
    return {"ok": True, "src": src}


def dispatch(kind, args, variant="shipped"):
    return {"call": check_call, "with": check_with, "proc": check_proc}[kind](*args, variant=variant)


CALL_CTX = [("", "\n"), ("x = ", "\n"), ("y = 1 + ", " * 2\n"), ("print(", ", 3)\n"), ("if ", ":\n    pass\n"), ("r = [", ", q]\nz = 5\n"), ("", "; w = 2\n"), ("", ".attr[0]\n"), ("a = ", "\nb = (1,\n 2)\nc = $(ls)\n"), ("def f():\n    return ", "\nafter = 1\n"), ("v = (", ")\n")]
AFTER = ["", "x = 1\n", "if a:\n    b\n", "y = $(ls -l)\nz = f!(q)\n", "with! k:\n    more\nlast = 0\n", "def g():\n    pass\n", "print('s')  # c\n"]
BEFORE = ["", "p = 0\n", "if c:\n    d = 1\n"]


def build_inputs(tier):
    r = rng("C07")
    N = quick_scale() if tier == "quick" else 60
    cases = []
    for _ in range(600 * N):
        x, fn, written = xonshgen.gen_call_macro(r)
        pre, suf = r.choice(CALL_CTX)
        cases.append(("call", (pre, fn, written, suf)))
    for cont in ["a \\\n b", "(b \\\n + c)", "x, y \\\n", "'s' \\\r\n 't'"]:
        cases.append(("call", ("r = ", "f", cont.split(",") if "," in cont and "(" not in cont else [cont], "\n")))
    # comments inside a call macro that spans several physical lines are part of the verbatim argument text
    for written in [["x = 1", " # the first one\n   y = 2"], ["(a, # inner\n b)"], ["a # c1\n", " b # c2\n"], ["[1, # k\n 2]", " z"], ["a # only\n"]]:
        for pre, suf in [("r = ", "\n"), ("", "\n"), ("print(", ", 3)\n")]:
            cases.append(("call", (pre, "f", written, suf)))
    cases.append(("call", ("", "match", ["a", " b"], "\n")))
    cases.append(("call", ("x = ", "match", ["a b"], "\n")))
    for rest in ["{a} b", "(a (b) c) d", "f'{x}' y", "`a.*` z", "[x [y]]"]:
        cases.append(("proc", (f"$(echo! {rest})", "echo", rest, "subproc_captured", "", "\n")))
    # line breaks, comments and non-ASCII blanks inside a subprocess macro have no token the macro rule collects
    for rest in ["a\n b", "a\xa0b", "a  # c\n b", "a\u2003b  c", "x \\\n y"]:
        cases.append(("proc", (f"$(echo! {rest})", "echo", rest, "subproc_captured", "", "\n")))
        cases.append(("proc", (f"![echo! {rest}]", "echo", rest, "subproc_captured_hiddenobject", "r = ", "\n")))
    # a subprocess macro inside an injected subprocess `@$(..)`, followed by further words of the outer command: the macro ends
    # with ITS bracket, the outer words are ordinary words again
    for outer_o, outer_c in [("$(", ")"), ("![", "]"), ("!(", ")"), ("$[", "]")]:
        for inner, cmd, rest in [("which! ls  -l", "which", "ls  -l"), ("echo! a  b   c", "echo", "a  b   c"), ("bash! -c 'x  y'", "bash", "-c 'x  y'")]:
            for tail in [" a b", " a  b", "", " x"]:
                cases.append(("proc", (f"{outer_o}echo @$({inner}){tail}{outer_c}", cmd, rest, "subproc_captured_inject", "", "\n")))
                cases.append(("proc", (f"{outer_o}echo @$({inner}){tail}{outer_c}", cmd, rest, "subproc_captured_inject", "r = ", "\nz = $(ls  -l)\n")))
    for _ in range(500 * N):
        s, ctx, body = xonshgen.gen_with_macro(r)
        cases.append(("with", (s, ctx, body, r.choice(AFTER), r.choice(BEFORE))))
        if r.random() < 0.12 and s.endswith("\n") and body.endswith("\n"):
            # the macro ends the input and the input has no final newline
            cases.append(("with", (s[:-1], ctx, body[:-1], "", r.choice(BEFORE))))
    for hdr in ["with! x: \n", "with! x:  # c\n", "with! x:\t\n"]:
        cases.append(("with", (hdr + "    a\n    b\n", "x", "a\nb\n", "z = 1\n", "")))
    # a physical line of the block that holds nothing but a backslash continuation yields no token of its own
    # (found through the gap theorem of C08: such a line lies entirely between two tokens)
    for blk, want in [("    x = 1 + \\\n    \\\n    2\n    y = 3\n", "x = 1 + \\\n\\\n2\ny = 3\n"),
                      ("    x = 1 + \\\n\\\n    2\n    y = 3\n", "    x = 1 + \\\n\\\n    2\n    y = 3\n"),
                      ("    f(a,\n      b) + \\\n      \\\n    c\n", "f(a,\n  b) + \\\n  \\\nc\n")]:
        cases.append(("with", ("with! a:\n" + blk, "a", want, "z = 1\n", "")))
    # the same block bodies in a CRLF source: the captured text keeps the source's own line ends
    for _ in range(120 * N):
        s, ctx, body = xonshgen.gen_with_macro(r)
        if "\r" not in s and "\x0c" not in s and "\x85" not in s and "\u2028" not in s:
            cases.append(("with", (s.replace("\n", "\r\n"), ctx, body.replace("\n", "\r\n"), r.choice(["", "x = 1\r\n"]), "")))
    for _ in range(400 * N):
        x, cmd, rest, m = xonshgen.gen_proc_macro(r)
        pre, suf = r.choice([("", "\n"), ("x = ", "\n"), ("print(", ")\ny = 2\n"), ("", " and q\n"), ("", "\ny = f(1, 2)\n"), ("x = ", " + f(1, 2)\n"),
                             ("", "\nif a:\n    b = [1, 2]\nz = g(3, 4)\n"), ("w = ", "\nv = g!(p q)\n")])
        cases.append(("proc", (x, cmd, rest, m, pre, suf)))
    return cases


def classify(kind, o):
    """Known-finding classes, decided from the WRITTEN input (see known_findings.json)."""
    import re

    src = o.get("src") or ""
    if kind == "call" and o.get("kind") == "args-not-verbatim" and re.search(r"\\\r?\n", "".join(o.get("want") or [])):
        return "KF-C07-continuation-in-call-macro"
    if kind == "call" and o.get("kind") == "rejected" and any(ln.lstrip().startswith("match!(") for ln in src.split("\n")):
        return "KF-C07-macro-named-match"
    if kind == "with" and o.get("kind") == "rejected" and re.search(r"with![^\n]*:[ \t]+(#[^\n]*)?\r?\n[ \t]+\S", src):
        return "KF-C07-blank-after-header-colon"
    if kind == "with" and o.get("kind") == "body-not-verbatim" and "\r\n" in src and re.search(r"\n[ \t]*\r\n", src):
        import textwrap

        # the block is passed undedented: exactly what a margin-less textwrap.dedent of the CRLF text gives
        if (o.get("got") or "") and textwrap.dedent(o["got"].replace("\r\n", "\n")).replace("\n", "\r\n") == o.get("want"):
            return "KF-C07-crlf-blank-line-in-block"
    if kind == "with" and o.get("kind") == "body-not-verbatim" and re.search(r"\n[ \t]*\\\r?\n", src):
        import textwrap

        # exactly the block without its continuation-only lines (dedented)
        kept = [ln for ln in (o.get("want") or "").splitlines(keepends=True) if ln.strip() != "\\"]
        if textwrap.dedent("".join(kept)) == o.get("got"):
            return "KF-C07-continuation-only-line"
    if kind == "proc" and o.get("kind") == "rest-not-verbatim" and len(o.get("want") or []) == 2 and len(o.get("got") or []) == 2:
        w, g = o["want"][1], o["got"][1]
        # exactly the text without its line breaks (and the continuation backslash before one), comments and non-ASCII blanks
        stripped = re.sub(r"#[^\n]*\n|\\\r?\n|\r?\n|[^\x00-\x7f]", lambda m: "" if (m.group(0).isspace() or m.group(0)[0] in "#\\") else m.group(0), w)
        if w != g and stripped == g and o["want"][0] == o["got"][0]:
            return "KF-C07-proc-macro-dropped-blanks"
    if kind == "proc" and o.get("kind") in ("rejected", "rest-not-verbatim", "macro-count") and o.get("proc_rest_class"):
        return "KF-C07-proc-macro-token-kinds"
    return None


def run(rep, tier, pool, variants=("shipped",)):
    rep.rule = (
        "call macros: argument texts assembled from arbitrary tokens/keywords/xonsh constructs/strings with balanced brackets x 11 surrounding "
        "contexts; with-macros: block bodies with nested indentation, blank lines, comments, multi-line strings/brackets, one-line form, "
        "x statements before/after (incl. further macros); subprocess macros x 4 bracket forms x contexts; oracle: an independent bracket- and "
        "string-aware comma splitter / textwrap.dedent of the written block / stripped rest, and ast.parse of the surrounding code with a "
        "placeholder; distinct by source text"
    )
    cases = build_inputs(tier)
    for variant in variants:
        res = pool.call("harness.props.c07:dispatch", [(k, a, variant) for k, a in cases], timeout=30)
        for (kind, args), o in zip(cases, res):
            ident = o.get("src", repr(args))
            if o.get("skip"):
                rep.case(ident, False)
                continue
            rep.case(ident, True, sample={"kind": kind, "src": o.get("src", "")[:120]})
            rep.count("macro:" + kind)
            if o.get("ok"):
                continue
            if o.get("k") in ("hang", "crash", "worker-exc", "not-run"):
                rep.count("infra:" + o["k"])
                continue
            fid = classify(kind, o)
            if fid:
                rep.known(fid, short(o.get("src"), 60))
                continue
            rep.violation(f"C07 {o.get('kind')}: {short({k: v for k, v in o.items() if k not in ('src', 'kind')}, 120)} on {short(o.get('src'), 80)}", {"property": "C07", "input": o.get("src"), "macro_kind": kind, "args": args, "observed": o, "variant": variant})
