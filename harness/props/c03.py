"""C03 oracle search: every input terminates with Module/Expression, SyntaxError/IndentationError or TokenError."""
from __future__ import annotations

from harness import impl
from harness.common import quick_scale, rng, short
from harness.gen import corpus, mutate, pyprog, xonshgen

ALLOWED_ERR = {"err", "tokerr"}


def check_one(src: str, mode: str = "exec", variant: str = "shipped", py_version=None):
    o = impl.parse(src, mode, variant=variant, py_version=tuple(py_version) if py_version else None)
    k = o["k"]
    if k == "tree":
        want = "Expression" if mode == "eval" else "Module"
        if o["type"] != want:
            return {"kind": "wrong-root", "type": o["type"]}
        return {"ok": "tree"}
    if k in ALLOWED_ERR:
        return {"ok": k}
    if k == "none":
        return {"kind": "returned-None"}
    return {"kind": "escaped", "cls": o.get("cls"), "msg": o.get("msg"), "k": k}


def classify(src, out):
    """Known-finding classes."""
    if out.get("cls") == "RecursionError":
        depth = mx = 0
        for ch in src:
            if ch in "([{":
                depth += 1
                mx = max(mx, depth)
            elif ch in ")]}":
                depth -= 1
        if mx >= 25 or src.count("\n    ") >= 25 or len(src) > 400:
            return "KF-C03-recursion-limit"
    return None


def build_inputs(tier):
    r = rng("C03")
    N = quick_scale() if tier == "quick" else 40
    cases = []
    # the witnesses of the recorded findings run first, in every run
    cases.append(("kf-witness", "x = " + "(" * 120 + "y" + ")" * 120 + "\n", "exec"))
    cases.append(("kf-witness", "s = '\ud800'\n", "exec"))
    for s in ["", "\n", " ", "#c", "\t\n", "\\\n", "\x0c", "\ufeff", ";", "()"]:
        for m in ("exec", "eval", "file", "bare"):
            cases.append(("edge", s, m))
    for _ in range(1500 * N):
        cases.append(("soup", mutate.soup(r), r.choice(["exec", "exec", "eval"])))
    base = list(corpus.PY_STMTS) + list(xonshgen.XONSH_STMTS) + [s + "\n" for s in corpus.FSTRINGS] + [p[0] + "\n" for p in corpus.xonsh_pairs()]
    for i in range(60 * N):
        g = pyprog.gen_program(r, fstrings=True, maxdepth=3, nstmts=2)
        if g:
            base.append(g[0])
    for s in base:
        for _ in range(3 if tier == "quick" else 25):
            cases.append(("damage", mutate.damage(s, r), "exec"))
        d2 = mutate.damage(mutate.damage(s, r), r)
        cases.append(("damage2", d2, "exec"))
        if tier != "quick" or r.random() < 0.15:
            for i in range(0, len(s), max(1, len(s) // 12)):
                cases.append(("prefix", s[:i], "exec"))
    for s in list(corpus.PY_STMTS) + list(xonshgen.XONSH_STMTS):
        for d in mutate.token_deletions(s):
            cases.append(("tokdel", d, "exec"))
    unterminated = ["'abc", '"abc\n', "'''abc\n", 'f"abc', 'f"{x', "f'{x:", "f'''{x\n", "(", "[1,\n", "{a:\n\n", "x = (\n", "a \\", "a \\\n", "\\", "$(", "$(ls", "![ls", "f!(", "f!(x", "f!(x,", "f!(]", "f!(x) 1\n", "with! a:", "with! a:\n", "with! a:\n  x", "$(echo! ", "x = (1 +\n\n\n 2) 3\n", "[a,\n\n b for b in c]\n", "`abc", "p'", "@(", "@$(", "${", "a?", "a??", "?", "a ¤\n", "a\x00\n", "\ufeffx\n", "x = 1\ry = 2", "\r", "\x0c", "if x:\n\ty\n        z\n", "if x:\n    y\n  z\n", " x\n", "def f(:\n", "class\n", "0x", "1e", "1__0", "0b2", "'\\", "f!(a)(b)!(c)\n", "f!(a) g!(b)\n", "f!(\n", "f!(a,\n b)\n", "with! a:\n    b\nwith! c:\n", "!(a! b) c", "f!(x))\n", "f!(x)]\n"]
    for s in unterminated:
        cases.append(("unterminated", s, "exec"))
        cases.append(("unterminated", s, "eval"))
        cases.append(("unterminated", "y = 1\n" + s, "exec"))
        cases.append(("unterminated", s + "\nz\n", "exec"))
    # bracket groups nested inside subprocess commands (with and without the macro bang), closers of the wrong kind,
    # f-strings / search paths / braces inside groups: whatever the grammar makes of them, only SyntaxError may come out
    def group(depth):
        o, c = r.choice([("(", ")"), ("[", "]"), ("{", "}")])
        inner = []
        for _ in range(r.randint(0, 3)):
            k = r.random()
            if k < 0.35 and depth < 3:
                inner.append(group(depth + 1))
            else:
                inner.append(r.choice(["a", "b.c", "-x", "1", "'s'", 'f"x{y}"', "`p*`", "}", ")", "]", "$HOME", "@(z)", ",", "x=1", "if", "#"]))
        if r.random() < 0.1:
            c = r.choice(")]}")
        return o + r.choice(["", " "]).join(inner) + c
    for _ in range(400 * N):
        o, c = r.choice([("$(", ")"), ("$[", "]"), ("!(", ")"), ("![", "]")])
        words = [r.choice(["echo", "ls", "timeit"]) + r.choice(["", "!", "! "])] + [group(0) if r.random() < 0.7 else r.choice(["a", "-l", "x.y"]) for _ in range(r.randint(1, 3))]
        cases.append(("subproc-groups", r.choice(["", "v = "]) + o + " ".join(words) + c + "\n", "exec"))
    # implicit concatenations that mix bytes, text and f-strings in every order (each must end in a tree or a SyntaxError), and
    # call macros with stray closers / no closer at the end of the input (the raw scanner must not loop)
    import itertools as _it

    q3 = "'" * 3
    pieces = ["b'x'", "b''", "rb'k'", "'w'", "''", "f'y'", "f'{z}'", "f''", "f'a{z}b'", "u'v'", "p'q'", "pf'{z}'", q3 + "m\nn" + q3, "bR" + q3 + "o\np" + q3]
    for n in (2, 3):
        combos = list(_it.permutations(pieces, n)) if n == 2 else [tuple(r.sample(pieces, 3)) for _ in range(150 * N)]
        for ps in combos:
            if any(p.lstrip("rRuUpP").startswith(("b", "B")) for p in ps):
                cases.append(("string-mix", "x = (" + " ".join(ps) + ")\n", "exec"))
    for args in ["a, b]", "a, b}", "1, 2, {3: 4}]", "a, (b]", "a]", "a, b", "a, [b)", "a, b])", "a, b]\ny = 1", "a,", "a, 'x", "a, b}\n\n"]:
        for pre in ["f!(", "x = g!(", "h!(u)!("]:
            cases.append(("macro-stray-closer", pre + args + ("" if args.endswith("\n") else r.choice(["", "\n"])), "exec"))
    for rc in corpus.regress("C03"):
        cases.insert(0, ("regress", rc["src"], rc.get("mode", "exec")))
    seen = set()
    out = []
    for c in cases:
        if (c[1], c[2]) not in seen:
            seen.add((c[1], c[2]))
            out.append(c)
    return out


def run(rep, tier, pool, variants=("shipped",)):
    rep.rule = (
        "character soup over a 75-symbol alphabet (ASCII punctuation, quotes, backslash, CR, NUL, BOM, non-ASCII, lone surrogate, "
        "xonsh digraphs), single/double damage edits and prefixes of Python/xonsh/f-string programs, a table of unterminated "
        "constructs; oracle: outcome class in {Module|Expression, SyntaxError, IndentationError, TokenError} within a 10 s watchdog; "
        "every input is non-trivial; distinct by (text, mode)"
    )
    cases = build_inputs(tier)
    from harness.props import c11, c12
    # the options: version-gated syntax (alone, embedded, damaged) under every py_version
    gated = ["type X = int\n", "def f[T](a): pass\n", "class B[T]: pass\n", "try:\n    pass\nexcept* E:\n    pass\n", "x = 1\ntype Y[T] = T\ny = 2\n", "type X = \n", "def f[T(a): pass\n"]
    vcases = [(s, "exec", "shipped", list(v)) for s in gated for v in [(3, 8), (3, 9), (3, 10), (3, 11), (3, 12), (3, 13), (3,), (4, 0)]]
    for (src, mode, _v, pv), o in zip(vcases, pool.call("harness.props.c03:check_one", vcases, timeout=10)):
        rep.case((src, mode, tuple(pv)), True)
        rep.count("version:" + str(o.get("ok") or o.get("kind") or o.get("k")))
        if not o.get("ok") and o.get("k") != "not-run":
            rep.violation(f"C03 {o.get('kind') or o.get('k')} {o.get('cls')}: {short(o.get('msg'), 60)} on {short(src, 50)} with py_version={tuple(pv)}", {"property": "C03", "input": src, "mode": mode, "py_version": pv, "observed": o})
    for variant in variants:
        res = pool.call("harness.props.c03:check_one", [(s, m, variant) for _, s, m in cases], timeout=10)
        for (kind, src, mode), o in zip(cases, res):
            if o.get("k") == "not-run":
                rep.count("not-run-after-many-hangs")
                continue
            rep.case((src, mode), True, sample={"src": src[:80], "mode": mode} if kind == "soup" else None)
            if o.get("ok"):
                rep.count(f"{kind}:{o['ok']}")
                continue
            if o.get("k") == "hang":
                rep.violation(f"C03 no termination within 10s on {short(src, 80)}", {"property": "C03", "input": src, "mode": mode, "observed": "hang (watchdog 10s)", "variant": variant})
                continue
            fid = classify(src, o)
            if fid:
                rep.known(fid, f"{o.get('cls')} (first seen: {short(src[:40], 50)})")
                continue
            rep.violation(f"C03 {o.get('kind')} {o.get('cls')}: {short(o.get('msg'), 60)} on {short(src, 80)}", {"property": "C03", "input": src, "mode": mode, "observed": o, "variant": variant})
    # both entry points in a child interpreter whose locale is not UTF-8: whatever is raised must still be a SyntaxError
    nonascii = ["# caf\u00e9\nx = = 1\n", "s = '\u00e9' +\n", "\u00f1 = (1 2)\n", "def \u00fc(:\n", "x = '\u00df'\ny = [1,\n", "$(echo \u00f1\n", "f!(\u00e9]\n"]
    loc_files = [("locale", s) for s in nonascii] + [("locale", "# \u00fc\n" + s) for s in c11.INVALID_SNIPPETS[:40]]
    for env_name, res in c12.run_children(loc_files, [e for e in c12.ENVS if e[0] in ("C", "latin1")]).items():
        for fname, a, b in res:
            src = loc_files[int(fname[:5])][1]
            for entry, o in (("parse_file", a), ("parse_string", b)):
                rep.case((env_name, entry, src), True)
                rep.count(f"locale:{env_name}:{o['k']}")
                if o["k"] == "hang":
                    rep.violation(f"C03 {entry} under locale {env_name}: no termination within 8s on {short(src, 50)}",
                                  {"property": "C03", "input": src, "entry_point": entry, "environment": dict(c12.ENVS)[env_name], "observed": "hang"})
                elif o["k"] == "exc" and o.get("cls") != "RecursionError":
                    rep.violation(f"C03 {entry} under locale {env_name} raised {o.get('cls')}: {short(o.get('msg'), 60)} on {short(src, 50)}",
                                  {"property": "C03", "input": src, "entry_point": entry, "environment": dict(c12.ENVS)[env_name], "observed": o})
