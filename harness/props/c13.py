"""C13 oracle search: parsing is a pure function of (text, options): histories, repetition, threads."""
from __future__ import annotations

import ast
import copy
import subprocess
import sys
import threading

from harness import impl
from harness.common import quick_scale, PY, REPO, VERIF, rng, short
from harness.gen import corpus, mutate, pyprog, xonshgen


def pool_inputs(r, n=80):
    base = []
    base += [(s, "exec") for s in xonshgen.XONSH_STMTS]
    base += [(s, "exec") for s in corpus.PY_STMTS[::2]]
    base += [("x = " + s + "\n", "exec") for s in corpus.FSTRINGS[::3]]
    base += [(s, "eval") for s in corpus.PY_EXPRS[::3]]
    # failing parses of many kinds (each leaves different partial state behind)
    fails = ["f!(a[)\n", "f!((a\n", "f!(]\n", "f!(x) 1\n", "with! a:\n", "$(ls\n", "![reset!]\n", "![cd! ]\n", "x = (1 +\n", "x = 'abc\n", "def f(:\n", "pf'{x}' +\n", "w = p'/opt/' pf'{name}/bin' )\n", "$(echo! a b\n", "if x:\n  y\n z\n", "f'{x'\n", "a ? b\n", "with! c as d: body )\n", "x = [\n", "f!(a, (b]\n", "`unterminated\n", "class A[T]: pass\n"]
    base += [(s, "exec") for s in fails]
    specials = ["w = p'/opt/' pf'{name}/bin'\n", "s = 'plain'\n", "![reset!]\n", "f!(x, [1, 2] y)\n", "print!(some raw text)\n", "with! ctx as c:\n    body line\n", "q = pf'{a}' ; t = 'after'\n", "$(echo! x) ; u = ' spaced  out '\n", "v = f!(a[0])\nw = [1, 2]\n"]
    base += [(s, "exec") for s in specials]
    # implicit concatenations that merge literal parts (helpers that build or extend Constant nodes)
    base += [(s, "exec") for s in ["greeting = 'hello, ' f'dear {name}!'\n", "s = 'a' 'b' f'{c}' 'd'\n", "t = u'a' f'b{x}'\n", "u = ('x'\n     'y')\n", "v = b'a' b'b'\n", "w = f'{a}' 'tail' f'{b}'\n"]]
    # the file entry point, failing and succeeding (it keeps per-parse line tables of its own)
    base += [(s, "file") for s in ["x = 1\ny = (a 1)\n", "import os\nf() = 3\n", "ok = 1\nz = [1, 2]\n", "s = '''a\nb''' 3\n", "$(ls -l)\nq = 2\n", "def g(:\n", "with! c:\n    raw text\n"]]
    base += [(s, "bare") for s in ["x = = 1\n", "# settings\ny = 2\n", "import os\nf() = 3\n", "z = [1, 2]\n", "def g(:\n"]]
    for _ in range(n // 4):
        g = pyprog.gen_program(r, fstrings=True, maxdepth=3, nstmts=2)
        if g:
            base.append((g[0], "exec"))
    return base


FRESH_CHILD = r'''
import json, sys, os
sys.path.insert(0, os.environ["XV_VERIF"]); sys.path.insert(0, os.environ["XV_REPO"])
from harness import impl
items = json.load(sys.stdin)
json.dump([impl.parse(s, m) for s, m in items], sys.stdout)
'''


def fresh_results(items):
    """Each input parsed first thing in a fresh interpreter (a few per child, each child starts clean for its first item;
    to be strict every item gets its own parse as the FIRST call of a child)."""
    import json
    import os
    from concurrent.futures import ThreadPoolExecutor

    env = dict(os.environ, XV_VERIF=str(VERIF), XV_REPO=str(REPO))

    def one(item):
        p = subprocess.run([PY, "-c", FRESH_CHILD], input=json.dumps([item]), capture_output=True, text=True, env=env, timeout=120)
        if p.returncode != 0:
            raise RuntimeError(p.stderr[-300:])
        return json.loads(p.stdout)[0]

    with ThreadPoolExecutor(16) as ex:
        return list(ex.map(one, items))


def strip(o):
    return {k: v for k, v in o.items() if k != "tree"}


def run(rep, tier, pool, variants=("shipped",)):
    rep.rule = (
        "a pool of ~130 inputs (every xonsh statement form, Python snippets, f-strings, path literals, all three macro kinds, 22 failing parses "
        "that abort at different points); histories: permuted call orders, each input immediately after each failing input, repetition, "
        "in-process threads (8 threads, switch interval 1e-6); oracle: the result of the same input parsed as the first call of a fresh "
        "interpreter; returned trees are re-dumped after later parses (no shared mutable state); non-trivial = every (history position, input); "
        "distinct by (history id, position)"
    )
    r = rng("C13")
    items = pool_inputs(r)
    ref = fresh_results(items)
    refmap = {it: strip(o) for it, o in zip(items, ref)}
    nperm = 3 * quick_scale() if tier == "quick" else 40

    def check(hist_id, pos, item, got, prev):
        rep.case((hist_id, pos), True, sample={"history": hist_id, "pos": pos, "input": item[0][:50]} if len(rep.samples) < 5 else None)
        rep.count("history:" + hist_id.split("#")[0])
        if strip(got) != refmap[item]:
            rep.violation(
                f"C13 result depends on history ({hist_id}, position {pos}, previous {short(prev[0] if prev else None, 40)}): {short(item[0], 50)}",
                {"property": "C13", "history_kind": hist_id, "position": pos, "input": item[0], "mode": item[1], "previous_input": prev[0] if prev else None, "expected_fresh": refmap[item], "observed": strip(got)},
            )

    # 1. permutations, in-process (this process has already parsed other things: that is part of the history)
    for p in range(nperm):
        order = list(items)
        rng("C13", "perm", p).shuffle(order)
        kept = []
        prev = None
        for pos, it in enumerate(order):
            o = impl.parse(it[0], it[1], want_tree=True)
            check(f"perm#{p}", pos, it, o, prev)
            if o.get("tree") is not None and len(kept) < 40:
                kept.append((it, o["tree"], o.get("dump")))
            prev = it
        for it, tree, dump in kept:  # trees returned earlier are not altered by later parses
            rep.case((f"perm#{p}", "aliasing", it[0]), True)
            if ast.dump(tree, include_attributes=True) != dump:
                rep.violation(f"C13 a returned tree was mutated by later parses: {short(it[0], 50)}", {"property": "C13", "history_kind": "aliasing", "input": it[0]})
    # 2. every input right after every failing input (pairs)
    fails = [it for it in items if refmap[it]["k"] != "tree"]
    goods = [it for it in items if refmap[it]["k"] == "tree"]
    pairs = [(f, g) for f in fails for g in goods]
    if tier == "quick":
        pairs = rng("C13", "pairs").sample(pairs, min(len(pairs), 700))
    for i, (f, g) in enumerate(pairs):
        impl.parse(f[0], f[1])
        check("after-failure#0", i, g, impl.parse(g[0], g[1]), f)
    # 3. repetition
    for i, it in enumerate(items):
        a = impl.parse(it[0], it[1])
        b = impl.parse(it[0], it[1])
        check("repeat#0", i, it, b, it)
    # 4. threads
    old = sys.getswitchinterval()
    sys.setswitchinterval(1e-6)
    try:
        rounds = 2 if tier == "quick" else 25
        for rd in range(rounds):
            results = {}
            order = list(items) * 2
            rng("C13", "thr", rd).shuffle(order)
            chunks = [order[i::8] for i in range(8)]

            def work(k, chunk):
                out = []
                for it in chunk:
                    out.append((it, impl.parse(it[0], it[1])))
                results[k] = out

            ths = [threading.Thread(target=work, args=(k, c)) for k, c in enumerate(chunks)]
            for t in ths:
                t.start()
            for t in ths:
                t.join(300)
            for k, out in results.items():
                for pos, (it, o) in enumerate(out):
                    check(f"threads#{rd}.{k}", pos, it, o, None)
    finally:
        sys.setswitchinterval(old)
