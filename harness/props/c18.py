"""C18 oracle search: tokenizer calls (getnext/peek/reset) grow at most linearly on size-parameterised families."""
from __future__ import annotations

import io
import math
import sys

from harness.common import REPO, rng, short

if str(REPO) not in sys.path:
    sys.path.insert(0, str(REPO))


def count_calls(src: str, mode: str = "exec", variant: str = "shipped", verbose: bool = False):
    from harness import impl
    from peg_parser.tokenize import TokenError, generate_tokens
    from peg_parser.tokenizer import Tokenizer

    sys.setrecursionlimit(6000)

    class Counting(Tokenizer):
        calls = 0

        def getnext(self):
            Counting.calls += 1
            return super().getnext()

        def peek(self):
            Counting.calls += 1
            return super().peek()

        def reset(self, index):
            Counting.calls += 1
            return super().reset(index)

    class CountingList(list):
        """the token array: every element read counts (a slice costs its length) - work that bypasses getnext/peek/reset"""

        reads = 0

        def __getitem__(self, k):
            r = list.__getitem__(self, k)
            CountingList.reads += len(r) if isinstance(k, slice) else 1
            return CountingList(r) if isinstance(k, slice) else r

        def __iter__(self):
            CountingList.reads += len(self)
            return list.__iter__(self)

        def __reversed__(self):
            CountingList.reads += len(self)
            return list.__reversed__(self)

    Counting.calls = 0
    CountingList.reads = 0
    cls = impl.parser_cls(variant)
    tz = Counting(generate_tokens(io.StringIO(src).readline))
    tz._tokens = CountingList(tz._tokens)
    p = cls(tz, verbose=verbose)
    outcome = "tree"
    try:
        import contextlib

        with contextlib.redirect_stdout(io.StringIO()):
            p.parse("file" if mode == "exec" else "eval")
    except SyntaxError:
        outcome = "err"
    except TokenError:
        outcome = "tokerr"
    except RecursionError:
        return {"k": "recursion"}
    return {"k": outcome, "calls": Counting.calls + CountingList.reads, "tokenizer_calls": Counting.calls, "token_array_reads": CountingList.reads, "ntok": len(tz._tokens)}


FAMILIES = {
    # name: (generator of source for size n, sizes, kind)
    "nested-parens": lambda n: "x = " + "(" * n + "1" + ")" * n + "\n",
    "nested-lists": lambda n: "x = " + "[" * n + "1" + "]" * n + "\n",
    "nested-calls": lambda n: "x = " + "f(" * n + "1" + ")" * n + "\n",
    "nested-subscripts": lambda n: "x = " + "a[" * n + "1" + "]" * n + "\n",
    "nested-dicts": lambda n: "x = " + "{1: " * n + "2" + "}" * n + "\n",
    "nested-lambdas": lambda n: "x = " + "lambda: " * n + "1\n",
    "nested-comprehensions": lambda n: "x = " + "[" * n + "1" + " for a in b]" * n + "\n",
    "nested-ifexp": lambda n: "x = " + "a if b else " * n + "c\n",
    "nested-subprocs": lambda n: "x = " + "$(echo " * n + "hi" + ")" * n + "\n",
    "nested-blocks": lambda n: "".join("    " * i + "if a:\n" for i in range(n)) + "    " * n + "pass\n",
    "nested-fstrings-fields": lambda n: "x = f'" + "{a}" * n + "'\n",
    "attr-chain": lambda n: "x = a" + ".b" * n + "\n",
    "call-chain": lambda n: "x = a" + "(1)" * n + "\n",
    "binop-chain": lambda n: "x = 1" + " + 1" * n + "\n",
    "mixed-op-chain": lambda n: "x = 1" + " * 2 - 3 // 4 ** 5" * n + "\n",
    "boolop-chain": lambda n: "x = a" + " and b or c" * n + "\n",
    "compare-chain": lambda n: "x = a" + " < b" * n + "\n",
    "arg-list": lambda n: "f(" + ", ".join(f"a{i}" for i in range(n)) + ")\n",
    "kwarg-list": lambda n: "f(" + ", ".join(f"k{i}=1" for i in range(n)) + ")\n",
    "list-literal": lambda n: "x = [" + ", ".join("1" for i in range(n)) + "]\n",
    "dict-literal": lambda n: "x = {" + ", ".join(f"{i}: {i}" for i in range(n)) + "}\n",
    "param-list": lambda n: "def f(" + ", ".join(f"a{i}=1" for i in range(n)) + "): pass\n",
    "statement-list": lambda n: "x = 1\n" * n,
    "semicolon-list": lambda n: "; ".join("x = 1" for _ in range(n)) + "\n",
    "import-list": lambda n: "from m import " + ", ".join(f"a{i}" for i in range(n)) + "\n",
    "elif-chain": lambda n: "if a:\n    pass\n" + "elif b:\n    pass\n" * n,
    "string-concat": lambda n: "x = " + " ".join("'a'" for _ in range(n)) + "\n",
    "subproc-args": lambda n: "$(echo " + " ".join(f"w{i}" for i in range(n)) + ")\n",
    "with-items": lambda n: "with " + ", ".join(f"a{i} as b{i}" for i in range(n)) + ": pass\n",
    "decorators": lambda n: "@d\n" * n + "def f(): pass\n",
    "assign-chain": lambda n: "a = " * n + "1\n",
    "tuple-targets": lambda n: ", ".join(f"a{i}" for i in range(n)) + " = x\n",
    "match-cases": lambda n: "match x:\n" + "".join(f"    case {i}:\n        pass\n" for i in range(n)),
    "match-or-pattern": lambda n: "match x:\n    case " + " | ".join(str(i) for i in range(n)) + ":\n        pass\n",
    "match-flat-sequence": lambda n: "match x:\n    case [" + ", ".join(f"a{i}" for i in range(n)) + "]:\n        pass\n",
    "nested-sequence-patterns": lambda n: "match x:\n    case " + "[" * n + "y" + "]" * n + ":\n        pass\n",
    "nested-group-patterns": lambda n: "match x:\n    case " + "(" * n + "y" + ")" * n + ":\n        pass\n",
    "nested-class-patterns": lambda n: "match x:\n    case " + "C(" * n + "y" + ")" * n + ":\n        pass\n",
    "nested-mapping-patterns": lambda n: "match x:\n    case " + "{1: " * n + "y" + "}" * n + ":\n        pass\n",
    "invalid-nested-sequence-patterns": lambda n: "match x:\n    case " + "[" * n + "y" + "]" * n + " z:\n        pass\n",
    # invalid variants (second, diagnostic pass)
    "invalid-unclosed-parens": lambda n: "x = " + "(" * n + "1" + ")" * (n - 1) + " y\n",
    "invalid-nested-parens-junk": lambda n: "x = " + "(" * n + "1" + ")" * n + " y\n",
    "invalid-statement-list": lambda n: "x = 1\n" * n + "x = = 1\n",
    # long FLAT chains of clauses before a plain syntax error (the diagnostic pass walks the clause rules again)
    "invalid-elif-chain": lambda n: "if a:\n    pass\n" + "".join(f"elif b{i}:\n    pass\n" for i in range(n)) + "z = = 1\n",
    "invalid-elif-else-chain": lambda n: "if a:\n    pass\n" + "".join(f"elif b{i}:\n    pass\n" for i in range(n)) + "else:\n    pass\nz = = 1\n",
    "invalid-except-chain": lambda n: "try:\n    pass\n" + "".join(f"except E{i}:\n    pass\n" for i in range(n)) + "z = = 1\n",
    "invalid-case-chain": lambda n: "match x:\n" + "".join(f"    case {i}:\n        pass\n" for i in range(n)) + "z = = 1\n",
    "elif-chain": lambda n: "if a:\n    pass\n" + "".join(f"elif b{i}:\n    pass\n" for i in range(n)) + "else:\n    pass\n",
    "invalid-arg-list": lambda n: "f(" + ", ".join(f"a{i}" for i in range(n)) + " b)\n",
    "invalid-binop-chain": lambda n: "x = 1" + " + 1" * n + " +\n",
    "invalid-list-literal": lambda n: "x = [" + ", ".join("1" for i in range(n)) + " 2]\n",
    "invalid-nested-blocks": lambda n: "".join("    " * i + "if a:\n" for i in range(n)) + "    " * n + "x = = 1\n",
    "invalid-nested-calls": lambda n: "x = " + "f(" * n + "1 2" + ")" * n + "\n",
    "invalid-dict-literal": lambda n: "x = {" + ", ".join(f"{i}: {i}" for i in range(n)) + " 3}\n",
    "invalid-subproc-mismatch": lambda n: "x = " + "$(echo " * n + "$(echo hi]" + ")" * n + "\n",
    "invalid-subproc-mismatch-mixed": lambda n: "x = " + "".join(("$(a ", "![b ", "!(c ", "$[d ")[i % 4] for i in range(n)) + "$(e }" + "".join((")", "]", ")", "]")[i % 4] for i in reversed(range(n))) + "\n",
    "long-statement-sequence": lambda n: "".join(f"v{i} = f(a{i}, b=[c, {i}]) + d.e[{i}]\n" for i in range(n)),
    "long-function-body": lambda n: "def f(a, b):\n" + "".join(f"    r{i} = a.m{i}(b, k={i}) or [x for x in b]\n" for i in range(n)) + "    return r0\n",
    "invalid-subproc-nested-groups": lambda n: "x = $(echo " + "(" * n + "]" + ")" * n + ")\n",
    "invalid-subproc-nested-groups-macro": lambda n: "$(echo! " + "(" * n + " ] " + ")" * n + ")\n",
    "subproc-nested-groups": lambda n: "x = $(echo " + "(" * n + "a" + ")" * n + ")\n",
    "invalid-subproc-unclosed": lambda n: "x = " + "$(echo " * n + "hi\n",
    "invalid-subproc": lambda n: "x = " + "$(echo " * n + "hi" + ")" * n + " = = 3\n",
}
DEEP = {"invalid-elif-chain", "invalid-elif-else-chain", "invalid-except-chain", "invalid-case-chain", "elif-chain", "nested-sequence-patterns", "nested-group-patterns", "nested-class-patterns", "nested-mapping-patterns", "invalid-nested-sequence-patterns", "nested-parens", "nested-lists", "nested-calls", "nested-subscripts", "nested-dicts", "nested-lambdas", "nested-comprehensions", "nested-ifexp", "nested-subprocs", "nested-blocks", "invalid-unclosed-parens", "invalid-nested-parens-junk", "invalid-nested-blocks", "invalid-nested-calls", "invalid-subproc", "invalid-subproc-mismatch", "invalid-subproc-mismatch-mixed", "invalid-subproc-unclosed", "invalid-subproc-nested-groups", "invalid-subproc-nested-groups-macro", "subproc-nested-groups"}
KNOWN = {
    "nested-pattern-sequence": "KF-C18-nested-sequence-patterns",
}


def sizes_for(name, tier):
    if name.startswith("long-"):
        return [150, 300, 600] if tier == "quick" else [150, 300, 600, 1200, 2400]
    if name.endswith("+verbose"):
        name = name[: -len("+verbose")]
    if name.startswith("invalid-subproc-mismatch"):
        return [10, 20, 40] if tier == "quick" else [10, 20, 40, 80]
    if name in DEEP:
        if "pattern" in name:
            return [3, 6, 9] if tier == "quick" else [3, 6, 9, 12]
        return [4, 8, 16] if tier == "quick" else [4, 8, 16, 24]
    return [20, 40, 80] if tier == "quick" else [25, 50, 100, 200, 400]


def measure(name, sizes, variant="shipped"):
    verbose = name.endswith("+verbose")
    fam = FAMILIES[name[: -len("+verbose")] if verbose else name]
    pts = []
    for n in sizes:
        o = count_calls(fam(n), "exec", variant, verbose)
        if o["k"] == "recursion":
            break
        pts.append((n, o["ntok"], o["calls"], o["k"]))
    return {"family": name, "points": pts}


def exponent(pts):
    """Least-squares slope of log(calls) against log(tokens)."""
    xs = [math.log(p[1]) for p in pts]
    ys = [math.log(max(1, p[2])) for p in pts]
    n = len(xs)
    if n < 2:
        return 0.0
    mx, my = sum(xs) / n, sum(ys) / n
    den = sum((x - mx) ** 2 for x in xs)
    return sum((x - mx) * (y - my) for x, y in zip(xs, ys)) / den if den else 0.0


def verdict(pts):
    if len(pts) < 2:
        return None
    e = exponent(pts)
    ratio_last = (pts[-1][2] / pts[-2][2]) / (pts[-1][1] / pts[-2][1])  # calls ratio / token ratio
    per_tok = [p[2] / p[1] for p in pts]
    # linear: calls per token stays bounded: it may not grow by more than 35% from the first to the last size
    growth = per_tok[-1] / per_tok[0]
    if e > 1.25 or (growth > 1.6 and ratio_last > 1.25):
        return {"exponent": round(e, 3), "calls_per_token": [round(x, 1) for x in per_tok], "last_ratio": round(ratio_last, 3)}
    return None


def run(rep, tier, pool, variants=("shipped",)):
    rep.rule = (
        "46 size-parameterised families (nested brackets/calls/subscripts/dicts/lambdas/comprehensions/conditional expressions/subprocesses/blocks, "
        "operator/attribute/call chains, argument/parameter/element/statement/import/with/decorator lists, match statements, and unclosed/"
        "mistyped variants that trigger the diagnostic pass), each measured at 3-5 doubling sizes with a counting Tokenizer subclass (getnext+peek+"
        "reset calls); oracle: fitted growth exponent of calls vs tokens <= 1.25 and calls-per-token not growing by more than 60% across sizes; "
        "non-trivial = every family; distinct by (family, size)"
    )
    # the tracing path of the memoisation wrappers must not cost more than the fast path: deep families once more under verbose
    VERBOSE_FAMILIES = ["nested-blocks", "nested-parens", "nested-calls", "nested-group-patterns", "nested-sequence-patterns", "invalid-nested-blocks", "invalid-unclosed-parens", "nested-subprocs", "nested-lists", "nested-ifexp"]
    names = sorted(FAMILIES) + [f + "+verbose" for f in VERBOSE_FAMILIES if f in FAMILIES]
    for variant in variants:
        res = pool.call("harness.props.c18:measure", [(n, sizes_for(n, tier), variant) for n in names], timeout=(150 if tier == "quick" else 900))
        for name, o in zip(names, res):
            if "points" not in o:
                rep.case(name, False)
                rep.count("infra:" + str(o.get("k")))
                if o.get("k") == "hang":
                    rep.violation(f"C18 family {name} did not finish within the time limit (sizes {sizes_for(name, tier)})", {"property": "C18", "family": name, "sizes": sizes_for(name, tier), "observed": "timeout 600s", "generator": "harness/props/c18.py:FAMILIES"})
                continue
            pts = o["points"]
            for p in pts:
                rep.case((name, p[0]), True)
            if len(rep.samples) < 8:
                rep.samples.append({"family": name, "points(n,tokens,calls,outcome)": pts})
            rep.count("family-outcome:" + (pts[-1][3] if pts else "none"))
            v = verdict(pts)
            rep.extra.setdefault("exponents", {})[name] = round(exponent(pts), 3) if len(pts) > 1 else None
            if v:
                fid = classify(name, v)
                if fid:
                    rep.known(fid, f"{name}: exponent {v['exponent']} calls/token {v['calls_per_token']}")
                    continue
                rep.violation(f"C18 super-linear work on family {name}: exponent {v['exponent']}, calls/token {v['calls_per_token']}", {"property": "C18", "family": name, "points_n_tokens_calls_outcome": pts, "verdict": v, "input_example": FAMILIES[name.replace("+verbose", "")](pts[0][0]), "generator": "harness/props/c18.py:FAMILIES['%s']%s" % (name.replace("+verbose", ""), " with verbose=True" if name.endswith("+verbose") else ""), "variant": variant})


def classify(name, v):
    # quadratic (not worse) on nested subprocess openers whose innermost closer does not match: see known_findings.json
    if name in ("invalid-subproc-mismatch", "invalid-subproc-mismatch-mixed", "invalid-subproc-nested-groups", "invalid-subproc-nested-groups-macro") and v["exponent"] <= 2.2:
        return "KF-C18-subproc-group-rescan"
    return None
