"""C16: shipped generated parsers are what their grammars generate (direct oracle: run the generation steps)."""
from __future__ import annotations

import ast
import os
import shutil
import subprocess
import tempfile
from pathlib import Path

from harness.common import PY, REPO, short
from harness.sync import norm_methods, regenerate


def norm_module(path: Path):
    """Every class's methods/assignments and every top-level function, normalised (formatting, annotations dropped)."""
    t = ast.parse(path.read_text(encoding="utf-8"))
    out = {}
    for n in t.body:
        if isinstance(n, ast.ClassDef):
            for m in n.body:
                if isinstance(m, (ast.FunctionDef, ast.AsyncFunctionDef)):
                    m.returns = None
                    for a in m.args.args + m.args.kwonlyargs + m.args.posonlyargs:
                        a.annotation = None
                    out[f"{n.name}.{m.name}"] = ast.dump(m)
                elif isinstance(m, ast.Assign):
                    out[f"{n.name}.{m.targets[0].id}"] = ast.dump(m.value)
                elif isinstance(m, ast.AnnAssign) and m.value is not None:
                    out[f"{n.name}.{ast.unparse(m.target)}"] = ast.dump(m.value)
        elif isinstance(n, (ast.FunctionDef, ast.AsyncFunctionDef)):
            n.returns = None
            out[n.name] = ast.dump(n)
    return out


def regen_meta(out_path: Path, hashseed="0"):
    env = dict(os.environ, PYTHONPATH=str(REPO), PYTHONHASHSEED=str(hashseed))
    return subprocess.run([PY, "-m", "pegen", str(REPO / "pegen" / "metagrammar.gram"), "-o", str(out_path), "-q"], env=env, capture_output=True, text=True, timeout=120, cwd=str(REPO))


def diff_methods(a: dict, b: dict):
    names = sorted(set(a) | set(b))
    return [n for n in names if a.get(n) != b.get(n)]


def run(rep, tier, pool, variants=("shipped",)):
    rep.rule = (
        "programs = (grammar, generated module) pairs x hash seeds: tasks/xonsh.gram -> peg_parser/parser.py via tasks/generator.py and "
        "pegen/metagrammar.gram -> pegen/grammar_parser.py via python -m pegen, each regenerated into a scratch directory under PYTHONHASHSEED in "
        "{0,1,2,random} and twice in a row; compared per rule method / keyword table by normalised AST (formatting, unused imports, return "
        "annotations ignored); a disagreement is re-run to confirm"
    )
    seeds = ["0", "1", "2", "random"] if tier == "quick" else ["0", "1", "2", "3", "17", "4242", "random", "random"]
    tmp = Path(tempfile.mkdtemp(prefix="xv.c16.", dir="/var/tmp"))
    programs = 0
    checked = 0
    samples = []
    try:
        shipped = norm_methods(REPO / "peg_parser" / "parser.py")
        shipped_meta = norm_module(REPO / "pegen" / "grammar_parser.py")
        prev = None
        for i, seed in enumerate(seeds + [seeds[0]]):
            out = tmp / f"parser_{i}.py"
            pr = regenerate(out, hashseed=seed)
            programs += 1
            if pr.returncode != 0:
                rep.violation(f"C16 generation step fails (PYTHONHASHSEED={seed}): {short(pr.stderr[-200:], 150)}", {"property": "C16", "step": "python tasks/generator.py", "hashseed": seed, "stderr": pr.stderr[-2000:]})
                continue
            try:
                got = norm_methods(out)
            except SyntaxError as e:
                rep.violation(f"C16 generated module does not parse (PYTHONHASHSEED={seed}): {e}", {"property": "C16", "hashseed": seed, "error": str(e)})
                continue
            d = diff_methods(got, shipped)
            rep.case(("xonsh.gram", seed, i), True)
            rep.count(f"xonsh.gram:methods={len(got)}")
            if d:
                checked += len(d)
                keep = tmp.parent / f"xv.c16.keep.{os.getpid()}"
                rep.violation(
                    f"C16 shipped peg_parser/parser.py differs from what tasks/xonsh.gram generates (PYTHONHASHSEED={seed}) in {len(d)} method(s): {d[:6]}",
                    {"property": "C16", "pair": "tasks/xonsh.gram -> peg_parser/parser.py", "hashseed": seed, "differing_methods": d[:50], "generated_example": ast.unparse(_find(out, d[0]))[:1500] if _find(out, d[0]) else None, "shipped_example": ast.unparse(_find(REPO / "peg_parser" / "parser.py", d[0]))[:1500] if _find(REPO / "peg_parser" / "parser.py", d[0]) else None, "replay": "PYTHONPATH=/repo PYTHONHASHSEED=%s python tasks/generator.py -o /tmp/out.py; compare methods by ast.dump" % seed},
                )
            if prev is not None and got != prev:
                dd = diff_methods(got, prev)
                rep.violation(f"C16 generation is not deterministic across runs/hash seeds: {dd[:6]}", {"property": "C16", "differing_methods": dd[:50], "hashseeds": [seeds[i - 1] if i else None, seed]})
            prev = got
            if len(samples) < 2:
                samples.append({"pair": "xonsh.gram", "hashseed": seed, "methods": len(got), "differing": d[:3]})
        # the same generation step run three times inside ONE interpreter (state kept by the generator between runs)
        rep_out = [tmp / f"parser_inproc_{j}.py" for j in range(3)]
        code = "import sys; from pathlib import Path; sys.path.insert(0, %r); from tasks import generator\n" % str(REPO) + "".join(f"generator.main(Path({str(o)!r}))\n" for o in rep_out)
        pr = subprocess.run([PY, "-c", code], env=dict(os.environ, PYTHONPATH=str(REPO), PYTHONHASHSEED="0"), capture_output=True, text=True, timeout=300, cwd="/")
        programs += 3
        if pr.returncode != 0:
            rep.violation(f"C16 repeated in-process generation fails: {short(pr.stderr[-200:], 150)}", {"property": "C16", "step": "tasks.generator.main() x3 in one interpreter", "stderr": pr.stderr[-2000:]})
        else:
            for j, o in enumerate(rep_out):
                got = norm_methods(o)
                d = diff_methods(got, shipped)
                rep.case(("xonsh.gram", "in-process", j), True)
                if d:
                    rep.violation(f"C16 generation run #{j + 1} inside one interpreter differs from the shipped parser in {len(d)} method(s)/table(s): {d[:6]}",
                                  {"property": "C16", "pair": "tasks/xonsh.gram -> peg_parser/parser.py", "history": f"tasks.generator.main() called {j + 1} time(s) in the same interpreter", "differing_methods": d[:50]})
                    break
        # the documented steps under the OTHER interpreters the project supports (requires-python >= 3.10) that are installed
        # here: what is generated must not depend on the interpreter's version
        others = [i for i in ["/usr/bin/python3.11", "/root/.pyenv/versions/3.10.13/bin/python", "/root/.pyenv/versions/3.13.0/bin/python"] if Path(i).exists()]
        for interp in (others if tier != "quick" else others[:2]):
            env = dict(os.environ, PYTHONPATH=str(REPO), PYTHONHASHSEED="0")
            o1 = tmp / f"parser_{Path(interp).parent.parent.name or 'sys'}_{others.index(interp)}.py"
            pr = subprocess.run([interp, str(REPO / "tasks" / "generator.py"), "-o", str(o1)], env=env, capture_output=True, text=True, timeout=300, cwd="/")
            programs += 1
            rep.case(("xonsh.gram", "interpreter", interp), True)
            if pr.returncode != 0:
                rep.violation(f"C16 generation step fails under {interp}: {short(pr.stderr[-200:], 150)}", {"property": "C16", "step": "tasks/generator.py", "interpreter": interp, "stderr": pr.stderr[-2000:]})
            else:
                d = diff_methods(norm_methods(o1), shipped)
                if d:
                    rep.violation(f"C16 shipped peg_parser/parser.py differs from what {interp} generates from tasks/xonsh.gram in {len(d)} method(s): {d[:6]}", {"property": "C16", "interpreter": interp, "differing_methods": d[:50]})
            o2 = tmp / f"meta_interp_{others.index(interp)}.py"
            pr = subprocess.run([interp, "-m", "pegen", str(REPO / "pegen" / "metagrammar.gram"), "-o", str(o2), "-q"], env=env, capture_output=True, text=True, timeout=300, cwd=str(REPO))
            programs += 1
            rep.case(("metagrammar.gram", "interpreter", interp), True)
            if pr.returncode != 0:
                rep.violation(f"C16 metagrammar generation step fails under {interp}: {short(pr.stderr[-200:], 150)}", {"property": "C16", "step": "python -m pegen pegen/metagrammar.gram", "interpreter": interp, "stderr": pr.stderr[-2000:]})
            else:
                d = diff_methods(norm_module(o2), shipped_meta)
                if d:
                    rep.violation(f"C16 shipped pegen/grammar_parser.py differs from what {interp} generates from pegen/metagrammar.gram: {d[:6]}", {"property": "C16", "interpreter": interp, "differing": d[:50]})
        # ... nor on the interpreter's optimisation level (python -O / PYTHONOPTIMIZE strip assert statements)
        for flags, extra in [(["-O"], {}), (["-OO"], {}), ([], {"PYTHONOPTIMIZE": "1"})]:
            env = dict(os.environ, PYTHONPATH=str(REPO), PYTHONHASHSEED="0", **extra)
            tag = "".join(flags).strip("-") or "envO"
            o1 = tmp / f"parser_opt_{tag}.py"
            pr = subprocess.run([PY, *flags, str(REPO / "tasks" / "generator.py"), "-o", str(o1)], env=env, capture_output=True, text=True, timeout=300, cwd="/")
            programs += 1
            rep.case(("xonsh.gram", "optimisation", tag), True)
            if pr.returncode != 0:
                rep.violation(f"C16 generation step fails under python {' '.join(flags)} {extra}: {short(pr.stderr[-200:], 150)}", {"property": "C16", "step": "tasks/generator.py", "flags": flags, "env": extra, "stderr": pr.stderr[-2000:]})
            else:
                d = diff_methods(norm_methods(o1), shipped)
                if d:
                    rep.violation(f"C16 shipped peg_parser/parser.py differs from what python {' '.join(flags)} {extra} generates from tasks/xonsh.gram in {len(d)} method(s): {d[:6]}", {"property": "C16", "flags": flags, "env": extra, "differing_methods": d[:50]})
            o2 = tmp / f"meta_opt_{tag}.py"
            pr = subprocess.run([PY, *flags, "-m", "pegen", str(REPO / "pegen" / "metagrammar.gram"), "-o", str(o2), "-q"], env=env, capture_output=True, text=True, timeout=300, cwd=str(REPO))
            programs += 1
            rep.case(("metagrammar.gram", "optimisation", tag), True)
            if pr.returncode != 0:
                rep.violation(f"C16 metagrammar generation step fails under python {' '.join(flags)} {extra}: {short(pr.stderr[-200:], 150)}", {"property": "C16", "step": "python -m pegen pegen/metagrammar.gram", "flags": flags, "env": extra, "stderr": pr.stderr[-2000:]})
            else:
                d = diff_methods(norm_module(o2), shipped_meta)
                if d:
                    rep.violation(f"C16 shipped pegen/grammar_parser.py differs from what python {' '.join(flags)} {extra} generates from pegen/metagrammar.gram: {d[:6]}", {"property": "C16", "flags": flags, "env": extra, "differing": d[:50]})
        # determinism is a property of the GENERATOR: other grammars (keywords that differ only in case, several helper rules of
        # the same shape, soft keywords) generated under several hash seeds by both generators must come out identical
        probes = {
            "case_keywords": "start: ('select' | 'SELECT') a=NAME ('from' | 'FROM' | 'From') b=NAME ['where' c=NAME] NEWLINE { (a, b, c) }\n",
            "helpers": "start: a=(x=NAME ',' { x })* b=(y=NAME ';' { y })+ c=[z=NUMBER '.' { z }] ('if' | \"match\" | 'IF') ','.NAME+ NEWLINE { (a, b, c) }\nother: \"case\" NAME | 'If' NUMBER | &'if' start\n",
        }
        for gname, gtext in probes.items():
            gfile = tmp / f"{gname}.gram"
            gfile.write_text(gtext)
            outs = {}
            for seed in ["0", "1", "2", "3", "5", "7"] if tier == "quick" else [str(k) for k in range(16)]:
                o = tmp / f"{gname}_{seed}.py"
                pr = regenerate(o, grammar=gfile, hashseed=seed)
                o3 = tmp / f"{gname}_pegen_{seed}.py"
                pr3 = subprocess.run([PY, "-m", "pegen", str(gfile), "-o", str(o3), "-q"], env=dict(os.environ, PYTHONPATH=str(REPO), PYTHONHASHSEED=seed), capture_output=True, text=True, timeout=120, cwd=str(REPO))
                programs += 2
                outs[seed] = (o.read_text() if pr.returncode == 0 and o.exists() else "ERR:" + pr.stderr[-300:], o3.read_text() if pr3.returncode == 0 and o3.exists() else "ERR:" + pr3.stderr[-300:])
            rep.case(("probe-grammar", gname), True)
            for which, label in ((0, "tasks/generator.py"), (1, "python -m pegen")):
                texts = {sd: v[which] for sd, v in outs.items()}
                if len(set(texts.values())) > 1:
                    a, b = sorted(texts)[0], next(sd for sd in sorted(texts) if texts[sd] != texts[sorted(texts)[0]])
                    import difflib

                    dl = [ln for ln in difflib.unified_diff(texts[a].splitlines(), texts[b].splitlines(), lineterm="", n=0)][:12]
                    rep.violation(f"C16 {label} is not deterministic across hash seeds on grammar '{gname}' (PYTHONHASHSEED={a} vs {b}): {short(' | '.join(dl[2:6]), 140)}",
                                  {"property": "C16", "generator": label, "grammar": gtext, "hashseeds": [a, b], "diff": dl})
        prevm = None
        for i, seed in enumerate(seeds):
            out = tmp / f"meta_{i}.py"
            pr = regen_meta(out, seed)
            programs += 1
            if pr.returncode != 0:
                rep.violation(f"C16 metagrammar generation step fails: {short(pr.stderr[-200:], 150)}", {"property": "C16", "step": "python -m pegen pegen/metagrammar.gram", "stderr": pr.stderr[-2000:]})
                continue
            got = norm_module(out)
            d = diff_methods(got, shipped_meta)
            rep.case(("metagrammar.gram", seed, i), True)
            rep.count(f"metagrammar.gram:defs={len(got)}")
            if d:
                checked += len(d)
                rep.violation(f"C16 shipped pegen/grammar_parser.py differs from what pegen/metagrammar.gram generates (PYTHONHASHSEED={seed}): {d[:6]}", {"property": "C16", "pair": "pegen/metagrammar.gram -> pegen/grammar_parser.py", "hashseed": seed, "differing": d[:50]})
            if prevm is not None and got != prevm:
                rep.violation("C16 metagrammar generation not deterministic", {"property": "C16", "differing": diff_methods(got, prevm)[:50]})
            prevm = got
            if len(samples) < 4:
                samples.append({"pair": "metagrammar.gram", "hashseed": seed, "defs": len(got), "differing": d[:3]})
    finally:
        shutil.rmtree(tmp, ignore_errors=True)
    rep.samples = samples
    rep.extra.update({"programs": programs, "disagreements_checked": checked})


def _find(path, name):
    try:
        t = ast.parse(Path(path).read_text())
    except Exception:  # noqa: BLE001
        return None
    for n in ast.walk(t):
        if isinstance(n, (ast.FunctionDef, ast.AsyncFunctionDef)) and n.name == name:
            return n
        if isinstance(n, ast.Assign) and isinstance(n.targets[0], ast.Name) and n.targets[0].id == name:
            return n
    return None
