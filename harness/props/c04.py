"""C04 oracle search: every returned tree compiles and is structurally well-formed."""
from __future__ import annotations

import ast
import warnings

from harness import asdl, impl
from harness.common import quick_scale, rng, short
from harness.gen import corpus, mutate, pyprog, xonshgen

warnings.filterwarnings("ignore")

STORE_FIELDS = {
    ("Assign", "targets"), ("AugAssign", "target"), ("AnnAssign", "target"), ("For", "target"), ("AsyncFor", "target"),
    ("withitem", "optional_vars"), ("comprehension", "target"), ("NamedExpr", "target"), ("TypeAlias", "name"),
}


def structural(tree, src):
    """Structural walk: spans complete, start<=end, inside the text; list fields are lists; contexts."""
    lines = impl._split_lines(src)
    nlines = len(lines)
    problems = []

    def ctx_check(node, want, path):
        if isinstance(node, (ast.Name, ast.Attribute, ast.Subscript, ast.Starred, ast.List, ast.Tuple)):
            c = type(getattr(node, "ctx", None)).__name__
            if c != want:
                problems.append(f"{path}: ctx {c} expected {want}")
            if isinstance(node, (ast.List, ast.Tuple)):
                for i, e in enumerate(node.elts or []):
                    ctx_check(e, want, f"{path}.elts[{i}]")
            elif isinstance(node, ast.Starred):
                ctx_check(node.value, want, path + ".value")

    for node in ast.walk(tree):
        cls = type(node)
        doc_fields = node._fields
        for f in doc_fields:
            if not hasattr(node, f):
                # optional fields may be absent only if '?' kind; compile() decides. list fields must exist.
                continue
            v = getattr(node, f)
            if isinstance(v, tuple):
                problems.append(f"{cls.__name__}.{f} is a tuple")
            if isinstance(v, list):
                for x in v:
                    if isinstance(x, (tuple, list)):
                        problems.append(f"{cls.__name__}.{f} holds a {type(x).__name__}")
        problems.extend(asdl.type_problems(node))
        for f in asdl.list_fields(cls.__name__):
            if hasattr(node, f) and not isinstance(getattr(node, f), list):
                problems.append(f"{cls.__name__}.{f} is {type(getattr(node, f)).__name__}, not a list")
        if isinstance(node, (ast.stmt, ast.expr)):
            a = [getattr(node, k, None) for k in ("lineno", "col_offset", "end_lineno", "end_col_offset")]
            if any(not isinstance(x, int) or isinstance(x, bool) for x in a):
                problems.append(f"{cls.__name__} incomplete span {a}")
            else:
                l0, c0, l1, c1 = a
                if (l0, c0) > (l1, c1):
                    problems.append(f"{cls.__name__} span start>end {a}")
                # inside the text: both ends on lines that exist, columns within the line's content (terminator excluded)
                if l0 < 1 or c0 < 0 or l1 > nlines or l0 > nlines:
                    problems.append(f"{cls.__name__} span outside text {a} nlines={nlines}")
                else:
                    if c0 > len(lines[l0 - 1].rstrip("\r\n")):
                        problems.append(f"{cls.__name__} start col beyond line {a}")
                    if c1 > len(lines[l1 - 1]):  # (a raw macro argument may end after its line's terminator)
                        problems.append(f"{cls.__name__} end col beyond line {a}")
        for (cn, fn) in STORE_FIELDS:
            if cls.__name__ == cn and hasattr(node, fn):
                v = getattr(node, fn)
                for i, t in enumerate(v if isinstance(v, list) else [v]):
                    if t is not None:
                        ctx_check(t, "Store", f"{cn}.{fn}[{i}]")
        if cls is ast.Delete:
            for i, t in enumerate(node.targets):
                ctx_check(t, "Del", f"Delete.targets[{i}]")
    # everything not reached by a Store/Del rule must be Load: check via compile below (compile validates ctx)
    return problems[:5]


def check_one(src: str, mode: str = "exec", variant: str = "shipped"):
    tree, o = impl.parse_tree(src, mode, variant=variant)
    if tree is None:
        return {"skip": "rejected", "k": o.get("k")}
    probs = structural(tree, src)
    cmode = "exec" if mode == "exec" else "eval"
    try:
        compile(tree, "<verif>", cmode)
    except (TypeError, ValueError) as e:
        return {"kind": "malformed", "exc": type(e).__name__, "msg": str(e)[:200], "structural": probs}
    except SyntaxError as e:
        # acceptable only if the written-out Python is rejected too
        try:
            text = ast.unparse(tree)
        except Exception as e2:  # noqa: BLE001
            return {"kind": "unparse-failed", "msg": str(e2)[:200]}
        try:
            compile(text, "<verif-unparsed>", cmode)
        except SyntaxError:
            if probs:
                return {"kind": "structural", "problems": probs}
            return {"ok": "semantic-reject-both"}
        except (ValueError, RecursionError):
            return {"ok": "unparse-compile-other"}
        return {"kind": "semantic-mismatch", "msg": e.msg, "unparsed": text[:200]}
    except RecursionError:
        return {"skip": "recursion"}
    if probs:
        return {"kind": "structural", "problems": probs}
    return {"ok": "compiles"}


def build_inputs(tier):
    r = rng("C04")
    N = quick_scale() if tier == "quick" else 25
    cases = []
    for s in corpus.PY_STMTS:
        cases.append(("py", s, "exec"))
    for s in corpus.PY_EXPRS:
        cases.append(("py", s, "eval"))
    for s in corpus.arg_order_variants() + corpus.string_prefix_variants():
        cases.append(("source-form", s, "exec"))  # orders ast.unparse never writes (a starred argument after a keyword, ...)
    for s in xonshgen.XONSH_STMTS:
        cases.append(("xonsh-stmt", s, "exec"))
    # path literals / search paths / env lookups in match patterns and subjects (witness of KF-C04-path-literal-in-pattern and neighbours)
    for pat in ["p'a'", "{p'a': 1}", "p'a' | 'b'", "C(p'a')", "[p'a', *r]", "'a' | 'b'", "{'k': v}", "C(x='s')"]:
        cases.append(("match-pattern", f"match x:\n  case {pat}: pass\n", "exec"))
    for subj in ["p'a'", "`a*`", "$X", "$(ls)", "pf'{d}/x'"]:
        cases.append(("match-subject", f"match {subj}:\n  case y: pass\n", "exec"))
    for x, _t, _k in corpus.xonsh_pairs():
        cases.append(("xonsh-pair", x + "\n", "exec"))
    for s in corpus.FSTRINGS:
        cases.append(("fstring", "x = " + s.replace("\n", "\n") + "\n", "exec"))
    # empty / edge targets (the anchored mechanism: optional sequences into list fields)
    for s in ["() = x\n", "[] = x\n", "del ()\n", "del []\n", "for () in x: pass\n", "for [] in x: pass\n", "[1 for () in y]\n", "with a as (): pass\n", "with a as []: pass\n", "(a, [], ()) = z\n", "del (a, [b, ()])\n", "f()\n", "f(*a)\n", "class A(): pass\n", "def f(): pass\n", "lambda: 0\n", "x[()]\n", "x = ()\n", "[] \n", "{}\n", "print(*[], **{})\n", "def f(*a: *T): pass\n", "for $X, ${y} in z: pass\n", "($A, $B) = 1, 2\n", "[$A, *$B] = q\n", "with a as $V, b as ${w}: pass\n", "x = [$I for $I in r]\n", "$(x?)\n", "$(ls a?? b)\n", "x?.y?\n"]:
        cases.append(("edge", s, "exec"))
    # xonsh constructs written over several lines (inside brackets, after a backslash) and string-literal ${..} targets
    for s in ["print(    os?\n  .path?)\n", "x = (range?\n .index??\n    .real?)\n", "y = [a?.b?\n,  c??]\n", "z = os?\\\n.path?\n", "f(  $HOME\n, ${'A'\n 'B'})\n", "v = ($(ls\n -l),\n   !(echo\n a))\n",
              "w = (`a.*`\n,\n p'/x'\n / 'y')\n", "${'X'} = 1\n", "${'A' 'B'}, c = 1, 2\n", "for ${'X'} in z: pass\n", "with f as ${'FH'}: pass\n", "[i for ${'K'} in z]\n", "(${'X'}) = 1\n", "*${'X'}, y = 1, 2\n",
              "${'X'}: int = 1\n" if False else "q = ${'X'}\n", "a = (b\n  and $X\n  || ${'Y'}\n  && c)\n"]:
        cases.append(("edge-multiline", s, "exec"))
    # implicit concatenations whose pieces span lines (spans of the merged literal parts): the C10 family, and call macros laid
    # out over several lines (spans of the raw-argument constants)
    from harness.props import c10 as _c10

    for c in _c10.build_inputs(tier):
        if c[0] in ("concat-multiline", "multiline-field", "spec-then-continuation"):
            cases.append(("string-concat", c[1], c[2]))
    for s in ["f!(x,\n   y)\n", "f!(x\n)\n", "r = g!(\n  a,\n  b\n)\n", "f!(\n x)\n", "h!(a, (b,\n c), d)\n", "x = f'{a} b' \'\'\'c\nd\'\'\'\n", "x = ('p'\n  f'q{r}'\n  \'\'\'s\nt\'\'\')\n"]:
        cases.append(("multiline-macro", s, "exec"))
    for i in range(250 * N):
        g = pyprog.gen_program(r, fstrings=True, maxdepth=3, nstmts=r.randint(1, 3))
        if g:
            cases.append(("gen", g[0], "exec"))
    # xonsh constructs in expression/target positions of Python contexts
    ctxs = ["x = {}\n", "f({}, k={})\n", "y = [{} for i in z if {}]\n", "if {}:\n    pass\n", "return_ = lambda: {}\n", "w = {}.attr[{}]\n", "assert {}, {}\n", "for i in {}:\n    pass\n", "with {} as v:\n    pass\n", "d = {{{}: {}}}\n", "q = {} if {} else {}\n", "async def g():\n    await {}\n", "z = ({}, *{})\n", "s = f'{{{}}}'\n", "t = a[{}:{}]\n", "raise {} from {}\n", "@dec({})\ndef h(): pass\n", "class K({}): pass\n", "print({}, end={})\n", "m = -{} ** 2 + ~{}\n", "n = not {}\n", "o = a < {} <= b\n", "yield_ = [({})]\n"]
    for i in range(400 * N):
        ctx = r.choice(ctxs)
        n = ctx.count("{}")
        fills = []
        for _ in range(n):
            k, x, t, lvl = xonshgen.gen_construct(r)
            fills.append(f"({x})" if lvl == "bool" and r.random() < 0.7 else x)
        # format with literal braces kept
        out = ctx
        for f in fills:
            out = out.replace("{}", f.replace("{", "\x01").replace("}", "\x02"), 1)
        out = out.replace("{{", "{").replace("}}", "}").replace("\x01", "{").replace("\x02", "}")
        cases.append(("xonsh-ctx", out, "exec"))
    for i in range(100 * N):
        x, fn, args = xonshgen.gen_call_macro(r)
        cases.append(("macro", f"r = {x}\n", "exec"))
        s, _, _ = xonshgen.gen_with_macro(r)
        cases.append(("macro", s + "after = 1\n", "exec"))
        x, *_ = xonshgen.gen_proc_macro(r)
        cases.append(("macro", x + "\n", "exec"))
        x, t, _ = xonshgen.gen_subproc(r)
        cases.append(("subproc", f"v = {x}\n", "exec"))
    from harness.props import c06 as _c06

    for kind, text, _ranges, _k in _c06.build_inputs("quick" if tier == "quick" else "thorough"):
        if kind == "composite":
            cases.append(("glued", f"v = {text}\n", "exec"))
    for s in ["$(tar czf out.tgz --files=@([n for n in names\n  if n]))\n", "$(echo pre@(x)suf @(y)z a@(b\n))\n", "$(echo @(a)@(b))\n", "$(echo $A@(b))\n", "$(echo @(a)$B)\n", "![x=@(1)@(2)y]\n", "(a.b) = 1\n", "*a.b, c = x\n", "del (a.b)\n", "($PATH) = []\n", "*$REST, last = parts\n", "with open(f) as ($FH): pass\n", "(a[0]) = (b.c) = 2\n", "for (x.y) in z: pass\n", "del (a[0]), (b.c)\n", "[(a.b), *(c[0])] = q\n"]:
        cases.append(("edge", s, "exec"))
    for rc in corpus.regress("C04"):
        cases.insert(0, ("regress", rc["src"], rc.get("mode", "exec")))
    return cases


def classify(src, o):
    import re

    if "patterns may only match literals" in str(o.get("msg")) and re.search(r"(?i)\bcase\b[^\n]*\b[rf]?p[rf]?['\"]", src):
        return "KF-C04-path-literal-in-pattern"
    if "starred" in str(o.get("msg")) and re.search(r"\)[$@!]|\$\w+@\(|\}@\(|\$\w+[$!]\(|[\]\)]@", src):
        return "KF-C04-glued-starred-piece"
    return None


def run(rep, tier, pool, variants=("shipped",)):
    rep.rule = (
        "accepted inputs from: Python snippet pools and ASDL-directed programs (with f-strings), every xonsh statement form, "
        "xonsh constructs substituted into 23 Python contexts (expression and binding-target positions), macros, subprocesses, "
        "empty/edge binding targets; oracle: compile(tree) raises no TypeError/ValueError, SyntaxError only if compile(ast.unparse(tree)) "
        "raises one too, plus a structural walk (complete int spans, start<=end inside the text, list fields are lists, Store/Del contexts); "
        "non-trivial = the parser accepted the input; distinct by text"
    )
    cases = build_inputs(tier)
    for variant in variants:
        res = pool.call("harness.props.c04:check_one", [(s, m, variant) for _, s, m in cases], timeout=30)
        for (kind, src, mode), o in zip(cases, res):
            if o.get("skip"):
                rep.case(src, False)
                rep.count(f"{kind}:skip-{o['skip']}")
                continue
            rep.case(src, True, sample={"src": src[:100]} if kind in ("xonsh-ctx", "edge") else None)
            if o.get("ok"):
                rep.count(f"{kind}:{o['ok']}")
                continue
            if o.get("k") in ("hang", "crash", "worker-exc", "not-run"):
                rep.count("infra:" + o["k"])
                continue
            fid = classify(src, o)
            if fid:
                rep.known(fid, short(src, 60))
                continue
            rep.violation(f"C04 {o.get('kind')}: {short(o.get('msg') or o.get('problems'), 100)} on {short(src, 80)}", {"property": "C04", "input": src, "mode": mode, "observed": o, "variant": variant, "oracle": "compile(tree) + structural walk"})
