"""C14 oracle search: parse(A+B).body == parse(A).body ++ shift(parse(B).body)."""
from __future__ import annotations

import ast

from harness import impl
from harness.common import quick_scale, rng, short
from harness.gen import corpus, pyprog, xonshgen


def shift(tree, n):
    for node in ast.walk(tree):
        if hasattr(node, "lineno") and node.lineno is not None:
            node.lineno += n
        if getattr(node, "end_lineno", None) is not None:
            node.end_lineno += n
    return tree


def check_seq(parts, variant="shipped"):
    whole = "".join(parts)
    tw, ow = impl.parse_tree(whole, "exec", variant=variant)
    bodies = []
    off = 0
    for p in parts:
        t, o = impl.parse_tree(p, "exec", variant=variant)
        if t is None:
            if tw is not None and impl.cpython_parse(p).get("k") == "tree":
                # a complete Python statement sequence (CPython's verdict) that is refused alone but accepted with more
                # text after it: what follows changed how the part itself is read
                return {"kind": "part-rejected-alone-but-accepted-in-sequence", "part": p, "alone": {k: v for k, v in o.items() if k in ("k", "cls", "msg", "lineno", "offset")}}
            return {"skip": "part-rejected", "part": p[:60]}
        bodies.extend(shift(t, off).body)
        off += p.count("\n")
    if tw is None:
        return {"kind": "concatenation-rejected", "outcome": {k: v for k, v in ow.items() if k in ("k", "cls", "msg", "lineno", "offset")}}
    exp = ast.Module(body=bodies, type_ignores=[])
    d = impl.ast_diff(tw, exp)
    if d:
        return {"kind": "bodies-differ", "diffs": d[:3]}
    return {"ok": True, "n": len(bodies)}


def statement_pool(r, tier):
    pool = list(xonshgen.XONSH_STMTS) + list(corpus.PY_STMTS)
    pool += ["w = p'/opt/' pf'{name}/bin'\n", "s = 'plain'\n", "![reset!]\n", "![cd! ]\n", "f!(x, [1, 2] y)\n", "print!(some raw text)\n", "with! ctx as c:\n    body line\n", "with! a:\n    # c\n    b\n\n    c\n", "$(echo! x)\n", "v = f!(a[0])\n", "pf'{a}'\n", "x = f'{y}' 'z'\n", "$[ls] ; t = 1\n", "q = `a.*` + g`b*`\n", "h?\n", "h??\n", "a && b || c\n", "with! m: one liner\n", "if $X:\n    $(ls)\nelse:\n    ![pwd]\n", "def f():\n    return !(x)\n", "x = '''a\nb'''\n", "y = (1,\n  2)\n", "z = 1 \\\n  + 2\n", "# just a comment\n", "\n", "x = 1  # trailing\n", "class K:\n    '''doc'''\n\n    def m(self): pass\n"]
    # statements whose LAST physical line is special: a continuation inside brackets in an indented block, a lone form feed
    # line, a block ending inside a multi-line token, trailing blank/comment lines (what the tokenizer carries across lines)
    pool += ["if x:\n    y = (1, \\\n         2)\n", "if x:\n    y = [1,\n  2]\n", "def f():\n    pass\n\x0c\n", "a = [1,\x0c 2]\n", "while c:\n    s = '''a\n  b'''\n",
             "if x:\n    y = f'''{a + \\\n b}'''\n", "if x:\n    y = f'''{a}\n{b}'''\n", "for i in j:\n    k = 1 \\\n        + 2\n", "if x:\n    y = {1:\n 2}\n", "def g():\n    return (\n)\n",
             "if x:\n    pass\n    # trailing comment\n", "if x:\n    pass\n\n\n", "with a:\n    b = $(ls \\\n -l)\n" if False else "if q:\n    r = (1 +\n# c\n 2)\n"]
    from harness.gen import mutate

    for i, s in enumerate(corpus.PY_STMTS):
        lay = ("backslash", "formfeed", "tabs", "comments")[i % 4]
        pool.append(mutate.layout(s, lay, r))
    for _ in range(40 if tier == "quick" else 600):
        g = pyprog.gen_program(r, fstrings=True, maxdepth=3, nstmts=1)
        if g:
            pool.append(g[0])
    for _ in range(30 if tier == "quick" else 300):
        s, _c, _b = xonshgen.gen_with_macro(r)
        pool.append(s)
        x, _f, _a = xonshgen.gen_call_macro(r)
        pool.append(x + "\n")
        x, *_ = xonshgen.gen_proc_macro(r)
        pool.append(x + "\n")
        x, _t, _k = xonshgen.gen_subproc(r)
        pool.append(f"r = {x}\n")
    return pool


def run(rep, tier, pool, variants=("shipped",)):
    rep.rule = (
        "sequences of 2-4 complete statements drawn (any order, with repetition) from Python statements and every xonsh statement form "
        "(subprocesses, env assignments, call/with/subprocess macros incl. empty ones, path literals incl. pf-strings, help, search paths), "
        "generated macros/subprocesses and ASDL-directed statements; oracle (the relation itself, on the implementation): parse(A+B).body == "
        "parse(A).body ++ line-shifted parse(B).body, dumped with positions; non-trivial = every part parses alone; distinct by concatenated text"
    )
    r = rng("C14")
    stmts = statement_pool(r, tier)
    n = 1500 * quick_scale() if tier == "quick" else 60000
    cases = []
    # every statement followed by a fixed plain probe (leaks from a construct into the following code)
    probes = ["s = 'plain'\n", "x = 1\n", "t = ' a  b '\n", "f!(k)\n", "$(ls -l)\n", "if a:\n    b\n"]
    for s in stmts:
        for p in probes[: (3 if tier == "quick" else 6)]:
            cases.append([s, p])
    for _ in range(n):
        k = r.choice([2, 2, 3, 4])
        cases.append([r.choice(stmts) for _ in range(k)])
    # long sequences: anything whose behaviour depends on how much was parsed before (table sizes, counters, depth)
    callheavy = "".join(f"r{i} = f(a[{i}], g(b, c=h(d)), [e for e in k if e], {{m: n}})\n" for i in range(40))
    for na in (range(2810, 3100, 48) if tier == "quick" else range(2500, 6000, 23)):
        cases.append(["x = 1\n" * na, callheavy])
    for variant in variants:
        res = pool.call("harness.props.c14:check_seq", [(c, variant) for c in cases], timeout=60)
        for c, o in zip(cases, res):
            ident = "".join(c)
            if o.get("skip") or o.get("k") in ("hang", "crash", "worker-exc", "not-run"):
                rep.case(ident, False)
                rep.count("skip:" + str(o.get("skip") or o.get("k")))
                continue
            rep.case(ident, True, sample={"parts": [p[:40] for p in c]} if len(rep.samples) < 6 else None)
            rep.count(f"len:{len(c)}")
            if o.get("ok"):
                continue
            # shrink to a failing adjacent pair if possible
            best = c
            for i in range(len(c) - 1):
                o2 = check_seq(c[i : i + 2], variant)
                if o2.get("kind"):
                    best, o = c[i : i + 2], o2
                    break
            if len(best) > 1 and "with!" in best[0] and (best[1].lstrip(" \t").startswith("#") or not best[1].strip()):
                rep.known("KF-C14-comment-after-with-macro", f"comment/blank lines right after a with-macro block are captured into its body: {short(best[0], 30)} + {short(best[1], 20)}")
                continue
            rep.violation(f"C14 {o.get('kind')}: {short(o.get('diffs') or o.get('outcome'), 100)} on A={short(best[0], 40)} B={short(best[1] if len(best) > 1 else '', 40)}", {"property": "C14", "parts": best, "input": "".join(best), "observed": o, "variant": variant})
