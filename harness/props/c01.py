"""C01 oracle search: parse_string(src) == ast.parse(src) (types, fields, spans) on pure-Python sources."""
from __future__ import annotations

import ast
import re

from harness import impl
from harness.common import quick_scale, rng, short
from harness.gen import corpus, mutate, pyprog

XONSH_LEXEME = re.compile(r"[$?`!]|&&|\|\||@\(")


def in_domain(src: str) -> bool:
    if "\x00" in src or "﻿" in src or "@(" in src:
        return False
    return True


def code_has_xonsh_lexeme(src: str) -> bool:
    """Token-level check using CPython's tokenizer: any OP/ERRORTOKEN carrying a xonsh-only lexeme, or p-strings."""
    import io
    import tokenize as pt

    try:
        for t in pt.generate_tokens(io.StringIO(src).readline):
            if t.type in (pt.OP, pt.ERRORTOKEN) and t.string in ("$", "?", "`", "!", "&&", "||"):
                return True
            if t.type == pt.ERRORTOKEN and t.string.strip():
                return True
    except (pt.TokenError, SyntaxError, IndentationError):
        return True
    return False


def check_one(src: str, mode: str, variant: str = "shipped"):
    """Worker: returns None if equal, else a dict describing the first differences."""
    try:
        ref = ast.parse(src, mode="exec" if mode == "exec" else "eval")
    except (SyntaxError, ValueError, RecursionError, MemoryError):
        return {"skip": "cpython-rejects"}
    if any(isinstance(n, ast.JoinedStr) for n in ast.walk(ref)):
        # f-string VALUES are C10's business (known findings there); what is compared here is where each f-string literal
        # (a JoinedStr that is not a format spec) starts and ends - ASCII sources only (KF-C01-nonascii-columns)
        if not src.isascii():
            return {"skip": "fstring"}
        tree, o = impl.parse_tree(src, mode, variant=variant)
        if tree is None:
            from harness.props import c10 as _c10r

            if o.get("k") == "err" and not _c10r.known_class(src) and "\r" not in src:
                return {"kind": "rejected", "outcome": {k: v for k, v in o.items() if k != "dump"}}
            return {"skip": "fstring"}

        def spans(t):
            specs = {id(n.format_spec) for n in ast.walk(t) if isinstance(n, ast.FormattedValue) and n.format_spec is not None}
            return [(n.lineno, n.col_offset, n.end_lineno, n.end_col_offset) for n in ast.walk(t) if isinstance(n, ast.JoinedStr) and id(n) not in specs]

        a, b = spans(tree), spans(ref)
        if len(a) == len(b) and sorted(a) != sorted(b):
            return {"kind": "diff", "diffs": [("JoinedStr spans", sorted(a)[:4], sorted(b)[:4])]}
        # ... and the program AROUND the f-strings: with every f-string literal replaced by a placeholder the two trees have the
        # same structure (which block each statement belongs to, what follows the literal); inputs of a known C10 class are left to C10
        from harness.props import c10 as _c10k

        if not _c10k.known_class(src):
            class _Mask(ast.NodeTransformer):
                def visit_JoinedStr(self, n):
                    return ast.copy_location(ast.Constant(value="<f-string>"), n)

            d = impl.ast_diff(_Mask().visit(tree), _Mask().visit(ref), with_attrs=False)
            if d:
                return {"kind": "diff", "diffs": [("around f-strings",) + tuple(d[:2])]}
        return {"skip": "fstring"}
    tree, o = impl.parse_tree(src, mode, variant=variant)
    if tree is None:
        out = {"kind": "rejected", "outcome": {k: v for k, v in o.items() if k != "dump"}}
        import re as _re0

        if o.get("k") == "err" and _re0.search(r"\r(?!\n)", src):
            out["class"] = "lone-cr"  # CPython reads a bare CR as a line end; here it is an ERRORTOKEN (KF-C08-lone-cr)
        elif o.get("k") == "err" and any(("a" + ch).isidentifier() and not _re0.match(r"\w", ch) for ch in set(src) if ord(ch) > 127):
            out["class"] = "other-id-chars"  # Other_ID_Start / Other_ID_Continue / marks: `Name = \w+`
        return out
    diffs = impl.ast_diff(tree, ref)
    if not diffs:
        return None
    # known class: a line that holds nothing but a continuation backslash (its indentation rule is CPython's own: KF-C02-backslash-only-line)
    import re as _re

    if _re.search(r"(^|\n)[ \t\f]*\\\r?\n[ \t\f]", src):
        return {"kind": "diff", "class": "backslash-only-line", "diffs": diffs[:3]}
    # known class: identifiers are not NFKC-normalised (CPython normalises every identifier)
    if not src.isascii():
        import unicodedata as _ud

        ref3 = impl.byte_cols_to_char_cols(ast.parse(src, mode="exec" if mode == "exec" else "eval"), src)
        d3 = impl.ast_diff(tree, ref3)
        if d3 and all(len(d) == 3 and isinstance(d[1], str) and isinstance(d[2], str) and _ud.normalize("NFKC", d[1]) == d[2] and d[1] != d[2] for d in d3):
            return {"kind": "diff", "class": "nfkc-identifier", "diffs": diffs[:3]}
    # known class: character vs UTF-8 byte columns
    if not src.isascii():
        ref2 = impl.byte_cols_to_char_cols(ast.parse(src, mode="exec" if mode == "exec" else "eval"), src)
        if not impl.ast_diff(tree, ref2):
            return {"kind": "diff", "class": "nonascii-columns", "diffs": diffs[:3]}
    return {"kind": "diff", "diffs": diffs[:4]}


def nesting_ok(src: str, limit=50) -> bool:
    d = m = 0
    for ch in src:
        if ch in "([{":
            d += 1
            m = max(m, d)
        elif ch in ")]}":
            d -= 1
    return m <= limit


def build_inputs(tier: str):
    r = rng("C01", "gen")
    cases = []  # (ident, src, mode, tags)
    nprog = 300 * quick_scale() if tier == "quick" else 6000
    for i in range(nprog):
        g = pyprog.gen_program(r, fstrings=False, maxdepth=3 if i % 3 else 4, nstmts=r.randint(1, 3))
        if not g:
            continue
        src, used = g
        lay = mutate.LAYOUTS[i % len(mutate.LAYOUTS)]
        cases.append((f"gen{i}:{lay}", mutate.layout(src, lay, r), "exec", ["gen", lay] + sorted(used)))
    for i in range(nprog // 2):
        g = pyprog.gen_expression(r, fstrings=False)
        if g:
            cases.append((f"expr{i}", g[0], "eval", ["expr"] + sorted(g[1])))
    for i, s in enumerate(corpus.PY_STMTS):
        for lay in mutate.LAYOUTS:
            cases.append((f"stmt{i}:{lay}", mutate.layout(s, lay, r), "exec", ["snippet", lay]))
    for i, s in enumerate(corpus.arg_order_variants() + corpus.string_prefix_variants()):
        cases.append((f"srcform{i}", s, "exec", ["source-form"]))
    from harness.props import c09 as _c09

    for i, (k, s) in enumerate(c for c in _c09.build_inputs(tier) if c[0] == "indent"):
        cases.append((f"indent{i}", s, "exec", ["indent"]))  # blanks, tabs and form feeds in the indentation
    for i, s in enumerate(corpus.string_mixes() + corpus.pattern_spellings()):
        cases.append((f"mix{i}", s, "exec", ["source-form"]))
    for i, s in enumerate(["if a:\n  b\n\\\n  c\n", "def f():\n    x = 1\n\\\n    return x\n", "\u210c = 1\n", "x = \ufb01le\n", "def \u2102(\u2115): return \u2115\n", "import \u1d2c as \uff42\n",
                           "x = 1\ry = 2\n", "x = 1\r", "a\u00b7b = 1\n", "\u2118 = 1\n"]):
        cases.append((f"kfwitness{i}", s, "exec", ["kf-neighbourhood"]))
    from harness.props import c10 as _c10

    for i, c in enumerate(c for c in _c10.build_inputs(tier) if c[0] in ("pool", "concat-multiline", "spec-then-continuation", "multiline-field")):
        cases.append((f"fstring-span{i}", c[1], c[2], ["fstring-span"]))
    for i, s in enumerate(["x = '' f'{y}'\n", "x = f'{y}' ''\n", "print(f'{a}: {b}'\n      '')\n", "x = ('' ''\n f'{y}'\n '')\n", "x = f'' ''\n", "x = 'a' f'{y}' 'b'\n"]):
        cases.append((f"fstring-span-edge{i}", s, "exec", ["fstring-span"]))
    for i, s in enumerate(corpus.FINAL_LINE_FORMS):
        cases.append((f"finalline{i}", s, "exec", ["final-line"]))
    for i, s in enumerate(corpus.PY_EXPRS):
        cases.append((f"pexpr{i}", s, "eval", ["snippet-expr"]))
    for name, s in corpus.test_data_files():
        if "fstring" in name:
            continue
        s2 = corpus.strip_fstring_statements(s)
        if s2:
            for lay in ("id", "crlf", "nofinal"):
                cases.append((f"data:{name}:{lay}", mutate.layout(s2, lay, r), "exec", ["testdata", lay]))
    files = corpus.stdlib_files()
    rr = rng("C01", "stdlib")
    pick = files if tier != "quick" else rr.sample(files, 12)
    for name, s in pick:
        if tier == "quick":
            sts = corpus.split_statements(s, 2500)
            for j, st in enumerate(rr.sample(sts, min(8, len(sts)))):
                cases.append((f"stdlib:{name}:{j}", st, "exec", ["stdlib-stmt"]))
        else:
            s2 = corpus.strip_fstring_statements(s)
            if s2 and len(s2) < 120000:
                cases.append((f"stdlib:{name}", s2, "exec", ["stdlib-file"]))
    for rc in corpus.regress("C01"):
        cases.insert(0, ("regress:" + short(rc["src"], 40), rc["src"], rc.get("mode", "exec"), ["regress"]))
    return [c for c in cases if in_domain(c[1]) and nesting_ok(c[1])]


def run(rep, tier, pool, variants=("shipped",)):
    rep.rule = (
        "inputs: ASDL-directed random programs/expressions rendered by ast.unparse x 7 layout mutators, snippet pools, "
        "tests/data, stdlib statements/files (f-string statements masked); oracle: ast.parse of the running CPython, "
        "compared on node types, all fields and all location attributes; non-trivial = CPython accepts, no f-string; "
        "distinct by (ident)"
    )
    cases = build_inputs(tier)
    for variant in variants:
        res = pool.call("harness.props.c01:check_one", [(c[1], c[2], variant) for c in cases], timeout=60)
        for (ident, src, mode, tags), out in zip(cases, res):
            if out is None:
                rep.case(ident, True, sample={"src": src[:120], "mode": mode} if ident.startswith("gen1") else None)
                for t in tags[:2]:
                    rep.count("layout/source:" + t)
                for t in tags[2:]:
                    rep.count("ctor:" + t)
                continue
            if out.get("skip"):
                rep.case(ident, False)
                rep.count("skipped:" + out["skip"])
                continue
            rep.case(ident, True)
            if out.get("k") in ("hang", "crash", "worker-exc", "not-run"):
                rep.violation(f"C01 {out.get('k')} on {short(src, 80)}", {"property": "C01", "input": src, "mode": mode, "observed": out, "variant": variant})
                continue
            if out.get("class") == "backslash-only-line":
                rep.known("KF-C01-backslash-only-line", "a line holding only a continuation backslash does not pass its indentation on (first seen: " + short(src, 60) + ")")
                continue
            if out.get("class") == "nfkc-identifier":
                rep.known("KF-C01-nfkc-identifier", "identifiers are not NFKC-normalised (first seen: " + short(src, 60) + ")")
                continue
            if out.get("class") == "lone-cr":
                rep.known("KF-C01-lone-cr", "a bare CR is not a line end here (first seen: " + short(src, 60) + ")")
                continue
            if out.get("class") == "other-id-chars":
                rep.known("KF-C01-other-id-chars", "identifier characters outside \\w (Other_ID_Start/Continue) are refused (first seen: " + short(src, 60) + ")")
                continue
            if out.get("class") == "nonascii-columns":
                rep.known("KF-C01-nonascii-columns", "AST columns are characters, CPython's are UTF-8 bytes (first seen: " + short(src, 60) + ")")
                continue
            src_min = shrink(src, mode, variant, out)
            rep.violation(
                f"C01 tree differs from ast.parse: {out.get('kind')} {short(out.get('diffs') or out.get('outcome'), 120)} on {short(src_min, 100)}",
                {"property": "C01", "input": src_min, "original_input": src, "mode": mode, "observed": out, "variant": variant, "ident": ident, "oracle": "ast.parse"},
            )


def shrink(src, mode, variant, out0):
    """Statement-level delta debugging (keeps 'still differs')."""
    if mode != "exec":
        return src
    try:
        sts = corpus.split_statements(src, 10**9)
    except Exception:  # noqa: BLE001
        return src
    best = src
    for st in sts:
        try:
            o = check_one(st, mode, variant)
        except Exception:  # noqa: BLE001
            continue
        if o and not o.get("skip") and o.get("class") == out0.get("class"):
            if len(st) < len(best):
                best = st
    return best
