"""C05 oracle search: xonsh sugar in an expression hole == its written-out translation in the same hole."""
from __future__ import annotations

import ast
import copy

from harness import impl
from harness.common import quick_scale, rng, short
from harness.gen import corpus, pyprog, xonshgen

HOLE = "HOLE_xq"


def eligible_names(tree):
    """Load-position Name nodes that are not inside any binding/del target, annotation-target or decorator head."""
    excluded = set()

    def ban(node):
        for n in ast.walk(node):
            excluded.add(id(n))

    for n in ast.walk(tree):
        if isinstance(n, ast.Assign):
            for t in n.targets:
                ban(t)
        elif isinstance(n, (ast.AugAssign, ast.AnnAssign)):
            ban(n.target)
            if isinstance(n, ast.AnnAssign):
                ban(n.annotation)
        elif isinstance(n, ast.Delete):
            for t in n.targets:
                ban(t)
        elif isinstance(n, (ast.For, ast.AsyncFor, ast.comprehension)):
            ban(n.target)
        elif isinstance(n, ast.withitem) and n.optional_vars is not None:
            ban(n.optional_vars)
        elif isinstance(n, ast.NamedExpr):
            ban(n.target)
        elif isinstance(n, (ast.FunctionDef, ast.AsyncFunctionDef, ast.ClassDef)):
            for d in n.decorator_list:
                ban(d)  # 'directly after a decorator's @' - exclude the whole decorator expression head
            for tp in getattr(n, "type_params", []):
                ban(tp)
        elif isinstance(n, ast.TypeAlias):
            ban(n.name)
        elif isinstance(n, ast.match_case):
            ban(n.pattern)
        elif isinstance(n, ast.arg) and n.annotation is not None:
            pass
    return [n for n in ast.walk(tree) if isinstance(n, ast.Name) and isinstance(n.ctx, ast.Load) and id(n) not in excluded]


def make_context(r, maxdepth=3):
    """A Python program text containing exactly one HOLE token at a Load-position."""
    for _ in range(20):
        if r.random() < 0.5:
            g = pyprog.gen_program(r, fstrings=False, maxdepth=maxdepth, nstmts=r.randint(1, 2))
            mode = "exec"
        else:
            g = pyprog.gen_expression(r, fstrings=False, maxdepth=maxdepth)
            mode = "eval"
        if not g:
            continue
        src = g[0]
        tree = ast.parse(src, mode=mode)
        names = eligible_names(tree)
        if not names:
            continue
        n = r.choice(names)
        n.id = HOLE
        try:
            out = ast.unparse(tree)
            ast.parse(out, mode=mode)
        except Exception:  # noqa: BLE001
            continue
        if out.count(HOLE) != 1:
            continue
        if mode == "exec":
            out += "\n"
        return out, mode
    return f"x = {HOLE}\n", "exec"


FIXED_CONTEXTS = [
    ("x = {H}\n", "exec"), ("f({H})\n", "exec"), ("f(k={H})\n", "exec"), ("[{H}, 1]\n", "exec"), ("{H}.attr\n", "exec"), ("{H}[0]\n", "exec"), ("{H}(1)\n", "exec"),
    ("a[{H}]\n", "exec"), ("a[{H}:2]\n", "exec"), ("-{H}\n", "exec"), ("{H} + 1\n", "exec"), ("1 * {H}\n", "exec"), ("{H} ** 2\n", "exec"), ("not {H}\n", "exec"),
    ("{H} if c else d\n", "exec"), ("c if {H} else d\n", "exec"), ("lambda: {H}\n", "exec"), ("[i for i in {H}]\n", "exec"), ("[i for i in z if {H}]\n", "exec"),
    ("{{{H}: 1}}\n", "exec"), ("{{1: {H}}}\n", "exec"), ("{{{H}}}\n", "exec"), ("({H}, )\n", "exec"), ("*{H}, a\n", "exec"), ("a < {H} < b\n", "exec"), ("{H} and b\n", "exec"), ("a or {H}\n", "exec"),
    ("if {H}:\n    pass\n", "exec"), ("while {H}: pass\n", "exec"), ("for i in {H}: pass\n", "exec"), ("with {H}: pass\n", "exec"), ("with {H} as v: pass\n", "exec"),
    ("return_ = (yield {H})\n", "exec"), ("assert {H}\n", "exec"), ("raise {H}\n", "exec"), ("def f(a={H}): pass\n", "exec"), ("def f(a: {H}): pass\n", "exec"), ("def f() -> {H}: pass\n", "exec"),
    ("class A({H}): pass\n", "exec"), ("class A(metaclass={H}): pass\n", "exec"), ("print({H}, *{H2})\n", "exec"), ("async def g():\n    await {H}\n", "exec"),
    ("match {H}:\n    case 1: pass\n", "exec"), ("match a:\n    case 1 if {H}: pass\n", "exec"), ("x = y = {H}\n", "exec"), ("x += {H}\n", "exec"), ("x: int = {H}\n", "exec"),
    ("(w := {H})\n", "exec"), ("{H}", "eval"), ("({H})", "eval"), ("f({H}, {H2})", "eval"), ("[{H}]", "eval"), ("{H}.a.b", "eval"), ("a @ {H}", "eval"), ("a if {H} else b", "eval"),
    ("f({H},\n 1)\n", "exec"), ("a = [{H},\n {H2},\n 3]\n", "exec"), ("b = (p and\n {H} and\n q)\n", "exec"), ("c = {{{H}:\n 1,\n 2: {H2}}}\n", "exec"), ("g(\n{H}\n)\n", "exec"), ("d = f'a{{{H}!r:>10}}b'\n", "exec"),
    ("x = {H}\ny = 'plain'\n", "exec"), ("f({H}, 'plain', \"q\")\n", "exec"), ("a = [{H}, 'p', {H2}, 's']\n", "exec"), ("x = {H}; y = 'after' 'more'\n", "exec"),
    ("x = f'{{{H}}}'\n", "exec"), ("x = f'{{{H}!r:>10}}'\n", "exec"), ("try:\n    pass\nexcept {H}:\n    pass\n", "exec"), ("global_ = {H}; y = {H2}\n", "exec"), ("del a[{H}]\n" if False else "a[{H}]\n", "exec"),
]


def cmp_pair(xsrc, psrc, mode, hole_range=None, variant="shipped"):
    """Compare parse(xonsh program) with ast.parse(translated program), ignoring positions."""
    try:
        ref = ast.parse(psrc, mode="exec" if mode == "exec" else "eval")
    except SyntaxError as e:
        return {"skip": "translation-invalid", "msg": e.msg}
    tree, o = impl.parse_tree(xsrc, mode, variant=variant)
    if tree is None:
        return {"kind": "rejected", "outcome": {k: v for k, v in o.items() if k in ("k", "cls", "msg", "lineno", "offset")}}
    d = impl.ast_diff(tree, ref, with_attrs=False)
    if d:
        return {"kind": "tree-differs", "diffs": d[:3]}
    return {"ok": True}


def span_check(xsrc, mode, construct, root_type, variant="shipped"):
    """The node standing for the construct spans exactly the construct's text."""
    idx = xsrc.find(construct)
    if idx < 0 or xsrc.count(construct) != 1:
        return None
    pre = xsrc[:idx]
    l0 = pre.count("\n") + 1
    c0 = len(pre) - (pre.rfind("\n") + 1)
    l1 = l0 + construct.count("\n")
    c1 = (c0 + len(construct)) if "\n" not in construct else len(construct) - construct.rfind("\n") - 1
    tree, o = impl.parse_tree(xsrc, mode, variant=variant)
    if tree is None:
        return None
    starts = [n for n in ast.walk(tree) if isinstance(n, ast.expr) and getattr(n, "lineno", None) == l0 and n.col_offset == c0 and type(n).__name__ == root_type]
    exact = [n for n in starts if (n.end_lineno, n.end_col_offset) == (l1, c1)]
    if exact:
        return None
    # any node of the root type overlapping the construct region
    near = [(type(n).__name__, n.lineno, n.col_offset, n.end_lineno, n.end_col_offset) for n in ast.walk(tree) if isinstance(n, ast.expr) and type(n).__name__ == root_type and n.lineno == l0][:4]
    return {"kind": "span", "want": (l0, c0, l1, c1), "root_type": root_type, "candidates": near}


def check_case(ctx, mode, fills, variant="shipped"):
    """fills: list of (kind, xonsh, translation, level). ctx has {H} and optionally {H2}."""
    base = ctx.replace("{H2}", "\x03").replace("{H}", "\x04").replace("{{", "{").replace("}}", "}")
    xs = ps = base
    for key, (kind, x, t, lvl) in zip(["\x04", "\x03"], fills):
        xx, tt = (f"({x})", f"({t})") if lvl == "bool" else (x, t)
        xs = xs.replace(key, xx)
        ps = ps.replace(key, tt)
    if "@(" in base:
        return {"skip": "context-has-@(-digraph"}
    out = cmp_pair(xs, ps, mode, variant=variant)
    if out.get("ok") and len(fills) == 1 and "f'" not in ctx:
        kind, x, t, lvl = fills[0]
        try:
            root = type(ast.parse(t, mode="eval").body).__name__
        except SyntaxError:
            root = None
        if root:
            sp = span_check(xs, mode, x, root, variant)
            if sp:
                sp["xsrc"] = xs
                return sp
    out["xsrc"] = xs
    out["psrc"] = ps
    return out


def build_inputs(tier):
    r = rng("C05")
    N = quick_scale() if tier == "quick" else 30
    cases = []
    for x, t, where in corpus.xonsh_pairs():
        cases.append(("pair", "{H}\n" if where == "stmts" else "{H}\n", "exec", [("pair", x, t, "stmt")]))
    for ctx, mode in FIXED_CONTEXTS:
        for _ in range(3 * N):
            fills = [xonshgen.gen_construct(r), xonshgen.gen_construct(r)]
            cases.append(("fixed", ctx, mode, fills[: 2 if "{H2}" in ctx else 1]))
    for _ in range(350 * N):
        c, mode = make_context(r)
        ctx = c.replace("{", "{{").replace("}", "}}").replace(HOLE, "{H}")
        cases.append(("random-ctx", ctx, mode, [xonshgen.gen_construct(r)]))
    # every string-like construct (path literals incl. implicit concatenations, search paths) in front of LATER string literals:
    # whatever state such a literal leaves behind must not reach the next one
    stringish = [("pathlit", "p'/a' pf'/{b}'", "__xonsh__.path_literal(f'/a/{b}')", "primary"), ("pathlit", 'p"/a" "b"', "__xonsh__.path_literal('/ab')", "primary"),
                 ("pathlit", "p'/a' f'/{b}' 'c'", "__xonsh__.path_literal(f'/a/{b}c')", "primary"), ("pathlit", "pf'{x}/' f'{y}' 'z'", "__xonsh__.path_literal(f'{x}/{y}z')", "primary"),
                 ("pathlit", "pf'{x}' pf'{y}'", "__xonsh__.path_literal(f'{x}{y}')", "primary"), ("pathlit", "pf'/tmp/{u}'", "__xonsh__.path_literal(f'/tmp/{u}')", "primary"),
                 ("pathlit", "p'/x'", "__xonsh__.path_literal('/x')", "primary"), ("search", "`a.*`", "__xonsh__.pathsearch('`a.*`')", "primary")]
    for f in stringish:
        for ctx in ["x = {H}\ny = 'plain'\n", "f({H}, 'plain', \"q\")\n", "a = [{H}, 'p', {H2}, 's']\n", "x = {H}; y = 'after' 'more'\n", "def g():\n    return {H}\nz = f'{{q}}' 's'\n", "x = ({H}, f'{{a}}', 'b')\n"]:
            cases.append(("later-string", ctx, "exec", [f, stringish[-2]][: 2 if "{H2}" in ctx else 1]))
    # binding targets with Store context
    for tctx in ["{H} = 1\n", "for {H} in y: pass\n", "with a as {H}: pass\n", "[i for {H} in y]\n", "{H}, b = 1, 2\n", "for a, {H} in y: pass\n", "[{H}, *c] = y\n", "with a as ({H}, b): pass\n", "{H} = b = 3\n", "({H}) = 2\n", "for ({H}) in xs: pass\n", "with f as ({H}): pass\n", "[0 for ({H}) in xs]\n", "[{H}] = y\n", "({H}, b) = y\n", "*{H}, b = y\n" if False else "a, ({H}) = y\n"]:
        for name in ["$X", "${'a'+b}", "${n}", "$HOME", "${'X'}", "${'A' 'B'}", "${ n\n}"]:
            t = "__xonsh__.env['%s']" % name[1:] if name[1] != "{" else "__xonsh__.env[str(%s)]" % name[2:-1].strip()
            cases.append(("target", tctx, "exec", [("target", name, t, "primary")]))
    return cases


def classify(o, fills):
    kinds = {f[0] for f in fills}
    if o.get("kind") == "span" and kinds & {"help", "superhelp"}:
        return "KF-C05-help-span"
    return None


def run(rep, tier, pool, variants=("shipped",)):
    rep.rule = (
        "pairs (context, construct): 60 fixed expression contexts + ASDL-directed random programs with one Load-position hole "
        "(holes never inside binding/del/annotation targets, decorators or patterns) x generated constructs ($NAME, ${e}, 4 subprocess "
        "forms, search paths, p-strings, help/superhelp, &&, ||, nested); oracle: ast.parse of the same context with the documented "
        "translation written out, compared on all fields without positions, plus span(construct node) == construct text range; "
        "binding-target contexts check Store context via the same comparison; vendored tests/data pairs; distinct by program text"
    )
    cases = build_inputs(tier)
    for variant in variants:
        res = pool.call("harness.props.c05:check_case", [(c, m, f, variant) for _, c, m, f in cases], timeout=30)
        for (kind, ctx, mode, fills), o in zip(cases, res):
            ident = o.get("xsrc", ctx + repr(fills))
            if o.get("skip"):
                rep.case(ident, False)
                rep.count("skip:" + o["skip"])
                continue
            rep.case(ident, True, sample={"xonsh": o.get("xsrc", "")[:100], "python": o.get("psrc", "")[:120]} if kind == "random-ctx" else None)
            for f in fills:
                rep.count("construct:" + f[0])
            rep.count("ctx:" + kind)
            if o.get("ok"):
                continue
            if o.get("k") in ("hang", "crash", "worker-exc", "not-run"):
                rep.count("infra:" + o["k"])
                continue
            fid = classify(o, fills)
            if fid:
                rep.known(fid, short(o.get("xsrc"), 60) + " " + short(o.get("want"), 40))
                continue
            rep.violation(f"C05 {o.get('kind')}: {short(o.get('diffs') or o.get('outcome') or o.get('candidates'), 100)} on {short(o.get('xsrc'), 80)}", {"property": "C05", "input": o.get("xsrc"), "translation": o.get("psrc"), "mode": mode, "observed": o, "fills": fills, "variant": variant, "oracle": "ast.parse(context[translation])"})
