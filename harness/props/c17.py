"""C17 oracle search: the project's generator vs reference PEG semantics on random small grammars x all short token strings."""
from __future__ import annotations

import io
import itertools
import sys
import tempfile
import traceback
from pathlib import Path

from harness.common import quick_scale, REPO, rng, short
from harness.gen import grammars as G

if str(REPO) not in sys.path:
    sys.path.insert(0, str(REPO))


def build_parser_class(gtext: str):
    """Run the REAL generator (tasks/generator.py + pegen) on grammar text; returns the generated class."""
    from pegen.grammar_parser import GeneratedParser as GrammarParser
    from pegen.tokenizer import Tokenizer as PegenTokenizer
    import tokenize as pytok

    from tasks.generator import XonshParserGenerator

    tokgen = pytok.generate_tokens(io.StringIO(gtext).readline)
    tokenizer = PegenTokenizer(tokgen)
    parser = GrammarParser(tokenizer)
    grammar = parser.start()
    if not grammar:
        raise SyntaxError("grammar text rejected by pegen's grammar parser")
    out = io.StringIO()
    gen = XonshParserGenerator(grammar, out)
    gen.generate("<random>")
    code = out.getvalue()
    ns: dict = {}
    exec(compile(code, "<generated>", "exec"), ns)  # noqa: S102
    return ns["GenParser"], code, grammar


def canon(v):
    from peg_parser.tokenize import TokenInfo

    if isinstance(v, TokenInfo):
        return v.string
    if isinstance(v, tuple):
        return tuple(canon(x) for x in v)
    if isinstance(v, list):
        return [canon(x) for x in v]
    return v


def run_impl(cls, rule, toks):
    from peg_parser.tokenize import Token, TokenInfo
    from peg_parser.tokenizer import Tokenizer

    tl = [TokenInfo(Token.NAME, s, (1, i), (1, i + 1), "") for i, s in enumerate(toks)]
    tl.append(TokenInfo(Token.ENDMARKER, "", (1, len(toks)), (1, len(toks)), ""))
    tz = Tokenizer(iter(tl))
    p = cls(tz)
    try:
        v = getattr(p, rule)()
    except SyntaxError:
        return ("raise",)
    except RecursionError:
        return ("recursion",)
    if not v:
        return ("fail",)
    return ("ok", canon(v), tz.mark())


def run_ref(grammar, rule, toks):
    ref = G.Ref(grammar, list(toks))
    try:
        v, e = ref.rule(rule, 0)
    except G.Raise:
        return ("raise",)
    except RecursionError:
        return ("recursion",)
    if v is G.FAIL or not v:
        return ("fail",)
    return ("ok", v, e)


def check_grammar(grammar, maxlen=5, limit=3):
    text = G.render(grammar)
    try:
        cls, code, pg = build_parser_class(text)
    except Exception as e:  # noqa: BLE001
        return {"skip": "generator-refused", "err": f"{type(e).__name__}: {e}"[:200], "grammar": text}
    # the generator's own analysis vs ours (informational; a difference means the grammar is outside the well-formed class)
    lr, leaders = G.left_recursion(grammar)
    plr = {n for n, r in pg.rules.items() if r.left_recursive and not n.startswith("_")}
    pleaders = {n for n, r in pg.rules.items() if r.leader and not n.startswith("_")}
    analysis_differs = plr != lr or pleaders != leaders  # not a verdict: the token strings below decide
    bad = []
    n = 0
    reached = {"ok": 0, "fail": 0, "raise": 0}
    for L in range(0, maxlen + 1):
        for toks in itertools.product(grammar.get("tokens", G.TOKENS), repeat=L):
            for r in grammar["rules"]:
                a = run_impl(cls, r["name"], toks)
                b = run_ref(grammar, r["name"], toks)
                n += 1
                if b[0] == "recursion":
                    continue  # the reference ran out of budget: no verdict
                reached[b[0]] = reached.get(b[0], 0) + 1
                if a != b:
                    bad.append({"rule": r["name"], "tokens": list(toks), "generated_parser": repr(a), "reference": repr(b)})
                    if len(bad) >= limit:
                        return {"kind": "semantics-differ", "grammar": text, "cases": bad, "n": n, "code": code[-3000:]}
    if bad:
        return {"kind": "semantics-differ", "grammar": text, "cases": bad, "n": n, "code": code[-3000:]}
    model = model_comparison(grammar, code, cls, min(maxlen, 4))
    if model.get("bad"):
        return {"kind": "model-differs", "grammar": text, "cases": model["bad"][:limit], "n": n, "code": code[-3000:]}
    feats = sorted({k for r in grammar["rules"] for a in r["alts"] for it in a["items"] for k in _kinds(it)})
    return {"ok": True, "n": n, "reached": reached, "features": feats, "leftrec": sorted(lr), "memo": [r["name"] for r in grammar["rules"] if r["memo"]], "grammar": text, "analysis_differs": analysis_differs, "model": {k: v for k, v in model.items() if k != "bad"}}


def model_comparison(grammar, code, cls, maxlen):
    """The generated module translated into the recogniser IR (the translator used for the shipped parser) and run by the
    Lean model through the native driver, against the generated parser itself: accept/fail/raise and the end position
    must be equal on every rule x token string.  {"requests", "undecided", "skipped", "bad": [...]}"""
    import os
    import tempfile

    from harness import corr
    from harness.translate import wire_prog
    from harness.translate.parser_ir import Translator

    if not corr.DRIVER.exists():
        return {"skipped": "driver not built"}
    fd, tmp = tempfile.mkstemp(suffix=".py", prefix="xv_c17_")
    try:
        with os.fdopen(fd, "w") as fh:
            fh.write(code)
        try:
            ir = Translator(__import__("pathlib").Path(tmp)).run()
        except Exception as e:  # noqa: BLE001
            return {"skipped": f"translator: {type(e).__name__}"}
    finally:
        os.unlink(tmp)
    if ir["unmodelled"]:
        return {"skipped": "unmodelled:" + str(ir["unmodelled"][0])[:60]}
    names = [r["name"] for r in ir["rules"]]
    prog = " ".join(wire_prog.w_prog(ir))
    kws = set(ir["keywords"])
    reqs = []
    for L in range(0, maxlen + 1):
        for toks in itertools.product(grammar.get("tokens", G.TOKENS), repeat=L):
            tl = [f"NAME:{ir['strings'].get(t, 10 ** 6)}:{1 if t in kws else 0}:0" for t in toks] + [f"ENDMARKER:{ir['strings'].get('', 10 ** 6)}:0:0"]
            for r in grammar["rules"]:
                if r["name"] in names:
                    reqs.append((r["name"], toks, f"parsep {names.index(r['name'])} 200000 # {prog} ## {' '.join(tl)}"))
    answers = corr.Driver().ask_many([q[2] for q in reqs] + [f"progfacts # {prog} ##"])
    facts = answers.pop()
    bad = []
    undecided = 0
    for (rule, toks, _q), ans in zip(reqs, answers):
        a = run_impl(cls, rule, toks)
        if ans == "undecided":
            undecided += 1
            continue
        want = {"ok": f"ok {a[2]}" if a[0] == "ok" else None, "fail": "fail", "raise": "raised"}.get(a[0])
        if a[0] == "recursion" or want is None:
            continue
        if ans != want:
            bad.append({"rule": rule, "tokens": list(toks), "generated_parser": repr(a), "lean_model_of_generated_code": ans})
    return {"requests": len(reqs), "undecided": undecided, "bad": bad, "nofalsy": "nofalsy=true" in facts, "plain": "plain=true" in facts, "pure": "pure=true" in facts}


def _kinds(it):
    yield it["k"]
    if "x" in it:
        yield from _kinds(it["x"])
    if "sep" in it:
        yield from _kinds(it["sep"])
    if it["k"] == "group":
        for a in it["alts"]:
            for i in a["items"]:
                yield from _kinds(i)


FIXED = [
    # direct left recursion, indirect left recursion, memo inside growth, gather/lookahead/cut/forced, inlined alternatives
    {"rules": [{"name": "r0", "memo": False, "alts": [{"items": [{"k": "rule", "n": "r0", "name": "a"}, {"k": "tok", "s": "a"}, {"k": "rule", "n": "r1", "name": "b"}], "action": "tuple"}, {"items": [{"k": "rule", "n": "r1", "name": "a"}], "action": "tuple"}]}, {"name": "r1", "memo": True, "alts": [{"items": [{"k": "tok", "s": "b"}], "action": None}, {"items": [{"k": "tok", "s": "c"}], "action": None}]}]},
    {"rules": [{"name": "r0", "memo": False, "alts": [{"items": [{"k": "rule", "n": "r1", "name": "a"}, {"k": "tok", "s": "a"}], "action": "tuple"}, {"items": [{"k": "tok", "s": "b"}], "action": None}]}, {"name": "r1", "memo": False, "alts": [{"items": [{"k": "rule", "n": "r0", "name": "a"}, {"k": "tok", "s": "c"}], "action": "tuple"}, {"items": [{"k": "rule", "n": "r0", "name": "a"}], "action": "tuple"}]}]},
    {"rules": [{"name": "r0", "memo": True, "alts": [{"items": [{"k": "gather", "sep": {"k": "tok", "s": "a"}, "x": {"k": "rule", "n": "r1"}, "name": "a"}, {"k": "opt", "x": {"k": "tok", "s": "a"}, "name": "b"}], "action": "tuple"}]}, {"name": "r1", "memo": False, "alts": [{"items": [{"k": "tok", "s": "b"}, {"k": "cut"}, {"k": "tok", "s": "c", "name": "a"}], "action": "tuple"}, {"items": [{"k": "tok", "s": "b"}], "action": None}, {"items": [{"k": "neg", "x": {"k": "tok", "s": "a"}}, {"k": "group", "alts": [{"items": [{"k": "tok", "s": "c"}], "action": None}, {"items": [{"k": "tok", "s": "b"}], "action": None}], "name": "a"}, {"k": "forced", "s": "c"}], "action": "tuple"}]}]},
]


def same_name_family():
    """Alternatives with three to five items that get the SAME default variable name in the generated code (literals,
    calls of one rule, optional literals), with and without actions: the generator must keep them apart."""
    def T(s, name=None, opt=False):
        d = {"k": "tok", "s": s}
        if opt:
            d = {"k": "opt", "x": d}
        if name:
            d["name"] = name
        return d

    def R(n):
        return {"k": "rule", "n": n}

    out = []
    for n in (3, 4, 5):
        toks = ["a", "b", "c", "a", "b"][:n]
        out.append({"rules": [{"name": "r0", "memo": False, "alts": [{"items": [T(t) for t in toks], "action": None}]}]})
        out.append({"rules": [{"name": "r0", "memo": False, "alts": [{"items": [T(t, opt=True) for t in toks] + [T("c")], "action": None}]}]})
        out.append({"rules": [{"name": "r0", "memo": False, "alts": [{"items": [R("r1") for _ in range(n)], "action": None}]},
                              {"name": "r1", "memo": False, "alts": [{"items": [T("a")], "action": None}, {"items": [T("b")], "action": None}]}]})
        out.append({"rules": [{"name": "r0", "memo": True, "alts": [{"items": [T(t) for t in toks] + [{"k": "star", "x": T("c")}, {"k": "star", "x": T("a")}, {"k": "star", "x": T("b")}], "action": None}]}]})
    return out


def inlined_choice_family():
    """Choices whose operands are single items WITHOUT actions (the generator inlines them into one `seq_alts` call), with a
    repetition or an optional as a non-last operand: a failed `x+` is an empty list, a failed `[x]` is None - both must
    let the choice go on."""
    def T(s):
        return {"k": "tok", "s": s}

    plus = {"k": "plus", "x": T("a")}
    gath = {"k": "gather", "sep": T("c"), "x": T("a")}
    out = []
    for first in (plus, gath, {"k": "group", "alts": [{"items": [T("a"), T("a")], "action": None}]}):
        out.append({"rules": [{"name": "r0", "memo": False, "alts": [{"items": [dict(first)], "action": None}, {"items": [T("b")], "action": None}]}]})
        grp = {"k": "group", "alts": [{"items": [dict(first)], "action": None}, {"items": [T("b")], "action": None}, {"items": [T("c")], "action": None}]}
        out.append({"rules": [{"name": "r0", "memo": False, "alts": [{"items": [T("c"), dict(grp, name="x"), T("c")], "action": "tuple"}]}]})
        out.append({"rules": [{"name": "r0", "memo": True, "alts": [{"items": [{"k": "gather", "sep": T("c"), "x": dict(grp), "name": "x"}, T("b")], "action": "tuple"}]}]})
    return out


def multi_cycle_family():
    """Indirectly left-recursive components with TWO cycles that share only some of their rules, under every assignment
    of the rule names (which rule sorts first/last decides which candidate a leader search looks at): the only rule on
    both cycles must be the one that grows the seed."""
    import itertools

    def R(n, name=None):
        d = {"k": "rule", "n": n}
        if name:
            d["name"] = name
        return d

    def T(s):
        return {"k": "tok", "s": s}

    out = []
    for names in itertools.permutations(["r0", "r1", "r2", "r3"]):
        U, C, P, S = names
        for shape in (0, 1):
            rules = {
                U: [{"items": [R(C, "a"), T("a")], "action": "tuple"}, {"items": [T("c")], "action": None}],
                C: [{"items": [R(P, "a"), T("b")], "action": "tuple"}],
                # shape 0: cycles U-C-P-U and P-S-P share only P; shape 1: cycles U-C-P-U and C-P-S-C share C and P
                P: [{"items": [R(U, "a"), T("c")], "action": "tuple"}, {"items": [R(S, "a"), T("a")], "action": "tuple"}, {"items": [T("a")], "action": None}],
                S: [{"items": [R(P if shape == 0 else C, "a"), T("b")], "action": "tuple"}],
            }
            out.append({"rules": [{"name": n, "memo": False, "alts": rules[n]} for n in sorted(rules)]})
    return out


def keyword_table_family():
    """Grammars with NAME items and ZERO, exactly ONE or TWO hard keywords, run on token alphabets that contain the keyword,
    pieces of it and an ordinary name: `NAME` must refuse exactly the keywords (the KEYWORDS table of the generated
    module), whatever their number."""
    T = lambda s, name=None: ({"k": "tok", "s": s, "name": name} if name else {"k": "tok", "s": s})  # noqa: E731
    N = lambda name=None: ({"k": "name", "name": name} if name else {"k": "name"})  # noqa: E731
    out = []
    out.append({"tokens": ["print", "pr", "int", "x"], "rules": [{"name": "r0", "memo": False, "alts": [
        {"items": [T("print"), N("a")], "action": "tuple"}, {"items": [N("a"), N("b")], "action": "tuple"}]}]})
    out.append({"tokens": ["end", "en", "d", "x"], "rules": [{"name": "r0", "memo": False, "alts": [
        {"items": [{"k": "star", "x": N(), "name": "a"}, T("end")], "action": "tuple"}]}]})
    out.append({"tokens": ["if", "then", "i", "the"], "rules": [{"name": "r0", "memo": True, "alts": [
        {"items": [T("if"), N("a"), T("then"), N("b")], "action": "tuple"}, {"items": [N("a")], "action": "tuple"}]}]})
    out.append({"tokens": ["a", "=", "ab"], "rules": [{"name": "r0", "memo": False, "alts": [
        {"items": [N("a"), T("="), N("b")], "action": "tuple"}]}]})
    out.append({"tokens": ["not", "no", "t", "x"], "rules": [{"name": "r0", "memo": False, "alts": [
        {"items": [{"k": "neg", "x": T("not")}, N("a"), {"k": "opt", "x": N(), "name": "b"}], "action": "tuple"}, {"items": [T("not"), {"k": "rule", "n": "r0", "name": "a"}], "action": "tuple"}]}]})
    return out


def shared_helper_family():
    """Groups / optionals / repetition bodies that PRINT the same once item names are dropped and carry the same action text,
    but bind the names to different items, or differ only in the action of a nested group: the generator's helper-rule
    cache must keep them apart."""
    T = lambda s, name=None: ({"k": "tok", "s": s, "name": name} if name else {"k": "tok", "s": s})  # noqa: E731

    def grp(n1, n2, order):
        return {"k": "group", "alts": [{"items": [T("a", n1), T("b"), T("c", n2)], "action": "names", "order": order}]}

    def inner(action_order):
        return {"k": "group", "alts": [{"items": [T("a", "p"), T("b", "q")], "action": "names", "order": action_order}]}

    out = []
    # (k='a' 'b' v='c' {(k, v)})  next to  (v='a' 'b' k='c' {(k, v)})
    g1, g2 = grp("k", "v", ["k", "v"]), grp("v", "k", ["k", "v"])
    out.append({"rules": [{"name": "r0", "memo": False, "alts": [{"items": [dict(g1, name="x"), T("b"), dict(g2, name="y")], "action": "tuple"}]}]})
    out.append({"rules": [{"name": "r0", "memo": False, "alts": [{"items": [dict(g2, name="x")], "action": "tuple"}, {"items": [T("b"), dict(g1, name="y")], "action": "tuple"}]}]})
    out.append({"rules": [{"name": "r0", "memo": False, "alts": [{"items": [{"k": "star", "x": g1, "name": "x"}, T("b"), {"k": "opt", "x": g2, "name": "y"}], "action": "tuple"}]}]})
    out.append({"rules": [{"name": "r0", "memo": True, "alts": [{"items": [dict(g1, name="x")], "action": "tuple"}]},
                          {"name": "r1", "memo": False, "alts": [{"items": [dict(g2, name="x")], "action": "tuple"}]}]})
    # the same outer group around nested groups whose own actions differ
    o1 = {"k": "group", "alts": [{"items": [dict(inner(["p", "q"]), name="m"), T("c", "n")], "action": "names", "order": ["m", "n"]}]}
    o2 = {"k": "group", "alts": [{"items": [dict(inner(["q", "p"]), name="m"), T("c", "n")], "action": "names", "order": ["m", "n"]}]}
    out.append({"rules": [{"name": "r0", "memo": False, "alts": [{"items": [dict(o1, name="x"), T("b"), dict(o2, name="y")], "action": "tuple"}]}]})
    out.append({"rules": [{"name": "r0", "memo": False, "alts": [{"items": [dict(o2, name="x")], "action": "tuple"}, {"items": [T("c"), dict(o1, name="y")], "action": "tuple"}]}]})
    return out


# Grammars OUTSIDE the well-formed class the random generator draws from, on which the generated parser is known to deviate from
# PEG semantics (known_findings.json).  Each: id, grammar rules (text), rule, tokens, what PEG semantics gives (worked out by hand:
# these grammars are outside what the reference interpreter supports), and the predicate "the deviation is exactly the recorded one".
KNOWN_GRAMMARS = [
    ("KF-C17-hidden-left-recursion", "start: a=pre b=a ENDMARKER { (a, b) }\npre: x='x'* { ('pre', x) }\na: pre a 'y' { 'rec' } | 'z' { 'z' }\n", "start", ["z", "y"], "ok", ("recursion",)),
    ("KF-C17-hidden-left-recursion", "start: a ENDMARKER { a }\na: !'x' a 'y' { 'r' } | 'z' { 'z' }\n", "start", ["z", "y"], "ok", ("recursion",)),
    ("KF-C17-leader-empty-success", "start: a 'y' { a }\na: a 'x' { 'r' } | &'y' { 'e' }\n", "start", ["y"], "ok", ("fail",)),
    ("KF-C17-forced-item-in-inlined-choice", "start: a { a }\na: 'y' | &&'x'\n", "start", ["x", "y"], ("ok", "x", 1), ("ok", "y", 2)),
]


# Grammars outside what the random generator / the reference interpreter cover, on which the generated parser DOES follow PEG
# semantics (expected values worked out by hand): left recursion hidden behind a nullable rule with several alternatives, and
# explicit labels that look like the names the generator hands out itself.
_HLR = "start: a=chain ENDMARKER { a }\nsign: 'm' { 'neg' } | p='p'* { 'pos' }\nchain: s=sign c=chain 'x' { (s, c, 'x') } | 'w' { 'w' }\n"
CONFORMING_GRAMMARS = [
    ("conforming", _HLR, "start", ["w", "x", "x"], ("ok", ("pos", ("pos", "w", "x"), "x"), 4), None),
    ("conforming", _HLR, "start", ["w"], ("ok", "w", 2), None),
    ("conforming", _HLR, "start", ["m", "w", "x", "x"], ("fail",), None),  # PEG is greedy: the inner chain takes both x
    ("conforming", _HLR, "start", ["m", "w", "x"], ("fail",), None),
    ("conforming", _HLR, "start", ["x"], ("fail",), None),
    ("conforming", "start: name_1=NAME NAME NAME { (name_1.string, name.string) }\n", "start", ["a", "b", "c"], ("ok", ("a", "b"), 3), None),
    ("conforming", "start: literal_1='a' 'b' 'c' { (literal_1.string, literal.string) }\n", "start", ["a", "b", "c"], ("ok", ("a", "b"), 3), None),
    ("conforming", "start: name_1=NAME NAME NAME\n", "start", ["a", "b", "c"], ("ok", ["a", "b", "c"], 3), None),
    ("conforming", "start: opt_1=['a'] ['b'] ['c'] 'x' { (opt_1, opt) }\n", "start", ["a", "b", "c", "x"], ("ok", ("a", "b"), 4), None),
    ("conforming", "start: name_2=NAME a=NAME NAME NAME { (name_2.string, a.string, name.string, name_1.string) }\n", "start", ["a", "b", "c", "a"], ("ok", ("a", "b", "c", "a"), 4), None),
]


def check_known_grammar(fid, rules, rule, toks, want, recorded):
    try:
        cls, _code, _pg = build_parser_class(G.HEADER + rules)
    except Exception as e:  # noqa: BLE001
        return {"fid": fid, "rules": rules, "got": ("generator-refused", f"{type(e).__name__}: {e}"[:120]), "want": want, "recorded": recorded}
    import sys

    old = sys.getrecursionlimit()
    sys.setrecursionlimit(3000)
    try:
        got = run_impl(cls, rule, toks)
    finally:
        sys.setrecursionlimit(old)
    return {"fid": fid, "rules": rules, "rule": rule, "tokens": toks, "got": got, "want": want, "recorded": recorded}


def run(rep, tier, pool, variants=("shipped",)):
    rep.rule = (
        "random well-formed grammars (1-4 rules, 1-3 alternatives, items: tokens, rule refs, groups, ? * + gather & ! ~ && , memo flags, direct and "
        "indirect left recursion; well-formedness checked by an independent analysis: no nullable repetition bodies, no falsy alternative values, "
        "left recursion only through the first item) + 3 fixed grammars; each compiled by the REAL tasks/generator.py, imported, and every rule run "
        "on ALL token strings over {a,b,c} up to length 5 (thorough 6); oracle: an independent reference PEG interpreter (value, end position, "
        "forced-error); non-trivial = grammar accepted by the generator and analyses agree; distinct by grammar text"
    )
    r = rng("C17")
    n = 120 * quick_scale() if tier == "quick" else 3000
    maxlen = 5 if tier == "quick" else 6
    gs = list(FIXED)
    fam = [g for g in multi_cycle_family() if G.well_formed(g)]
    gs += fam if tier != "quick" else [fam[i] for i in range(0, len(fam), 2)]
    gs += [g for g in same_name_family() + inlined_choice_family() if G.well_formed(g)]
    gs += keyword_table_family()
    gs += shared_helper_family()
    rep.extra["multi_cycle_grammars"] = len(fam)
    tries = 0
    while len(gs) < n + len(FIXED) + len(fam) + 32 and tries < n * 60:
        tries += 1
        g = G.gen_grammar(r)
        try:
            if G.well_formed(g):
                gs.append(g)
        except RecursionError:
            continue
    res = pool.call("harness.props.c17:check_grammar", [(g, maxlen) for g in gs], timeout=90)
    total_strings = 0
    model_stats = {"grammars": 0, "requests": 0, "undecided": 0, "skipped": 0}
    model_bad = []
    for g, o in zip(gs, res):
        text = o.get("grammar") or G.render(g)
        if o.get("skip") or o.get("k") in ("hang", "crash", "worker-exc", "not-run"):
            rep.case(text, False)
            rep.count("skip:" + str(o.get("skip") or o.get("k")))
            continue
        rep.case(text, True, sample={"grammar": text[text.index("@trailer") + 12 :][:300], "strings_x_rules": o.get("n")} if len(rep.samples) < 3 else None)
        total_strings += o.get("n", 0)
        m = o.get("model") or {}
        if "requests" in m:
            model_stats["grammars"] += 1
            model_stats["requests"] += m["requests"]
            model_stats["undecided"] += m.get("undecided", 0)
            model_stats["no_falsy_actions"] = model_stats.get("no_falsy_actions", 0) + (1 if m.get("nofalsy") else 0)
            model_stats["plain_fragment"] = model_stats.get("plain_fragment", 0) + (1 if m.get("plain") else 0)
            model_stats["pure_fragment"] = model_stats.get("pure_fragment", 0) + (1 if m.get("pure") else 0)
        elif m.get("skipped"):
            model_stats["skipped"] += 1
            rep.count("model-skipped:" + str(m["skipped"])[:40])
        if o.get("kind") == "model-differs":
            model_bad.append({"grammar": text[text.index("@trailer") + 12 :][:400], "cases": o["cases"][:2]})
        if o.get("ok"):
            for f in o["features"]:
                rep.count("feature:" + f)
            if o["leftrec"]:
                rep.count("grammars-with-left-recursion")
            if o["memo"]:
                rep.count("grammars-with-memo")
            for k, v in o["reached"].items():
                rep.count("outcome:" + k, v)
            continue
        if o.get("kind") == "model-differs":
            continue  # a broken correspondence (reported as an obligation), not a PEG-semantics verdict
        c = o["cases"][0]
        rep.violation(
            f"C17 generated parser != PEG semantics: rule {c['rule']} on {c['tokens']}: parser {short(c['generated_parser'], 50)} reference {short(c['reference'], 50)}",
            {"property": "C17", "grammar": text, "cases": o["cases"], "generated_code_tail": o.get("code"), "oracle": "reference PEG interpreter harness/gen/grammars.py:Ref"},
        )
    rep.extra["token_strings_x_rules"] = total_strings
    # the recorded deviations on grammars outside the well-formed class: still exactly what was recorded?
    for o in pool.call("harness.props.c17:check_known_grammar", list(CONFORMING_GRAMMARS), timeout=60):
        if o.get("k") in ("hang", "crash", "worker-exc", "not-run"):
            rep.count("infra:" + o["k"])
            continue
        got = o["got"]
        rep.case("hand-grammar:" + o["rules"] + repr(o.get("tokens")), True)
        if list(got) != list(o["want"]) and repr(tuple(got)) != repr(tuple(o["want"])):
            rep.violation(f"C17 generated parser != PEG semantics: rule {o.get('rule')} on {o.get('tokens')}: parser {short(repr(got), 50)} expected {short(repr(o['want']), 50)}",
                          {"property": "C17", "grammar": o["rules"], "rule": o.get("rule"), "tokens": o.get("tokens"), "generated_parser": repr(got), "peg_semantics": repr(o["want"]), "oracle": "hand-computed PEG result (harness/props/c17.py:CONFORMING_GRAMMARS)"})
    for o in pool.call("harness.props.c17:check_known_grammar", list(KNOWN_GRAMMARS), timeout=60):
        if o.get("k") in ("hang", "crash", "worker-exc", "not-run"):
            rep.count("infra:" + o["k"])
            continue
        got = tuple(o["got"]) if isinstance(o["got"], (list, tuple)) else o["got"]
        want = o["want"]
        conforms = (got[0] == want) if isinstance(want, str) else (got == tuple(want))
        rep.case("known-grammar:" + o["rules"], True)
        if conforms:
            continue  # the generator now gives what PEG semantics gives (the finding is gone)
        if got == tuple(o["recorded"]):
            rep.known(o["fid"], short(o["rules"].replace("\n", " ; "), 70))
        else:
            rep.violation(f"C17 generated parser != PEG semantics on a recorded grammar, in a NEW way: {o['fid']}: parser {short(repr(got), 50)} recorded {short(repr(o['recorded']), 40)}",
                          {"property": "C17", "grammar": o["rules"], "rule": o.get("rule"), "tokens": o.get("tokens"), "generated_parser": repr(got), "peg_semantics": repr(want), "recorded_deviation": repr(o["recorded"])})
    rep.extra.setdefault("correspondence", {})["generated-code-IR"] = dict(model_stats, disagreements=len(model_bad))
    rep.obligation(
        f"corr:generated-code-IR (the Lean model run on the translated IR of {model_stats['grammars']} freshly generated parsers == those parsers: accept/fail/raise and end position on {model_stats['requests']} rule x token-string requests, {model_stats['undecided']} undecided)",
        not model_bad and model_stats["grammars"] > 0,
        str(model_bad[:1])[:700] if model_bad else ("no grammar could be compared" if not model_stats["grammars"] else ""),
    )
    rep.evaluations = max(rep.evaluations, total_strings)
