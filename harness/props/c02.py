"""C02 oracle search: Python-lexicon text that CPython's parser rejects must be rejected here too."""
from __future__ import annotations

import ast
import itertools
import re

from harness import impl
from harness.common import quick_scale, rng, short
from harness.gen import corpus, mutate, pyprog

VOCAB = [
    "a", "b", "1", "'s'", "(", ")", "[", "]", "{", "}", ",", ":", ";", ".", "=", "==", "+", "-", "*", "**",
    "if", "else", "for", "in", "not", "and", "or", "lambda", "def", "class", "return", "import", "from", "as", "pass",
    "del", "yield", "await", "async", "with", "\n", "\n    ", "->", ":=", "@", "...", "<", "|", "is", "None",
    "match", "case", "type", "try", "except", "finally", "raise", "while", "global", "~", "%", "+=", "/",
]
CORE = VOCAB[:40]


def join(seq):
    out = []
    for t in seq:
        if out and not out[-1].endswith((" ", "\n")) and not t.startswith("\n"):
            out.append(" ")
        out.append(t)
    return "".join(out) + "\n"


def check_one(src: str, mode: str = "exec", variant: str = "shipped"):
    """None if fine; dict if CPython rejects (SyntaxError) but this parser returns a tree."""
    cp_err = None
    try:
        ast.parse(src, mode="exec" if mode == "exec" else "eval")
        cp = True
    except SyntaxError as e:
        cp = False
        cp_err = (type(e).__name__, str(e.msg))
    except (ValueError, RecursionError, MemoryError):
        return {"skip": "cpython-other"}
    o = impl.parse(src, mode, variant=variant)
    k = o["k"]
    if cp:
        if k == "tree":
            return {"ok": "both-accept"}
        return {"ok": "cpython-accepts-we-reject", "k": k}
    if k in ("err", "tokerr"):
        return {"ok": "both-reject"}
    if k == "tree":
        return {"kind": "over-accept", "dump": o.get("dump", "")[:300], "cpython": cp_err}
    return {"ok": "other", "k": k, "cls": o.get("cls")}  # C03's business


BACKSLASH_ONLY_LINE = re.compile(r"(^|\n)[ \t\f]*\\\r?\n")


def classify(o, src=""):
    """Known-finding classes, decided from CPython's own diagnosis of the input."""
    cls, msg = o.get("cpython") or (None, "")
    if cls == "IndentationError" and BACKSLASH_ONLY_LINE.search(src):
        return "KF-C02-backslash-only-line"
    if cls == "SyntaxError" and (msg or "").startswith("f-string:"):
        return "KF-C02-fstring-diagnostics"
    if cls == "SyntaxError" and ((msg or "").startswith("invalid non-printable character") or re.search(r"\r(?!\n)", src)):
        return "KF-C02-stray-cr-or-nonprintable-blank"
    if cls == "SyntaxError" and (msg or "").startswith("unterminated f-string literal") and re.search(r"\\\r?\n", src):
        return "KF-C02-continued-fstring-runaway"
    if cls == "SyntaxError" and (msg or "").startswith("(unicode error)") and re.search(r"(?i)\b[rb]*f[rb]*['\"]", src):
        return "KF-C02-fstring-escapes-not-decoded"
    if cls == "IndentationError" and (msg or "") == "too many levels of indentation":
        return "KF-C02-indentation-depth"
    if cls == "TabError":
        return "KF-C02-tab-consistency"
    if cls == "SyntaxError" and re.fullmatch(r"invalid (decimal|hexadecimal|octal|binary|imaginary) literal", msg or ""):
        return "KF-C02-number-glued-to-keyword"
    return None


def check_batch(srcs, mode="exec", variant="shipped"):
    return [check_one(s, mode, variant) for s in srcs]


def build_inputs(tier):
    r = rng("C02")
    cases = []
    # exhaustive short token sequences
    maxlen = 3
    for n in range(1, maxlen + 1):
        for seq in itertools.product(CORE, repeat=n):
            cases.append(("seq", join(seq)))
    nsample = 6000 * quick_scale() if tier == "quick" else 400000
    for _ in range(nsample):
        n = r.randint(4, 8)
        cases.append(("seqN", join([r.choice(VOCAB) for _ in range(n)])))
    # token mutations and prefixes of valid programs
    progs = list(corpus.PY_STMTS)
    for i in range(150 * quick_scale() if tier == "quick" else 3000):
        g = pyprog.gen_program(r, maxdepth=3, nstmts=r.randint(1, 2))
        if g:
            progs.append(g[0])
    for p in progs:
        for _ in range(4 if tier == "quick" else 12):
            m = mutate.token_edits(p, r, VOCAB)
            if m is not None:
                cases.append(("tokedit", m if m.endswith("\n") else m + "\n"))
        # proper token prefixes
        import io
        import tokenize as pt

        try:
            toks = [t for t in pt.generate_tokens(io.StringIO(p).readline) if t.type in (pt.NAME, pt.OP, pt.NUMBER, pt.STRING)]
        except (pt.TokenError, SyntaxError, IndentationError):
            toks = []
        lines = p.split("\n")
        for t in (toks if tier != "quick" else r.sample(toks, min(5, len(toks)))):
            pre = "\n".join(lines[: t.start[0] - 1] + [lines[t.start[0] - 1][: t.start[1]]])
            cases.append(("prefix", pre + "\n"))
    # precedence boundaries: random expression/statement trees rendered WITHOUT precedence parentheses
    import ast as _ast

    for i in range(1500 * quick_scale() if tier == "quick" else 40000):
        g = pyprog.G(r, fstrings=False, maxdepth=2)
        try:
            if i % 3 == 0:
                tree = _ast.Module(body=[g.stmt(2)], type_ignores=[])
            else:
                tree = _ast.Module(body=[_ast.Expr(value=g.expr(0))], type_ignores=[])
            _ast.fix_missing_locations(tree)
            cases.append(("noparens", mutate.unparse_no_parens(tree) + "\n"))
        except Exception:  # noqa: BLE001
            continue
    for p in progs[: (120 if tier == "quick" else 100000)]:
        for d in mutate.token_deletions(p):
            cases.append(("tokdel", d if d.endswith("\n") else d + "\n"))
    # systematic single-token duplications, glued neighbours, blanks after a continuation backslash, tab/blank swaps
    nested = ["if a:\n    if b:\n        c\n        d\n    e\n", "def f():\n\tif x:\n\t\ty\n\t\tz\n", "while a:\n        b\n        c\n",
              "class A:\n    def f(s):\n        return 1\n    x = 2\n", "for i in x:\n\tpass\n\tpass\n", "try:\n        a\nexcept E:\n        b\n"]
    conts = ["x = 1 + \\\n    2\n", "if a and \\\n   b:\n    pass\n", "y = (1, \\\n 2)\n", "assert x, \\\n  'm'\n", "from a import b, \\\n c\n"]
    for p in progs[: (200 if tier == "quick" else 100000)] + nested + conts:
        for d in mutate.token_duplications(p):
            cases.append(("tokdup", d if d.endswith("\n") else d + "\n"))
        for d in mutate.blank_deletions(p):
            cases.append(("glued", d if d.endswith("\n") else d + "\n"))
    for p in progs + nested + conts:
        for d in mutate.continuation_blanks(p):
            cases.append(("continuation-blank", d))
        for d in mutate.indentation_swaps(p):
            cases.append(("indent-swap", d))
    for p in progs[: (100 if tier == "quick" else 100000)]:
        for d in mutate.continuation_blanks(mutate.backslash_continuations(p, r)):
            cases.append(("continuation-blank", d))
        for d in mutate.indentation_swaps(mutate.tabs(p)) + mutate.indentation_swaps(p.replace("    ", "        ")):
            cases.append(("indent-swap", d))
    # a backslash continuation that runs into the end of the input (after a complete construct, inside a block, alone)
    for p in progs[: (150 if tier == "quick" else 100000)] + nested:
        cases.append(("continuation-eof", p + "\\\n"))
        cases.append(("continuation-eof", p.rstrip("\n") + " \\\n"))
        cases.append(("continuation-eof", p + "    \\\n"))
        cases.append(("continuation-eof", p.rstrip("\n") + " \\"))
    # complex-literal patterns: every pairing of number spellings around + and - (CPython demands real +/- imaginary)
    nums = ["1", "1.5", "1j", "1J", "2.5J", "0x1", "1_0", "1e3", "0j", "x", "'s'"]
    for a in nums:
        for sign in ["", "-"]:
            for op in ["+", "-"]:
                for b in nums:
                    cases.append(("complex-pattern", f"match v:\n    case {sign}{a} {op} {b}:\n        pass\n"))
                    cases.append(("complex-pattern", f"match v:\n    case {{{sign}{a}{op}{b}: y}}:\n        pass\n"))
    for s in corpus.pattern_spellings() + corpus.string_mixes():
        cases.append(("table", s))
    # witnesses of the recorded findings, and their neighbourhood: a line holding nothing but a continuation backslash before
    # an indented line; f-strings CPython refuses with its own "f-string: ..." diagnostics
    for s in ["\\\n  x = 1\n", "x = 1\n\\\n  y = 2\n", "if x:\n  pass\n\\\n    pass\n", "if x:\n    pass\n  \\\n      pass\n", "\\\nx = 1\n", "x = 1\n\\\n\ny = 2\n",
              "f'a}'\n", "f'{a}}'\n", "f'{{a}'\n", "f'}'\n", "f'{a:}}'\n", "f'{a:{b:{c:{d}}}}'\n", "x = f'{a'\n", "f'{}'\n", "f'{a b}'\n", "f'{a:{}}'\n", "f'{=}'\n", "f'{a!}'\n".replace("!", ""), "f'{a!x}'\n".replace("!", "")]:
        cases.append(("kf-neighbourhood", s))
    # round 8 (clean-tree observations of the C02 agent): stray CR / non-printable blanks are dropped as whitespace; a single-quoted
    # f-string continued once by a backslash keeps swallowing lines; escapes in f-string literal text are never decoded; no depth limit
    for s in ["x = 1 +\r2\n", "x = 1\n \r)))\n", "x =\xa01\n", "x = 1\x0b\n", "x = (1,\u2003 2)\n", "x = f'abc\\\ndef\nghi'\n", "f'abc\\\ndef'\n",
              "f'\\xz'\n", "f'\\N{foo}'\n", "x = f'\\u12'\n", "if x:\n" + "".join(" " * (i + 1) + "if x:\n" for i in range(1, 102)) + " " * 103 + "pass\n"]:
        cases.append(("kf-neighbourhood", s))
    # a single-quoted string continued ONCE by a backslash and then left open: the tokenizer joins the following lines, only the
    # evaluation of the literal refuses it (every prefix; f-strings: KF-C02-continued-fstring-runaway); also a bare CR inside quotes
    for pre in ["", "r", "R", "b", "B", "rb", "bR", "u", "U", "Rb"]:
        for q in ["'", '"']:
            for body in ["abc\\\ndef\nghi", "a\\\n\n", "\\\nx\ny = 2", "abc\\\r\ndef\r\nghi", "a\rb"]:
                for ctx in ["x = {}\n", "f({})\nz = 1\n", "{}\n"]:
                    cases.append(("runaway-string", ctx.format(pre + q + body + q)))
    for p in progs[: (60 if tier == "quick" else 3000)] + nested:
        lines = p.split("\n")
        for i in range(1, len(lines)):
            if lines[i].startswith((" ", "\t")) and lines[i].strip():
                ind = lines[i][: len(lines[i]) - len(lines[i].lstrip())]
                cases.append(("backslash-only-line", "\n".join(lines[:i] + ["\\"] + [ind + "  " + lines[i].lstrip()] + lines[i + 1 :])))
                cases.append(("backslash-only-line", "\n".join(lines[:i] + [ind + "\\"] + [ind + "    " + lines[i].lstrip()] + lines[i + 1 :])))
                break
    # binding-target spellings: wrappers (parentheses, brackets, tuple commas, stars) applied up to twice to a few atoms, in every
    # binding context; CPython decides which are legal
    atoms = ["a", "*a", "a.b", "a[0]", "()", "1", "f()", "a, b", "*a, b"]
    wraps = ["{}", "({})", "[{}]", "({},)", "*{},", "x, {}", "({}), y"]
    ctxs = ["{} = v\n", "for {} in v: pass\n", "with c as {}: pass\n", "[0 for {} in v]\n", "del {}\n", "{} += 1\n", "{}: int = 1\n", "v = {} = w\n", "({} := 1)\n"]
    for a in atoms:
        for w1 in wraps:
            for w2 in wraps:
                t = w2.format(w1.format(a))
                for c in (ctxs if tier != "quick" else ctxs[:5]):
                    cases.append(("target-form", c.format(t)))
    for s in mutate.indent_histories(r, 400 * quick_scale() if tier == "quick" else 20000):
        cases.append(("indent-history", s))
    for rc in corpus.regress("C02"):
        cases.insert(0, ("regress", rc["src"]))
    out = []
    seen = set()
    for k, s in cases:
        if s in seen or any(ch in s for ch in "$?!`") or "&&" in s or "||" in s or "@(" in s:
            continue
        seen.add(s)
        out.append((k, s))
    return out


def run(rep, tier, pool, variants=("shipped",)):
    rep.rule = (
        "all token sequences of length<=3 over a 40-token Python vocabulary (exhaustive) + sampled lengths 4-8 over 62 tokens, "
        "single-token edits and token prefixes of valid programs; oracle: ast.parse raises SyntaxError => parse_string must raise; "
        "non-trivial = CPython rejects the text (the property's premise); distinct by text"
    )
    cases = build_inputs(tier)
    B = 200
    batches = [cases[i : i + B] for i in range(0, len(cases), B)]
    for variant in variants:
        res = pool.call("harness.props.c02:check_batch", [([s for _, s in b], "exec", variant) for b in batches], timeout=300)
        for b, outs in zip(batches, res):
            if not isinstance(outs, list):
                # a batch hung/crashed: re-run singly to find the culprit (C03's concern; here only count)
                rep.count("batch-" + str(outs.get("k")))
                outs = pool.call("harness.props.c02:check_one", [(s, "exec", variant) for _, s in b], timeout=20)
            for (kind, src), o in zip(b, outs):
                if not isinstance(o, dict):
                    continue
                if o.get("skip") or o.get("k") in ("hang", "crash", "worker-exc", "not-run"):
                    rep.case(src, False)
                    rep.count("skipped")
                    continue
                if "ok" in o:
                    nt = o["ok"] in ("both-reject", "other")
                    rep.case(src, nt, sample=src if (nt and len(rep.samples) < 6 and kind != "seq") else None)
                    rep.count(kind + ":" + o["ok"])
                    continue
                rep.case(src, True)
                fid = classify(o, src)
                if fid:
                    rep.known(fid, f"{short(src, 60)}")
                    continue
                rep.violation(f"C02 over-acceptance: CPython rejects, parser returns a tree for {short(src, 80)}", {"property": "C02", "input": src, "mode": "exec", "observed": o, "variant": variant, "oracle": "ast.parse raises SyntaxError"})
    rep.extra["exhaustive_part"] = "all sequences of length<=3 over CORE vocabulary"
