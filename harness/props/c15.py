"""C15 oracle search: verbose is inert; py_version gating is monotone."""
from __future__ import annotations

from harness import impl
from harness.common import quick_scale, rng, short
from harness.gen import corpus, mutate, pyprog, xonshgen

VERSIONS = [None, (3, 8), (3, 9), (3, 10), (3, 11), (3, 12), (3, 13), (4, 0), (5, 3), (3, 12, 1, 0), (3, 11, 0, 0), (3, 12, 0), (3,)]
GATED = {
    "try:\n    pass\nexcept* E:\n    pass\n": (3, 11),
    "class A[T]: pass\n": (3, 12),
    "def f[T](x): pass\n": (3, 12),
    "type X = int\n": (3, 12),
    "type Y[T] = list[T]\n": (3, 12),
    "async def g[T, *Ts, **P](): pass\n": (3, 12),
    "x = 1\ntry:\n    a\nexcept* (E, F) as e:\n    b\nclass K[T: int]: pass\n": (3, 12),
}


def grid(src, mode, variant="shipped"):
    """All configurations (verbose x VERSIONS) for one input; returns list of (verbose, version, outcome-without-noise)."""
    out = []
    for v in VERSIONS:
        for verbose in (False, True):
            o = impl.parse(src, mode, py_version=v, verbose=verbose, variant=variant)
            out.append((verbose, v, {k: o.get(k) for k in ("k", "cls", "msg", "lineno", "offset", "end_lineno", "end_offset", "text", "dump", "type")}))
    return out


def needed_version(base):
    """The version the program needs, read off the default result (the gates are TryStar, type parameters, type statements)."""
    if base["k"] != "tree":
        return None
    d = base.get("dump") or ""
    need = None
    if "TryStar(" in d:
        need = (3, 11)
    if "TypeAlias(" in d or "TypeVar(" in d or "ParamSpec(" in d or "TypeVarTuple(" in d:
        need = (3, 12)
    return need


def check_one(src, mode, need_hint, variant="shipped"):
    import re
    import sys

    g = grid(src, mode, variant)
    base = [o for vb, v, o in g if not vb and v is None][0]
    need = needed_version(base)
    if need_hint and base["k"] == "tree" and need != need_hint:
        return {"kind": "gated-construct-not-recognised", "need_hint": need_hint, "derived": need}
    cur = sys.version_info[:2]
    for vb, v, o in g:
        ref = [o2 for vb2, v2, o2 in g if not vb2 and v2 == v][0]
        if vb and o != ref:
            return {"kind": "verbose-changes-result", "py_version": v, "quiet": _short(ref), "verbose": _short(o)}
        if vb:
            continue
        eff = min(tuple(v), tuple(sys.version_info[:3]))[:2] if v else cur
        eff = eff if len(eff) == 2 else eff + (0,) * (2 - len(eff))
        if need is None or eff >= need:
            if o != base and base["k"] != "tree" and o["k"] == "err" and re.search(r"is only supported in Python \((\d+), (\d+)\) and above", o.get("msg") or ""):
                continue  # an input that is rejected anyway may be rejected earlier by a version gate it contains
            if o != base:
                return {"kind": "py_version-changes-result", "py_version": v, "default": _short(base), "got": _short(o)}
        else:
            m = re.search(r"is only supported in Python \((\d+), (\d+)\) and above", o.get("msg") or "")
            ok = o["k"] == "err" and m and (int(m.group(1)), int(m.group(2))) > eff and (int(m.group(1)), int(m.group(2))) <= need
            if not ok:
                return {"kind": "gate-not-enforced-or-wrong-message", "py_version": v, "need": need, "got": _short(o)}
    return {"ok": True, "k": base["k"], "need": need}


def _short(o):
    return {k: (v if k != "dump" else (v or "")[:80]) for k, v in o.items() if v is not None}


def build_inputs(tier):
    r = rng("C15")
    N = quick_scale() if tier == "quick" else 15
    cases = []
    for s, need in GATED.items():
        cases.append((s, "exec", need))
        cases.append(("y = 0\n" + s + "z = 1\n", "exec", need))
    base = [(s, "exec") for s in corpus.PY_STMTS[::2]] + [(s, "exec") for s in xonshgen.XONSH_STMTS] + [(s, "eval") for s in corpus.PY_EXPRS[::4]]
    base += [("f!(x, [1, 2] y)\n", "exec"), ("print!(some raw text)\n", "exec"), ("with! ctx as c:\n    body line\n", "exec"), ("$(echo! a  b)\n", "exec"), ("x = a + b * c - d\n", "exec"), ("a.b.c(d)[e].f\n", "exec")]
    for _ in range(25 * N):
        g = pyprog.gen_program(r, fstrings=True, maxdepth=3, nstmts=2)
        if g:
            base.append((g[0], "exec"))
    from harness.props import c11

    for s in ["x = not 'abc\n", "x = -'abc\n", "y = a if b else 'abc\n", "f(k='abc)\n", "lambda: 'x\n", "x = 'abc\n", "z = (1, 'q\n", "if a:\n    b\n  c\n", "w = [\n"] + list(c11.INVALID_SNIPPETS[:60]):
        cases.append((s, "exec", None))
    # invalid programs whose specialised error is chosen INSIDE a left-recursive rule / a bracket (the diagnostic pass reads
    # state that the wrappers keep): a `target = value` nested in an expression, misplaced keywords and stars in brackets
    for s in ["[a = 1]\n", "(a = 1)\n", "x = [b = 2, 3]\n", "a[b = 1]\n", "{a.b = 2}\n", "while (f() = 1): pass\n", "f(a.b = 1)\n", "x = (y = z) + 1\n", "g(1 = 2)\n", "[i for i in (j = 2)]\n",
              "x = a + (b = c) * d\n", "print(a b)\n", "x = [1, 2 3]\n", "f(**a, *b)\n", "f(x for x in y, 1)\n", "a.b.c(d e)[f]\n", "x = a + b * (c d)\n", "q = (yield = 1)\n", "t = (*a)\n"]:
        cases.append((s, "exec", None))
        cases.append(("ok = 1\n" + s, "exec", None))
    # long left-associative chains: the parser builds them iteratively (no deep recursion), so whatever the trace does with the
    # RESULT of a rule must not be deeper either
    for s in ["x = " + " + ".join(["1"] * 1200) + "\n", "y = a" + ".b" * 1200 + "\n", "z = f" + "()" * 1100 + "\n", "w = a" + "[0]" * 1100 + "\n"]:
        cases.append((s, "exec", None))
    for s, m in list(base):
        cases.append((s, m, None))
        if r.random() < 0.5:
            cases.append((mutate.damage(s, r), m, None))  # failing inputs: same error under verbose
    return cases


def run(rep, tier, pool, variants=("shipped",)):
    rep.rule = (
        "inputs x the full option grid verbose in {F,T} x py_version in {None,(3,8)..(3,13),(4,0),(5,3),(3,12,1,0),(3,11,0,0),(3,12,0),(3,)} (26 configurations each): version-gated programs "
        "(except*, type parameter lists, type statements; alone and embedded), Python/xonsh snippet pools, all macro kinds, generated programs, and "
        "damaged (failing) variants; oracle: verbose result == quiet result (tree dump with positions or full error attributes); for py_version >= "
        "need and for None the result equals the default; below it the result is a SyntaxError naming the required version; distinct by (text, mode)"
    )
    cases = build_inputs(tier)
    for variant in variants:
        res = pool.call("harness.props.c15:check_one", [(s, m, need, variant) for s, m, need in cases], timeout=120)
        for (s, m, need), o in zip(cases, res):
            if o.get("k") in ("hang", "crash", "worker-exc", "not-run") and "ok" not in o:
                rep.case((s, m), False)
                rep.count("infra:" + str(o.get("k")))
                continue
            rep.case((s, m), True, sample={"src": s[:60], "need": o.get("need")} if o.get("need") else None)
            rep.evaluations += 13
            rep.count("gated" if o.get("need") else "ungated")
            if o.get("ok"):
                rep.count("default-outcome:" + o["k"])
                continue
            rep.violation(f"C15 {o.get('kind')} (py_version={o.get('py_version')}): {short({k: v for k, v in o.items() if k not in ('kind', 'py_version')}, 140)} on {short(s, 50)}", {"property": "C15", "input": s, "mode": m, "observed": o, "variant": variant})
