"""C08 oracle search: tokens tile the source; structural NEWLINE/INDENT/DEDENT/ENDMARKER laws."""
from __future__ import annotations

from harness import impl
from harness.common import quick_scale, rng, short
from harness.gen import corpus, mutate, pyprog, xonshgen

SIGNIFICANT = {"NAME", "NUMBER", "STRING", "OP", "FSTRING_START", "FSTRING_MIDDLE", "FSTRING_END", "SEARCH_PATH", "ERRORTOKEN", "MACRO_PARAM"}


def slice_src(lines, start, end):
    (l0, c0), (l1, c1) = start, end
    if l0 == l1:
        return lines[l0 - 1][c0:c1] if l0 <= len(lines) else ""
    out = [lines[l0 - 1][c0:]]
    for ln in range(l0 + 1, l1):
        out.append(lines[ln - 1])
    out.append(lines[l1 - 1][:c1] if l1 <= len(lines) else "")
    return "".join(out)


def check_tokens(src: str, toks):
    """The tiling predicate of the property, evaluated directly on a token list."""
    lines = src.split("\n")
    lines = [ln + "\n" for ln in lines[:-1]] + ([lines[-1]] if lines[-1] else [])
    prev_end = (1, 0)
    depth_ind = 0
    n_end = 0
    covered = []
    last_sig_line_has_newline = True
    pending_sig = False
    for i, (ty, s, start, end, _line) in enumerate(toks):
        start, end = tuple(start), tuple(end)
        if ty == "ENDMARKER":
            n_end += 1
            if i != len(toks) - 1:
                return {"kind": "endmarker-not-last", "index": i}
        if ty in ("DEDENT", "ENDMARKER") or (ty == "NEWLINE" and s == ""):
            if ty == "DEDENT":
                depth_ind -= 1
                if depth_ind < 0:
                    return {"kind": "dedent-underflow", "index": i}
            if ty == "NEWLINE":
                if not pending_sig:
                    return {"kind": "newline-without-significant-token", "index": i}
                pending_sig = False
            continue  # zero-width synthetic tokens
        if ty == "INDENT":
            depth_ind += 1
        # (a) text == slice
        if slice_src(lines, start, end) != s:
            return {"kind": "text-not-slice", "index": i, "token": (ty, s, start, end), "slice": slice_src(lines, start, end)}
        # (b) order / no overlap
        if start < prev_end and ty != "INDENT":
            return {"kind": "overlap-or-disorder", "index": i, "token": (ty, s, start, end), "prev_end": prev_end}
        if end < start:
            return {"kind": "end-before-start", "index": i}
        if ty != "INDENT":
            covered.append((start, end))
            prev_end = end
        if ty in SIGNIFICANT:
            pending_sig = True
        if ty == "NEWLINE":
            if not pending_sig:
                return {"kind": "newline-without-significant-token", "index": i}
            pending_sig = False
    if n_end != 1:
        return {"kind": "endmarker-count", "n": n_end}
    if depth_ind != 0:
        return {"kind": "indent-dedent-imbalance", "depth": depth_ind}
    if pending_sig:
        return {"kind": "logical-line-without-newline"}
    # (c) gaps are indentation or backslash-continuations
    pos = (1, 0)
    for start, end in covered:
        gap = slice_src(lines, pos, start) if pos < start else ""
        if gap:
            g = gap
            # leading indentation of a line, or backslash-newline (possibly followed by indentation)
            ok = all(ch in " \t\x0c" for ch in g) and pos[1] == 0 or g.replace("\\\r\n", "").replace("\\\n", "").strip(" \t\x0c") == ""
            if not ok:
                return {"kind": "uncovered-text", "gap": gap, "at": pos}
        pos = max(pos, end)
    tail = slice_src(lines, pos, (len(lines) + 1, 0)) if lines else ""
    if tail.strip(" \t\x0c") not in ("",):
        return {"kind": "uncovered-tail", "gap": tail}
    return None


def check_one(src: str):
    o = impl.tokens(src)
    if o["k"] != "ok":
        return {"skip": o["k"], "cls": o.get("cls")}
    bad = check_tokens(src, o["toks"])
    if bad:
        return bad
    kinds = sorted({t[0] for t in o["toks"]})
    multi = any(t[2][0] != t[3][0] for t in o["toks"])
    return {"ok": True, "kinds": kinds, "multiline": multi}


def build_inputs(tier):
    r = rng("C08")
    N = quick_scale() if tier == "quick" else 40
    cases = []
    base = list(corpus.PY_STMTS) + list(xonshgen.XONSH_STMTS) + [s + "\n" for s in corpus.FSTRINGS] + [p[0] + "\n" for p in corpus.xonsh_pairs()]
    for s in base:
        for lay in mutate.LAYOUTS:
            cases.append(("base:" + lay, mutate.layout(s, lay, r)))
    # texts without final newline whose last physical line LOOKS like a comment or is blank
    for s in ['x = """\n# not a comment"""', "x = 1 \\\n# c", "x \\\n#", "x \\\n   ", 's = \'\'\'a\n#b\'\'\'', "y = (1,\n# c\n2)", "x = 1\n# c", "x = 1\n   # c", "# only", "if a:\n  b\n  # c", "x = 1\n\\\n# c", "f'''{a}\n# {b}'''"]:
        cases.append(("final-line", s))
        cases.append(("final-line", "p = 0\n" + s))
    for s in ["\ufeffx = 1\n", "\ufeff# c\ny = 2\n", "\ufeff", "x = '\ufeff'\n"]:
        cases.append(("bom", s))
    for i in range(300 * N):
        g = pyprog.gen_program(r, fstrings=True, maxdepth=3, nstmts=r.randint(1, 3))
        if g:
            cases.append(("gen", mutate.layout(g[0], mutate.LAYOUTS[i % 7], r)))
    for _ in range(800 * N):
        cases.append(("soup", mutate.soup(r, r.randint(1, 25))))
    for s in base:
        for _ in range(2 if tier == "quick" else 10):
            cases.append(("damage", mutate.damage(s, r)))
    for _ in range(150 * N):
        x, _t, _k = xonshgen.gen_subproc(r)
        cases.append(("subproc", f"v = {x}\n"))
        s, _c, _b = xonshgen.gen_with_macro(r)
        cases.append(("withmacro", s))
    extra = ["'''a\nb'''\n", 'x = """a\n\n  b""" + 1\n', "s = 'a\\\n  b'\n", "f'''{x}\n{y}'''\n", "f'''a\n  b{x}c\n d'''\n", "if x:\n\ty\n\tz\n", "if x:\n    y\n\n    # c\n    z\nw\n", "a = (1,\n  # c\n  2)\n", "x = 1 \\\n  + 2\n", "\x0cx = 1\n", "x\r\ny\r\n", "ñ = 'ü'\n", "x  # c", "  # only comment\n", "\n\n", "", "x = 1;", "def f():\n  if a:\n    b\n  c\nd\n", "f'{x!r:>{w}}' f\"{a}{b}\"\n", "f'{x:\n}'\n"]
    for s in extra:
        cases.append(("extra", s))
    files = corpus.stdlib_files()
    rr = rng("C08", "stdlib")
    for name, s in (files if tier != "quick" else rr.sample(files, 6)):
        cases.append(("stdlib", s))
    for name, s in corpus.test_data_files():
        cases.append(("testdata", s))
    return cases


def run(rep, tier, pool, variants=("shipped",)):
    rep.rule = (
        "inputs: Python/xonsh/f-string snippet pools x 7 layouts (CRLF, tabs, form feeds, continuations, comments, no final newline), ASDL-directed "
        "programs, character soup, damaged programs, subprocess and with-macro texts, multi-line strings, stdlib and tests/data files; oracle: the "
        "tiling predicate of the property evaluated on list(generate_tokens(text)) against the source text itself; non-trivial = tokenizer "
        "finished; distinct by text"
    )
    cases = build_inputs(tier)
    res = pool.call("harness.props.c08:check_one", [(s,) for _, s in cases], timeout=60)
    for (kind, src), o in zip(cases, res):
        if o.get("skip"):
            rep.case(src, False)
            rep.count(f"{kind}:tokenizer-{o['skip']}")
            continue
        if o.get("k") in ("hang", "crash", "worker-exc", "not-run"):
            rep.case(src, False)
            rep.count("infra:" + o["k"])
            continue
        rep.case(src, True, sample=src[:80] if kind in ("soup", "gen") else None)
        if o.get("ok"):
            rep.count("source:" + kind.split(":")[0])
            for k in o["kinds"]:
                rep.count("tok:" + k)
            if o["multiline"]:
                rep.count("has-multiline-token")
            continue
        src_min = src
        try:
            from harness.shrink import ddmin

            kind0 = o.get("kind")
            src_min = ddmin(src, lambda s: (check_one(s) or {}).get("kind") == kind0, 300) if len(src) < 3000 else src
            o2 = check_one(src_min)
        except Exception:  # noqa: BLE001
            o2 = o
        import re as _re

        if _re.search(r"\r(?!\n)", src_min):
            rep.known("KF-C08-lone-cr", f"lone CR: {o2.get('kind') if isinstance(o2, dict) else o2} on {short(src_min, 30)}")
            continue
        _ls = src_min.split("\n")
        _cont_into_blank = any(_ls[i].rstrip("\r").endswith("\\") and (not _ls[i + 1].strip() or _ls[i + 1].strip().startswith("#")) for i in range(len(_ls) - 1))
        if isinstance(o2, dict) and o2.get("kind") == "newline-without-significant-token" and _cont_into_blank:
            rep.known("KF-C08-continuation-into-final-comment", f"a backslash continuation runs into a blank/comment line: NEWLINE without a significant token: {short(src_min, 30)}")
            continue
        rep.violation(f"C08 {o.get('kind')}: {short(o2, 140)} on {short(src_min, 60)}", {"property": "C08", "input": src_min, "original_input": src if len(src) < 5000 else src[:5000], "observed": o2, "oracle": "tiling predicate vs source text"})
