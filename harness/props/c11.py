"""C11 oracle search: raised SyntaxError/IndentationError are well-formed and point into the source."""
from __future__ import annotations

from harness import impl
from harness.common import quick_scale, rng, short
from harness.gen import corpus, mutate, pyprog, xonshgen


def error_problems(src: str, o: dict):
    lines = impl._split_lines(src) if False else src.split("\n")
    # physical lines as the tokenizer sees them (split on \n only, keepends)
    plines = [ln + "\n" for ln in lines[:-1]] + ([lines[-1]] if lines[-1] != "" else [])
    n = len(plines)
    probs = []
    if not o.get("msg"):
        probs.append("no-message")
    if not o.get("filename"):
        probs.append("no-filename")
    ln, off, eln, eoff, text = o.get("lineno"), o.get("offset"), o.get("end_lineno"), o.get("end_offset"), o.get("text")
    if not isinstance(ln, int) or not (1 <= ln <= n + 1):
        probs.append(f"lineno={ln!r} not in 1..{n + 1}")
        return probs
    linetext = plines[ln - 1] if ln <= n else ""
    if not isinstance(off, int) or not (1 <= off <= len(linetext.rstrip('\n')) + 2):
        probs.append(f"offset={off!r} not in 1..len(line)+1 (line {ln} has {len(linetext)} chars)")
    if eln is None or eoff is None:
        probs.append(f"no end position ({eln!r},{eoff!r})")
    elif isinstance(eln, int) and isinstance(eoff, int) and isinstance(off, int) and (eln, eoff) < (ln, off):
        probs.append(f"end ({eln},{eoff}) before start ({ln},{off})")
    # trailing whitespace of the source line is not significant for printing the line with a caret
    if text is None or not str(text).startswith(linetext.rstrip()):
        probs.append(f"text {short(text, 40)} does not begin with source line {ln} {short(linetext, 40)}")
    return probs


_DIRECT_TOKENIZER_USED = False


def _use_tokenizer_directly(variant):
    """Once per worker process: the pegen idiom `Tokenizer(generate_tokens(readline))` on an unrelated snippet, read to the
    end - what a caller may have done earlier in the process must not show in a later error report."""
    global _DIRECT_TOKENIZER_USED
    if _DIRECT_TOKENIZER_USED or variant != "shipped":
        return
    _DIRECT_TOKENIZER_USED = True
    import io

    from peg_parser.tokenize import Token, generate_tokens
    from peg_parser.tokenizer import Tokenizer

    try:
        tz = Tokenizer(generate_tokens(io.StringIO("first = 1\nsecond = 2\nthird = (3,\n  4)\nfourth = 5\nfifth = 6\n").readline))
        while tz.getnext().type != Token.ENDMARKER:
            pass
    except Exception:  # noqa: BLE001
        pass


def parse_file_outcome(src: str, variant: str = "shipped"):
    """The same through parse_file: a UTF-8 file outside /repo, /verif and /tmp whose PATH is re-used by this worker for every
    input it gets (a file that is edited and parsed again), after the tokenizer class has been used directly once."""
    import os
    import tempfile
    from pathlib import Path

    _use_tokenizer_directly(variant)
    d = tempfile.gettempdir() if False else "/var/tmp"
    name = os.path.join(d, f"xv.c11.{os.getpid()}.py")
    try:
        # the file's previous content, rejected as well (so the replay of one input carries its own history)
        with open(name, "wb") as f:
            f.write("".join(f"earlier_content_{i} = (\n" if i == 1 else f"earlier_content_{i} = {i} +\n" for i in range(1, 30)).encode())
        try:
            impl.parser_cls(variant).parse_file(Path(name))
        except BaseException:  # noqa: BLE001
            pass
        with open(name, "wb") as f:
            f.write(src.encode("utf-8"))
        try:
            tree = impl.parser_cls(variant).parse_file(Path(name))
        except BaseException as e:  # noqa: BLE001
            return impl.err_dict(e)
        return {"k": "tree" if tree is not None else "none"}
    finally:
        try:
            os.unlink(name)
        except OSError:
            pass


def check_one(src: str, mode: str = "exec", variant: str = "shipped", py_version=None):
    if mode == "file":
        try:
            src.encode("utf-8")
        except UnicodeEncodeError:
            return {"skip": "unencodable"}
        o = parse_file_outcome(src, variant)
        if o["k"] == "err":
            # universal newlines: compare against the text as the file is read
            src = src.replace("\r\n", "\n").replace("\r", "\n")
    else:
        o = impl.parse(src, mode, py_version=py_version, variant=variant)
    if o["k"] == "exc" and o.get("cls") not in ("RecursionError",):
        return {"kind": "malformed-error", "problems": [f"raised {o.get('cls')} instead of a SyntaxError: {str(o.get('msg'))[:80]}"], "error": {"cls": o.get("cls"), "msg": o.get("msg")}}
    if o["k"] != "err":
        return {"skip": o["k"]}
    probs = error_problems(src, o)
    if probs:
        return {"kind": "malformed-error", "problems": probs, "error": {k: o.get(k) for k in ("cls", "msg", "lineno", "offset", "end_lineno", "end_offset", "text")}}
    return {"ok": True, "msg": o["msg"], "cls": o["cls"]}


def classify(src, o, extra=None):
    e = o.get("error", {})
    msg = e.get("msg") or ""
    if "is only supported in Python" in msg and e.get("lineno") is None:
        return "KF-C11-version-check-no-position"
    if msg.startswith("Unmatched closing paren") and e.get("lineno") is None:
        return "KF-C11-macro-paren-no-position"
    if e.get("cls") == "IndentationError" and msg.startswith("unindent does not match") and all(p.startswith(("no end position",)) for p in o.get("problems", [])):
        return "KF-C11-tokenizer-indentation-error"
    if (e.get("lineno") == 1 or True) and e.get("offset") in (0, None) and any(k in msg for k in ("invalid", "literal", "Exceeds", "too many", "malformed", "unterminated", "unicode", "codec", "escape", "null")) and "<unknown>" == (e.get("text") and "<unknown>"):
        return None
    return None


INVALID_SNIPPETS = [
    "x = (1 +\n\n\n 2) 3\n", "if a:\n    y = b if (c or\nd)\n", "def f():\n    if x:\ny = 1\n", "class A:\n    def g(s):\nz = 2\n", "for i in j:\n    while k:\n  m = 3\n", "if x:\n        print 'a' + (\n1)\n", "x = a if (b,\n c)\n", "f(a for a in (b,\n c), d)\n", "y = [b for b in (c,\nd) e]\n", "class A\n", "x = f(a, b) c\n", "x = {1: 2, (a, bbbbbbbbbbbbbbbbbbbbbbbbbbbbbbbbbbb)}\n", "d = {a: 1, (b, ccccccccccccccccccccccccccccc) 2}\n", "f(a, (b, cccccccccccccccccccccc) d)\n", "[a,\n\n b for b in c]\n", "f(a for a in b, c)\n", "x = 1 +\n", "def f(:\n  pass\n", "if x\n    y\n", "for x in:\n pass\n", "a = = b\n", "print 'x'\n", "x = [1, 2\ny = 3\n",
    "class A\n    pass\n", "import\n", "from . import\n", "f(**a, *b)\n", "f(a=1, b)\n", "(a, b) += 1\n", "a + 1 = 2\n", "del f()\n", "for f() in x: pass\n", "with a as 1: pass\n", "x = {1: 2, 3}\n",
    "lambda x=1, y: 0\n", "def f(a=1, b): pass\n", "def f(*): pass\n", "def f(**k, a): pass\n", "try:\n    pass\n", "try:\n  pass\nexcept A, B:\n  pass\n", "else:\n  pass\n", "x = 'abc\n", "if a:\npass\n",
    "  x = 1\n", "if a:\n    b\n  c\n", "while True:\n\tx\n        y\n", "a ? b\n", "$(\n", "x = $\n", "f!(]\n", "f!(a) b\n", "with! a\n", "x = `abc\n", "match x:\n    case 1 | y | 2: pass\n", "match x:\n  case [a, *b, *c]: pass\n",
    "x = 1 if 2\n", "if a:\n\t\tx\n\ty\n", "if a:\n\t  x\n\t y\n", "f(a, *)\n", "print(x, y, *, sep='')\n", "x = not\n", "a.\n", "a[\n", "@\ndef f(): pass\n", "@dec\n", "x = yield = 1\n", "None = 1\n", "True += 1\n", "f(x for x in y)(\n", "1 = x\n", "'a' = 1\n", "f() = 1\n", "x = 5 5\n", "x = (a b)\n", "[a b]\n", "{a b}\n", "f(a b)\n",
    "a = 1\nb = (2,\n  3\nc = 4\n", "x = [\n  1,\n  2\n  3\n]\n", "def f():\n    return (1,\n\n        2 3)\n", "s = '''a\nb''' 'c' 5\n", "s = ('''a\nb\nc''' 3)\n", "x = {\n 'a': 1\n 'b': 2}\n", "async x\n", "await = 3 4\n",
    "class A[T]: pass\n", "type X = int\n", "try:\n  pass\nexcept* E:\n  pass\n", "def f[T](x): pass\n",
    "x = 0777\n", "x = 1__0\n", "x = 0b12\n", "x = 1.2.3\n", "x = 1e\n", "x = '\\x'\n", "x = b'é'\n", "x = 1_\n", "x = 0_7\n", "x = 10**99999j +\n", "import a.b as\n", "from a import (b\n", "global\n", "nonlocal 1\n", "assert\n", "raise from x\n", "return = 1\n",
    "f'{x'\n", "f'{}'\n", "f'{x!z}'\n", "f'{x!}'\n", "f'{'\n", "f'}'\n", "f'{a b}'\n", "x = f'{lambda: 1}'\n",
]


def spread(s: str) -> str:
    out, depth, quote = [], 0, None
    for i, ch in enumerate(s):
        if quote:
            if ch == quote:
                quote = None
        elif ch in "'\"":
            quote = ch
        elif ch in "([{":
            depth += 1
        elif ch in ")]}":
            depth = max(0, depth - 1)
        if ch == " " and depth > 0 and not quote and s[i - 1 : i] != " ":
            out.append("\n" + " " * (12 + 7 * (len(out) % 4)))
        else:
            out.append(ch)
    return "".join(out)


def build_inputs(tier):
    r = rng("C11")
    N = quick_scale() if tier == "quick" else 30
    cases = []
    for s in INVALID_SNIPPETS:
        cases.append(("table", s, "exec", None))
        cases.append(("table", "ok = 1\n\n" + s, "exec", None))
        cases.append(("table", s + "\nlater = 2\n", "exec", None))
    # literals whose EVALUATION fails (the error is raised from literal_eval's own SyntaxError / ValueError): the integer
    # conversion limit, with the literal first on its physical line, inside brackets, after other code
    big = "7" * 4400
    for s in [big + "\n", "x = " + big + "\n", "f(1,\n" + big + ")\n", "y = [\n    " + big + ",\n 2]\n", "if a:\n    " + big + "\n", big + " + 1\n", "-" + big + "\n", "x = 0x" + "f" * 10 + " + " + big + "\n"]:
        cases.append(("literal-eval-error", s, "exec", None))
        cases.append(("literal-eval-error", "ok = 1\n" + s, "exec", None))
    cases.append(("literal-eval-error", big, "eval", None))
    # eval mode with leading blanks: positions and text must describe the caller's text, not a stripped copy
    for e in ["", "#c", "\n", " ", "\t\n"]:
        cases.append(("eval-empty", e, "eval", None))
    for e in ["1 +", "f(a for a in b, c)", "(a b)", "x = 1", "a if b", "[1, 2", "lambda: (yield", "'abc"]:
        for lead in [" ", "   ", "\t\t", " \t "]:
            cases.append(("eval-lead", lead + e, "eval", None))
            cases.append(("eval-lead", lead + e + "\n", "eval", None))
    for sep in ["\x0c", "\x0b", "\x1c", "\x85", "\u2028"]:
        for s in INVALID_SNIPPETS[:40]:
            cases.append(("file-oddsep", f"import os  # {sep} c\n{sep}\n" + s, "file", None))
    for s in INVALID_SNIPPETS:
        cases.append(("file", s, "file", None))
        cases.append(("file", "ok = 1\n\n" + s, "file", None))
        cases.append(("file-nofinal", s.rstrip("\n"), "file", None))
        cases.append(("nofinal", s.rstrip("\n"), "exec", None))
        if "\n" not in s.rstrip("\n"):
            # the construct as the LAST line of a longer text without final newline (errors at the very end of the text)
            cases.append(("file-nofinal-last", "import os\n" + s.rstrip("\n"), "file", None))
            cases.append(("nofinal-last", "import os\n" + s.rstrip("\n"), "exec", None))
        # the same construct spread over several lines of very different lengths: every blank inside a bracket becomes
        # a line break followed by a long indentation (positions computed from the wrong line fall outside it)
        ml = spread(s)
        if ml != s:
            cases.append(("multiline", ml, "exec", None))
            cases.append(("multiline-file", ml, "file", None))
    # errors reported at the END of a text whose last physical line is only the tail of a multi-line (or continued) string:
    # the implicit NEWLINE/ENDMARKER carry no line text of their own
    tails = ['if x == """a\nb"""', "while '" + "''p\nq\nr''" + "'", 'for i in """a\nb""" + c', "class A('" + "''x\ny''" + "')", 'def f(a="""d\ne""")',
             "x = (1,\n'" + "''s\nt''" + "'", "if x == 'a\\\nb'", 'elif """a\nb""":\n  pass', 'y = [\n"""a\n  b""",', 'print("""a\nb""" """c\nd"""']
    for t in tails:
        for pre in ["", "import os\n", "z = 0\n\n"]:
            for suf in ["", "\n", " "]:
                cases.append(("string-tail-file", pre + t + suf, "file", None))
                cases.append(("string-tail", pre + t + suf, "exec", None))
    for s in ["class A[T]: pass\n", "type X = int\n", "try:\n  pass\nexcept* E:\n  pass\n", "def f[T](x): pass\n", "x = 1\ntype Y[T] = T\n"]:
        for v in [(3, 8), (3, 10), (3, 11)]:
            cases.append(("version", s, "exec", v))
    base = list(corpus.PY_STMTS) + list(xonshgen.XONSH_STMTS)
    for i in range(60 * N):
        g = pyprog.gen_program(r, fstrings=False, maxdepth=3, nstmts=r.randint(2, 4))
        if g:
            base.append(g[0])
    for s in base:
        for _ in range(6 if tier == "quick" else 30):
            cases.append(("damage", mutate.damage(s, r), "exec", None))
        m = mutate.token_edits(s, r, ["(", ")", ",", ":", "=", "if", "1", "x", "for", "in", "[", "]", "lambda", "*", "def"])
        if m:
            cases.append(("tokedit", m + "\n", "exec", None))
    for s in corpus.PY_EXPRS:
        cases.append(("expr", mutate.damage(s, r), "eval", None))
    for s in list(corpus.PY_STMTS) + list(xonshgen.XONSH_STMTS):
        for d in mutate.token_deletions(s):
            cases.append(("tokdel", d, "exec", None))
    seen = set()
    return [c for c in cases if not ((c[1], c[2], c[3]) in seen or seen.add((c[1], c[2], c[3])))]


def run(rep, tier, pool, variants=("shipped",)):
    rep.rule = (
        "rejected inputs: a table of 150 invalid programs (each also preceded by blank lines and followed by more code: errors on first/last/"
        "blank-adjacent lines, inside multi-line brackets and strings, literal-evaluation and tokenizer errors), version-gated syntax under old "
        "py_version, damaged/token-edited Python and xonsh programs; oracle: the property's predicate on the raised exception's attributes vs the "
        "input text; non-trivial = a SyntaxError/IndentationError was raised; distinct by (text, mode, py_version); coverage per message counted"
    )
    cases = build_inputs(tier)
    for variant in variants:
        res = pool.call("harness.props.c11:check_one", [(s, m, variant, v) for _, s, m, v in cases], timeout=20)
        for (kind, src, mode, v), o in zip(cases, res):
            if o.get("skip") or o.get("k") in ("hang", "crash", "worker-exc", "not-run"):
                rep.case((src, mode, v), False)
                rep.count(f"{kind}:not-an-error-{o.get('skip') or o.get('k')}")
                continue
            rep.case((src, mode, v), True, sample={"src": src[:60], "error": o.get("msg")} if o.get("ok") and kind == "table" else None)
            if o.get("ok"):
                rep.count("msg:" + (o["msg"] or "")[:40])
                continue
            fid = classify(src, o)
            if fid:
                rep.known(fid, f"{short(o['error'].get('msg'), 50)} {o['problems'][:1]} on {short(src, 30)}")
                continue
            rep.violation(f"C11 {short(o.get('problems'), 120)} for error {short(o['error'].get('msg'), 40)} on {short(src, 60)}", {"property": "C11", "input": src, "mode": mode, "py_version": v, "observed": o, "variant": variant})
