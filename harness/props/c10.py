"""C10 oracle search: f-string tokens and trees agree with CPython 3.12."""
from __future__ import annotations

import ast
import io
import itertools
import re
import tokenize as pt

from harness import impl
from harness.common import quick_scale, rng, short
from harness.gen import corpus, pyprog


def cp_tokens(src):
    out = []
    for t in pt.generate_tokens(io.StringIO(src).readline):
        n = pt.tok_name[t.type]
        if n in ("COMMENT", "NL"):
            continue
        out.append((n, t.string, tuple(t.start), tuple(t.end)))
    return out


def known_class(src: str):
    """Decidable classes of inputs on which the unchanged tree is known to differ (see known_findings.json)."""
    try:
        toks = list(pt.generate_tokens(io.StringIO(src).readline))
    except Exception:  # noqa: BLE001
        return None
    depth = 0
    stack = []  # per open f-string: [raw?, brace depth inside field, in_spec?]
    cls = set()
    for t in toks:
        n = pt.tok_name[t.type]
        if n == "FSTRING_START":
            stack.append({"raw": "r" in t.string.lower(), "field": 0, "spec": [], "triple": t.string.endswith(("\'\'\'", '"""'))})
        elif n == "FSTRING_END":
            if stack:
                stack.pop()
        elif n == "FSTRING_MIDDLE" and stack:
            st = stack[-1]
            text = t.string
            seg = src.split("\n")
            raw_text = _slice(src, t.start, t.end)
            if st["spec"] and st["spec"][-1]:
                # text of a format spec
                if "\n" in raw_text:
                    cls.add("KF-C10-multiline-spec")
                if "\\" in raw_text:
                    cls.add("KF-C10-escape-in-literal")
            else:
                if "\\" in raw_text and not st["raw"]:
                    cls.add("KF-C10-escape-in-literal")
                if "\\N{" in raw_text:
                    cls.add("KF-C10-named-escape")
        elif n == "OP" and stack:
            st = stack[-1]
            if t.string == "{":
                if st["spec"] and st["spec"][-1]:
                    cls.add("KF-C10-nested-spec-field")
                st["spec"].append(False)
            elif t.string == "}":
                if st["spec"]:
                    st["spec"].pop()
            elif t.string == ":" and st["spec"] and st["spec"][-1] is False:
                # only a top-level ':' of the field starts the spec; approximate: CPython emits FSTRING_MIDDLE next
                st["spec"][-1] = True
                if st["triple"]:
                    cls.add("KF-C10-spec-in-triple-quoted")
            elif t.string == "=" and st["spec"] and st["spec"][-1] is False:
                cls.add("KF-C10-debug-eq")
            elif t.string == ":=" and st["spec"]:
                cls.add("KF-C10-spec-starting-with-eq")
    # doubled braces: decided on the raw text of each f-string literal
    starts = []
    for t in toks:
        n = pt.tok_name[t.type]
        if n == "FSTRING_START":
            starts.append(t.start)
        elif n == "FSTRING_END" and starts:
            st0 = starts.pop()
            if not starts:
                raw = _slice(src, st0, t.end)
                if "{{" in raw or "}}" in raw:
                    cls.add("KF-C10-doubled-brace")
    if re.search(r":\}", src):  # EMPTY spec only: a spec made of blanks is a spec (`f'{x: }'` keeps Constant(' '))
        cls.add("KF-C10-empty-spec")
    if re.search(r"\{[^{}]*:=", src):
        cls.add("KF-C10-spec-starting-with-eq")
    return cls


def _slice(src, start, end):
    lines = src.split("\n")
    lines = [ln + "\n" for ln in lines[:-1]] + [lines[-1]]
    (l0, c0), (l1, c1) = start, end
    if l0 == l1:
        return lines[l0 - 1][c0:c1]
    return lines[l0 - 1][c0:] + "".join(lines[l0:l1 - 1]) + lines[l1 - 1][:c1]


def check_one(src: str, mode: str = "exec", variant: str = "shipped"):
    try:
        ref = ast.parse(src, mode="exec" if mode == "exec" else "eval")
        rtoks = cp_tokens(src)
    except (SyntaxError, ValueError, pt.TokenError, IndentationError):
        return {"skip": "cpython-rejects"}
    if not any(isinstance(n, ast.JoinedStr) for n in ast.walk(ref)):
        return {"skip": "no-fstring"}
    if "@(" in src:
        return {"skip": "@(-digraph"}
    res = {}
    # tokens
    o = impl.tokens(src)
    if o["k"] != "ok":
        res = {"kind": "tokenizer-fails", "outcome": {k: v for k, v in o.items() if k != "toks"}}
    else:
        keep = {"NAME", "NUMBER", "STRING", "OP", "NEWLINE", "INDENT", "DEDENT", "ENDMARKER", "FSTRING_START", "FSTRING_MIDDLE", "FSTRING_END", "ERRORTOKEN", "SEARCH_PATH"}
        got = [(ty, s, tuple(a), tuple(b)) for ty, s, a, b, _l in o["toks"] if ty in keep]

        def norm(seq):
            return [(ty, s, None, None) if (ty in ("DEDENT", "ENDMARKER") or (ty == "NEWLINE" and s == "")) else (ty, s, a, b) for ty, s, a, b in seq]

        g, r = norm(got), norm(rtoks)
        if g != r:
            for i, (x, y) in enumerate(itertools.zip_longest(g, r)):
                if x != y:
                    if x and y and x[:3] == y[:3] and x[0] == "FSTRING_MIDDLE" and "\n" in x[1] and not x[1].isascii():
                        continue  # CPython 3.12.1 reports a UTF-8 byte column for the end of a multi-line FSTRING_MIDDLE
                    res = {"kind": "token-differs", "index": i, "got": x, "want": y}
                    break
    if not res:
        tree, po = impl.parse_tree(src, mode, variant=variant)
        if tree is None:
            res = {"kind": "rejected", "outcome": {k: v for k, v in po.items() if k in ("k", "cls", "msg", "lineno", "offset")}}
        else:
            d = impl.ast_diff(tree, ref)
            if d:
                if not src.isascii():
                    ref2 = impl.byte_cols_to_char_cols(ast.parse(src, mode="exec" if mode == "exec" else "eval"), src)
                    if not impl.ast_diff(tree, ref2):
                        return {"ok": True, "note": "nonascii-columns (C01 finding)"}
                res = {"kind": "tree-differs", "diffs": d[:3]}
    if not res:
        return {"ok": True}
    res["classes"] = sorted(known_class(src) or [])
    return res


PREFIXES = ["f", "F", "rf", "fr", "Rf", "fR", "RF"]
QUOTES = ["'", '"', "'''", '"""']
LITS = ["", "a", " b c ", "é", "#", "x=1", ":", "!", "(", "]"]
LITS_KNOWN = ["{{", "}}", "a{{b}}c", "\\n", "\\\\", "\\x41", "\\N{DIGIT ONE}", "\\'"]
LITS_RAW = ["\\", "\\d", "C:\\", "a\\b", "\\\\", "\\n", "\\ "]
FIELDS = ["{yield}", "{yield x}", "{yield from it}", "{await z}", "{not x}", "{x or y}", "{-x}", "{x < y}", "{x[1:2]}", "{x}", "{ x }", "{x!r}", "{x!s}", "{x!a}", "{x:>10}", "{x:.2f}", "{x!r:^8}", "{x.y[0]}", "{f(a, b)}", "{a + b}", "{(lambda: 1)()}", "{a if b else c}", "{[i for i in z]}", "{ {1: 2}[1] }", "{x:}", "{x:%Y-%m}", "{x,}", "{*a, b}", "{x!r:}", "{yield_}", "{a.b!s:>{w}}"[:0] or "{a.b!s}", "{x:#x}", "{x:,}", "{x:08.3f}"]
FIELDS_KNOWN = ["{x=}", "{x = }", "{x=!r}", "{x:{w}}", "{x:{w}.{p}}", "{x!r:>{w}}", "{x:=5}" if False else "{x:>{w}}"]


def build_inputs(tier):
    r = rng("C10")
    N = quick_scale() if tier == "quick" else 20
    cases = []
    for s in corpus.FSTRINGS:
        cases.append(("pool", "x = " + s + "\n", "exec"))
        if "\n" not in s:
            cases.append(("pool", s, "eval"))
    # what a field may contain across lines: backslash continuations and plain line breaks inside the braces, followed by
    # more code at a smaller indentation (the tokenizer's per-line flags must be back to normal after the string)
    for body in ["{a + \\\n b}", "{a +\n b}", "x{a}\n{b + \\\n c}y", "{(a,\n b)}"]:
        for q in ["'''", '"""']:
            cases.append(("multiline-field", f"if x:\n    y = f{q}{body}{q}\nz = 3\n", "exec"))
            cases.append(("multiline-field", f"y = f{q}{body}{q}\nz = 3\n", "exec"))
    cases.append(("multiline-field", "if x:\n    y = f'{a + \\\n b}'\nz = 3\n", "exec"))
    for fs in ["f'{x:>3}'", "f'{x!r:>3}'", "f'{x}'", "f'a{x:.2f}b'", 'f"{x:>3}" f"{y}"', "f'''{x:>3}'''"]:
        for tail in [" + \\\n    1\n", " \\\n    'more'\n", "  # c\n"]:
            cases.append(("spec-then-continuation", f"y = {fs}{tail}z = 3\n", "exec"))
            cases.append(("spec-then-continuation", f"if a:\n    y = {fs}{tail}z = 3\n", "exec"))
    # quote characters INSIDE f-strings: pairs of the delimiter's own quote in triple-quoted literal text before a field, a lone
    # quote, quotes of the other kind; a quote as the fill character of a format spec
    tq, dq = "'" * 3, '"' * 3
    for s in [f"f{tq}a''{{x}}{tq}", f"f{dq}{{a}} \"\" {{b}}{dq}", f"f{tq}it's {{x}}{tq}", f"f{tq}SELECT '' AS e, {{col}}\nFROM {{t}}{tq}", f"f{tq}a\"{{x}}{tq}", f"f{dq}a''{{x}}'{dq}",
              f"f{tq}''{{x}}''{{y}}{tq}", f"rf{dq}\"\"{{x}}{dq}", "f\"{x:'^10}\"", "f'{x:\"^10}'", f"f{tq}{{x:'^10}}{tq}", "f\"{name:'>12}|{value:'<8}\"", "f'{d[\"k\"]:>5}'", "f\"{x!r:'<6}\""]:
        cases.append(("quotes-inside", "x = " + s + "\n", "exec"))
        cases.append(("quotes-inside", "print(" + s + ", 1)\n", "exec"))
    # format specs made of blanks only (a space is the sign flag: the spec is NOT empty), alone and after a conversion
    for s_ in ["f'{x: }'", "f'{x:  }'", 'f"{x!r: }"', "f'{x:\t}'", "f'{x: }{y:  }z'", "f'a{x!s: }b'", "f'{x: >5}'", "f'{x:> }'", 'f"""{x: }"""']:
        cases.append(("blank-spec", "x = " + s_ + "\n", "exec"))
        cases.append(("blank-spec", "print(" + s_ + ", 1)\n", "exec"))
    # product generator (valid sub-domain and known-defect sub-domain)
    for _ in range(900 * N):
        p = r.choice(PREFIXES)
        q = r.choice(QUOTES)
        parts = []
        for _ in range(r.randint(0, 4)):
            k = r.random()
            if k < 0.4:
                lit = r.choice(LITS if r.random() < 0.8 else LITS_KNOWN)
                if "r" in p.lower() and r.random() < 0.5:
                    lit = r.choice(LITS_RAW)  # raw f-strings: a backslash is an ordinary character, also right before a field
                parts.append(lit)
            else:
                f = r.choice(FIELDS if r.random() < 0.85 else FIELDS_KNOWN)
                if q[0] == '"':
                    f = f.replace('"', "'")
                if r.random() < 0.15:
                    iq = "'" if q[0] == '"' else '"'
                    f = "{f" + iq + "{y}" + r.choice(["", "z"]) + iq + "}"
                parts.append(f)
        body = "".join(parts)
        if len(q) == 3 and r.random() < 0.4:
            body = "\n".join(parts) if r.random() < 0.6 else body.replace(" ", "\n", 1)
        s = f"{p}{q}{body}{q}"
        # concatenations with neighbours
        k = r.random()
        if k < 0.15:
            s = s + " " + r.choice(["'t'", '"u"', "f'{v}'", "'''w'''", "'{}'", "{1: 2}" if False else "'}'"])
        elif k < 0.3:
            s = r.choice(["'t'", 'u"u"', 'U"v"', "f'{v}'", "r'\\d'", "''"]) + " " + s
        ctx = r.choice(["x = {}\n", "print({}, {{1}})\n", "{}\n", "f({}, k={})\n", "y = [{}]\nz = {{'a': 1}}\n", "if {}: pass\n"])
        cases.append(("product", ctx.replace("{}", s.replace("{", "\x01").replace("}", "\x02")).replace("{{", "{").replace("}}", "}").replace("\x01", "{").replace("\x02", "}"), "exec"))
    # implicit concatenations (inside parentheses, so they may spread over lines) in which the pieces THEMSELVES span lines:
    # triple-quoted plain strings and f-strings, backslash-newline inside a piece; every order of 2-3 pieces
    q3 = "'" * 3
    pieces = ["f'{x}a'", "f'a{x}'", "'b'", f"{q3}c\nd{q3}", f"f{q3}e\n{{y}}{q3}", f"f{q3}{{y}}g\nh{q3}", "r'\\d'", "u'k'", "''", "f''", f"{q3}\n{q3}", "'m\\\nn'", "f'{z!r:>4}'", f"rf{q3}o\np{{w}}{q3}"]
    import itertools as _it

    combos = list(_it.permutations(range(len(pieces)), 2)) + [tuple(r.sample(range(len(pieces)), 3)) for _ in range(120 * N)]
    for idx in combos:
        ps = [pieces[i] for i in idx]
        if not any(p.lstrip("ru").startswith("f") or p.startswith("rf") for p in ps):
            continue
        for sep in [" ", "\n  "]:
            cases.append(("concat-multiline", "v = (" + sep.join(ps) + ")\n", "exec"))
    for i in range(150 * N):
        g = pyprog.gen_program(r, fstrings=True, maxdepth=3, nstmts=2)
        if g:
            cases.append(("gen", g[0], "exec"))
    for name, s in corpus.test_data_files():
        if "fstring" in name:
            for st in corpus.split_statements(s, 3000):
                cases.append(("testdata", st, "exec"))
    files = corpus.stdlib_files()
    rr = rng("C10", "stdlib")
    for name, s in (files if tier != "quick" else rr.sample(files, 25)):
        for st in corpus.split_statements(s, 2500):
            if "f'" in st or 'f"' in st or "F'" in st:
                cases.append(("stdlib", st, "exec"))
    seen = set()
    return [c for c in cases if not (c[1] in seen or seen.add(c[1]))]


def run(rep, tier, pool, variants=("shipped",)):
    rep.rule = (
        "f-string literals from the product prefix(7) x quote(4) x literal parts x field forms (conversion, spec, nested f-string, debug '=', nested spec) "
        "x concatenation with neighbours x 6 statement contexts, a pool of 55 hand-written f-strings, ASDL-directed programs with f-strings, "
        "f-string statements of tests/data and the stdlib; oracle: tokenize.generate_tokens and ast.parse of CPython 3.12.1 (token type/string/"
        "start/end; tree with all fields and spans); a difference is attributed to a known finding only if the input belongs to that finding's "
        "decidable class; non-trivial = CPython accepts and the program contains an f-string; distinct by text"
    )
    cases = build_inputs(tier)
    kf_ids = {f["id"] for f in rep.kf.for_property("C10")}
    for variant in variants:
        res = pool.call("harness.props.c10:check_one", [(s, m, variant) for _, s, m in cases], timeout=60)
        for (kind, src, mode), o in zip(cases, res):
            if o.get("skip") or o.get("k") in ("hang", "crash", "worker-exc", "not-run"):
                rep.case(src, False)
                rep.count(f"{kind}:skip-{o.get('skip') or o.get('k')}")
                continue
            rep.case(src, True, sample=src[:80] if kind == "product" else None)
            rep.count("source:" + kind)
            if o.get("ok"):
                rep.count("agree")
                continue
            cl = [c for c in o.get("classes", []) if c in kf_ids]
            if cl:
                for c in cl:
                    rep.known(c, f"{o.get('kind')} on {short(src, 50)}")
                rep.count("known-class")
                continue
            rep.violation(f"C10 {o.get('kind')}: {short(o.get('diffs') or o.get('got') or o.get('outcome'), 100)} on {short(src, 70)}", {"property": "C10", "input": src, "mode": mode, "observed": o, "variant": variant, "oracle": "CPython 3.12.1 tokenize + ast.parse"})
