"""C09 oracle search: significant tokens agree with CPython's tokenize on Python sources."""
from __future__ import annotations

import io
import itertools
import re
import tokenize as pt

from harness import impl
from harness.common import quick_scale, rng, short
from harness.gen import corpus, mutate, pyprog

KEEP = {"NAME", "NUMBER", "STRING", "OP", "NEWLINE", "INDENT", "DEDENT", "ENDMARKER", "FSTRING_START", "FSTRING_MIDDLE", "FSTRING_END"}


def cpython_tokens(src):
    out = []
    for t in pt.generate_tokens(io.StringIO(src).readline):
        name = pt.tok_name[t.type]
        if name in ("COMMENT", "NL"):
            continue
        out.append((name, t.string, tuple(t.start), tuple(t.end)))
    return out


def has_fstring(src):
    try:
        return any(t.type == pt.FSTRING_START for t in pt.generate_tokens(io.StringIO(src).readline))
    except Exception:  # noqa: BLE001
        return True


def check_one(src: str):
    try:
        ref = cpython_tokens(src)
    except (pt.TokenError, SyntaxError, IndentationError, ValueError):
        return {"skip": "cpython-rejects"}
    if any(n in ("ERRORTOKEN",) for n, *_ in ref):
        return {"skip": "cpython-errortoken"}
    if any(n.startswith("FSTRING") for n, *_ in ref):
        return {"skip": "fstring"}  # C10
    if any(d in src for d in ("@(", "&&", "||", ">&")):
        return {"skip": "xonsh-operator-digraph"}  # documented xonsh-only operators; never valid Python
    o = impl.tokens(src)
    if o["k"] != "ok":
        return {"kind": "tokenizer-fails", "outcome": {k: v for k, v in o.items() if k != "toks"}}
    got = [(ty, s, tuple(a), tuple(b)) for ty, s, a, b, _l in o["toks"] if ty in KEEP or ty in ("ERRORTOKEN", "SEARCH_PATH", "MACRO_PARAM")]
    # documented differences: the implicit final NEWLINE/DEDENT/ENDMARKER coordinates
    def norm(seq):
        out = []
        for ty, s, a, b in seq:
            if ty in ("NEWLINE",) and s == "":
                out.append((ty, s, None, None))
            elif ty in ("DEDENT", "ENDMARKER"):
                out.append((ty, s, None, None))
            else:
                out.append((ty, s, a, b))
        return out

    g, r = norm(got), norm(ref)
    if g != r:
        for i, (x, y) in enumerate(itertools.zip_longest(g, r)):
            if x != y:
                return {"kind": "token-differs", "index": i, "got": x, "want": y}
    return {"ok": True, "n": len(got)}


def number_spellings():
    digs = ["0", "1", "7", "10", "1_000", "00", "0_0", "123456789"]
    out = set(digs)
    for h in ["0x1f", "0XAB_cd", "0b101", "0B1_0", "0o17", "0O7_7"]:
        out.add(h)
    for d in ["1", "12", "1_0", "0", "00", "01", "007", "09", "0_1", "0_0"]:
        for f in ["", ".", ".5", ".5_0"]:
            for e in ["", "e5", "E-3", "e+1_0"]:
                for j in ["", "j", "J"]:
                    out.add(d + f + e + j)
    for f in [".5", ".0_1"]:
        for e in ["", "e5", "E-3"]:
            for j in ["", "j"]:
                out.add(f + e + j)
    return sorted(out)


def build_inputs(tier):
    r = rng("C09")
    N = quick_scale() if tier == "quick" else 30
    cases = []
    for n in number_spellings():
        cases.append(("number", f"x = {n}\n"))
        cases.append(("number", f"{n}.real if {n} else -{n}\n"))
        cases.append(("number", f"a[{n}:{n}]\n"))
    prefixes = ["", "b", "B", "r", "R", "u", "U", "br", "Br", "bR", "BR", "rb", "rB", "Rb", "RB"]
    for p in prefixes:
        for q in ["'", '"', "'''", '"""']:
            for body in ["", "a", "a b", "\\n", "\\\\", "it" + ("\\'" if q[0] == "'" else '\\"') + "s", "é" if "b" not in p.lower() else "e", "#x", "{}"]:
                cases.append(("string", f"x = {p}{q}{body}{q}\n"))
        cases.append(("string", f"x = {p}'''a\nb'''\n"))
        # one or two quote characters of the delimiter's kind INSIDE a triple-quoted body, the closing triple on the same line or a later one
        for q in ["'''", '"""']:
            c = q[0]
            for body in [f"a{c}b", f"a{c}{c}b", f"an empty {c}{c} string", f"{c}a", f"{c}{c}a", f"a{c}{c}b\nc", f"a\n{c}{c}b", f"a{c} {c}{c} {c}b", f"\\{c}{c}{c}x"]:
                cases.append(("string", f"x = {p}{q}{body}{q}\n"))
                cases.append(("string", f"f({p}{q}{body}{q}, {p}{q}z{q})\n"))
    opchars = ["+", "-", "*", "/", "%", "@", "&", "|", "^", "~", "<", ">", "=", "!=", ":", ".", ",", ";", "(", ")", "[", "]", "{", "}"]
    runs = list(itertools.product(opchars, repeat=2))
    if tier != "quick":
        runs += list(itertools.product(opchars[:14], repeat=3))
    else:
        runs += [tuple(r.choice(opchars[:14]) for _ in range(r.choice([3, 4]))) for _ in range(600)]
    for run in runs:
        s = "".join(run)
        if "!" in s.replace("!=", ""):
            continue
        cases.append(("oprun", f"a {s} b\n"))
        cases.append(("oprun", f"a{s}b\n"))
    indents = ["if a:\n    b\n", "if a:\n\tb\n", "if a:\n  b\n  if c:\n\td\n", "if a:\n        b\n\tc\n", "if a:\n \tb\n", "if a:\n    b\n\x0c    c\n", "\x0cif a:\n    b\n", "if a:\n  b\n\n  c\n # x\nd\n", "if a:\n    b\n  # dedented comment\n    c\n", "if a: # c\n    b # d\n", "x = (1,\n# c\n\n   2)\n", "x = 1 \\\n    + 2\n", "if a:\n    b = [\n1,\n   2]\n    c\n", "def f():\n    if x:\n        y\n    z\nw\n", "class A:\n  def f(s):\n      pass\n  x = 1\n", "\n\n  \nx\n", "x = 1  # c\n# d\n", "if a:\n    pass\n  \n", "if a:\n    b\n\t\n"]
    units = [" ", "  ", "    ", "\t", " \t", "  \t", "   \t", "\t ", "        ", "         ", "\t\t", "       \t", "\t    ", "          ",
             " \x0c", "\x0c ", "    \x0c", "  \x0c    ", "\t\x0c", "\x0c\t", "    \x0c    "]
    for i1 in units:
        for i2 in units:
            indents.append(f"if a:\n{i1}if b:\n{i2}c\n{i1}d\ne\n")
            indents.append(f"if a:\n{i1}b\n{i2}c\n")
    indents += mutate.indent_histories(r, 150 * N)
    for s in indents:
        for lay in ("id", "crlf", "nofinal"):
            cases.append(("indent", mutate.layout(s, lay, r)))
    for s in corpus.PY_STMTS:
        for lay in mutate.LAYOUTS:
            cases.append(("stmt:" + lay, mutate.layout(s, lay, r)))
    for i in range(200 * N):
        g = pyprog.gen_program(r, fstrings=False, maxdepth=3, nstmts=r.randint(1, 3))
        if g:
            cases.append(("gen", mutate.layout(g[0], mutate.LAYOUTS[i % 7], r)))
    for name, s in corpus.test_data_files():
        cases.append(("testdata", s))
    files = corpus.stdlib_files()
    rr = rng("C09", "stdlib")
    for name, s in (files if tier != "quick" else rr.sample(files, 10)):
        for st in corpus.split_statements(s, 4000) if tier == "quick" else [s]:
            cases.append(("stdlib", st))
    for s in ["\u05e2\u05b4\u05d1 = 1\n", "x\u0301 = 2\n", "a\ufe0f = 3\n", "\u00e9\u0300t\u00e9 = caf\u00e9\n"]:
        cases.append(("kf-neighbourhood", s))  # identifiers with combining marks / variation selectors, and plain non-ASCII ones
    # a backslash continuation INSIDE brackets, then a dedent / a blank or comment line / the end of the input
    for body in ["y = (1 + \\\n         2)", "y = [1, \\\n  2, \\\n 3]", "f(a, \\\n  b)", "d = {1: \\\n 2}", "y = (1 + \\\n\\\n 2)"]:
        for tail in ["\nz = 3\n", "\n\nz = 3\n", "\n# c\nz = 3\n", "\n", "", "\n  # indented comment\nz = 3\n"]:
            cases.append(("continuation-in-brackets", "if x:\n    " + body + tail))
            cases.append(("continuation-in-brackets", body + tail))
            cases.append(("continuation-in-brackets", "def f():\n    if x:\n        " + body + "\n    return 1" + tail))
    # identifiers that start with an ASCII letter and go on with non-ASCII letters / digits, and the reverse
    for name in ["caf\u00e9", "na\u00efve", "gr\u00f6\u00dfe", "x\u0663", "se\u00f1or_1", "x_\u00e9", "x\u0394", "\u00e9t\u00e9", "\u0394x", "\u540d\u524d", "a\u00aa", "_\u00b5"]:
        for ctx in ["{} = 1\n", "f({}, {}.attr)\n", "def {}(): pass\n", "import {} as z{}\n", "x = {}+{}\n"]:
            cases.append(("nonascii-name", ctx.replace("{}", name)))
    seen = set()
    return [c for c in cases if not (c[1] in seen or seen.add(c[1]))]


def classify(src, o):
    g, w = o.get("got"), o.get("want")
    if w and g and w[0] == "NAME" and g[0] == "NAME" and w[1].startswith(g[1]) and len(g[1]) < len(w[1]) and not re.match(r"\w", w[1][len(g[1])]):
        return "KF-C09-identifier-combining-marks"
    if w and w[0] == "OP" and w[1] == "<>":
        return "KF-C09-flufl-noteq"
    if w and g and w[0] == "NUMBER" and g[0] == "NUMBER" and re.fullmatch(r"0(?:_?[0-9])*", w[1]) and set(w[1]) - set("0_") and re.fullmatch(r"0(?:_?0)*", g[1]) and w[1].startswith(g[1]):
        return "KF-C09-leading-zero-decimal"
    return None


def run(rep, tier, pool, variants=("shipped",)):
    rep.rule = (
        "inputs: every numeric-literal spelling from a literal grammar (x3 contexts), every string prefix x quote x body, all operator runs of "
        "length 2 (and sampled 3-4) over 24 operator characters, 19 indentation patterns (spaces/tabs/form feeds/blank+comment lines) x CRLF/no-final-newline, "
        "snippet pool x 7 layouts, ASDL-directed programs, tests/data, stdlib statements/files; oracle: tokenize.generate_tokens of the running "
        "CPython, compared on (type modulo documented differences, string, start, end) of significant tokens and NEWLINE/INDENT/DEDENT/ENDMARKER order; "
        "non-trivial = CPython accepts, no f-string (C10); distinct by text"
    )
    cases = build_inputs(tier)
    res = pool.call("harness.props.c09:check_one", [(s,) for _, s in cases], timeout=120)
    for (kind, src), o in zip(cases, res):
        if o.get("skip") or o.get("k") in ("hang", "crash", "worker-exc", "not-run"):
            rep.case(src, False)
            rep.count(f"{kind.split(':')[0]}:skip-{o.get('skip') or o.get('k')}")
            continue
        rep.case(src, True, sample=src[:60] if kind in ("oprun", "number") else None)
        rep.count("source:" + kind.split(":")[0])
        if o.get("ok"):
            continue
        fid = classify(src, o)
        if fid:
            rep.known(fid, f"CPython has {o.get('want')}, here {o.get('got')}: {short(src, 30)}")
            continue
        rep.violation(f"C09 {o.get('kind')}: got {short(o.get('got'), 60)} want {short(o.get('want'), 60)} on {short(src, 60)}", {"property": "C09", "input": src, "observed": o, "oracle": "tokenize.generate_tokens (CPython 3.12.1)"})
