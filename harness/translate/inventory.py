"""Inventory of process-level mutable state in peg_parser/*.py (for C13): everything that outlives one parse call.

Reported as sorted strings `file:kind:name:detail`; the Lean certificate pins the expected list, so a new module-level
cache, a class attribute used as scratch storage, a `global` statement or a write to a module-level object breaks it.
"""
from __future__ import annotations

import ast
import json

from harness.common import REPO, VERIF

GEN = VERIF / "lean" / "XonshVerif" / "Generated"
FILES = ["tokenize.py", "tokenizer.py", "subheader.py"]
IMMUTABLE_CALLS = {"auto", "frozenset", "tuple", "str", "int", "float", "bool", "TypeVar", "NewType", "group", "choice", "maybe", "capname", "_all_string_prefixes"}


GLOBAL_SETTERS = {"setrecursionlimit", "setswitchinterval", "setlocale", "seed", "filterwarnings", "simplefilter", "settrace", "setprofile", "set_int_max_str_digits", "setdefaulttimeout"}


def is_mutable_value(v):
    if isinstance(v, (ast.List, ast.Dict, ast.Set, ast.ListComp, ast.DictComp, ast.SetComp)):
        return type(v).__name__.lower()
    if isinstance(v, ast.Call):
        fn = ast.unparse(v.func)
        if fn.split(".")[-1] in IMMUTABLE_CALLS:
            return None
        return "call " + fn
    return None


def scan(path):
    tree = ast.parse(path.read_text(encoding="utf-8"))
    name = path.name
    out = []
    module_names = set()
    for n in tree.body:
        targets = []
        if isinstance(n, ast.Assign):
            targets = [t for t in n.targets if isinstance(t, ast.Name)]
            val = n.value
        elif isinstance(n, ast.AnnAssign) and n.value is not None and isinstance(n.target, ast.Name):
            targets = [n.target]
            val = n.value
        for t in targets:
            k = is_mutable_value(val)
            if k:
                out.append(f"{name}:module:{t.id}:{k}")
                module_names.add(t.id)
        if isinstance(n, ast.FunctionDef):
            for d in n.decorator_list:
                if "cache" in ast.unparse(d):
                    out.append(f"{name}:func-cache:{n.name}:{ast.unparse(d)}")
        if isinstance(n, ast.ClassDef):
            for m in n.body:
                if isinstance(m, ast.Assign):
                    for t in m.targets:
                        k = is_mutable_value(m.value)
                        if isinstance(t, ast.Name) and k:
                            out.append(f"{name}:class-attr:{n.name}.{t.id}:{k}")
                elif isinstance(m, ast.AnnAssign) and m.value is not None:
                    k = is_mutable_value(m.value)
                    if k:
                        out.append(f"{name}:class-attr:{n.name}.{ast.unparse(m.target)}:{k}")
    for fn in ast.walk(tree):
        if isinstance(fn, (ast.FunctionDef, ast.AsyncFunctionDef)):
            for a in fn.args.defaults + [d for d in fn.args.kw_defaults if d is not None]:
                k = is_mutable_value(a)
                if k:
                    out.append(f"{name}:mutable-default:{fn.name}:{k}")
            for n in ast.walk(fn):
                if isinstance(n, (ast.Global, ast.Nonlocal)):
                    out.append(f"{name}:{type(n).__name__.lower()}:{fn.name}:{','.join(n.names)}")
                # writes through a module-level or class-level object
                if isinstance(n, (ast.Assign, ast.AugAssign)):
                    tg = n.targets if isinstance(n, ast.Assign) else [n.target]
                    for t in tg:
                        base = t
                        while isinstance(base, (ast.Subscript, ast.Attribute)):
                            base = base.value
                        if isinstance(base, ast.Name) and base.id in module_names and not isinstance(t, ast.Name):
                            out.append(f"{name}:write-module-object:{fn.name}:{ast.unparse(t)}")
                        if isinstance(t, ast.Attribute) and isinstance(t.value, ast.Name) and t.value.id in ("cls",) :
                            out.append(f"{name}:write-class-attr:{fn.name}:{ast.unparse(t)}")
                        if isinstance(t, ast.Attribute) and isinstance(t.value, ast.Call) and ast.unparse(t.value.func) == "type":
                            out.append(f"{name}:write-class-attr:{fn.name}:{ast.unparse(t)}")
                # interpreter- or process-global settings changed from inside the parser (they outlive the call and are
                # shared by all threads)
                if isinstance(n, ast.Call):
                    fnm = ast.unparse(n.func)
                    if fnm.split(".")[-1] in GLOBAL_SETTERS or fnm in ("os.putenv", "os.chdir", "os.umask") or fnm.startswith(("signal.", "gc.")):
                        out.append(f"{name}:global-setting:{fn.name}:{fnm}")
                if isinstance(n, (ast.Assign, ast.AugAssign, ast.Delete)):
                    tg = n.targets if isinstance(n, (ast.Assign, ast.Delete)) else [n.target]
                    for t in tg:
                        if isinstance(t, ast.Subscript) and ast.unparse(t.value) in ("os.environ", "sys.modules", "environ"):
                            out.append(f"{name}:global-setting:{fn.name}:{ast.unparse(t.value)}[...]")
                        if isinstance(t, ast.Attribute) and isinstance(t.value, ast.Name) and t.value.id in ("sys", "os", "builtins", "ast", "re", "io", "tokenize"):
                            out.append(f"{name}:global-setting:{fn.name}:{ast.unparse(t)}")
                if isinstance(n, ast.Call) and isinstance(n.func, ast.Attribute) and n.func.attr in ("append", "extend", "update", "add", "pop", "clear", "setdefault", "insert", "remove") :
                    base = n.func.value
                    while isinstance(base, (ast.Subscript, ast.Attribute)):
                        base = base.value
                    if isinstance(base, ast.Name) and base.id in module_names:
                        out.append(f"{name}:mutate-module-object:{fn.name}:{ast.unparse(n.func)}")
    return out


def inventory():
    out = []
    for f in FILES:
        try:
            out += scan(REPO / "peg_parser" / f)
        except Exception as e:  # noqa: BLE001
            out.append(f"{f}:unreadable:{type(e).__name__}:-")
    return sorted(set(out))


def emit(path=None):
    path = path or (GEN / "Inventory.lean")
    inv = inventory()
    lines = ["-- GENERATED by harness/translate/inventory.py from /repo/peg_parser/*.py - do not edit", "namespace XV.Gen", "", "/-- process-level mutable state and writes to it (file:kind:name:detail) -/", "def inventory : List String := ["]
    lines.append(",\n".join("  " + json.dumps(x) for x in inv))
    lines.append("]")
    lines.append("end XV.Gen")
    new = "\n".join(lines) + "\n"
    path.parent.mkdir(parents=True, exist_ok=True)
    if not path.exists() or path.read_text() != new:
        path.write_text(new)
    return inv


if __name__ == "__main__":
    for x in inventory():
        print(x)
