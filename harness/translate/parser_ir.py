"""Translate the SHIPPED peg_parser/parser.py (through Python's ast) into the recogniser IR.

Every method must have one of the two shapes described in DESIGN.md fact 3; anything else is recorded as
`unmodelled` (which fails the certificate `ir_complete`).
"""
from __future__ import annotations

import ast
from pathlib import Path

from harness.common import REPO

COMBINATORS = {"repeated", "gathered", "seq_alts", "positive_lookahead", "negative_lookahead", "expect_forced"}
LEAVES = {"name": "name", "keyword": "keyword", "soft_keyword": "softKeyword", "any_token": "anyToken"}
RAISERS = ("raise_", "check_version", "ensure_real", "ensure_imaginary", "check_fstring_conversion", "literal_eval", "make_syntax_error", "expect_forced", "concatenate_strings", "expand_help")


class Unmodelled(Exception):
    pass


def self_attr(e):
    return e.attr if isinstance(e, ast.Attribute) and isinstance(e.value, ast.Name) and e.value.id == "self" else None


class Translator:
    def __init__(self, path: Path | None = None):
        self.path = path or (REPO / "peg_parser" / "parser.py")
        self.tree = ast.parse(self.path.read_text(encoding="utf-8"))
        self.cls = [n for n in self.tree.body if isinstance(n, ast.ClassDef)][0]
        self.methods = [n for n in self.cls.body if isinstance(n, ast.FunctionDef)]
        self.rule_names = [m.name for m in self.methods]
        self.rule_id = {n: i for i, n in enumerate(self.rule_names)}
        self.strings: dict = {}
        self.keywords = ()
        self.soft_keywords = ()
        for n in self.cls.body:
            if isinstance(n, ast.Assign) and isinstance(n.targets[0], ast.Name):
                if n.targets[0].id == "KEYWORDS":
                    self.keywords = ast.literal_eval(n.value)
                elif n.targets[0].id == "SOFT_KEYWORDS":
                    self.soft_keywords = ast.literal_eval(n.value)

    def sid(self, s: str) -> int:
        return self.strings.setdefault(s, len(self.strings))

    # ---- primitives: something callable without further structure
    def prim_from_func(self, f, args):
        a = self_attr(f)
        if a is None:
            raise Unmodelled(f"callable {ast.unparse(f)}")
        if a in self.rule_id:
            if args:
                raise Unmodelled("rule with args")
            return ("rule", self.rule_id[a])
        if a == "expect":
            (k,) = args
            return ("expect", self.sid(self.const(k)))
        if a == "token":
            (k,) = args
            return ("token", self.const(k))
        if a in LEAVES:
            if args:
                raise Unmodelled("leaf with args")
            return (LEAVES[a],)
        raise Unmodelled(f"callable self.{a}")

    def const(self, k):
        if isinstance(k, ast.Constant) and isinstance(k.value, str):
            return k.value
        raise Unmodelled(f"non-constant {ast.unparse(k)}")

    def prim_from_ref(self, ref, extra):
        """func passed as argument: self.rule / self.expect + const / (self.x, const) tuple."""
        if isinstance(ref, ast.Tuple):
            return self.prim_from_func(ref.elts[0], ref.elts[1:])
        return self.prim_from_func(ref, extra)

    def call(self, e):
        """An and-chain call expression -> Item."""
        if not isinstance(e, ast.Call):
            raise Unmodelled(f"item {ast.unparse(e)[:60]}")
        a = self_attr(e.func)
        if a in ("positive_lookahead", "negative_lookahead"):
            p = self.prim_from_ref(e.args[0], e.args[1:])
            return ("posLook" if a.startswith("pos") else "negLook", p)
        if a == "repeated":
            return ("repeated", self.prim_from_ref(e.args[0], e.args[1:]))
        if a == "gathered":
            elem = self.prim_from_ref(e.args[0], [])
            sep = self.prim_from_func(e.args[1], e.args[2:])
            return ("gathered", elem, sep)
        if a == "seq_alts":
            return ("seqAlts", [self.prim_from_ref(x, []) for x in e.args])
        if a == "expect_forced":
            inner = e.args[0]
            if not isinstance(inner, ast.Call):
                raise Unmodelled("expect_forced arg")
            return ("forced", self.prim_from_func(inner.func, inner.args), self.sid(self.const(e.args[1])))
        return ("call", self.prim_from_func(e.func, e.args))

    def item(self, e):
        """One conjunct of the `if` condition -> dict(item, opt, bind)."""
        opt = False
        if isinstance(e, ast.Tuple):
            if len(e.elts) != 1:
                raise Unmodelled("tuple item of length != 1")
            opt, e = True, e.elts[0]
        bind = None
        if isinstance(e, ast.NamedExpr):
            bind = e.target.id
            if bind == "cut" and isinstance(e.value, ast.Constant) and e.value.value is True:
                return {"item": ("setCut",), "opt": False, "bind": None}
            e = e.value
        if self_attr(e) == "call_invalid_rules":
            return {"item": ("guardInvalid",), "opt": False, "bind": None}
        return {"item": self.call(e), "opt": opt, "bind": bind}

    def classify_action(self, e):
        """How the action value behaves with respect to Python truthiness / exceptions (syntactic)."""
        if isinstance(e, ast.Constant):
            return "none" if e.value is None else ("truthy" if e.value else "falsy")
        src = ast.unparse(e)
        calls = [self_attr(n.func) or (n.func.id if isinstance(n.func, ast.Name) else "") for n in ast.walk(e) if isinstance(n, ast.Call)]
        may_raise = any(c and c.startswith(RAISERS) for c in calls)
        if isinstance(e, ast.Call):
            f = e.func
            if isinstance(f, ast.Attribute) and isinstance(f.value, ast.Name) and f.value.id == "ast":
                return "raise?node" if may_raise else "node"
            a = self_attr(f)
            if a and a.startswith("raise_"):
                return "raises"
            if a in ("check_version",):
                # self.check_version((3, N), msg, node): a version gate; the node argument decides truthiness once the gate is open
                if (len(e.args) == 3 and isinstance(e.args[0], ast.Tuple) and len(e.args[0].elts) == 2
                        and all(isinstance(x, ast.Constant) and isinstance(x.value, int) for x in e.args[0].elts) and e.args[0].elts[0].value == 3):
                    inner = self.classify_action(e.args[2])
                    return f"gate:{e.args[0].elts[1].value}:{inner}"
                return "raise?value"
        if isinstance(e, (ast.Tuple, ast.List)) and e.elts and not any(isinstance(x, ast.Starred) for x in e.elts):
            return "raise?node" if may_raise else "node"
        if isinstance(e, ast.Name):
            return "var:" + e.id
        if isinstance(e, ast.IfExp):
            # `X if sys.version_info >= (3, K) else Y` is decided by the running interpreter, which is also the one the
            # correspondence runs the implementation under
            t = e.test
            if (isinstance(t, ast.Compare) and ast.unparse(t.left) == "sys.version_info" and len(t.ops) == 1 and isinstance(t.ops[0], ast.GtE)
                    and isinstance(t.comparators[0], ast.Tuple) and all(isinstance(x, ast.Constant) for x in t.comparators[0].elts)):
                import sys as _sys

                return self.classify_action(e.body if _sys.version_info >= tuple(x.value for x in t.comparators[0].elts) else e.orelse)
            a, b = self.classify_action(e.body), self.classify_action(e.orelse)
            good = ("node", "value")
            if a in good and b in good:
                return "value"
            if (a in good or a.startswith("raise?")) and (b in good or b.startswith("raise?")):
                return "raise?value"
            return "cond"
        return "raise?value" if may_raise else "value"

    def method(self, m: ast.FunctionDef):
        deco = "none"
        for d in m.decorator_list:
            n = d.id if isinstance(d, ast.Name) else ast.unparse(d)
            deco = {"memoize": "memo", "memoize_left_rec": "leftrec", "logger": "logger"}.get(n)
            if deco is None:
                raise Unmodelled(f"decorator {n}")
        body = [s for s in m.body if not (isinstance(s, ast.Expr) and isinstance(s.value, ast.Constant))]
        if m.args.args and [a.arg for a in m.args.args] != ["self"]:
            raise Unmodelled("method takes arguments")
        wo_invalid = m.name.endswith("without_invalid")
        if wo_invalid:
            # _prev_call_invalid = self.call_invalid_rules ; self.call_invalid_rules = False ; ... restored before every return
            if not (len(body) >= 2 and ast.unparse(body[0]) == "_prev_call_invalid = self.call_invalid_rules" and ast.unparse(body[1]) == "self.call_invalid_rules = False"):
                raise Unmodelled("without_invalid prologue")
            body = body[2:]
        if len(body) == 1 and isinstance(body[0], ast.Return) and isinstance(body[0].value, ast.Call) and self_attr(body[0].value.func) == "seq_alts":
            if wo_invalid:
                raise Unmodelled("without_invalid + seq_alts")
            return {"name": m.name, "deco": deco, "kind": "seqAlts", "alts": [self.prim_from_ref(x, []) for x in body[0].value.args]}
        # standard shape
        i = 0
        if not (isinstance(body[0], ast.Assign) and ast.unparse(body[0]) == "mark = self._mark()"):
            raise Unmodelled("missing mark = self._mark()")
        i = 1
        uses_loc = False
        if i < len(body) and ast.unparse(body[i]) == "_lnum, _col = self._tokenizer.peek().start":
            uses_loc = True
            i += 1
        alts = []
        while i < len(body):
            s = body[i]
            cut_init = False
            if isinstance(s, ast.Assign) and ast.unparse(s) == "cut = False":
                cut_init = True
                i += 1
                s = body[i]
            if isinstance(s, ast.Return):
                rest = body[i:]
                if wo_invalid and len(rest) == 2 and ast.unparse(rest[0]) == "self.call_invalid_rules = _prev_call_invalid":
                    rest = rest[1:]
                if not (len(rest) == 1 and isinstance(rest[0].value, ast.Constant) and rest[0].value.value is None):
                    raise Unmodelled("final return is not `return None`")
                break
            if wo_invalid and ast.unparse(s) == "self.call_invalid_rules = _prev_call_invalid":
                i += 1
                continue
            if not isinstance(s, ast.If) or s.orelse:
                raise Unmodelled(f"statement {ast.unparse(s)[:50]}")
            test = s.test
            conj = test.values if isinstance(test, ast.BoolOp) and isinstance(test.op, ast.And) else [test]
            items = [self.item(c) for c in conj]
            ibody = s.body
            if wo_invalid and len(ibody) == 2 and ast.unparse(ibody[0]) == "self.call_invalid_rules = _prev_call_invalid":
                ibody = ibody[1:]
            if not (len(ibody) == 1 and isinstance(ibody[0], ast.Return)):
                raise Unmodelled("alternative body is not a single return")
            action = ibody[0].value
            has_cut = any(it["item"] == ("setCut",) for it in items)
            if has_cut != cut_init:
                raise Unmodelled("cut = False / (cut := True) mismatch")
            i += 1
            if not (i < len(body) and ast.unparse(body[i]) == "self._reset(mark)"):
                raise Unmodelled("missing self._reset(mark) after alternative")
            i += 1
            if has_cut:
                if not (i < len(body) and isinstance(body[i], ast.If) and ast.unparse(body[i].test) == "cut" and ast.unparse(body[i].body[-1]) == "return None"):
                    raise Unmodelled("missing `if cut: return None`")
                i += 1
            alts.append({"items": items, "action": ast.unparse(action), "act": self.classify_action(action), "cut": has_cut, "uses_span": "self.span(_lnum, _col)" in ast.unparse(action)})
        return {"name": m.name, "deco": deco, "kind": "alts", "alts": alts, "uses_loc": uses_loc, "without_invalid": wo_invalid}

    def run(self):
        rules = []
        unmodelled = []
        for m in self.methods:
            try:
                rules.append(self.method(m))
            except Unmodelled as e:
                unmodelled.append((m.name, str(e)))
                rules.append({"name": m.name, "deco": "none", "kind": "unmodelled", "why": str(e)})
            except Exception as e:  # noqa: BLE001
                unmodelled.append((m.name, f"{type(e).__name__}: {e}"))
                rules.append({"name": m.name, "deco": "none", "kind": "unmodelled", "why": str(e)})
        return {"rules": rules, "unmodelled": unmodelled, "strings": self.strings, "keywords": list(self.keywords), "soft_keywords": list(self.soft_keywords)}


if __name__ == "__main__":
    import collections
    import json

    ir = Translator().run()
    print(len(ir["rules"]), "rules; unmodelled:", ir["unmodelled"])
    c = collections.Counter(a["act"].split(":")[0] for r in ir["rules"] if r["kind"] == "alts" for a in r["alts"])
    print(c)
    for r in ir["rules"]:
        if r["kind"] == "alts" and not r["name"].startswith("invalid"):
            for a in r["alts"]:
                if a["act"].split(":")[0] in ("cond", "value", "raise?value", "raises", "none", "falsy", "raise?node"):
                    print(r["name"], "|", a["act"], "|", a["action"][:90])
