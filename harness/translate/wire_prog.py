"""Serialise a recogniser IR (as produced by parser_ir.Translator) for the driver request `parsep` (see
lean/XonshVerif/Model/WireProg.lean for the format)."""
from __future__ import annotations

from harness.translate.emit_lean import TT_NAMES, act_kind


def w_prim(p):
    k = p[0]
    if k == "rule":
        return [f"r{p[1]}"]
    if k == "expect":
        return [f"e{p[1]}"]
    if k == "token":
        return ["t" + (p[1] if p[1] in TT_NAMES else "OTHER")]
    return [{"name": "N", "keyword": "K", "softKeyword": "Y", "anyToken": "Z"}[k]]


def w_item(it):
    k = it[0]
    if k == "call":
        return ["c"] + w_prim(it[1])
    if k == "repeated":
        return ["R"] + w_prim(it[1])
    if k == "gathered":
        return ["G"] + w_prim(it[1]) + w_prim(it[2])
    if k == "seqAlts":
        return ["S", str(len(it[1]))] + [t for p in it[1] for t in w_prim(p)]
    if k == "posLook":
        return ["P"] + w_prim(it[1])
    if k == "negLook":
        return ["Q"] + w_prim(it[1])
    if k == "forced":
        return ["F"] + w_prim(it[1]) + [str(it[2])]
    if k == "setCut":
        return ["X"]
    if k == "guardInvalid":
        return ["V"]
    raise ValueError(k)


def w_act(lean_act: str):
    a = lean_act.strip("()")
    if a.startswith(".viaItem"):
        return ["av" + a.split()[1]]
    if a.startswith(".gate"):
        return ["ag" + a.split()[1]]
    return [{".truthy": "at", ".none": "an", ".raises": "ar", ".mayRaise": "am", ".unknown": "au"}[a]]


def w_prog(ir):
    out = [str(len(ir["rules"]))]
    for r in ir["rules"]:
        out += ["D", {"none": "n", "memo": "m", "leftrec": "l", "logger": "g"}[r["deco"]]]
        if r["kind"] == "unmodelled":
            out.append("U")
        elif r["kind"] == "seqAlts":
            out += ["B", str(len(r["alts"]))] + [t for p in r["alts"] for t in w_prim(p)]
        else:
            out += ["A", str(len(r["alts"]))]
            for a in r["alts"]:
                out += ["L", str(len(a["items"]))]
                for x in a["items"]:
                    out += ["o" if x["opt"] else "m"] + w_item(x["item"])
                out += w_act(act_kind(a, r)) + ["1" if a["cut"] else "0"]
            out += ["1" if r.get("without_invalid") else "0", "1" if r.get("uses_loc") else "0"]
    return out
