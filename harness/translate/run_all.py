"""Run every translator against /repo's working tree and (re)write lean/XonshVerif/Generated/* and lean/XonshCerts/*."""
from __future__ import annotations

import json

from harness.common import CACHE, VERIF
from harness.translate import emit_lean
from harness.translate.parser_ir import Translator

CERTS_DIR = VERIF / "lean" / "XonshCerts"


def write_if_changed(path, text):
    path.parent.mkdir(parents=True, exist_ok=True)
    if not path.exists() or path.read_text() != text:
        path.write_text(text)


def main():
    CACHE.mkdir(exist_ok=True)
    problems = []
    try:
        ir = Translator().run()
    except Exception as e:  # noqa: BLE001  (parser.py does not even parse)
        ir = {"rules": [], "unmodelled": [("<module>", f"{type(e).__name__}: {e}")], "strings": {}, "keywords": [], "soft_keywords": []}
        problems.append(f"parser.py: {e}")
    (CACHE / "parser_ir.json").write_text(json.dumps(ir))
    emit_lean.emit_parser_ir(ir)
    emit_lean.emit_tables(ir)
    emit_lean.emit_witness(ir)
    emit_lean.emit_comp(ir)
    emit_lean.emit_wf(ir)
    # C16: the same translation applied to what tasks/xonsh.gram generates NOW (a scratch module, regenerated when the
    # grammar, the generator or pegen change); the certificate regenerated_ir_equals_shipped compares the two in the kernel
    try:
        from harness import sync

        sync.ensure()
        regen = CACHE / "regen" / "parser_regen.py"
        ir2 = Translator(regen).run() if regen.exists() else None
    except Exception as e:  # noqa: BLE001
        ir2 = None
        problems.append(f"regenerated parser: {type(e).__name__}: {e}")
    if ir2 is None:
        ir2 = {"rules": [], "unmodelled": [], "strings": {}, "keywords": [], "soft_keywords": []}
    emit_lean.emit_parser_ir(ir2, emit_lean.GEN / "ParserIRRegen.lean", namespace="XV.GenRegen", origin="the module tasks/generator.py generates from tasks/xonsh.gram in this run")
    from harness.translate import actions, inventory

    try:
        actions.emit()
        inventory.emit()
    except Exception as e:  # noqa: BLE001
        problems.append(f"actions/inventory translator: {type(e).__name__}: {e}")
    from harness.translate import regexes

    try:
        problems += [f"regex: {x}" for x in regexes.emit()]
    except Exception as e:  # noqa: BLE001
        problems.append(f"regex translator: {type(e).__name__}: {e}")
    return {"unmodelled": ir["unmodelled"], "problems": problems}


if __name__ == "__main__":
    print(main())
