"""Tie of the HAND-WRITTEN model parts to the source text: a record (spec/modelled_units.json, committed) of a hash of the
normalised AST of every function, method and module-level statement of the hand-written source files the Lean model and the
oracles transcribe.  A unit whose hash differs from the record has been edited since the model was validated against it: that
is not a verdict (a harmless rewrite changes the hash too), but every check that depends on the file then multiplies its
correspondence and search budgets and says so in its evidence."""
from __future__ import annotations

import ast
import hashlib
import json
import os

from harness.common import REPO, VERIF

RECORD = VERIF / "spec" / "modelled_units.json"
ALL = [f"C{i:02d}" for i in range(1, 19)]
FILES = {
    "peg_parser/tokenize.py": [p for p in ALL if p not in ("C16", "C17")],
    "peg_parser/tokenizer.py": ["C03", "C04", "C05", "C06", "C07", "C11", "C12", "C13", "C14", "C15", "C18"],
    "peg_parser/subheader.py": [p for p in ALL if p not in ("C16", "C17")] + ["C17"],
    "tasks/generator.py": ["C16", "C17"],
    "pegen/parser_generator.py": ["C16", "C17"],
    "pegen/python_generator.py": ["C16", "C17"],
    "pegen/grammar.py": ["C16", "C17"],
}


def _units(path):
    try:
        tree = ast.parse(path.read_text())
    except (OSError, SyntaxError):
        return {"<unparseable>": "-"}
    out = {}

    def h(node):
        return hashlib.sha256(ast.dump(node, include_attributes=False).encode()).hexdigest()[:16]

    def walk(body, prefix):
        k = 0
        for n in body:
            if isinstance(n, (ast.FunctionDef, ast.AsyncFunctionDef)):
                out[prefix + n.name] = h(n)
            elif isinstance(n, ast.ClassDef):
                walk(n.body, prefix + n.name + ".")
            elif isinstance(n, (ast.Import, ast.ImportFrom)) or (isinstance(n, ast.Expr) and isinstance(n.value, ast.Constant)):
                continue
            else:
                out[f"{prefix}<stmt {k}>"] = h(n)
                k += 1

    walk(tree.body, "")
    return out


def current():
    return {f: _units(REPO / f) for f in FILES}


def record():
    RECORD.parent.mkdir(exist_ok=True)
    RECORD.write_text(json.dumps(current(), indent=1, sort_keys=True) + "\n")


def changed_for(pid):
    """[(file, unit)] edited, added or removed since the record, in files the property depends on."""
    if not RECORD.exists():
        return []
    rec = json.loads(RECORD.read_text())
    cur = current()
    out = []
    for f, props in FILES.items():
        if pid not in props:
            continue
        a, b = rec.get(f, {}), cur.get(f, {})
        for u in sorted(set(a) | set(b)):
            if a.get(u) != b.get(u):
                out.append(f"{f}:{u}")
    return out


def apply(rep, pid):
    ch = changed_for(pid)
    if ch:
        os.environ["XV_BUDGET_SCALE"] = os.environ.get("XV_BUDGET_SCALE_WHEN_CHANGED", "3")
        rep.extra["hand_modelled_units_changed"] = ch[:40]
        print(f"[{pid}] note: {len(ch)} hand-modelled source unit(s) differ from spec/modelled_units.json ({', '.join(ch[:4])}{' ...' if len(ch) > 4 else ''}): budgets x{os.environ['XV_BUDGET_SCALE']}")
    return ch


if __name__ == "__main__":
    record()
    print("recorded", sum(len(v) for v in current().values()), "units")
