"""Delta debugging on strings (characters) and lists."""
from __future__ import annotations


def ddmin(seq, failing, max_tests=400):
    """Classic ddmin over a sequence (str or list); `failing(candidate)` -> bool."""
    n = 2
    tests = 0
    empty = seq[:0]
    while len(seq) >= 2 and tests < max_tests:
        chunk = max(1, len(seq) // n)
        subsets = [seq[i : i + chunk] for i in range(0, len(seq), chunk)]
        reduced = False
        for i in range(len(subsets)):
            comp = empty
            for j, s in enumerate(subsets):
                if j != i:
                    comp = comp + s
            tests += 1
            try:
                bad = failing(comp)
            except Exception:  # noqa: BLE001
                bad = False
            if bad:
                seq = comp
                n = max(n - 1, 2)
                reduced = True
                break
            if tests >= max_tests:
                break
        if not reduced:
            if n >= len(seq):
                break
            n = min(len(seq), n * 2)
    return seq
