"""Shared plumbing: seeds, evidence, replays, known findings, result aggregation."""
from __future__ import annotations

import hashlib
import json
import os
import random
import sys
import time
from pathlib import Path

VERIF = Path(__file__).resolve().parent.parent
REPO = Path(os.environ.get("XV_REPO", "/repo"))
CACHE = VERIF / ".cache"
EVIDENCE = Path(os.environ["XV_EVIDENCE_DIR"]) if os.environ.get("XV_EVIDENCE_DIR") else VERIF / "evidence"
REPLAYS = VERIF / "replays"
PY = "/venv/bin/python"
STDLIB = Path("/root/.pyenv/versions/3.12.1/lib/python3.12")

TRUSTED_BASE_COMMON = [
    "Lean 4.33 kernel; axioms limited to propext, Classical.choice, Quot.sound (audited by #print axioms each run)",
    "translators harness/translate/*.py (regex via re._parser, parser.py via ast, grammar via pegen) - exercised by the correspondence runs",
    "correspondence harness and its canonicalisation (harness/corr.py)",
    "CPython 3.12.1 (re, ast, tokenize, compile) as black-box oracle / runtime",
]


def seed() -> int:
    try:
        return int(os.environ.get("VERIF_SEED", "0"))
    except ValueError:
        return 0


def rng(*path) -> random.Random:
    """Every random choice derives from VERIF_SEED plus a derivation path."""
    h = hashlib.sha256(repr((seed(),) + tuple(path)).encode()).digest()
    return random.Random(int.from_bytes(h[:8], "big"))


class KnownFindings:
    def __init__(self):
        p = VERIF / "known_findings.json"
        data = json.loads(p.read_text()) if p.exists() else {"findings": [], "fixed": []}
        self.findings = data.get("findings", [])
        self.fixed = data.get("fixed", [])

    def for_property(self, pid):
        return [f for f in self.findings if f["property"] == pid]


class Report:
    """Collects what one check run did; writes evidence; prints VIOLATION / KNOWN-FINDING lines."""

    def __init__(self, pid: str, tier: str, level: str):
        self.pid = pid
        self.tier = tier
        self.level = level
        self.t0 = time.time()
        self.evaluations = 0
        self.nontrivial: set = set()
        self.samples: list = []
        self.dist: dict = {}
        self.violations: list = []  # (what, replay_dict)
        self.known_hits: dict = {}  # finding id -> description
        self.obligations: list = []  # (name, ok, detail)
        self.unproved: list = []
        self.broken: list = []  # names of broken obligations/correspondences
        self.assumptions: list = []
        self.extra: dict = {}
        self.rule = ""
        self.trusted = list(TRUSTED_BASE_COMMON)
        self.checker_cmd = ""
        self.kf = KnownFindings()
        self.infra_error = None

    # ---- bookkeeping -------------------------------------------------
    def count(self, key: str, n: int = 1):
        self.dist[key] = self.dist.get(key, 0) + n

    def case(self, ident, nontrivial: bool = True, sample=None):
        self.evaluations += 1
        if nontrivial:
            self.nontrivial.add(ident if isinstance(ident, (str, int, tuple)) else repr(ident))
        if sample is not None and len(self.samples) < 8:
            self.samples.append(sample)

    def obligation(self, name: str, ok: bool, detail: str = ""):
        self.obligations.append((name, bool(ok), detail))
        if not ok:
            self.broken.append(name)

    def violation(self, what: str, replay: dict):
        self.violations.append((what, replay))

    def known(self, fid: str, desc: str):
        self.known_hits[fid] = desc

    # ---- finish ------------------------------------------------------
    def finish(self) -> int:
        wall = time.time() - self.t0
        EVIDENCE.mkdir(exist_ok=True)
        rdir = REPLAYS / self.pid
        lines = []
        rc = 0
        for fid, desc in sorted(self.known_hits.items()):
            lines.append(f"KNOWN-FINDING: property={self.pid} {fid}: {desc}")
        nviol = 0
        # concrete failing inputs first
        seen = set()
        for what, replay in self.violations:
            key = what
            if key in seen:
                continue
            seen.add(key)
            if nviol >= 5:
                break
            rdir.mkdir(parents=True, exist_ok=True)
            body = json.dumps(replay, indent=1, default=repr, ensure_ascii=True)
            path = rdir / (hashlib.sha1(body.encode()).hexdigest()[:12] + ".json")
            path.write_text(body)
            lines.append(f"VIOLATION property={self.pid} replay={path} ({what[:160]})")
            nviol += 1
            rc = 1
        if self.broken and not self.violations:
            rdir.mkdir(parents=True, exist_ok=True)
            replay = {
                "property": self.pid,
                "broken_obligations": [
                    {"name": n, "detail": d} for (n, ok, d) in self.obligations if not ok
                ],
                "note": "no concrete failing input found by the search; the named theorem/"
                "certificate/correspondence no longer checks against /repo's working tree",
                "seed": seed(),
            }
            body = json.dumps(replay, indent=1, default=repr)
            path = rdir / ("broken-" + hashlib.sha1(body.encode()).hexdigest()[:12] + ".json")
            path.write_text(body)
            lines.append(f"VIOLATION property={self.pid} replay={path} no-failing-input-found")
            nviol += 1
            rc = 1
        cov = {
            "obligations": len(self.obligations),
            "discharged": sum(1 for o in self.obligations if o[1]),
            "obligation_list": [
                {"name": n, "ok": ok, **({"detail": d} if d else {})} for n, ok, d in self.obligations
            ],
            "unproved": self.unproved,
            "checker_cmd": self.checker_cmd
            or "lake build (lean/) + `#print axioms` audit via harness/lean.py; see obligation_list",
            "trusted_base": self.trusted,
            "evaluations": self.evaluations,
            "distinct_nontrivial": len(self.nontrivial),
            "rule": self.rule,
            "samples": self.samples[:8] or ["(none)"],
            "distribution": self.dist,
            "known_findings_hit": sorted(self.known_hits),
            "known_finding_classes_excluded": [f["id"] for f in self.kf.for_property(self.pid)],
        }
        cov.update(self.extra)
        ev = {
            "property_id": self.pid,
            "tier": self.tier,
            "seed": seed(),
            "level": self.level,
            "coverage": cov,
            "assumptions": self.assumptions,
            "wall_s": round(wall, 2),
            "violations": nviol,
        }
        (EVIDENCE / f"{self.pid}.json").write_text(json.dumps(ev, indent=1, default=repr))
        for ln in lines:
            print(ln)
        print(
            f"[{self.pid}] tier={self.tier} seed={seed()} evaluations={self.evaluations} "
            f"nontrivial={len(self.nontrivial)} obligations={cov['discharged']}/{cov['obligations']} "
            f"known={len(self.known_hits)} violations={nviol} wall={wall:.1f}s"
        )
        sys.stdout.flush()
        return rc


def short(s, n=200):
    s = repr(s)
    return s if len(s) <= n else s[: n - 3] + "..."


def quick_scale() -> int:
    """Multiplier of the quick-tier budgets: >1 when hand-modelled source units differ from the recorded ones (harness/provenance.py)."""
    try:
        return max(1, int(os.environ.get("XV_BUDGET_SCALE", "1")))
    except ValueError:
        return 1
