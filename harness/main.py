"""./check <property> [--tier quick|thorough] [--replay file]"""
from __future__ import annotations

import argparse
import importlib
import json
import os
import sys
import traceback
from pathlib import Path

sys.path.insert(0, str(Path(__file__).resolve().parent.parent))

from harness.common import Report  # noqa: E402

def manifest_level(pid):
    try:
        m = json.loads((Path(__file__).resolve().parent.parent / "MANIFEST.json").read_text())
        for c in m["checks"]:
            if c["property_id"] == pid:
                return c["level_claimed"]["category"]
    except Exception:  # noqa: BLE001
        pass
    return "exploration"


def main():
    ap = argparse.ArgumentParser()
    ap.add_argument("prop")
    ap.add_argument("--tier", default=os.environ.get("VERIF_TIER", "quick"))
    ap.add_argument("--replay")
    ap.add_argument("--no-lean", action="store_true")
    a = ap.parse_args()
    pid = a.prop.upper()
    tier = "thorough" if a.tier.startswith("t") else "quick"
    os.environ["VERIF_TIER"] = tier  # what the command line says wins (the correspondence budgets read it)
    mod = importlib.import_module(f"harness.props.{pid.lower()}")
    if a.replay:
        data = json.loads(Path(a.replay).read_text())
        rc = mod.replay(data) if hasattr(mod, "replay") else generic_replay(mod, data)
        sys.exit(rc)
    # whole-check watchdog: a stuck run is an infrastructure failure (exit 2), never a verdict
    import signal

    def _alarm(signum, frame):
        print(f"[{pid}] watchdog: check exceeded its time budget (not a verdict)")
        try:  # take the children along (pool workers, the native driver): nothing may be left running
            import subprocess

            subprocess.run(["pkill", "-KILL", "-P", str(os.getpid())], timeout=5)
        except Exception:  # noqa: BLE001
            pass
        os._exit(2)

    signal.signal(signal.SIGALRM, _alarm)
    signal.alarm(int(os.environ.get("XV_BUDGET_S", "1500" if tier == "quick" else "14400")))
    rep = Report(pid, tier, manifest_level(pid))
    from harness.pool import Pool

    pool = Pool()
    try:
        from harness import sync

        variants = sync.ensure(rep)  # regenerates tied artefacts from /repo's working tree
        from harness import provenance

        provenance.apply(rep, pid)  # hand-modelled source units edited since the record: larger budgets, noted in the evidence
        if not a.no_lean and os.environ.get("XV_NO_LEAN") != "1":
            from harness import lean

            lean.obligations(rep, pid, tier)
        mod.run(rep, tier, pool, variants=variants)
    except Exception:  # noqa: BLE001
        traceback.print_exc()
        print(f"[{pid}] infrastructure failure (not a verdict)")
        pool.close()
        sys.exit(2)
    pool.close()
    sys.exit(rep.finish())


def generic_replay(mod, data):
    from harness import impl

    src = data.get("input")
    print("replaying", repr(src)[:300])
    if hasattr(mod, "check_one"):
        out = mod.check_one(src, data.get("mode", "exec"))
        print("observed:", out)
        return 1 if out and not out.get("skip") else 0
    print(impl.parse(src, data.get("mode", "exec")))
    return 0


if __name__ == "__main__":
    main()
