"""Generators for xonsh constructs, each paired with its documented pure-Python translation.

The translation strings are written from the xonsh documentation / tests/data/exprs (vendored
knowledge), NOT computed with the parser under test.
"""
from __future__ import annotations

import random

ENV_NAMES = ["HOME", "PATH", "X", "_y1", "WAKKA", "ünï", "µ"]
PY_SUBEXPRS = ["x", "1 + 2", "f(y)", "None or 'a'", "a.b[0]", "[i for i in z]", "not q", "'HOME'", '"A" "B"', "'a' + 'b'", "f'{u}_DIR'", "7", "(y)", "v if c else w", "b'k'", "None"]
WORD_CHARS_SAFE = "abcxyzABC019_-./=:,+%^~*"
PLAIN_WORDS = [
    "ls", "-l", "--opt=val", "1e5x", "a.b/c", "..", ".", "/usr/bin", "~", "~/x", "*.py", "x=1", "a,b", "a:b", "+x", "%d", "^a", "grep", "wakka", "ñandú", "日本", "µ-law", "--enc=µ", "ﬁle.txt", "Ǆx", "ª1", "-", "--", "2", "3.5", "0x1f", "a+b", "a*b", "@", "a@b", "|", "&", ";", "<", ">", "2>", ">>", "a|b", "a;b", "x<y", "echo", "hello_world", "file.txt", "1>2", "C:", "k=v,w", "-9", "**", "//", "->", "==", "<=", ":=", "a-b-c", "_", "__x__", "e", "E5", "1_000", "07", "a..b", "...",
]
QUOTED = ['"a b"', "'q'", '"it\'s"', "'--x y'", '""', "r'\\d'", '"ü"', "'''t q'''"]
# quoted words are passed verbatim, never evaluated as Python literals: spellings the string-literal evaluator would
# reject or warn about (escapes, bytes/str mixes), as a shell user writes them
QUOTED += ['"C:\\Users\\new"', '"\\xZ"', "'\\N{nope}'", '"\\d+"', 'b"a"', "u'x'", 'b"é"', "'\\u12'", 'B"\\xff"', "rb'\\w'"]
METHODS = {
    ("$(", ")"): "subproc_captured",
    ("$[", "]"): "subproc_uncaptured",
    ("!(", ")"): "subproc_captured_object",
    ("![", "]"): "subproc_captured_hiddenobject",
}
PY_KEYWORDS = {"False", "None", "True", "and", "as", "assert", "async", "await", "break", "class", "continue", "def", "del", "elif", "else", "except", "finally", "for", "from", "global", "if", "import", "in", "is", "lambda", "nonlocal", "not", "or", "pass", "raise", "return", "try", "while", "with", "yield"}


def pystr(s: str) -> str:
    return repr(s)


def gen_word(r: random.Random, depth: int = 0):
    """One shell word: (source text, python translation of the resulting argument expression, kinds)."""
    k = r.random()
    if k < 0.55:
        w = r.choice(PLAIN_WORDS)
        if r.random() < 0.3:
            w = "".join(r.choice(WORD_CHARS_SAFE) for _ in range(r.randint(1, 6)))
            # avoid spellings that are other constructs: leading '-'-only fine; avoid keywords
        if w in PY_KEYWORDS:
            w = w + "_"
        return w, pystr(w), ["plain"]
    if k < 0.68:
        q = r.choice(QUOTED)
        return q, pystr(q), ["quoted"]  # quoted strings are passed verbatim (with their quotes)
    if k < 0.78:
        n = r.choice(ENV_NAMES)
        return "$" + n, f"__xonsh__.env[{pystr(n)}]", ["env"]
    if k < 0.86 and depth < 2:
        e = r.choice(PY_SUBEXPRS)
        return f"@({e})", f"*__xonsh__.list_of_strs_or_callables({e})", ["pyexpr"]
    if k < 0.92 and depth < 2:
        src, args, kinds = gen_cmd(r, depth + 1)
        return f"@$({src})", f"*__xonsh__.subproc_captured_inject({', '.join(args)})", ["inject"] + kinds
    if depth < 2:
        (o, c), m = r.choice(sorted(METHODS.items()))
        src, args, kinds = gen_cmd(r, depth + 1)
        return f"{o}{src}{c}", f"__xonsh__.{m}({', '.join(args)})", ["nested"] + kinds
    return "w", "'w'", ["plain"]


def gen_cmd(r: random.Random, depth: int = 0, nwords=None):
    """A command line: (text, [python arg translations], kinds). Words separated by random whitespace."""
    n = nwords or r.randint(1, 5)
    parts = []
    args = []
    kinds = []
    for i in range(n):
        w, t, k = gen_word(r, depth)
        if i:
            parts.append(r.choice([" ", " ", "  ", "\t", " \t "]))
        parts.append(w)
        args.append(t)
        kinds += k
    lead = r.choice(["", "", " ", "  "])
    trail = r.choice(["", "", " ", "\t"])
    return lead + "".join(parts) + trail, args, kinds


def gen_subproc(r: random.Random):
    (o, c), m = r.choice(sorted(METHODS.items()))
    src, args, kinds = gen_cmd(r)
    return f"{o}{src}{c}", f"__xonsh__.{m}({', '.join(args)})", kinds + [m]


def gen_construct(r: random.Random, depth: int = 0):
    """(kind, xonsh text, python translation, level) where level is 'primary' or 'bool'."""
    k = r.choice(["env", "envexpr", "subproc", "subproc", "search", "pathlit", "help", "superhelp", "andand", "oror"])
    if depth > 1 and k in ("envexpr", "andand", "oror"):
        k = "env"
    if k == "env":
        n = r.choice(ENV_NAMES)
        return k, "$" + n, f"__xonsh__.env[{pystr(n)}]", "primary"
    if k == "envexpr":
        if r.random() < 0.5:
            _, x, t, lvl = gen_construct(r, depth + 1)
            if lvl == "bool":
                x, t = f"({x})", f"({t})"
            return k, "${" + x + "}", f"__xonsh__.env[str({t})]", "primary"
        if r.random() < 0.25:
            # several keys: the subscript-style tuple is stringified as ONE value
            a, b = r.choice(PY_SUBEXPRS), r.choice(PY_SUBEXPRS)
            form = r.choice(["{a}, {b}", "({a}, {b})", "{a},", "{a}, {b}, 1"]).format(a=a, b=b)
            return k, "${" + form + "}", f"__xonsh__.env[str(({form.strip('()')}))]", "primary"
        e = r.choice(PY_SUBEXPRS)
        return k, "${" + e + "}", f"__xonsh__.env[str({e})]", "primary"
    if k == "subproc":
        x, t, _ = gen_subproc(r)
        return k, x, t, "primary"
    if k == "search":
        pre = r.choice(["", "r", "g", "@foo", "p", "f", "rp"])
        body = r.choice([".*", "[Ff]+i*LE", "#x", "a b", "\\`q", "it\\`s.*", "\\`quoted\\`/*.py", "a\\\\", "C:\\\\tmp\\\\", "x\\\\\\`\\\\", "\\d+\\\\"])
        tok = f"{pre}`{body}`"
        return k, tok, f"__xonsh__.pathsearch({pystr(tok)})", "primary"
    if k == "pathlit" and r.random() < 0.3:
        # implicit concatenations that start with a path literal (plain and f-string parts mixed)
        x, t = r.choice([
            ("p'/a' pf'/{b}'", "__xonsh__.path_literal(f'/a/{b}')"),
            ('p"/a" "b"', "__xonsh__.path_literal('/ab')"),
            ("p'/a' f'/{b}' 'c'", "__xonsh__.path_literal(f'/a/{b}c')"),
            ("pf'{x}/' f'{y}' 'z'", "__xonsh__.path_literal(f'{x}/{y}z')"),
            ("pf'{x}' pf'{y}'", "__xonsh__.path_literal(f'{x}{y}')"),
            ("pr'\\d' 'e'", "__xonsh__.path_literal('\\\\de')"),
        ])
        return k, x, t, "primary"
    if k == "pathlit" and r.random() < 0.35:
        pre = r.choice(["pf", "fp", "Pf", "pF"])
        q = r.choice(['"', "'"])
        return k, f"{pre}{q}/tmp/{{user}}{q}", f"__xonsh__.path_literal(f{q}/tmp/{{user}}{q})", "primary"
    if k == "pathlit":
        pre = r.choice(["p", "P", "pr", "rp", "Rp", "pR"])
        body = r.choice(["/foo", "a b", "~/x", ""])
        q = r.choice(['"', "'"])
        return k, f"{pre}{q}{body}{q}", f"__xonsh__.path_literal({pystr(body)})", "primary"
    if k == "help" and r.random() < 0.4:
        # a chain of lookups with independently chosen marks: obj?.a??.b?
        n = r.choice(["range", "os", "foo"])
        src, t = n, n
        steps = r.randint(2, 3)
        for i in range(steps):
            mark = r.choice(["?", "??"])
            t = f"__xonsh__.{'help' if mark == '?' else 'superhelp'}({t})"
            src += mark
            if i < steps - 1:
                a = r.choice(["index", "path", "join", "y"])
                src += "." + a
                t += "." + a
        return k, src, t, "primary"
    if k == "help":
        n = r.choice(["range", "x", "foo"])
        return k, n + "?", f"__xonsh__.help({n})", "primary"
    if k == "superhelp":
        n = r.choice(["range", "x", "foo"])
        return k, n + "??", f"__xonsh__.superhelp({n})", "primary"
    a = r.choice(["a", "f(1)", "not b"])
    b = r.choice(["c", "d.e", "g[0]"])
    if r.random() < 0.4:
        _, a, at, lvl = gen_construct(r, depth + 2)
        if lvl == "bool":
            a, at = f"({a})", f"({at})"
    else:
        at = a
    if k == "andand":
        return k, f"{a} && {b}", f"{at} and {b}", "bool"
    return k, f"{a} || {b}", f"{at} or {b}", "bool"


# ---------------------------------------------------------------- macros


def gen_macro_arg(r: random.Random, depth=0) -> str:
    """An argument text with balanced brackets and complete strings; arbitrary tokens otherwise."""
    atoms = ["x", "1", "import", "$X", "a b", "if x: y", "'s,t'", '"a)b"', "not  valid   python", "1 +", "x = 5", "lambda: 0", "ls -la", "@", "->", "ñ", "f'{x}'", "a.b", "..", "*args", "**kw", "!", "?", "x?", "`.*`", "3.14e-2", "0x", "for", "a;b", "# c", "  spaced  ", 'f"{n}("', 'f"({n})"', 'f"{x},{y}"', 'f"[{n}"', "f'{a}){b}'", 'f",{x}"', '"s("', "')'", '"],"']
    n = r.randint(1, 4)
    out = []
    for _ in range(n):
        k = r.random()
        if k < 0.65 or depth >= 2:
            a = r.choice(atoms)
            if a == "# c":
                a = "x"
            out.append(a)
        else:
            o, c = r.choice([("(", ")"), ("[", "]"), ("{", "}")])
            inner = gen_macro_arg(r, depth + 1)
            if r.random() < 0.4:
                inner = inner + ", " + gen_macro_arg(r, depth + 1)
            out.append(o + inner + c)
    return r.choice(["", " "]).join(out) if r.random() < 0.3 else " ".join(out)


def gen_call_macro(r: random.Random):
    """(source expr text, function text, [verbatim arg texts as written between commas])"""
    fn = r.choice(["f", "m.g", "h[0]", "f(1)"])
    n = r.randint(0, 4)
    args = [gen_macro_arg(r) for _ in range(n)]
    pads = [(r.choice(["", " ", "  "]), r.choice(["", " "])) for _ in args]
    written = [p[0] + a + p[1] for a, p in zip(args, pads)]
    return f"{fn}!({','.join(written)})", fn, written


def gen_block_body(r: random.Random, indent="    "):
    lines = []
    n = r.randint(1, 5)
    pool = ["x = 1", "not python at all $$", "if y:", "print('a')", "# comment", "", "'what the block does'", '"a doc line" ; k = 0', "b'raw'", "x = 'a\tb'", "y = 1\t# aligned comment", "z\t=\t2", "ls -la | grep z", "'''multi", "'''multi3", "f'''multi", "def f():", "a = (1,", "return [", "pass", "  odd indent", "\tTabbed", "x = 'str' ; y"]
    level = 0
    for _ in range(n):
        t = r.choice(pool)
        if t == "":
            lines.append("")
            continue
        if t in ("'''multi3", "f'''multi"):
            # strings spanning three or more lines; inner lines keep their own (smaller) indentation
            inner = r.choice([["two", "three"], ["  two", "", "three"], ["two {y}", "\tthree", "four"],
                              ["two", "three", "{y} field first on its line"], ["two\x0cpage", "three"], ["two\x85next", "three\u2028sep"], ["two", "{y}"]])
            q = "f" if t.startswith("f") else ""
            lead = r.choice(["s = ", "s = ", ""])  # "" : the string is the FIRST token of its line (a docstring)
            lines.append(indent * (1 + level) + f"{lead}{q}\'\'\'one")
            lines.extend(inner)
            lines.append(r.choice(["", " ", indent * (1 + level), "{y}" if q else "", ""]) + r.choice(["last", "last", ""]) + "\'\'\'" + r.choice(["", " ; after = 1"]))
            continue
        if t in ("'''multi", "a = (1,", "return ["):
            t = {"'''multi": r.choice(["s = '''multi\nline'''", "'''doc\nstring'''", "f'''doc {d}\nstring''' ; e = 1"]), "a = (1,": "a = (1,\n 2)", "return [": "q = [\n]"}[t]
        if t in ("  odd indent", "\tTabbed"):
            t = "z = 3"
        for sub in t.split("\n"):
            lines.append(indent * (1 + level) + sub if sub else "")
        if t.endswith(":"):
            level += 1
        elif level and r.random() < 0.4:
            level -= 1
    if lines and lines[-1].rstrip().endswith(":"):
        lines.append(indent * (2 + level) + "pass")
    # a body must contain at least one real line and not end in a blank line for a crisp oracle
    while lines and not lines[-1].strip():
        lines.pop()
    if not lines or not any(ln.strip() and not ln.strip().startswith("#") for ln in lines):
        lines.append(indent + "body")
    return lines


def gen_with_macro(r: random.Random):
    """(source statement text ending in newline, ctx expr text, expected captured string)"""
    import textwrap

    ctx = r.choice(["ctx", "Block()", "a.b", "m[0]", "x[1:2]", 'open("a:b")', "f(lambda: 0)", "{1: 2}", "g(k=d[1:])"])
    asv = r.choice(["", "", " as v"])
    if r.random() < 0.25:
        body = r.choice(["x = 1", "not python $", "ls -l", "a; b", "s = \'\'\'a\nb\nc\nd\'\'\' ; v = 1", "t = \'\'\'a\n  b\'\'\'"])
        return f"with! {ctx}{asv}: {body}\n", ctx, f" {body}\n"  # one-line form: the rest of the line
    ind = r.choice(["    ", "  ", "\t"])
    lines = gen_block_body(r, ind)
    text = "".join(ln + "\n" for ln in lines)
    return f"with! {ctx}{asv}:\n{text}", ctx, textwrap.dedent(text)


def gen_proc_macro(r: random.Random):
    """(source expr text, cmd word, expected stripped rest)"""
    (o, c), m = r.choice(sorted(METHODS.items()))
    cmd = r.choice(["echo", "ls", "timeit", "bash"])
    rest = r.choice(["x  y   z", " a ", "-c 'for i in x'", "import os", "$HOME is   here", "if else for", "a (b c) d", "[x y]", "1 + 2", "", "  ", "ñ ü", "\"q  q\"", "a=b c=d"])
    sep = r.choice(["", " ", " ", "  "]) if not rest.strip() else " "  # also the bare `cmd!` right before the closer
    return f"{o}{cmd}!{sep}{rest}{c}", cmd, rest.strip(), m


XONSH_STMTS = [
    "$X = 1\n",
    "${'a' + 'b'} = 2\n",
    "x = $(ls -l)\n",
    "$[echo hi]\n",
    "y = !(grep a b)\n",
    "![touch f.txt]\n",
    "for $I in range(3):\n    pass\n",
    "with open(p) as $F:\n    pass\n",
    "z = [$A for $A in q]\n",
    "r = `.*\\.py`\n",
    "pth = p'/usr' / 'bin'\n",
    "pf = pf'{x}/bin'\n",
    "range?\n",
    "range?.index?\n",
    "range?.index??\n",
    "range??.index?\n",
    "f!(a,\n   b)\n",
    "g!(\n x,\n y)\n",
    "r = h!(a,\n\tb, c\n)\n",
    "t = a or b || c\n",
    "u = a && b and c || d\n",
    "/usr/$X/bin\n" if False else "$(ls /usr/$X/bin --prefix=$HOME/opt $A$B.txt pre$(cmd x)post)\n",
    "$(tar @(name).tar.gz --color=@(mode),always log-@$(date +%F).txt)\n",
    "os?.path?.join??\n",
    "x = a?.b\n",
    "len??\n",
    "t = a && b || c\n",
    "f!(x, y z)\n",
    "g!(1 + , [a, b])\n",
    "$(echo! a   b  c)\n",
    "![bash! -c 'echo 1']\n",
    "with! ctx:\n    anything goes here\n    and here\n",
    "with! c as d: one line body\n",
    "with! blk:\n    if x:\n        y\n",
    "k = @(1)\n" if False else "k = $(echo @(v) $HOME)\n",
    "n = $(a @$(b c))\n",
    "del $X\n",
    "$(ls) if $Y else ![pwd]\n",
    "print($PATH[0], ${n})\n",
    "e = f'{$HOME}/x'\n",
    "$(cat < in > out)\n",
    "!(a | b) and $(c)\n",
]
