"""Corpus inputs: repo test data, stdlib modules, hand-written snippet pools, regression corpus."""
from __future__ import annotations

import ast
import json
import random
from functools import lru_cache
from pathlib import Path

from harness.common import REPO, STDLIB, VERIF

PY_STMTS = [
    "x = 1\n",
    "a, *b = c\n",
    "x: int = 3\n",
    "x += f(1, *a, k=2, **kw)\n",
    "def f(a, /, b=1, *c, d, e=2, **g) -> int:\n    return a\n",
    "async def g():\n    await x\n    async with a as b, c:\n        pass\n    async for i in y:\n        yield i\n",
    "class A(B, metaclass=M):\n    '''doc'''\n    x = 1\n",
    "@dec\n@d2(1)\ndef h(): pass\n",
    "if a:\n    pass\nelif b:\n    pass\nelse:\n    pass\n",
    "for i in range(3):\n    continue\nelse:\n    break_ = 1\n",
    "while x < 3: x += 1\n",
    "try:\n    a\nexcept E as e:\n    b\nexcept (F, G):\n    c\nelse:\n    d\nfinally:\n    e\n",
    "try:\n    a\nexcept* E:\n    b\n",
    "with open(f) as g, h() as (i, j):\n    pass\n",
    "with (a as b, c as d):\n    pass\n",
    "match p:\n    case [1, 2, *r]:\n        pass\n    case {'k': v, **rest}:\n        pass\n    case C(x=1) | D():\n        pass\n    case _ if g:\n        pass\n",
    "import os, sys as s\n",
    "from . import x\n",
    "from ..a.b import (c, d as e,)\n",
    "from m import *\n",
    "global q, w\n",
    "del a, b[0], c.d\n",
    "assert x, 'm'\n",
    "raise E from f\n",
    "return\n" if False else "lambda: (yield)\n",
    "type X[T: int, *Ts, **P] = list[T]\n",
    "def gen[T](x: T) -> T: return x\n",
    "class K[T]: pass\n",
    "x = a if b else c\n",
    "y = [i for i in a if i for j in b]\n",
    "z = {k: v for k, v in d.items()}\n",
    "w = {*a, 1}\n",
    "v = (i async for i in a)\n",
    "u = a[1:2, ::3, ...]\n",
    "t = a @ b ** -c // d % e << 1 >> 2 & 3 | 4 ^ 5\n",
    "s = not a and b or c\n",
    "r = a < b <= c != d is not e not in f\n",
    "q = (yield)\n",
    "p = 'a' \"b\" '''c'''\n",
    "o = b'x' rb'y'\n",
    "n = 1_000 + 0x_ff + 0b1 + 0o7 + 1.5e-3 + 2j + .5 + 5.\n",
    "m = (x := 5)\n",
    "l = f(*a, **k)(b)[c].d\n",
    "k = lambda a, /, b=1, *c, d, **e: 0\n",
    "j = u'uni'\n",
    "i = ...\n",
    "print(a, end='')\n",
    "x = 1; y = 2;\n",
    "if x: pass\n",
    "class E: x = 1; y = 2\n",
    "a = (\n    1,\n    2,\n)\n",
    "b = [\n  # c\n  1\n]\n",
    "s = '''multi\nline'''\n",
    "a = b = c\n",
    "(a) = 1\n",
    "[a, b] = c\n",
    "a.b = c[0] = d\n",
    "for a, b in c: pass\n",
    "for (a, b) in c: pass\n",
    "x = yield y\n",
    "await_ = 1\n",
    "match = case = type = 1\n",
    "match(x)\n",
    "print(type(x))\n",
    "d = {**a, 'b': 1}\n",
    "x = -1 ** 2\n",
    "x = a if b else c if d else e\n",
    "x = 1 if a else lambda: 2\n",
    "def f(*, a): pass\n",
    "def f(a=1, /, b=2): pass\n",
    "def f(*a: int, **k: str): pass\n",
    "x = a[b:=1]\n" if False else "x = a[(b:=1)]\n",
    "with a: pass\n",
    "nonlocal_ = 3\n",
    "if (n := len(a)) > 1: pass\n",
    "x = [*a, *b]\n",
    "x = a,\n",
    "x = ()\n",
    "return_ = [a for a in b if a if c]\n",
    "s = 'abc\\\ndef'\n",
    's = "a\\\n  b" + \'c\\\nd\'\n',
    "f(a, *b)\n",
    "f(a, b, *c)\n",
    "print(x, y, *z, sep='')\n",
    "g(*a, *b, **c, **d)\n",
    "with (open(p)) as f: pass\n",
    "with (a, b) as c: pass\n",
    "with (a).b: pass\n",
    "with (a, b): pass\n",
    "x = [*a, b]\n",
    "y = {*a, *b}\n",
    "z = (*a, b)\n",
    "def await_(): pass\n",
    "obj.attr.await_ = 1\n",
    "if a:\n \tif b:\n         c\n",
    "if a:\n\tb\n        c\n",
]

PY_EXPRS = [
    "1", "a", "a + b", "a.b.c", "f(x)", "a[1]", "(a, b)", "[a, b]", "{a: b}", "{a}", "lambda: 0", "a if b else c",
    "not a", "-a", "a ** b", "a < b < c", "a and b or c", "(yield)", "[i for i in x]", "{i for i in x}",
    "{i: j for i, j in x}", "(i for i in x)", "a[1:2]", "a[::2]", "a[1, 2]", "*a, b", "'s'", "b'b'", "'a' 'b'",
    "1.5", "2j", "...", "None", "True", "False", "(x := 1)", "f(a, *b, c=1, **d)", "a @ b", "await x", "a is not b",
    "a not in b", "~a", "a // b", "a << b", "x.y(z)[0]", "()", "[]", "{}", "(a)", "((a))", "a if b else (c, d)",
]

FSTRINGS = [
    "f'a'", "f'{x}'", "f'{x!r}'", "f'{x:>10}'", "f'{x!s:^{w}}'", "f'{x=}'", "f'{x = }'", "f'a{{b}}c'", "f\"{x}\" \"b\" f\"{y}\"",
    "f'{a!r:>{w}}'", "f'{a:=5}'", "f\"\\N{DIGIT ONE}\"", "f'''{x:\n}'''", "f'{f\"{y}\"}'", "rf'\\d{x}'", "rf'\\{x}'", "rf'C:\\{d}\\{f}.txt'", "Rf'{x}\\n'", "fr'{x}'",
    "F'{x}'", "f'{x}' 'y'", "'y' f'{x}'", "f'{x}' f'{y}'", "f'{{}}'", "f'{x}{y}'", "f'{ x }'", "f'{x:{y}{z}}'", "f'{x!a}'",
    "f'{x:.2f}'", "f'{a[\"k\"]}'", "f'{a:{b:{c}}}'", "f'''a\nb{x}c\nd'''", "f'{x,}'", "f'{x, y}'", "f'{lambda: 1}'" if False else "f'{(lambda: 1)}'",
    "f'{x:%Y-%m}'", "f'\\{x}'" if False else "f'\\\\{x}'", "f'{x}\\n'", "f'é{x}ü'", "f'{\"é\"}'", "f'{x:é}'", "f''", "f'{x}' ''", "u'a' f'{x}'",
    "f'{a}' \"\" f'{b}'", "f'{x!r}'\nf'{y}'", "f'{d[0]}{e.f}{g()}'", "f'{a + b * c}'", "f'{x:{\"{\"}>10}'", "f'{x:}}'" if False else "f'{x}}}'",
    "f'{yield_}'", "f'{*a,}'", "f'{a if b else c}'", "f'{a:{b}.{c}}'", "f'{{{x}}}'", "f'{{ {x} }}'", "f\"{'a' if x else 'b'}\"",
]


def test_data_files():
    d = REPO / "tests" / "data"
    out = []
    for p in sorted(d.glob("*.py")):
        try:
            out.append((p.name, p.read_text(encoding="utf-8")))
        except Exception:  # noqa: BLE001
            pass
    return out


@lru_cache(None)
def stdlib_files():
    out = []
    for p in sorted(STDLIB.glob("*.py")):
        try:
            s = p.read_text(encoding="utf-8")
        except Exception:  # noqa: BLE001
            continue
        out.append((p.name, s))
    return out


def strip_fstring_statements(src: str) -> str | None:
    """Replace every top-level statement that contains an f-string by `pass` (C01 leaves f-strings to C10)."""
    try:
        tree = ast.parse(src)
    except (SyntaxError, ValueError):
        return None
    lines = src.splitlines(keepends=True)
    kill = []
    for st in tree.body:
        if any(isinstance(n, ast.JoinedStr) for n in ast.walk(st)):
            kill.append((st.lineno, st.end_lineno))
            for d in getattr(st, "decorator_list", []):
                kill[-1] = (min(kill[-1][0], d.lineno), kill[-1][1])
    for a, b in reversed(kill):
        lines[a - 1 : b] = ["pass\n"] + ["\n"] * (b - a)
    out = "".join(lines)
    try:
        ast.parse(out)
    except (SyntaxError, ValueError):
        return None
    return out


def split_statements(src: str, maxlen=1500):
    """Top-level statements of a source file as standalone snippets (with their decorators)."""
    try:
        tree = ast.parse(src)
    except (SyntaxError, ValueError):
        return []
    lines = src.splitlines(keepends=True)
    out = []
    for st in tree.body:
        a = min([st.lineno] + [d.lineno for d in getattr(st, "decorator_list", [])])
        txt = "".join(lines[a - 1 : st.end_lineno])
        if not txt.endswith("\n"):
            txt += "\n"
        if len(txt) <= maxlen and txt[:1] not in " \t":
            out.append(txt)
    return out


def regress(pid: str):
    p = VERIF / "corpus" / "regress" / f"{pid}.json"
    if p.exists():
        return json.loads(p.read_text())
    return []


def xonsh_pairs():
    """(xonsh source, python translation) pairs vendored in spec/translations.json."""
    p = VERIF / "spec" / "translations.json"
    return [tuple(x) for x in json.loads(p.read_text())] if p.exists() else []


def arg_order_variants():
    """Call / class argument lists in EVERY source order of positional, *star, keyword and **mapping items up to four
    items (ast.unparse always writes positionals first, so unparsed programs never contain e.g. `f(k=1, *rest)`).
    Orders CPython rejects are filtered by the caller's oracle."""
    import itertools

    kinds = {"p": ["x", "y", "z", "w"], "s": ["*r1", "*r2", "*r3", "*r4"], "k": ["k1=1", "k2=2", "k3=3", "k4=4"], "d": ["**d1", "**d2", "**d3", "**d4"]}
    out = []
    for n in range(1, 5):
        for seq in itertools.product("pskd", repeat=n):
            args = ", ".join(kinds[k][i] for i, k in enumerate(seq))
            out.append(f"f({args})\n")
            out.append(f"class A({args}): pass\n")
            if n <= 3:
                out.append(f"@dec({args})\ndef g(): pass\n")
    return out


def string_prefix_variants():
    """Every string prefix in every letter case x quotes, alone and in implicit concatenations."""
    import itertools

    pre = set()
    for p in ["", "u", "r", "b", "br", "rb"]:
        for cs in itertools.product(*[(c.lower(), c.upper()) for c in p]):
            pre.add("".join(cs))
    out = []
    for p in sorted(pre):
        for q in ["'", '"', "'''", '"""']:
            out.append(f"x = {p}{q}abc{q}\n")
        out.append(f"x = {p}'a' {p}\"b\"\n")
        if "b" not in p.lower():
            out.append(f"x = {p}'a' 'b'\n")
            out.append(f"x = 'a' {p}'b'\n")
            out.append(f"x = ({p}'a'\n     'b'\n     {p}'c')\n")
    return out


# valid Python WITHOUT a final newline whose last physical line looks like a comment (it is inside a string / after a
# continuation): the tokenizer must still close the logical line
FINAL_LINE_FORMS = ['x = """\n# not a comment"""', "x = 1 \\\n# c", "s = \'\'\'a\n#b\'\'\'", "x = 1\n# c", "x = 1\n   # c", "# only", "if a:\n  b\n  # c", "x = 1\n\\\n# c", "def f():\n    \'\'\'doc\n    # tail\'\'\'"]


# rarely used but legal source forms (all accepted by CPython 3.12; checked at import time)
RARE_FORMS = [
    # match statement variety
    "match n:\n    case ast.Name(id=x):\n        pass\n", "match n:\n    case a.b.c:\n        pass\n", "match n:\n    case a.b.C(1, y=2):\n        pass\n",
    "match p:\n    case {'k': v, **rest}:\n        pass\n", "match p:\n    case {}:\n        pass\n", "match p:\n    case {1: _, 'a': [x, *_]}:\n        pass\n",
    "match p:\n    case (1 | 2) as x:\n        pass\n", "match p:\n    case [*_, last]:\n        pass\n", "match p:\n    case (x, y, *rest) if x > y:\n        pass\n",
    "match p:\n    case -1 | 2.5 | -3j | 1+2j | 1.5-2J:\n        pass\n", "match p:\n    case 'a' 'b' | b'c' | None | True | False:\n        pass\n",
    "match p:\n    case str() | int(real=0):\n        pass\n", "match p, q:\n    case 1, 2:\n        pass\n    case _:\n        pass\n", "match (p):\n    case [(1)]:\n        pass\n",
    "match = 1\ncase = match\nmatch[case] = type\n", "match(x)\ncase(y)\n", "match x:\n    case {0J+1j: y}:\n        pass\n" if False else "match x:\n    case {1+1j: y}:\n        pass\n",
    # numbers and strings
    "x = 0x_ff + 0b_1010 | 0o_17\n", "x = 0XAB_cd + 0B1 + 0O7\n", "x = 1_000.000_1e1_0 + 1E5 + 1e-5J\n", "x = .5 + 5. + 5.e3 + .5j\n", "x = 00 + 0_0 + 0e0 + 00.5 + 09.5 + 09e1j\n",
    "x = 1if y else 2\n" if False else "x = (1)if y else(2)\n", "x = 'a' \"b\" '''c''' \"\"\"d\"\"\"\n", "x = b'a' B\"b\" rb'\\d' Rb'\\d' bR'x' BR'y'\n", "x = u'a' U'b' r'\\n' R'\\n'\n", "x = 'it''s' \"q\\\"q\" '\\N{EM DASH}' 'a\\x41\\u00e9\\0'\n",
    "s = 'a\\\nb'\n", 't = "x \\\n y" + "z"\n', "u = b'a\\\nb'\n",
    # calls, subscripts, slices, stars
    "f(a, *b, c, *d, k=1, **e, **f)\n", "f(a,)\n", "f(*a,)\n", "f(**a,)\n", "f(x for x in y)\n", "f(a, (x for x in y))\n", "f(a := 1, b=(c := 2))\n",
    "a[::]\n", "a[b:c, d:e, ...]\n", "a[*b]\n", "a[*b, c]\n", "a[b:=1]\n" if False else "a[(b:=1)]\n", "a[1:2:3, ::2, :, 1]\n", "a[()]\n", "a[b,]\n",
    "x = *a, b\n", "x = (*a,)\n", "[*a, *b] = c\n", "(a, (b, *c)), d = e\n", "for *a, b in c: pass\n", "for a, in b: pass\n", "del (a), [b], c.d, e[0]\n", "del (a, b), [c, d]\n",
    # lambda, comprehension, conditional, walrus
    "f = lambda a, /, b, *, c=1, **d: (yield)\n", "f = lambda *, k: k\n", "f = lambda a=1, *b, c, **d: a\n", "f = lambda: lambda: 0\n", "x = [i for i in range(3) if i if i > 1]\n",
    "x = {k: v for k, v in z if (y := k)}\n", "x = {*a, *b}\n", "x = {**a, 'k': 1, **b}\n", "x = [y async for y in z]\n" if False else "async def g():\n    return [y async for y in z if await y]\n",
    "x = a if b else c if d else e\n", "x = not a in b is not c\n", "x = a < b <= c != d is e in f\n", "x = -+~a ** -b\n", "x = a @ b @= c\n" if False else "a @= b @ c\n", "x = await_ + async_\n",
    # statements
    "global a, b\n", "def f():\n    nonlocal_ = 1\n    def g():\n        nonlocal nonlocal_\n", "assert a, 'm'\n", "assert (a, 'm')\n", "raise A from B\n", "raise\n",
    "import a.b.c as d, e\n", "from . import a\n", "from ...... import a\n", "from . ... import a\n", "from .... import b\n", "from ..x import y\n", "from . . import z\n", "from .....pkg.mod import (n)\n", "from .. import (a as b, c,)\n", "from ...x.y import *\n", "from a import (b)\n",
    "try:\n    pass\nexcept (A, B) as e:\n    pass\nexcept C:\n    pass\nelse:\n    pass\nfinally:\n    pass\n", "try:\n    pass\nexcept* A as e:\n    pass\nexcept* (B, C):\n    pass\n",
    "with (a as b, c as d,):\n    pass\n", "with (a, b):\n    pass\n", "with (a) as b, (c):\n    pass\n", "with a as (b, c), d as [e]:\n    pass\n", "async def f():\n    async with a as b, c:\n        pass\n    async for x in y:\n        pass\n    else:\n        pass\n",
    "while a:\n    break\nelse:\n    continue_ = 1\n", "for a in b:\n    continue\nelse:\n    pass\n", "if a: pass\nelif b: pass\nelse: pass\n", "if a: b; c; d;\n", "x = 1; y = 2;\n",
    "@a.b(c)\n@d\n@(e or f)\n@g[0]\n@h if i else j\ndef k(): pass\n", "@a\nclass B(C, metaclass=D, **kw): pass\n", "class A(): pass\n", "class A[T: int, *Ts, **P](B[T]): pass\n", "def f[T, *Ts, **P](a: T, *b: *Ts, **c: P.kwargs) -> T: pass\n",
    "type X[T] = list[T]\n", "type X = int | str\n", "def f(a, b=1, /, c=2, *d, e, f=3, **g): pass\n", "def f(*, a): pass\n", "def f(a, /): pass\n", "def f(a: int = 1, *b: str, c: 'x' = 2, **d: y) -> z: pass\n",
    "x: int\n", "x: int = 1\n", "(x): int = 1\n", "a.b: int\n", "a[0]: int = 2\n", "x: (yield)\n" if False else "x: tuple[int, ...] = (1, ...)\n",
    "a += 1; b -= 2; c *= 3; d /= 4; e //= 5; f %= 6; g **= 7; h >>= 8; i <<= 9; j &= 1; k ^= 2; l |= 3\n", "a = b = c = d\n", "a = yield b\n" if False else "def f():\n    a = yield b\n    c = yield from d\n    yield\n",
    "print(*a, sep='')\n", "x = (yield)\n" if False else "def g():\n    x = (yield)\n    await_ = (yield 1, 2)\n", "x = ...\n", "...\n", "x = a if b else (yield_)\n",
    "if (n := len(a)) > 10: pass\n", "while chunk := f.read(8): pass\n", "x = [y := 1, y ** 2]\n", "x = f(y := 1)\n" if False else "print((y := 1))\n",
]
import ast as _ast_chk

RARE_FORMS = [s for s in RARE_FORMS if s]
for _s in RARE_FORMS:
    _ast_chk.parse(_s)  # a form CPython rejects is a bug in this table
PY_STMTS = list(PY_STMTS) + [s for s in RARE_FORMS if s not in PY_STMTS]


def pattern_spellings():
    """match-case patterns, legal and illegal (CPython decides): star / double-star captures, wildcards, values."""
    pats = ["{**_}", "{**rest}", "{**a, **b}", "{**a, 'k': 1}", "{'k': 1, **a}", "{'k': _}", "[*_]", "[*a, *b]", "[*a, b, *c]", "(*_, x)", "*a", "_", "a.b", "a.b()", "a.b(c=1, c=2)",
            "A(x, y=1)", "A(y=1, x)", "1 | x", "x | 1", "(x | y)", "[x, x]", "{1: x, 1: y}", "None | True", "-1", "+1", "1 + 1", "1 + 1j", "'a' 'b'", "f'a'", "x as y", "x as _", "_ as y", "(1 as x) | (2 as x)", "{x: 1}", "{a.b: 1}"]
    return [f"match v:\n    case {p}:\n        pass\n" for p in pats]


def string_mixes():
    """every ordered pair (and some triples) of string literal kinds written next to each other"""
    import itertools

    kinds = ["'a'", "b'b'", "f'{c}'", "u'd'", "rb'e'", "f'g'", "rf'{h}'", "B'i'", "U'j'", "''", "b''"]
    out = [f"x = {p} {q}\n" for p, q in itertools.product(kinds, repeat=2)]
    out += [f"x = ({p}\n     {q} {r})\n" for p, q, r in itertools.product(kinds[:5], repeat=3)]
    return out
