"""Random small well-formed PEG grammars in pegen notation + a reference PEG interpreter.

Grammar data model (independent of pegen's classes):
  grammar = {"rules": [rule...]}, rule = {"name", "memo": bool, "alts": [alt...]}
  alt = {"items": [item...], "action": None | "tuple"}            # action "tuple": ("<rule>_<i>", *named values)
  item = {"k": kind, "name": None|str, ...}
     kinds: tok(s) rule(n) opt(x) star(x) plus(x) gather(sep,x) pos(x) neg(x) cut forced(s) group(alts)
"""
from __future__ import annotations

import random

TOKENS = ["a", "b", "c"]
HEADER = """@class GenParser

@header'''\\
from __future__ import annotations

import ast
import itertools
import sys
from typing import Any

from peg_parser.subheader import Del, Load, Parser, Store, Target, logger, memoize, memoize_left_rec
'''

@trailer''

"""


# ---------------------------------------------------------------- rendering
def render_item(it, top=True):
    k = it["k"]
    if k == "tok":
        s = f"'{it['s']}'"
    elif k == "name":
        s = "NAME"
    elif k == "rule":
        s = it["n"]
    elif k == "opt":
        s = "[" + render_item(it["x"], False) + "]"
    elif k == "star":
        s = render_atom(it["x"]) + "*"
    elif k == "plus":
        s = render_atom(it["x"]) + "+"
    elif k == "gather":
        s = render_atom(it["sep"]) + "." + render_atom(it["x"]) + "+"
    elif k == "pos":
        s = "&" + render_atom(it["x"])
    elif k == "neg":
        s = "!" + render_atom(it["x"])
    elif k == "cut":
        s = "~"
    elif k == "forced":
        s = f"&&'{it['s']}'"
    elif k == "group":
        s = "(" + " | ".join(render_alt(a, "grp", j) for j, a in enumerate(it["alts"])) + ")"
    else:
        raise ValueError(k)
    if it.get("name"):
        s = f"{it['name']}={s}"
    return s


def render_atom(it):
    return render_item(it, False)


def render_alt(alt, rname, idx):
    s = " ".join(render_item(i) for i in alt["items"])
    if alt["action"] == "names":
        s += " { (" + ", ".join(alt["order"]) + ("," if len(alt["order"]) == 1 else "") + ") }"
        return s
    if alt["action"] == "tuple":
        names = [i["name"] for i in alt["items"] if i.get("name")]
        s += " { (" + ", ".join([repr(f"{rname}_{idx}")] + names) + ("," if not names else "") + ") }"
    return s


def render(grammar) -> str:
    out = [HEADER]
    for r in grammar["rules"]:
        memo = " (memo)" if r["memo"] else ""
        alts = [render_alt(a, r["name"], i) for i, a in enumerate(r["alts"])]
        # the three layouts of the grammar notation, chosen per rule (all are the same ordered choice):
        # every alternative on its own `|` line; everything on the header line; first alternative on the header line, the rest below
        layout = (len(out) + len(alts)) % 3 if len(alts) > 1 else 0
        if layout == 1:
            out.append(f"{r['name']}{memo}: " + " | ".join(alts))
        elif layout == 2:
            out.append(f"{r['name']}{memo}: " + alts[0])
            out.extend("    | " + a for a in alts[1:])
        else:
            out.append(f"{r['name']}{memo}:")
            out.extend("    | " + a for a in alts)
        out.append("")
    return "\n".join(out)


# ---------------------------------------------------------------- analysis (own implementation)
def nullable_set(grammar):
    rules = {r["name"]: r for r in grammar["rules"]}
    nul = set()

    def item_n(it):
        k = it["k"]
        if k in ("opt", "star", "pos", "neg", "forced", "cut"):
            return True  # (a cut consumes nothing)
        if k in ("tok", "name", "plus", "gather"):
            return False
        if k == "rule":
            return it["n"] in nul
        if k == "group":
            return any(all(item_n(i) for i in a["items"]) for a in it["alts"])
        raise ValueError(k)

    changed = True
    while changed:
        changed = False
        for r in grammar["rules"]:
            if r["name"] not in nul and any(all(item_n(i) for i in a["items"]) for a in r["alts"]):
                nul.add(r["name"])
                changed = True
    return nul, item_n


def first_names(grammar):
    """rule -> set of rules it may invoke at its initial position (through nullable prefixes, lookaheads, groups...)."""
    nul, item_n = nullable_set(grammar)

    def item_first(it):
        k = it["k"]
        if k == "rule":
            return {it["n"]}
        if k in ("opt", "star", "plus", "pos", "neg"):
            return item_first(it["x"])
        if k == "gather":
            return item_first(it["x"])
        if k == "group":
            s = set()
            for a in it["alts"]:
                s |= alt_first(a)
            return s
        return set()

    def alt_first(a):
        s = set()
        for it in a["items"]:
            s |= item_first(it)
            if not item_n(it):
                break
        return s

    return {r["name"]: set().union(*[alt_first(a) for a in r["alts"]]) if r["alts"] else set() for r in grammar["rules"]}


def left_recursion(grammar):
    """(left_recursive set, leaders set) or raises ValueError when an SCC has no node on all of its cycles."""
    g = first_names(grammar)
    names = list(g)
    # SCCs (Tarjan)
    index = {}
    low = {}
    stack = []
    on = set()
    sccs = []
    counter = [0]

    def strong(v):
        index[v] = low[v] = counter[0]
        counter[0] += 1
        stack.append(v)
        on.add(v)
        for w in g.get(v, ()):
            if w not in g:
                continue
            if w not in index:
                strong(w)
                low[v] = min(low[v], low[w])
            elif w in on:
                low[v] = min(low[v], index[w])
        if low[v] == index[v]:
            comp = set()
            while True:
                w = stack.pop()
                on.discard(w)
                comp.add(w)
                if w == v:
                    break
            sccs.append(comp)

    for v in names:
        if v not in index:
            strong(v)
    lr = set()
    leaders = set()
    for scc in sccs:
        if len(scc) > 1:
            lr |= scc
            # nodes on every simple cycle of the SCC
            cand = set(scc)
            cycles = []

            def dfs(start, v, path):
                for w in g[v]:
                    if w not in scc:
                        continue
                    if w == start:
                        cycles.append(set(path))
                    elif w not in path and len(path) < 8:
                        dfs(start, w, path + [w])

            for s in scc:
                dfs(s, s, [s])
            for c in cycles:
                cand &= c
            if not cand:
                raise ValueError("no leader")
            leaders.add(min(cand))
        else:
            n = next(iter(scc))
            if n in g[n]:
                lr.add(n)
                leaders.add(n)
    return lr, leaders


def hidden_left_recursion(grammar):
    """Left recursion reachable only through a nullable prefix / lookahead etc. is 'hidden' for our purposes when the
    first-graph edge that closes a cycle is not the very first item of an alternative. We simply forbid, inside an SCC,
    any first-graph edge into the SCC from a position other than item 0 of an alternative of a rule, and forbid such an
    edge through opt/star/plus/gather/lookahead/group wrappers."""
    g = first_names(grammar)
    try:
        lr, _ = left_recursion(grammar)
    except ValueError:
        return True
    nul, item_n = nullable_set(grammar)
    for r in grammar["rules"]:
        if r["name"] not in lr:
            continue
        for a in r["alts"]:
            for pos, it in enumerate(a["items"]):
                inner = _rules_in(it)
                hit = any(n in lr and _same_scc(g, r["name"], n) for n in inner)
                if hit and not (pos == 0 and it["k"] == "rule"):
                    # is the position reachable as initial position?
                    if all(item_n(x) for x in a["items"][:pos]):
                        return True
                if not item_n(it):
                    break
    return False


def _rules_in(it):
    k = it["k"]
    if k == "rule":
        return {it["n"]}
    if k in ("opt", "star", "plus", "pos", "neg"):
        return _rules_in(it["x"])
    if k == "gather":
        return _rules_in(it["x"]) | _rules_in(it["sep"])
    if k == "group":
        s = set()
        for a in it["alts"]:
            for i in a["items"]:
                s |= _rules_in(i)
        return s
    return set()


def _same_scc(g, a, b):
    def reach(x, y):
        seen = set()
        st = [x]
        while st:
            v = st.pop()
            for w in g.get(v, ()):
                if w == y:
                    return True
                if w not in seen:
                    seen.add(w)
                    st.append(w)
        return False

    return a == b and a in g.get(a, ()) or (reach(a, b) and reach(b, a))


def well_formed(grammar):
    nul, item_n = nullable_set(grammar)
    rules = {r["name"] for r in grammar["rules"]}

    def ok_item(it):
        k = it["k"]
        if k in ("star", "plus"):
            return not item_n(it["x"]) and ok_item(it["x"])
        if k == "gather":
            return not item_n(it["x"]) and not item_n(it["sep"]) and ok_item(it["x"]) and ok_item(it["sep"])
        if k in ("opt", "pos", "neg"):
            return ok_item(it["x"])
        if k == "group":
            return all(ok_alt(a, in_group=True) for a in it["alts"])
        if k == "rule":
            return it["n"] in rules
        return True

    def ok_alt(a, in_group=False):
        if not a["items"]:
            return False
        names = [i["name"] for i in a["items"] if i.get("name")]
        if len(set(names)) != len(names):
            return False  # two items of one alternative under the same name: what the action sees is not PEG semantics
        if not all(ok_item(i) for i in a["items"]):
            return False
        if a["action"] is None:
            named = [i for i in a["items"] if i["k"] not in ("pos", "neg", "cut")]
            # value must be truthy: a single item that may be None/[] is not allowed
            if len(named) == 1 and (item_n(named[0]) or named[0]["k"] in ("opt", "star")):
                return False
            if len(named) == 0:
                return False
        return True

    if not all(ok_alt(a) for r in grammar["rules"] for a in r["alts"]):
        return False
    try:
        left_recursion(grammar)
    except ValueError:
        return False
    if hidden_left_recursion(grammar):
        return False
    return True


# ---------------------------------------------------------------- random generation
def gen_grammar(r: random.Random, allow_leftrec=True):
    # "lr-heavy": more rules, left calls to ANY rule (also later ones): SCCs with several overlapping cycles, where the
    # choice of the leader matters
    lr_heavy = allow_leftrec and r.random() < 0.25
    nrules = r.randint(3, 5) if lr_heavy else r.randint(1, 4)
    names = [f"r{i}" for i in range(nrules)]

    made_groups = []

    def variant_of(g):
        """same items, different action / names: the shapes a helper-rule cache must keep apart"""
        import copy

        c = copy.deepcopy(g)
        c.pop("name", None)  # the copy is named (or not) by the alternative that uses it: no duplicate names in one alternative
        for a in c["alts"]:
            if a["action"] is None:
                a["action"] = "tuple"
                for j, it in enumerate(a["items"]):
                    it["name"] = "uvwxyz"[j]
                    if r.random() < 0.4:
                        break
            else:
                a["action"] = None
                for it in a["items"]:
                    it.pop("name", None)
        return c

    def atom(depth, ri):
        k = r.random()
        if made_groups and k > 0.85 and depth < 2 and r.random() < 0.5:
            return variant_of(r.choice(made_groups))
        if k < 0.5:
            return {"k": "tok", "s": r.choice(TOKENS)}
        if k < 0.85 or depth >= 2:
            return {"k": "rule", "n": r.choice(names)}
        alts = []
        for _ in range(r.randint(1, 3)):
            its = [(item(depth + 1, ri) if r.random() < 0.3 else atom(depth + 1, ri)) for _ in range(r.randint(1, 2))]
            action = None
            if r.random() < 0.35:
                action = "tuple"
                c = 0
                for it in its:
                    if r.random() < 0.7:
                        it["name"] = "uvwxyz"[c]
                        c += 1
            elif r.random() < 0.2 and its:
                its[0]["name"] = "u"  # a named item without an action (the name must not matter)
            alts.append({"items": its, "action": action})
        g = {"k": "group", "alts": alts}
        made_groups.append(g)
        return g

    def item(depth, ri):
        k = r.random()
        if k < 0.5:
            return atom(depth, ri)
        if k < 0.58:
            return {"k": "opt", "x": atom(depth + 1, ri)}
        if k < 0.66:
            return {"k": "star", "x": atom(depth + 1, ri)}
        if k < 0.74:
            return {"k": "plus", "x": atom(depth + 1, ri)}
        if k < 0.80:
            # the separator is any atom: a token, a rule (possibly several tokens long) or a group
            sep = {"k": "tok", "s": r.choice(TOKENS)} if r.random() < 0.55 else atom(depth + 1, ri)
            return {"k": "gather", "sep": sep, "x": atom(depth + 1, ri)}
        if k < 0.86:
            return {"k": "pos", "x": atom(depth + 1, ri)}
        if k < 0.92:
            return {"k": "neg", "x": atom(depth + 1, ri)}
        if k < 0.96:
            return {"k": "cut"}
        return {"k": "forced", "s": r.choice(TOKENS)}

    rules = []
    for ri, n in enumerate(names):
        alts = []
        simple_rule = r.random() < 0.2  # all alternatives single unnamed items, no action (the inlining path)
        for ai in range(r.randint(1, 3)):
            if simple_rule:
                # (also repetitions: a failed `x+` yields an empty list, which an inlined choice must treat as a failure)
                alts.append({"items": [item(1, ri) if r.random() < 0.35 else atom(1, ri)], "action": None})
                continue
            items = [item(0, ri) for _ in range(r.randint(1, 3))]
            if lr_heavy and r.random() < 0.5:
                items[0] = {"k": "rule", "n": r.choice(names)}
                if len(items) == 1:
                    items.append({"k": "tok", "s": r.choice(TOKENS)})
            elif allow_leftrec and r.random() < 0.25:
                items[0] = {"k": "rule", "n": r.choice(names[: ri + 1])}
            action = "tuple" if r.random() < 0.75 else None
            if action == "tuple":
                c = 0
                for it in items:
                    if it["k"] not in ("pos", "neg", "cut") and r.random() < 0.8:
                        it["name"] = "abcdefg"[c]
                        c += 1
            alts.append({"items": items, "action": action})
        rules.append({"name": n, "memo": r.random() < 0.3, "alts": alts})
    return {"rules": rules}


# ---------------------------------------------------------------- reference semantics
FAIL = ("fail",)


class Raise(Exception):
    pass


class Ref:
    """Reference PEG semantics (ordered choice, greedy repetition, lookahead, cut, forced, seed-growing left recursion)."""

    def __init__(self, grammar, tokens, budget=20000):
        self.rules = {r["name"]: r for r in grammar["rules"]}
        self.toks = tokens
        # hard keywords: every single-quoted literal that is spelled like an identifier; NAME never matches one of them
        self.keywords = set()

        def lits(it):
            if it["k"] in ("tok", "forced") and it["s"].isidentifier():
                self.keywords.add(it["s"])
            for sub in ("x", "sep"):
                if sub in it:
                    lits(it[sub])
            if it["k"] == "group":
                for a in it["alts"]:
                    for i in a["items"]:
                        lits(i)

        for r in grammar["rules"]:
            for a in r["alts"]:
                for i in a["items"]:
                    lits(i)
        self.lr, self.leaders = left_recursion(grammar)
        self.seeds = {}
        self.budget = budget

    def tick(self):
        self.budget -= 1
        if self.budget < 0:
            raise RecursionError("reference budget")

    def rule(self, name, pos):
        self.tick()
        if name in self.leaders:
            key = (name, pos)
            if key in self.seeds:
                return self.seeds[key]
            self.seeds[key] = (FAIL, pos)
            last = (FAIL, pos)
            while True:
                v, e = self.rhs(self.rules[name], pos)
                if v is FAIL or not truthy(v):
                    break
                if e <= last[1]:
                    break
                self.seeds[key] = last = (v, e)
            self.seeds[key] = last
            return last
        return self.rhs(self.rules[name], pos)

    def rhs(self, rule, pos):
        for i, alt in enumerate(rule["alts"]):
            v, e, cut = self.alt(alt, pos, f"{rule['name']}_{i}")
            if v is not FAIL and truthy(v):
                return v, e
            if cut:
                return FAIL, pos
        return FAIL, pos

    def alt(self, alt, pos, tag):
        vals = []
        named = []
        cut = False
        p = pos
        for it in alt["items"]:
            k = it["k"]
            if k == "cut":
                cut = True
                continue
            v, p2 = self.item(it, p)
            if v is FAIL:
                return FAIL, pos, cut
            p = p2
            if k in ("pos", "neg"):
                continue
            vals.append(v)
            if it.get("name"):
                named.append(v)
        if alt["action"] == "names":
            env = {}
            for it2, v2 in zip([i for i in alt["items"] if i["k"] not in ("cut", "pos", "neg")], vals):
                if it2.get("name"):
                    env[it2["name"]] = v2
            return tuple(env[n] for n in alt["order"]), p, cut
        if alt["action"] == "tuple":
            return (tag, *named), p, cut
        if len(vals) == 1:
            return vals[0], p, cut
        return list(vals), p, cut

    def item(self, it, pos):
        self.tick()
        k = it["k"]
        if k == "tok":
            if pos < len(self.toks) and self.toks[pos] == it["s"]:
                return it["s"], pos + 1
            return FAIL, pos
        if k == "name":
            if pos < len(self.toks) and self.toks[pos] not in self.keywords:
                return self.toks[pos], pos + 1
            return FAIL, pos
        if k == "rule":
            return self.rule(it["n"], pos)
        if k == "opt":
            v, e = self.item(it["x"], pos)
            return (None, pos) if (v is FAIL or not truthy(v)) else (v, e)
        if k in ("star", "plus"):
            out = []
            p = pos
            while True:
                v, e = self.item(it["x"], p)
                if v is FAIL or not truthy(v):
                    break
                out.append(v)
                p = e
            if k == "plus" and not out:
                return FAIL, pos
            return out, p
        if k == "gather":
            v, e = self.item(it["x"], pos)
            if v is FAIL or not truthy(v):
                return FAIL, pos
            out = [v]
            p = e
            while True:
                sv, se = self.item(it["sep"], p)
                if sv is FAIL or not truthy(sv):
                    break
                v, e = self.item(it["x"], se)
                if v is FAIL or not truthy(v):
                    break
                out.append(v)
                p = e
            return out, p
        if k == "pos":
            v, e = self.item(it["x"], pos)
            return (FAIL, pos) if (v is FAIL or not truthy(v)) else (True, pos)
        if k == "neg":
            v, e = self.item(it["x"], pos)
            return (True, pos) if (v is FAIL or not truthy(v)) else (FAIL, pos)
        if k == "forced":
            if pos < len(self.toks) and self.toks[pos] == it["s"]:
                return it["s"], pos + 1
            raise Raise(f"expected '{it['s']}'")
        if k == "group":
            for j, alt in enumerate(it["alts"]):
                v, e, cut = self.alt(alt, pos, f"grp_{j}")
                if v is not FAIL and truthy(v):
                    return v, e
                if cut:
                    return FAIL, pos
            return FAIL, pos
        raise ValueError(k)


def truthy(v):
    return bool(v)
