"""Layout mutators (meaning-preserving for Python) and damage mutators (arbitrary edits)."""
from __future__ import annotations

import io
import random
import tokenize as pytok

SOUP = list("abx_01 \t\n()[]{}:;,.=+-*/<>!?$@&|`'\"#\\%^~") + ["\r", "\x00", "﻿", "é", "¤", "あ", "\x0c", "\ud800", "\r\n", "\\\n", "'''", '"""', "f'", "{", "}", "$(", "![", "@(", "p'", "  ", "\n    ", "if", "def", "with!", "f!(", "0x", "1e", "..", "...", "??", "&&", "||"]


def crlf(src: str) -> str:
    return src.replace("\r\n", "\n").replace("\n", "\r\n")


def no_final_newline(src: str) -> str:
    return src.rstrip("\n")


def tabs(src: str) -> str:
    """Replace each 4-space indentation unit at line start with a tab (consistent => same program),
    but only outside multi-line tokens."""
    out = []
    protected = _multiline_token_lines(src)
    for i, ln in enumerate(src.split("\n"), 1):
        if i in protected:
            out.append(ln)
            continue
        n = len(ln) - len(ln.lstrip(" "))
        out.append("\t" * (n // 4) + " " * (n % 4) + ln[n:])
    return "\n".join(out)


def _multiline_token_lines(src: str):
    """Line numbers (1-based) that are continuation lines of a multi-line token or inside brackets."""
    prot = set()
    try:
        depth = 0
        for t in pytok.generate_tokens(io.StringIO(src).readline):
            if t.start[0] != t.end[0]:
                prot.update(range(t.start[0] + 1, t.end[0] + 1))
            if t.type == pytok.OP and t.string in "([{":
                depth += 1
            elif t.type == pytok.OP and t.string in ")]}":
                depth -= 1
            elif t.type in (pytok.NL, pytok.NEWLINE) and depth > 0:
                prot.add(t.start[0] + 1)
            if t.type == pytok.FSTRING_START or (t.type == pytok.FSTRING_MIDDLE and "\n" in t.string):
                pass
    except (pytok.TokenError, SyntaxError, IndentationError):
        return set(range(1, src.count("\n") + 3))
    return prot


def comments(src: str, r: random.Random) -> str:
    """Append comments to some lines / insert comment-only and blank lines (outside multi-line tokens)."""
    prot = _multiline_token_lines(src)
    lines = src.split("\n")
    out = []
    for i, ln in enumerate(lines, 1):
        nxt_prot = (i + 1) in prot
        if i not in prot and ln.strip() and r.random() < 0.2 and not _ends_in_backslash(ln) and not nxt_prot:
            out.append(" " * (len(ln) - len(ln.lstrip())) + "# c" + str(i))
        if ln.strip() and r.random() < 0.25 and not _ends_in_backslash(ln) and not nxt_prot and not _in_string_risk(ln):
            ln = ln + "  # t"
        out.append(ln)
        if i not in prot and not nxt_prot and r.random() < 0.1 and not _ends_in_backslash(ln):
            out.append("")
    return "\n".join(out)


def _ends_in_backslash(ln):
    return ln.rstrip("\r").endswith("\\")


def _in_string_risk(ln):
    return False


def backslash_continuations(src: str, r: random.Random) -> str:
    """Insert a backslash-newline before some operator tokens at bracket depth 0 (token-aware)."""
    try:
        toks = list(pytok.generate_tokens(io.StringIO(src).readline))
    except (pytok.TokenError, SyntaxError, IndentationError):
        return src
    lines = src.split("\n")
    depth = 0
    inserts = []  # (line, col)
    fdepth = 0
    for t in toks:
        if t.type == pytok.FSTRING_START:
            fdepth += 1
        elif t.type == pytok.FSTRING_END:
            fdepth -= 1
        if t.type == pytok.OP and not fdepth:
            if t.string in "([{":
                depth += 1
            elif t.string in ")]}":
                depth -= 1
            elif depth == 0 and t.string in ("+", "-", "*", "=", "==", "and", ",", ".", "<") and r.random() < 0.15:
                inserts.append(t.start)
        elif t.type == pytok.NAME and depth == 0 and not fdepth and t.string in ("and", "or", "in", "is", "if", "else", "import", "as") and t.start[1] > 0 and r.random() < 0.15:
            # not at a line start (would change indentation semantics)
            if lines[t.start[0] - 1][: t.start[1]].strip():
                inserts.append(t.start)
    for ln, col in sorted(set(inserts), reverse=True):
        s = lines[ln - 1]
        if s[:col].strip() == "":
            continue
        lines[ln - 1] = s[:col] + "\\\n" + " " * r.randint(0, 3) + s[col:]
    return "\n".join(lines)


def formfeeds(src: str, r: random.Random) -> str:
    """A form feed at the very start of some top-level unindented lines resets the column to 0."""
    prot = _multiline_token_lines(src)
    out = []
    for i, ln in enumerate(src.split("\n"), 1):
        if i not in prot and ln and not ln[0].isspace() and r.random() < 0.15:
            ln = "\x0c" + ln
        out.append(ln)
    return "\n".join(out)


LAYOUTS = ["id", "crlf", "nofinal", "tabs", "comments", "backslash", "formfeed"]


def layout(src: str, which: str, r: random.Random) -> str:
    if which == "crlf":
        return crlf(src)
    if which == "nofinal":
        return no_final_newline(src)
    if which == "tabs":
        return tabs(src)
    if which == "comments":
        return comments(src, r)
    if which == "backslash":
        return backslash_continuations(src, r)
    if which == "formfeed":
        return formfeeds(src, r)
    return src


# ---------------------------------------------------------------- damage


def damage(src: str, r: random.Random) -> str:
    k = r.random()
    if not src:
        return r.choice(SOUP)
    if k < 0.2:
        return src[: r.randrange(len(src) + 1)]
    if k < 0.45:
        i = r.randrange(len(src))
        return src[:i] + src[i + 1 :]
    if k < 0.75:
        i = r.randrange(len(src) + 1)
        return src[:i] + r.choice(SOUP) + src[i:]
    if k < 0.9:
        i = r.randrange(len(src))
        return src[:i] + r.choice(SOUP) + src[i + 1 :]
    i = r.randrange(len(src))
    j = min(len(src), i + r.randint(1, 8))
    return src[:i] + src[j:]


def soup(r: random.Random, n=None) -> str:
    n = n or r.randint(1, 14)
    return "".join(r.choice(SOUP) for _ in range(n))


def token_edits(src: str, r: random.Random, vocab):
    """Single-token deletion / insertion / replacement on the Python token level."""
    try:
        toks = [t for t in pytok.generate_tokens(io.StringIO(src).readline)]
    except (pytok.TokenError, SyntaxError, IndentationError):
        return None
    sig = [t for t in toks if t.type in (pytok.NAME, pytok.OP, pytok.NUMBER, pytok.STRING)]
    if not sig:
        return None
    t = r.choice(sig)
    lines = src.split("\n")
    ln = lines[t.start[0] - 1]
    if t.start[0] != t.end[0]:
        return None
    k = r.random()
    if k < 0.34:
        new = ln[: t.start[1]] + ln[t.end[1] :]
    elif k < 0.67:
        new = ln[: t.start[1]] + r.choice(vocab) + " " + ln[t.start[1] :]
    else:
        new = ln[: t.start[1]] + r.choice(vocab) + ln[t.end[1] :]
    lines[t.start[0] - 1] = new
    return "\n".join(lines)


def token_deletions(src: str):
    """Every single-token deletion (systematic, not sampled)."""
    try:
        toks = [t for t in pytok.generate_tokens(io.StringIO(src).readline) if t.type in (pytok.NAME, pytok.OP, pytok.NUMBER, pytok.STRING) and t.start[0] == t.end[0]]
    except (pytok.TokenError, SyntaxError, IndentationError):
        return []
    lines = src.split("\n")
    out = []
    for t in toks:
        ln = lines[t.start[0] - 1]
        new = lines[: t.start[0] - 1] + [ln[: t.start[1]] + ln[t.end[1] :]] + lines[t.start[0] :]
        out.append("\n".join(new))
    return out


def _sig_tokens(src: str):
    try:
        return [t for t in pytok.generate_tokens(io.StringIO(src).readline) if t.type in (pytok.NAME, pytok.OP, pytok.NUMBER, pytok.STRING) and t.start[0] == t.end[0]]
    except (pytok.TokenError, SyntaxError, IndentationError):
        return []


def token_duplications(src: str):
    """Every single-token duplication, with and without a blank between the copies (systematic)."""
    lines = src.split("\n")
    out = []
    for t in _sig_tokens(src):
        ln = lines[t.start[0] - 1]
        for sep in (" ", ""):
            new = lines[: t.start[0] - 1] + [ln[: t.end[1]] + sep + t.string + ln[t.end[1] :]] + lines[t.start[0] :]
            out.append("\n".join(new))
    return out


def blank_deletions(src: str):
    """Every run of blanks between two tokens of a line removed (systematic): glued tokens."""
    toks = _sig_tokens(src)
    lines = src.split("\n")
    out = []
    for a, b in zip(toks, toks[1:]):
        if a.end[0] == b.start[0] and b.start[1] > a.end[1]:
            ln = lines[a.end[0] - 1]
            if ln[a.end[1] : b.start[1]].strip(" \t") == "":
                new = lines[: a.end[0] - 1] + [ln[: a.end[1]] + ln[b.start[1] :]] + lines[a.end[0] :]
                out.append("\n".join(new))
    return out


def continuation_blanks(src: str):
    """Every backslash continuation followed by a blank / a tab / a comment before the line break."""
    lines = src.split("\n")
    out = []
    for i, ln in enumerate(lines):
        if ln.endswith("\\") and not ln.endswith("\\\\"):
            for extra in (" ", "  ", "\t", " # c"):
                out.append("\n".join(lines[:i] + [ln + extra] + lines[i + 1 :]))
    return out


def indentation_swaps(src: str):
    """Every indented line with its leading 8 blanks written as a tab, or its leading tab as 8 blanks, one line at a time:
    the column (tab size 8) stays the same, consistency of tabs and blanks does not."""
    lines = src.split("\n")
    out = []
    for i, ln in enumerate(lines):
        if ln.startswith(" " * 8) and ln.strip():
            out.append("\n".join(lines[:i] + ["\t" + ln[8:]] + lines[i + 1 :]))
        elif ln.startswith("\t") and ln.strip():
            out.append("\n".join(lines[:i] + [" " * 8 + ln[1:]] + lines[i + 1 :]))
    return out


import ast as _ast


class _NoParens(_ast._Unparser):
    """ast.unparse without precedence parentheses: renders trees at their precedence boundaries."""

    def require_parens(self, precedence, node):
        return self.delimit_if("", "", False)


def unparse_no_parens(tree) -> str:
    return _NoParens().visit(tree)


def indent_histories(r, n, maxlines=9):
    """Random indentation histories: lines `if x:` / `pass` at columns drawn from a small set, so that blocks are opened,
    closed and re-opened at other columns and a later line dedents to a column that was used earlier but is not open any
    more.  Valid and invalid layouts alike: the oracle decides."""
    cols = [0, 1, 2, 3, 4, 6, 8]
    out = []
    for _ in range(n):
        stack = [0]
        used = {0}
        lines = []
        opener = False
        for _i in range(r.randint(3, maxlines)):
            k = r.random()
            if opener:
                c = r.choice([x for x in cols if x > stack[-1]] or [stack[-1] + 2]) if k < 0.9 else r.choice(cols)
            elif k < 0.55:
                c = stack[-1]
            elif k < 0.75:
                c = r.choice(stack)
            elif k < 0.92:
                c = r.choice(sorted(used - set(stack)) or stack)  # a column that was used earlier but is not open any more
            else:
                c = r.choice(cols)
            while stack and stack[-1] > c:
                stack.pop()
            if not stack or stack[-1] < c:
                stack.append(c)
            used.add(c)
            opener = r.random() < 0.45
            lines.append(" " * c + ("if x:" if opener else r.choice(["pass", "y = 1", "z"])))
        if opener:
            lines.append(" " * (stack[-1] + 2) + "pass")
        out.append("\n".join(lines) + "\n")
    return out
