"""ASDL-directed random Python programs: build a random ast, render with ast.unparse.

Only programs that CPython's own parser accepts are returned (checked by the caller via ast.parse).
"""
from __future__ import annotations

import ast
import random

NAMES = ["a", "b", "c", "x", "y", "z", "foo", "bar", "self", "cls", "_", "__d__", "ñ", "变量", "lst", "match", "case", "type", "print"]
ATTRS = ["real", "imag", "append", "b", "c", "attr", "__len__", "match", "type"]
BINOPS = [ast.Add, ast.Sub, ast.Mult, ast.Div, ast.FloorDiv, ast.Mod, ast.Pow, ast.LShift, ast.RShift, ast.BitOr, ast.BitXor, ast.BitAnd, ast.MatMult]
UNOPS = [ast.UAdd, ast.USub, ast.Not, ast.Invert]
CMPOPS = [ast.Eq, ast.NotEq, ast.Lt, ast.LtE, ast.Gt, ast.GtE, ast.Is, ast.IsNot, ast.In, ast.NotIn]
CONSTS = [0, 1, 7, 10**20, 0xFF, 1.5, 1e10, 0.0, 3j, 2.5j, "s", "", "a b", "it's", 'q"q', "é", "\n", "\\", b"by", b"", True, False, None, ..., "up's", "p"]


class G:
    def __init__(self, r: random.Random, fstrings: bool = False, maxdepth: int = 4):
        self.r = r
        self.fstrings = fstrings
        self.maxdepth = maxdepth
        self.used: dict = {}

    def note(self, n):
        self.used[n] = self.used.get(n, 0) + 1

    # ------------------------------------------------------------ expressions
    def name(self, ctx=None):
        return ast.Name(id=self.r.choice(NAMES), ctx=ctx or ast.Load())

    def const(self):
        return ast.Constant(value=self.r.choice(CONSTS))

    def expr(self, d=0):
        r = self.r
        if d >= self.maxdepth or r.random() < 0.25:
            return self.name() if r.random() < 0.6 else self.const()
        k = r.choice(
            ["BoolOp", "NamedExpr", "BinOp", "BinOp", "UnaryOp", "Lambda", "IfExp", "Dict", "Set", "ListComp", "SetComp", "DictComp", "GeneratorExp", "Await", "Yield", "YieldFrom", "Compare", "Compare", "Call", "Call", "Attribute", "Attribute", "Subscript", "Subscript", "Starred", "List", "Tuple", "Slice", "JoinedStr", "Const", "Const"]
        )
        self.note(k)
        e = lambda: self.expr(d + 1)  # noqa: E731
        if k == "BoolOp":
            return ast.BoolOp(op=r.choice([ast.And, ast.Or])(), values=[e() for _ in range(r.randint(2, 4))])
        if k == "NamedExpr":
            return ast.NamedExpr(target=self.name(ast.Store()), value=e())
        if k == "BinOp":
            return ast.BinOp(left=e(), op=r.choice(BINOPS)(), right=e())
        if k == "UnaryOp":
            return ast.UnaryOp(op=r.choice(UNOPS)(), operand=e())
        if k == "Lambda":
            return ast.Lambda(args=self.arguments(d + 1, annotations=False), body=e())
        if k == "IfExp":
            return ast.IfExp(test=e(), body=e(), orelse=e())
        if k == "Dict":
            n = r.randint(0, 3)
            keys = [None if r.random() < 0.15 else e() for _ in range(n)]
            return ast.Dict(keys=keys, values=[e() for _ in range(n)])
        if k == "Set":
            return ast.Set(elts=[self.starred_or_expr(d + 1) for _ in range(r.randint(1, 3))])
        if k == "ListComp":
            return ast.ListComp(elt=e(), generators=self.comps(d + 1))
        if k == "SetComp":
            return ast.SetComp(elt=e(), generators=self.comps(d + 1))
        if k == "DictComp":
            return ast.DictComp(key=e(), value=e(), generators=self.comps(d + 1))
        if k == "GeneratorExp":
            return ast.GeneratorExp(elt=e(), generators=self.comps(d + 1))
        if k == "Await":
            return ast.Await(value=e())
        if k == "Yield":
            return ast.Yield(value=e() if r.random() < 0.7 else None)
        if k == "YieldFrom":
            return ast.YieldFrom(value=e())
        if k == "Compare":
            n = r.randint(1, 3)
            return ast.Compare(left=e(), ops=[r.choice(CMPOPS)() for _ in range(n)], comparators=[e() for _ in range(n)])
        if k == "Call":
            args = [self.starred_or_expr(d + 1) for _ in range(r.randint(0, 3))]
            kws = [ast.keyword(arg=(None if r.random() < 0.2 else r.choice(NAMES)), value=e()) for _ in range(r.randint(0, 2))]
            return ast.Call(func=e(), args=args, keywords=kws)
        if k == "Attribute":
            return ast.Attribute(value=e(), attr=r.choice(ATTRS), ctx=ast.Load())
        if k == "Subscript":
            return ast.Subscript(value=e(), slice=self.slice(d + 1), ctx=ast.Load())
        if k == "Starred":
            return ast.Tuple(elts=[ast.Starred(value=e(), ctx=ast.Load()), e()], ctx=ast.Load())
        if k == "List":
            return ast.List(elts=[self.starred_or_expr(d + 1) for _ in range(r.randint(0, 3))], ctx=ast.Load())
        if k == "Tuple":
            return ast.Tuple(elts=[self.starred_or_expr(d + 1) for _ in range(r.randint(0, 3))], ctx=ast.Load())
        if k == "Slice":
            return ast.Subscript(value=e(), slice=self.slice(d + 1, force=True), ctx=ast.Load())
        if k == "JoinedStr" and self.fstrings:
            vals = []
            for _ in range(r.randint(0, 3)):
                if r.random() < 0.5:
                    vals.append(ast.Constant(value=r.choice(["a", " b ", "{", "}}", "é", "'"])))
                else:
                    vals.append(ast.FormattedValue(value=e(), conversion=r.choice([-1, -1, 114, 115, 97]), format_spec=None if r.random() < 0.7 else ast.JoinedStr(values=[ast.Constant(value=r.choice([">10", ".2f", "x"]))])))
            return ast.JoinedStr(values=vals)
        return self.const()

    def starred_or_expr(self, d):
        if self.r.random() < 0.12:
            return ast.Starred(value=self.expr(d), ctx=ast.Load())
        return self.expr(d)

    def slice(self, d, force=False):
        r = self.r
        def one():
            if force or r.random() < 0.4:
                return ast.Slice(lower=self.expr(d) if r.random() < 0.6 else None, upper=self.expr(d) if r.random() < 0.6 else None, step=self.expr(d) if r.random() < 0.3 else None)
            return self.starred_or_expr(d) if r.random() < 0.2 else self.expr(d)
        if r.random() < 0.25:
            return ast.Tuple(elts=[one() for _ in range(r.randint(2, 3))], ctx=ast.Load())
        return one()

    def comps(self, d):
        r = self.r
        return [
            ast.comprehension(target=self.target(d, simple=True), iter=self.expr(d), ifs=[self.expr(d) for _ in range(r.randint(0, 2))], is_async=int(r.random() < 0.1))
            for _ in range(r.randint(1, 2))
        ]

    def target(self, d=0, simple=False, star_ok=True):
        r = self.r
        k = r.random()
        if k < 0.5 or d >= self.maxdepth:
            return self.name(ast.Store())
        if k < 0.65 and not simple:
            return ast.Attribute(value=self.expr(d + 1), attr=r.choice(ATTRS), ctx=ast.Store())
        if k < 0.8 and not simple:
            return ast.Subscript(value=self.expr(d + 1), slice=self.slice(d + 1), ctx=ast.Store())
        elts = [self.target(d + 1, simple) for _ in range(r.randint(0, 3))]
        if star_ok and elts and r.random() < 0.3:
            i = r.randrange(len(elts))
            elts[i] = ast.Starred(value=self.target(d + 1, simple, star_ok=False), ctx=ast.Store())
        return (ast.Tuple if r.random() < 0.6 else ast.List)(elts=elts, ctx=ast.Store())

    def arg(self, d, annotations=True):
        r = self.r
        return ast.arg(arg=r.choice(NAMES) + str(r.randint(0, 99)), annotation=self.expr(d + 1) if annotations and r.random() < 0.3 else None)

    def arguments(self, d, annotations=True):
        r = self.r
        posonly = [self.arg(d, annotations) for _ in range(r.choice([0, 0, 0, 1, 2]))]
        args = [self.arg(d, annotations) for _ in range(r.choice([0, 1, 2, 3]))]
        npos = len(posonly) + len(args)
        nd = r.randint(0, npos) if r.random() < 0.5 else 0
        defaults = [self.expr(d + 1) for _ in range(nd)]
        vararg = self.arg(d, annotations) if r.random() < 0.3 else None
        kwonly = [self.arg(d, annotations) for _ in range(r.choice([0, 0, 1, 2]))] if (vararg or r.random() < 0.3) else []
        kw_defaults = [self.expr(d + 1) if r.random() < 0.5 else None for _ in kwonly]
        kwarg = self.arg(d, annotations) if r.random() < 0.25 else None
        return ast.arguments(posonlyargs=posonly, args=args, vararg=vararg, kwonlyargs=kwonly, kw_defaults=kw_defaults, kwarg=kwarg, defaults=defaults)

    # ------------------------------------------------------------ patterns
    def pattern(self, d=0):
        r = self.r
        if d >= 3 or r.random() < 0.3:
            k = r.choice(["value", "singleton", "capture", "wild", "attr"])
            if k == "value":
                return ast.MatchValue(value=ast.Constant(value=r.choice([0, 1, "s", b"b", 1.5, -1])) if r.random() < 0.8 else ast.UnaryOp(op=ast.USub(), operand=ast.Constant(value=3)))
            if k == "singleton":
                return ast.MatchSingleton(value=r.choice([None, True, False]))
            if k == "capture":
                return ast.MatchAs(name=r.choice(["u", "v", "w"]) + str(r.randint(0, 999)))
            if k == "attr":
                return ast.MatchValue(value=ast.Attribute(value=ast.Name(id="mod", ctx=ast.Load()), attr="K", ctx=ast.Load()))
            return ast.MatchAs()
        k = r.choice(["seq", "seq", "map", "class", "or", "as", "star"])
        self.note("Match" + k)
        if k in ("seq", "star"):
            pats = [self.pattern(d + 1) for _ in range(r.randint(0, 3))]
            if k == "star" or r.random() < 0.3:
                pats.insert(r.randint(0, len(pats)), ast.MatchStar(name=None if r.random() < 0.3 else "rest" + str(r.randint(0, 999))))
            return ast.MatchSequence(patterns=pats)
        if k == "map":
            n = r.randint(0, 2)
            return ast.MatchMapping(keys=[ast.Constant(value=i) for i in range(n)], patterns=[self.pattern(d + 1) for _ in range(n)], rest=None if r.random() < 0.6 else "kw" + str(r.randint(0, 999)))
        if k == "class":
            nk = r.randint(0, 2)
            return ast.MatchClass(cls=ast.Name(id="Cls", ctx=ast.Load()), patterns=[self.pattern(d + 1) for _ in range(r.randint(0, 2))], kwd_attrs=[f"k{i}" for i in range(nk)], kwd_patterns=[self.pattern(d + 1) for _ in range(nk)])
        if k == "or":
            return ast.MatchOr(patterns=[self.pattern(d + 1) for _ in range(r.randint(2, 3))])
        return ast.MatchAs(pattern=self.pattern(d + 1), name="n" + str(r.randint(0, 999)))

    # ------------------------------------------------------------ statements
    def body(self, d):
        return [self.stmt(d + 1) for _ in range(self.r.randint(1, 2))]

    def type_params(self):
        r = self.r
        if r.random() < 0.75:
            return []
        out = []
        for i in range(r.randint(1, 3)):
            k = r.random()
            if k < 0.6:
                out.append(ast.TypeVar(name=f"T{i}", bound=self.name() if r.random() < 0.4 else None))
            elif k < 0.8:
                out.append(ast.TypeVarTuple(name=f"Ts{i}"))
            else:
                out.append(ast.ParamSpec(name=f"P{i}"))
        return out

    def stmt(self, d=0):
        r = self.r
        simple = ["Expr", "Expr", "Assign", "Assign", "AugAssign", "AnnAssign", "Return", "Delete", "Raise", "Assert", "Import", "ImportFrom", "Global", "Nonlocal", "Pass", "Break", "Continue", "TypeAlias"]
        compound = ["FunctionDef", "AsyncFunctionDef", "ClassDef", "For", "AsyncFor", "While", "If", "With", "AsyncWith", "Match", "Try", "TryStar"]
        k = r.choice(simple if d >= 3 or r.random() < 0.55 else compound)
        self.note(k)
        e = lambda: self.expr(d + 1)  # noqa: E731
        if k == "Expr":
            return ast.Expr(value=e())
        if k == "Assign":
            return ast.Assign(targets=[self.target(d + 1) for _ in range(r.randint(1, 2))], value=self.starred_or_tuple(d + 1))
        if k == "AugAssign":
            t = r.choice([self.name(ast.Store()), ast.Attribute(value=e(), attr="f", ctx=ast.Store()), ast.Subscript(value=e(), slice=e(), ctx=ast.Store())])
            return ast.AugAssign(target=t, op=r.choice(BINOPS)(), value=e())
        if k == "AnnAssign":
            t = r.choice([self.name(ast.Store()), ast.Attribute(value=e(), attr="f", ctx=ast.Store()), ast.Subscript(value=e(), slice=e(), ctx=ast.Store())])
            return ast.AnnAssign(target=t, annotation=e(), value=e() if r.random() < 0.6 else None, simple=int(isinstance(t, ast.Name) and r.random() < 0.8))
        if k == "Return":
            return ast.Return(value=self.starred_or_tuple(d + 1) if r.random() < 0.7 else None)
        if k == "Delete":
            ts = []
            for _ in range(r.randint(1, 3)):
                ts.append(r.choice([self.name(ast.Del()), ast.Attribute(value=e(), attr="f", ctx=ast.Del()), ast.Subscript(value=e(), slice=e(), ctx=ast.Del()), ast.Tuple(elts=[self.name(ast.Del()), self.name(ast.Del())], ctx=ast.Del()), ast.List(elts=[self.name(ast.Del())], ctx=ast.Del())]))
            return ast.Delete(targets=ts)
        if k == "Raise":
            exc = e() if r.random() < 0.8 else None
            return ast.Raise(exc=exc, cause=e() if exc is not None and r.random() < 0.4 else None)
        if k == "Assert":
            return ast.Assert(test=e(), msg=e() if r.random() < 0.4 else None)
        if k == "Import":
            return ast.Import(names=[ast.alias(name=r.choice(["os", "os.path", "a.b.c", "sys"]), asname=r.choice([None, None, "m"])) for _ in range(r.randint(1, 3))])
        if k == "ImportFrom":
            lvl = r.choice([0, 0, 1, 2, 3, 4])
            mod = r.choice(["os", "a.b", "pkg"]) if lvl == 0 or r.random() < 0.6 else None
            names = [ast.alias(name="*")] if r.random() < 0.15 else [ast.alias(name=r.choice(["p", "q", "path"]), asname=r.choice([None, "z"])) for _ in range(r.randint(1, 3))]
            return ast.ImportFrom(module=mod, names=names, level=lvl)
        if k == "Global":
            return ast.Global(names=[r.choice(NAMES[:6]) for _ in range(r.randint(1, 2))])
        if k == "Nonlocal":
            return ast.Nonlocal(names=[r.choice(NAMES[:6]) for _ in range(r.randint(1, 2))])
        if k == "Pass":
            return ast.Pass()
        if k == "Break":
            return ast.Break()
        if k == "Continue":
            return ast.Continue()
        if k == "TypeAlias":
            return ast.TypeAlias(name=ast.Name(id="Alias", ctx=ast.Store()), type_params=self.type_params(), value=e())
        if k in ("FunctionDef", "AsyncFunctionDef"):
            return getattr(ast, k)(name="fn" + str(r.randint(0, 99)), args=self.arguments(d + 1), body=self.body(d), decorator_list=[e() for _ in range(r.choice([0, 0, 1, 2]))], returns=e() if r.random() < 0.3 else None, type_params=self.type_params())
        if k == "ClassDef":
            return ast.ClassDef(name="Cls" + str(r.randint(0, 99)), bases=[self.starred_or_expr(d + 1) for _ in range(r.choice([0, 1, 2]))], keywords=[ast.keyword(arg=r.choice(["metaclass", None]), value=e()) for _ in range(r.choice([0, 0, 1]))], body=self.body(d), decorator_list=[e() for _ in range(r.choice([0, 0, 1]))], type_params=self.type_params())
        if k in ("For", "AsyncFor"):
            return getattr(ast, k)(target=self.target(d + 1), iter=self.starred_or_tuple(d + 1), body=self.body(d), orelse=self.body(d) if r.random() < 0.3 else [])
        if k == "While":
            return ast.While(test=e(), body=self.body(d), orelse=self.body(d) if r.random() < 0.3 else [])
        if k == "If":
            orelse = []
            x = r.random()
            if x < 0.3:
                orelse = self.body(d)
            elif x < 0.5:
                orelse = [ast.If(test=e(), body=self.body(d), orelse=self.body(d) if r.random() < 0.5 else [])]
            return ast.If(test=e(), body=self.body(d), orelse=orelse)
        if k in ("With", "AsyncWith"):
            items = [ast.withitem(context_expr=e(), optional_vars=self.target(d + 1) if r.random() < 0.5 else None) for _ in range(r.randint(1, 3))]
            return getattr(ast, k)(items=items, body=self.body(d))
        if k == "Match":
            cases = [ast.match_case(pattern=self.pattern(), guard=e() if r.random() < 0.3 else None, body=self.body(d)) for _ in range(r.randint(1, 3))]
            return ast.Match(subject=self.starred_or_tuple(d + 1), cases=cases)
        if k in ("Try", "TryStar"):
            handlers = [ast.ExceptHandler(type=e(), name=r.choice([None, "err"]), body=self.body(d)) for _ in range(r.randint(0 if k == "Try" else 1, 2))]
            if k == "Try" and handlers and r.random() < 0.3:
                handlers.append(ast.ExceptHandler(type=None, name=None, body=self.body(d)))
            fin = self.body(d) if (not handlers or r.random() < 0.3) else []
            return getattr(ast, k)(body=self.body(d), handlers=handlers, orelse=self.body(d) if handlers and r.random() < 0.3 else [], finalbody=fin)
        return ast.Pass()

    def starred_or_tuple(self, d):
        r = self.r
        if r.random() < 0.2:
            return ast.Tuple(elts=[self.starred_or_expr(d) for _ in range(r.randint(1, 3))], ctx=ast.Load())
        return self.expr(d)

    def module(self, nstmts=None):
        n = nstmts or self.r.randint(1, 4)
        return ast.Module(body=[self.stmt(0) for _ in range(n)], type_ignores=[])


def gen_program(r: random.Random, fstrings=False, maxdepth=4, nstmts=None):
    """Return (source, used-constructor-histogram) or None if CPython's parser refuses the rendering."""
    g = G(r, fstrings=fstrings, maxdepth=maxdepth)
    try:
        m = g.module(nstmts)
        ast.fix_missing_locations(m)
        src = ast.unparse(m) + "\n"
        ast.parse(src)
    except (SyntaxError, ValueError, RecursionError, TypeError, AttributeError):
        return None
    return src, g.used


def gen_expression(r: random.Random, fstrings=False, maxdepth=4):
    g = G(r, fstrings=fstrings, maxdepth=maxdepth)
    try:
        e = g.expr(0)
        src = ast.unparse(ast.fix_missing_locations(ast.Expression(body=e)))
        ast.parse(src, mode="eval")
    except (SyntaxError, ValueError, RecursionError, TypeError, AttributeError):
        return None
    return src, g.used
