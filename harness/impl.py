"""Functions that run the REAL implementation (imported from /repo) and canonicalise what it does.

Executed inside pool workers (so hangs can be killed) or in-process.
"""
from __future__ import annotations

import ast
import contextlib
import importlib
import io
import os
import sys
import warnings
from pathlib import Path

from harness.common import CACHE, REPO

if str(REPO) not in sys.path:
    sys.path.insert(0, str(REPO))

warnings.filterwarnings("ignore")
_cls_cache: dict = {}


def parser_cls(variant: str = "shipped"):
    c = _cls_cache.get(variant)
    if c is None:
        if variant == "shipped":
            from peg_parser.parser import XonshParser as c
        else:  # parser regenerated from tasks/xonsh.gram by harness.sync
            spec = importlib.util.spec_from_file_location("xv_regen_parser", CACHE / "regen" / "parser_regen.py")
            mod = importlib.util.module_from_spec(spec)
            spec.loader.exec_module(mod)
            c = mod.XonshParser
        _cls_cache[variant] = c
    return c


def err_dict(e: BaseException) -> dict:
    from peg_parser.tokenize import TokenError

    if isinstance(e, SyntaxError):
        return {
            "k": "err",
            "cls": type(e).__name__,
            "msg": e.msg,
            "filename": e.filename,
            "lineno": e.lineno,
            "offset": e.offset,
            "end_lineno": e.end_lineno,
            "end_offset": e.end_offset,
            "text": e.text,
        }
    if isinstance(e, TokenError):
        return {"k": "tokerr", "cls": "TokenError", "msg": str(e.args[0]) if e.args else "", "pos": list(e.args[1]) if len(e.args) > 1 and isinstance(e.args[1], tuple) else None}
    return {"k": "exc", "cls": type(e).__name__, "msg": str(e)[:200]}


def parse(src: str, mode: str = "exec", py_version=None, verbose: bool = False, variant: str = "shipped", want_tree: bool = False):
    """Outcome of XonshParser.parse_string, canonical."""
    cls = parser_cls(variant)
    out = io.StringIO() if verbose else None
    tmp = None
    try:
        if mode == "bare":
            # the classes used directly, as the tests do: XonshParser(Tokenizer(generate_tokens(readline))).parse("file")
            from peg_parser.tokenize import generate_tokens
            from peg_parser.tokenizer import Tokenizer

            tree = cls(Tokenizer(generate_tokens(io.StringIO(src).readline)), py_version=py_version).parse("file")
        elif mode == "file":
            # the file entry point: the text written as UTF-8 to a scratch file (removed afterwards).  The SAME path is
            # used for every file-mode parse of this process: anything keyed by the path sees different contents over time
            import threading

            tmp = f"/var/tmp/xv_scratch_{os.getpid()}_{threading.get_ident()}.xsh"
            with open(tmp, "w", encoding="utf-8", newline="") as fh:
                fh.write(src)
            if verbose:
                with contextlib.redirect_stdout(out):
                    tree = cls.parse_file(Path(tmp), py_version=py_version, verbose=True)
            else:
                tree = cls.parse_file(Path(tmp), py_version=py_version)
        elif verbose:
            with contextlib.redirect_stdout(out):
                tree = cls.parse_string(src, mode=mode, py_version=py_version, verbose=True)
        else:
            tree = cls.parse_string(src, mode=mode, py_version=py_version)
    except BaseException as e:  # noqa: BLE001
        if isinstance(e, (KeyboardInterrupt, SystemExit)):
            raise
        d = err_dict(e)
        if tmp and d.get("filename") in (os.path.basename(tmp), tmp):
            d["filename"] = "<scratch file>"  # the scratch name is not part of the outcome
        return d
    finally:
        if tmp:
            try:
                os.unlink(tmp)
            except OSError:
                pass
    if tree is None:
        return {"k": "none"}
    if not isinstance(tree, ast.AST):
        return {"k": "nonast", "repr": repr(tree)[:100]}
    res = {"k": "tree", "type": type(tree).__name__}
    try:
        res["dump"] = ast.dump(tree, include_attributes=True)
    except BaseException as e:  # noqa: BLE001
        res["dump_error"] = f"{type(e).__name__}: {e}"[:200]
    if want_tree:
        res["tree"] = tree
    return res


def parse_tree(src: str, mode: str = "exec", **kw):
    """In-process: returns (tree|None, outcome)."""
    o = parse(src, mode, want_tree=True, **kw)
    return o.pop("tree", None), o


def tokens(src: str):
    """Raw tokens of the real tokenizer: list of [type, string, start, end, line] or an error outcome."""
    from peg_parser.tokenize import generate_tokens

    out = []
    try:
        for t in generate_tokens(src):
            out.append((t.type.name, t.string, tuple(t.start), tuple(t.end), t.line))
            if len(out) > 20 * len(src) + 100:
                return {"k": "hang", "why": "token flood", "toks": out[:50]}
    except BaseException as e:  # noqa: BLE001
        if isinstance(e, (KeyboardInterrupt, SystemExit)):
            raise
        d = err_dict(e)
        d["toks"] = out
        return d
    return {"k": "ok", "toks": out}


def cpython_parse(src: str, mode: str = "exec"):
    try:
        t = ast.parse(src, mode="exec" if mode == "exec" else "eval")
    except SyntaxError as e:
        return {"k": "err", "cls": type(e).__name__, "msg": e.msg, "lineno": e.lineno, "offset": e.offset}
    except (ValueError, RecursionError, MemoryError) as e:
        return {"k": "exc", "cls": type(e).__name__}
    return {"k": "tree", "dump": ast.dump(t, include_attributes=True)}


# ---------------------------------------------------------------- AST comparison


def ast_diff(a, b, path="", with_attrs=True, out=None, limit=6, col_fix=None):
    """Structural diff of two ASTs; returns list of (path, a, b)."""
    if out is None:
        out = []
    if len(out) >= limit:
        return out
    if type(a) is not type(b):
        out.append((path, type(a).__name__ if isinstance(a, ast.AST) else repr(a)[:60], type(b).__name__ if isinstance(b, ast.AST) else repr(b)[:60]))
        return out
    if isinstance(a, ast.AST):
        for f in a._fields:
            av = getattr(a, f, "<missing>")
            bv = getattr(b, f, "<missing>")
            ast_diff(av, bv, f"{path}/{type(a).__name__}.{f}", with_attrs, out, limit)
        if with_attrs:
            for f in a._attributes:
                av = getattr(a, f, "<missing>")
                bv = getattr(b, f, "<missing>")
                if av != bv:
                    out.append((f"{path}/{type(a).__name__}@{f}", av, bv))
                    if len(out) >= limit:
                        return out
    elif isinstance(a, list):
        if len(a) != len(b):
            out.append((path + "#len", len(a), len(b)))
            return out
        for i, (x, y) in enumerate(zip(a, b)):
            ast_diff(x, y, f"{path}[{i}]", with_attrs, out, limit)
    else:
        if a != b or type(a) is not type(b):
            # nan-safe / complex-safe: compare reprs
            if repr(a) != repr(b):
                out.append((path, repr(a)[:80], repr(b)[:80]))
    return out


def byte_cols_to_char_cols(tree, src: str):
    """CPython reports UTF-8 byte columns; convert (in place) to character columns."""
    lines = src.splitlines(keepends=True)
    # ast uses universal newlines splitting on \n, \r\n, \r only
    lines = _split_lines(src)
    cache = {}

    def conv(lineno, col):
        if lineno is None or col is None or lineno < 1 or lineno > len(lines):
            return col
        key = (lineno, col)
        if key not in cache:
            b = lines[lineno - 1].encode("utf-8", "surrogatepass")
            cache[key] = len(b[:col].decode("utf-8", "replace"))
        return cache[key]

    for n in ast.walk(tree):
        if hasattr(n, "col_offset"):
            n.col_offset = conv(n.lineno, n.col_offset)
        if getattr(n, "end_col_offset", None) is not None:
            n.end_col_offset = conv(n.end_lineno, n.end_col_offset)
    return tree


def _split_lines(src: str):
    out = []
    cur = []
    i = 0
    n = len(src)
    while i < n:
        c = src[i]
        if c == "\r":
            if i + 1 < n and src[i + 1] == "\n":
                cur.append("\r\n")
                i += 2
            else:
                cur.append("\r")
                i += 1
            out.append("".join(cur))
            cur = []
            continue
        cur.append(c)
        i += 1
        if c == "\n":
            out.append("".join(cur))
            cur = []
    if cur:
        out.append("".join(cur))
    return out


def call(target: str, *args):
    """Generic dispatch used by the pool: target = 'module.path:function'."""
    modname, _, fn = target.partition(":")
    mod = importlib.import_module(modname)
    return getattr(mod, fn)(*args)
