"""A process pool with a per-task watchdog (a hanging task is killed and reported as HANG)."""
from __future__ import annotations

import multiprocessing as mp
import os
import time
from multiprocessing.connection import wait

HANG = {"k": "hang"}
CRASH = {"k": "crash"}


def _worker(conn, modname):
    import importlib
    import sys

    sys.setrecursionlimit(1000)
    mod = importlib.import_module(modname)
    while True:
        try:
            msg = conn.recv()
        except EOFError:
            return
        if msg is None:
            return
        fname, args = msg
        try:
            res = getattr(mod, fname)(*args)
        except BaseException as e:  # noqa: BLE001
            res = {"k": "worker-exc", "cls": type(e).__name__, "msg": str(e)[:300]}
        try:
            conn.send(res)
        except Exception as e:  # noqa: BLE001
            conn.send({"k": "worker-exc", "cls": "SendError", "msg": str(e)[:300]})


class Pool:
    def __init__(self, n: int | None = None, modname: str = "harness.impl"):
        self.n = n or min(16, os.cpu_count() or 4)
        self.modname = modname
        self.ctx = mp.get_context("fork")
        self.workers: list = [None] * self.n

    def _spawn(self, i):
        parent, child = self.ctx.Pipe()
        p = self.ctx.Process(target=_worker, args=(child, self.modname), daemon=True)
        p.start()
        child.close()
        self.workers[i] = (p, parent)

    def _kill(self, i):
        w = self.workers[i]
        if w:
            p, c = w
            try:
                p.kill()
                p.join(1)
            except Exception:  # noqa: BLE001
                pass
            try:
                c.close()
            except Exception:  # noqa: BLE001
                pass
        self.workers[i] = None

    def map(self, fname: str, arglist: list, timeout: float = 10.0, max_hangs: int = 24) -> list:
        """Run fname(*args) for each args in arglist; results in order.  After `max_hangs` tasks had to be killed, the
        tasks not yet started are not run at all (result {"k": "not-run"}): a change that makes everything hang must
        not turn a check into hours of waiting."""
        results = [None] * len(arglist)
        hangs = 0
        nxt = 0
        busy: dict = {}  # worker index -> (task index, start time)
        n = min(self.n, max(1, len(arglist)))
        for i in range(n):
            if self.workers[i] is None:
                self._spawn(i)
        done = 0
        total = len(arglist)
        while done < total:
            if hangs >= max_hangs and nxt < total:
                for j in range(nxt, total):
                    results[j] = {"k": "not-run"}
                done += total - nxt
                nxt = total
            for i in range(n):
                if i not in busy and nxt < total:
                    if self.workers[i] is None:
                        self._spawn(i)
                    try:
                        self.workers[i][1].send((fname, arglist[nxt]))
                    except Exception:  # noqa: BLE001
                        self._kill(i)
                        self._spawn(i)
                        self.workers[i][1].send((fname, arglist[nxt]))
                    busy[i] = (nxt, time.time())
                    nxt += 1
            conns = {self.workers[i][1]: i for i in busy}
            ready = wait(list(conns), timeout=0.25)
            now = time.time()
            for c in ready:
                i = conns[c]
                ti, _ = busy.pop(i)
                try:
                    results[ti] = c.recv()
                except (EOFError, OSError):
                    results[ti] = dict(CRASH)
                    self._kill(i)
                done += 1
            for i, (ti, t0) in list(busy.items()):
                if now - t0 > timeout:
                    results[ti] = dict(HANG)
                    hangs += 1
                    busy.pop(i)
                    self._kill(i)
                    done += 1
        return results

    def call(self, target: str, arglist: list, timeout: float = 10.0) -> list:
        """Run `module:function`(*args) for every args tuple."""
        return self.map("call", [(target, *a) for a in arglist], timeout)

    def close(self):
        for i in range(self.n):
            w = self.workers[i]
            if w:
                try:
                    w[1].send(None)
                except Exception:  # noqa: BLE001
                    pass
                self._kill(i)
