"""Lean side: build generated modules + certificates, audit axioms, report obligations. (filled in below)"""
from __future__ import annotations


def obligations(rep, pid, tier):
    return
