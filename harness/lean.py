"""Lean side of every check: (re)build, axiom audit, obligations per property, correspondence runs."""
from __future__ import annotations

import fcntl
import hashlib
import json
import re
import subprocess
import time
from pathlib import Path

from harness.common import CACHE, VERIF, quick_scale

LEAN = VERIF / "lean"
ALLOWED_AXIOMS = {"propext", "Classical.choice", "Quot.sound"}
FORBIDDEN = re.compile(r"\bsorry\b|\badmit\b|^axiom |native_decide|bv_decide|implemented_by|\bunsafe |maxHeartbeats 0", re.M)

# property -> theorems (fully qualified) that are its proof obligations, with the module they live in
_PT = "XonshVerif.Proofs.Tokenize"
_PR = "XonshVerif.Proofs.Regex"
_C02 = "XonshVerif.Properties.C02"
_INERT = [("XV.Peg.xonsh_alternatives_inert", _C02), ("XV.Peg.second_pass_never_accepts", _C02), ("XV.Peg.dead_never_succeeds", "XonshVerif.Proofs.PegDead")]
_HELP = "XonshVerif.Model.Helpers"
_PM = "XonshVerif.Proofs.Macro"
_PC = "XonshVerif.Proofs.PegCost"
_TS = "XonshVerif.Model.TokenSource"
THEOREMS = {
    "C01": _INERT + [("XV.Helpers.kw_defaults_length", _HELP), ("XV.Helpers.defaults_le_positional", _HELP), ("XV.Helpers.args_order", _HELP),
                     ("XV.Src.kept_no_trivia", _TS), ("XV.Src.kept_sublist", _TS), ("XV.Src.kept_keeps_significant", "XonshVerif.Proofs.TokenSourceKeep"), ("XV.Src.kept_no_double_newline", "XonshVerif.Proofs.TokenSourceKeep"), ("XV.Span.span_end_is_last_significant_token", "XonshVerif.Proofs.Span"), ("XV.Span.span_well_oriented", "XonshVerif.Properties.C04Span")],
    "C05": _INERT + [("XV.Desugar.env_name_translation", "XonshVerif.Proofs.Desugar"), ("XV.Desugar.env_expr_translation", "XonshVerif.Proofs.Desugar"), ("XV.Desugar.search_path_translation", "XonshVerif.Proofs.Desugar"),
            ("XV.Desugar.pyexpr_translation", "XonshVerif.Proofs.Desugar"), ("XV.Desugar.proc_translation", "XonshVerif.Proofs.Desugar"), ("XV.Desugar.inject_translation", "XonshVerif.Proofs.Desugar"),
            ("XV.Desugar.macro_call_translation", "XonshVerif.Proofs.Desugar"), ("XV.Desugar.env_name_spans", "XonshVerif.Proofs.Desugar"), ("XV.Desugar.env_expr_spans", "XonshVerif.Proofs.Desugar"), ("XV.Desugar.help_single_span", "XonshVerif.Proofs.Desugar")],
    "C07": [("XV.ProcMacro.proc_macro_arg_is_stripped_source", "XonshVerif.Proofs.ProcMacro"), ("XV.ProcMacro.pyStrip_infix", "XonshVerif.Proofs.ProcMacro"), ("XV.WithMacro.with_macro_lines_verbatim", "XonshVerif.Proofs.WithMacro"), ("XV.WithMacro.step_facts", "XonshVerif.Proofs.WithMacro"), ("XV.Macro.loop_partition", _PM), ("XV.Macro.param_is_concat", _PM), ("XV.Macro.concat_is_source_slice", _PM)],
    "C08": [("XV.Tz.token_starts_in_text", "XonshVerif.Properties.C11Tok"), ("XV.Tz.gaps_are_indentation_or_continuation", "XonshVerif.Properties.C08"), ("XV.Tz.between_consecutive_tokens", "XonshVerif.Properties.C08"), ("XV.Tz.after_the_last_token", "XonshVerif.Properties.C08"), ("XV.Tz.before_the_first_token", "XonshVerif.Properties.C08"), ("XV.Tz.Gap.chars", "XonshVerif.Proofs.TokGaps"), ("XV.Tz.tokenizeLines_g", "XonshVerif.Proofs.TokGaps"), ("XV.Rx.m_onlyChars", "XonshVerif.Proofs.RegexChars"),
            ("XV.Tz.all_tokens_are_source_slices", "XonshVerif.Properties.C08"), ("XV.Tz.fstring_tokens_are_source_slices", "XonshVerif.Properties.C08"), ("XV.Rx.m_endsWith", "XonshVerif.Proofs.RegexSuffix"), ("XV.Rx.m_fixedLen", "XonshVerif.Proofs.RegexSuffix"), ("XV.Tz.tokenizeLines_ft", "XonshVerif.Proofs.FstringText"),
            ("XV.Tz.tokens_in_position_order", "XonshVerif.Properties.C08"), ("XV.Tz.tokenizeLines_ord", "XonshVerif.Proofs.TokOrder"), ("XV.Tz.scanLine_ord", "XonshVerif.Proofs.TokOrder"),
            ("XV.Tz.handleFstringProgs_ord", "XonshVerif.Proofs.TokOrder"), ("XV.Tz.tokens_are_source_slices", "XonshVerif.Properties.C08"), ("XV.Tz.splitLines_nonLastEndNL", "XonshVerif.Properties.C08"), ("XV.Tz.tokenizeLines_cov", "XonshVerif.Proofs.TokCover"),
            ("XV.Tz.scanLine_cov", "XonshVerif.Proofs.TokCover"), ("XV.Tz.nextStatement_cov", "XonshVerif.Proofs.TokCover"),
            ("XV.Tz.tokenize_structure", "XonshVerif.Properties.C08"), ("XV.Tz.prefix_depth_defined", "XonshVerif.Properties.C08"), ("XV.Tz.tokenizeLines_struct", "XonshVerif.Proofs.TokStructure"),
            ("XV.Tz.scanLine_struct", "XonshVerif.Proofs.TokStructure"),
            ("XV.Tz.string_tokens_are_source_slices", "XonshVerif.Properties.C08"), ("XV.Tz.srcText_is_slice_of_source", "XonshVerif.Properties.C08"), ("XV.Tz.tokenizeLines_strings", "XonshVerif.Proofs.StringTiling"),
            ("XV.Tz.pseudo_token_is_source_slice", "XonshVerif.Proofs.Tiling"), ("XV.Tz.handleEndProgs_adv", _PT), ("XV.Tz.nextPseudo_adv", _PT), ("XV.Tz.scanLine_no_loopFuel", _PT)],
    "C09": [("XV.Tz.indentation_stack_follows_the_reference", "XonshVerif.Properties.C09Stack"), ("XV.Tz.dedents_stack", "XonshVerif.Properties.C09Stack"), ("XV.Src.kept_keeps_significant", "XonshVerif.Proofs.TokenSourceKeep"), ("XV.Src.kept_no_double_newline", "XonshVerif.Proofs.TokenSourceKeep"), ("XV.Tz.measureIndent_spec", "XonshVerif.Properties.C09Indent"), ("XV.Tz.tab_stop", "XonshVerif.Properties.C09Indent"),
            ("XV.Tz.tokens_are_source_slices", "XonshVerif.Properties.C08"), ("XV.Tz.tokenize_structure", "XonshVerif.Properties.C08"),
            ("XV.Ops.first_listed_is_longest", "XonshVerif.Properties.C09"), ("XV.Ops.prefix_of_prefixes", "XonshVerif.Properties.C09")],
    "C11": [("XV.Tz.token_range_error_wellformed", "XonshVerif.Properties.C11Tok"), ("XV.Peg.generic_error_points_at_a_token", "XonshVerif.Proofs.PegFetch"), ("XV.Tz.token_starts_in_text", "XonshVerif.Properties.C11Tok"), ("XV.Tz.tokenizeLines_b", "XonshVerif.Proofs.TokBounds"), ("XV.Helpers.error_wellformed", _HELP)],
    "C10": [("XV.Concat.concat_preserves_text_and_fields", "XonshVerif.Proofs.Concat"), ("XV.Concat.joined_parts_are_normalised", "XonshVerif.Proofs.Concat"), ("XV.Concat.constant_only_without_fstring", "XonshVerif.Proofs.Concat"),
            ("XV.Tz.fstring_tokens_are_source_slices", "XonshVerif.Properties.C08"), ("XV.Tz.tokens_in_position_order", "XonshVerif.Properties.C08"), ("XV.Tz.fstring_tokens_balanced", "XonshVerif.Properties.C10"), ("XV.Tz.fstring_prefix_depth_defined", "XonshVerif.Properties.C10"),
            ("XV.Tz.tokenizeLines_fbal", "XonshVerif.Proofs.FstringBalance"), ("XV.Tz.handleFstringProgs_fstep", "XonshVerif.Proofs.FstringBalance"),
            ("XV.Tz.tokens_are_source_slices", "XonshVerif.Properties.C08"), ("XV.Tz.tokenize_total", "XonshVerif.Properties.C03")],
    "C04": [("XV.Span.span_well_oriented", "XonshVerif.Properties.C04Span"), ("XV.Span.span_end_is_last_significant_token", "XonshVerif.Proofs.Span"), ("XV.Act.nullable_sound", "XonshVerif.Properties.C04"), ("XV.Act.required_fields_never_none", "XonshVerif.Properties.C04")],
    "C12": [("XV.Lines.getLines_file_eq_string", "XonshVerif.Properties.C12"), ("XV.Lines.scanFile_spec", "XonshVerif.Properties.C12")],
    "C14": [("XV.Tz.tokens_after_neutral_prefix", "XonshVerif.Properties.C14"), ("XV.Tz.tokenize_append", "XonshVerif.Properties.C14"), ("XV.Tz.neutral_prefix_lines", "XonshVerif.Properties.C14"),
            ("XV.Tz.tokenizeLines_sh", "XonshVerif.Proofs.TokCompose"), ("XV.Tz.tokenizeLines_append", "XonshVerif.Proofs.TokCompose")],
    "C15": [("XV.Peg.py_version_monotone", "XonshVerif.Properties.C15"), ("XV.Peg.py_version_irrelevant_above_all_gates", "XonshVerif.Properties.C15"),
            ("XV.Peg.parse_gate_mono", "XonshVerif.Proofs.PegGate"), ("XV.Peg.ginv_all", "XonshVerif.Proofs.PegGate"),
            ("XV.Peg.parse_verbose", "XonshVerif.Properties.C15"), ("XV.Peg.execRule_verbose", "XonshVerif.Properties.C15"), ("XV.Peg.vinv", "XonshVerif.Proofs.PegVerbose")],
    "C17": [("XV.Peg.recogniser_sound_for_peg_semantics", "XonshVerif.Properties.C17"), ("XV.Peg.recogniser_sound_from_start", "XonshVerif.Properties.C17"), ("XV.Peg.peg_semantics_deterministic", "XonshVerif.Properties.C17"), ("XV.Peg.answers_do_not_depend_on_cache_or_fuel", "XonshVerif.Properties.C17"), ("XV.Peg.SSep.det", "XonshVerif.Proofs.PegSpecDet"), ("XV.Peg.recogniser_complete_for_peg_semantics", "XonshVerif.Properties.C17"), ("XV.Peg.recogniser_decides_peg_semantics", "XonshVerif.Properties.C17"), ("XV.Peg.exceptional_answer_means_no_outcome", "XonshVerif.Properties.C17"), ("XV.Peg.memo_flags_do_not_change_answers", "XonshVerif.Properties.C17"), ("XV.Peg.removing_memo_flags_changes_no_answer", "XonshVerif.Properties.C17"), ("XV.Peg.matches_are_forward_ranges", "XonshVerif.Properties.C17"), ("XV.Peg.ok_answers_are_forward_ranges", "XonshVerif.Properties.C17"), ("XV.Peg.SSep.rng", "XonshVerif.Proofs.PegSpecRange"), ("XV.Peg.srule_iff_of_sameBodies", "XonshVerif.Proofs.PegSpecDeco"), ("XV.Peg.dropMemo_sameBodies", "XonshVerif.Proofs.PegSpecDeco"), ("XV.Peg.SSep.cpl", "XonshVerif.Proofs.PegComplete"), ("XV.Peg.driver_pure_is_hypothesis", "XonshVerif.Properties.C17"), ("XV.Peg.specInv_succ", "XonshVerif.Proofs.PegSpec"), ("XV.Peg.driver_plain_is_hypothesis", "XonshVerif.Properties.C17"), ("XV.Peg.driver_noFalsy_is_hypothesis", "XonshVerif.Properties.C17"),
            ("XV.Peg.rule_consumes_exactly_its_match", "XonshVerif.Properties.C17"), ("XV.Peg.cache_invariant_kept", "XonshVerif.Properties.C17"), ("XV.Peg.consInv_succ", "XonshVerif.Proofs.PegConsume"), ("XV.Peg.lookahead_consumes_nothing", "XonshVerif.Properties.C17"), ("XV.Peg.not_is_complement", "XonshVerif.Properties.C17"), ("XV.Peg.ordered_choice_first", "XonshVerif.Properties.C17"),
            ("XV.Peg.ordered_choice_next", "XonshVerif.Properties.C17"), ("XV.Peg.empty_choice_fails", "XonshVerif.Properties.C17"), ("XV.Peg.memo_hit_is_constant", _PC)] + [("XV.Peg." + n, "XonshVerif.Properties.C17") for n in (
                "star_continues_after_success", "star_stops_at_first_failure", "plus_requires_one", "gather_needs_first_element", "gather_gives_back_dangling_separator",
                "gather_stops_without_separator", "cut_commits", "without_cut_next_alternative", "forced_raises_on_failure", "optional_never_fails",
                "memo_second_call_is_the_first_result", "inlined_choice_equiv")] + [("XV.Peg.parse_total", "XonshVerif.Proofs.PegTotal"), ("XV.Peg.execRule_fuel_mono", "XonshVerif.Proofs.PegMono")],
    "C18": [("XV.Peg.no_multi_edge_on_cycle", _PC), ("XV.Peg.memo_hit_is_constant", _PC)],
    "C02": _INERT,
    "C03": [
        ("XV.Tz.tokenize_total", "XonshVerif.Properties.C03"),
        ("XV.Tz.scanLine_no_loopFuel", _PT),
        ("XV.Tz.tokenizeLines_no_loopFuel", _PT),
        ("XV.Rx.matchAt_gt", _PR),
        ("XV.Rx.matchAt_ge", _PR),
        ("XV.Rx.matchAt_le_size", _PR),
        ("XV.Rx.matchAt_minLen", "XonshVerif.Proofs.RegexMinLen"),
        ("XV.Pipe.parse_string_total", "XonshVerif.Properties.C03"),
        ("XV.Peg.parser_total", "XonshVerif.Properties.C03"),
        ("XV.Peg.verdict_independent_of_fuel", "XonshVerif.Properties.C03"),
        ("XV.Peg.selfProg_rejected", "XonshVerif.Properties.C03"),
        ("XV.Peg.parse_total", "XonshVerif.Proofs.PegTotal"),
        ("XV.Peg.rule_term_all", "XonshVerif.Proofs.PegTotal"),
        ("XV.Peg.execRule_fuel_mono", "XonshVerif.Proofs.PegMono"),
        ("XV.Peg.parse_fuel_mono", "XonshVerif.Proofs.PegMono"),
    ],
    "C06": [
        ("XV.procArgs_groups", "XonshVerif.Properties.C06"),
        ("XV.runs_flatten", "XonshVerif.Properties.C06"),
        ("XV.runs_nonempty", "XonshVerif.Properties.C06"),
        ("XV.procArgs_length", "XonshVerif.Properties.C06"),
        ("XV.glue_span", "XonshVerif.Properties.C06"),
        ("XV.glue_words", "XonshVerif.Properties.C06"),
        ("XV.words_are_source_words", "XonshVerif.Properties.C06"),
    ],
}
# named statements that are NOT proved (kept visible; reported as `unproved`)
UNPROVED = {}


def _src_hash():
    h = hashlib.sha256()
    for p in sorted(LEAN.rglob("*.lean")):
        if ".lake" in p.parts:
            continue
        h.update(str(p.relative_to(LEAN)).encode())
        h.update(p.read_bytes())
    h.update((LEAN / "lakefile.toml").read_bytes())
    return h.hexdigest()[:16]


def strip_comments(text: str) -> str:
    text = re.sub(r"/-.*?-/", "", text, flags=re.S)
    return re.sub(r"--.*", "", text)


def build():
    """lake build + grep audit + #print axioms; cached on the hash of the Lean sources. Returns a dict."""
    CACHE.mkdir(exist_ok=True)
    lock = open(CACHE / "lean.lock", "w")
    fcntl.flock(lock, fcntl.LOCK_EX)
    try:
        from harness.translate import run_all

        tr = run_all.main()  # regenerate Generated/*.lean from /repo's working tree (rewritten only when changed)
        key = _src_hash()
        stamp = CACHE / "lean_build.json"
        if stamp.exists():
            d = json.loads(stamp.read_text())
            if d.get("key") == key and (LEAN / ".lake" / "build" / "bin" / "driver").exists():
                return d
        t0 = time.time()
        pr = subprocess.run(["lake", "build", "XonshVerif", "XonshCerts", "driver"], cwd=LEAN, capture_output=True, text=True, timeout=3600)
        out = pr.stdout + pr.stderr
        failed = re.findall(r"✖ \[\d+/\d+\] Building (\S+)", out)
        failed += re.findall(r"^- (\S+)$", out, re.M)
        errors = re.findall(r"^error: (.*)$", out, re.M)[:20]
        # forbidden constructs outside comments
        bad = []
        for p in sorted(LEAN.rglob("*.lean")):
            if ".lake" in p.parts:
                continue
            m = FORBIDDEN.search(strip_comments(p.read_text()))
            if m:
                bad.append(f"{p.relative_to(LEAN)}: {m.group(0).strip()}")
        # axiom audit
        # one audit file per importable unit, so that a certificate module that no longer builds (e.g. an `*_expected`
        # certificate after a change of the grammar) does not take the unrelated theorems down with it
        units = {"XonshVerif": sorted({n for lst in THEOREMS.values() for n, _ in lst})}
        for f in sorted((LEAN / "XonshCerts").glob("*.lean")):
            units["XonshCerts." + f.stem] = _cert_names(f)
        (LEAN / ".lake").mkdir(exist_ok=True)
        (LEAN / ".lake" / "Audit.lean").write_text("".join(f"import {u}\n" for u in units) + "".join(f"#print axioms {n}\n" for ns in units.values() for n in ns))

        def audit_unit(item):
            unit, ns = item
            f = LEAN / ".lake" / f"Audit_{unit.replace('.', '_')}.lean"
            f.write_text(f"import {unit}\n" + "".join(f"#print axioms {n}\n" for n in ns))
            q = subprocess.run(["lake", "env", "lean", str(f)], cwd=LEAN, capture_output=True, text=True, timeout=1800)
            return q.stdout + q.stderr

        from concurrent.futures import ThreadPoolExecutor

        with ThreadPoolExecutor(8) as ex:
            txt = "\n".join(ex.map(audit_unit, units.items()))
        axioms = {}
        for m in re.finditer(r"'([^']+)' depends on axioms: \[([^\]]*)\]", txt):
            axioms[m.group(1)] = [a.strip() for a in m.group(2).replace("\n", " ").split(",") if a.strip()]
        for m in re.finditer(r"'([^']+)' does not depend on any axioms", txt):
            axioms[m.group(1)] = []
        d = {"key": key, "translators": tr, "rc": pr.returncode, "failed_modules": sorted(set(failed)), "errors": errors, "forbidden": bad, "axioms": axioms, "audit_errors": re.findall(r"error: (.*)", txt)[:10], "wall": round(time.time() - t0, 1)}
        stamp.write_text(json.dumps(d, indent=1))
        return d
    finally:
        fcntl.flock(lock, fcntl.LOCK_UN)
        lock.close()


def _cert_names(only=None):
    names = []
    for f in ([only] if only else sorted((LEAN / "XonshCerts").glob("*.lean")) if (LEAN / "XonshCerts").exists() else []):
        for m in re.finditer(r"^theorem\s+(\S+)", strip_comments(f.read_text()), re.M):
            names.append("XVC." + m.group(1) if not m.group(1).startswith("XVC.") else m.group(1))
    return names


_B = "XonshCerts.Basic"
_R = "XonshCerts.Regex"
_D = "XonshCerts.Dead"
_CO = "XonshCerts.Cost"
_AC = "XonshCerts.Actions"
_DEAD = [("XVC.dead_cert", _D), ("XVC.dead_rules_expected", _D), ("XVC.dead_alternatives_expected", _D), ("XVC.shipped_xonsh_alternatives_inert", _D)]
_RX_PROGRESS = [("XVC.regex_translation_complete", _R), ("XVC.pseudo_branches_progress", _R), ("XVC.pseudo_branch_names", _R), ("XVC.string_patterns_progress", _R), ("XVC.quotes_covered", _R)]
CERTS = {
    "C08": _RX_PROGRESS + [("XVC.fstring_scanners_min_length", _R), ("XVC.gen_fstr_len", _R), ("XVC.shipped_tokens_in_position_order", _R), ("XVC.fstring_scanners_end_with_delimiter", _R), ("XVC.gen_fstr_ends", _R), ("XVC.shipped_tokens_are_source_slices", _R), ("XVC.end_branch_only_continuation_chars", _R), ("XVC.gen_end_gap", _R), ("XVC.shipped_gaps_are_indentation_or_continuation", _R)],
    "C09": _RX_PROGRESS + [("XVC.longest_operator_first", _R), ("XVC.longest_operator_first_chars", _R), ("XVC.shipped_operator_alternation_is_maximal_munch", _R), ("XVC.tabsize_is_8", _R)],
    "C10": _RX_PROGRESS + [("XVC.gen_fstr_len", _R), ("XVC.gen_fstr_ends", _R), ("XVC.shipped_tokens_are_source_slices", _R), ("XVC.shipped_tokens_in_position_order", _R)],
    "C14": _RX_PROGRESS,
    "C01": [("XVC.ir_complete", _B)] + _DEAD,
    "C02": [("XVC.ir_complete", _B), ("XVC.errortoken_unmatched", _B), ("XVC.start_demands_endmarker", _B)] + _DEAD,
    "C05": [("XVC.ir_complete", _B), ("XVC.xonsh_builder_table", _B)] + _DEAD,
    "C03": [("XVC.ir_complete", _B)] + _RX_PROGRESS + [("XVC.gen_pseudo_progress", _R), ("XVC.shipped_tokenizer_total", _R),
            ("XVC.wf_cert", "XonshCerts.Total"), ("XVC.shipped_parser_total", "XonshCerts.Total"), ("XVC.shipped_parse_string_total", "XonshCerts.Total"), ("XVC.no_nullable_rule", "XonshCerts.Total")],
    "C06": [("XVC.bracket_method_table", _B)],
    "C18": [("XVC.ir_complete", _B), ("XVC.cycle_cert", _CO), ("XVC.memo_mask_correct", _CO), ("XVC.memoised_rules_expected", _CO), ("XVC.shipped_no_multi_edge_on_cycle", _CO)],
    "C04": [("XVC.ir_complete", _B), ("XVC.no_nullable_required_field", _AC), ("XVC.action_fields_nonempty", _AC), ("XVC.shipped_actions_all_ok", _AC), ("XVC.shipped_required_fields_never_none", _AC)],
    "C13": [("XVC.state_inventory_expected", _AC)],
    "C15": [("XVC.ir_complete", _B), ("XVC.shipped_version_gates", "XonshCerts.Total"), ("XVC.shipped_py_version_irrelevant_from_312", "XonshCerts.Total")],
    "C16": [("XVC.regenerated_ir_equals_shipped", "XonshCerts.Regen"), ("XVC.regenerated_ir_nonempty", "XonshCerts.Regen"), ("XVC.regenerated_xonsh_alternatives_inert", "XonshCerts.Regen")],
    "C07": [("XVC.ir_complete", _B), ("XVC.macro_sites_table", _B)],
    "C11": [("XVC.ir_complete", _B), ("XVC.range_raise_arguments_in_order", _B)],
}


def obligations(rep, pid, tier):
    from harness import corr

    rep.trusted = list(rep.trusted)
    b = build()
    rep.checker_cmd = "cd lean && lake build XonshVerif XonshCerts driver && lake env lean .lake/Audit.lean  (#print axioms on every property theorem and certificate)"
    rep.extra["lean_build"] = {"rc": b["rc"], "failed_modules": b["failed_modules"], "wall_s": b["wall"], "forbidden_constructs": b["forbidden"]}
    if b["forbidden"]:
        rep.obligation("audit: no sorry/admit/axiom/native_decide/bv_decide/implemented_by/unsafe/maxHeartbeats 0", False, "; ".join(b["forbidden"]))
    for name, mod in THEOREMS.get(pid, []) + CERTS.get(pid, []):
        if mod in b["failed_modules"] or any(mod.startswith(f) for f in b["failed_modules"]):
            rep.obligation(f"theorem {name}", False, f"module {mod} does not build: {b['errors'][:2]}")
            continue
        ax = b["axioms"].get(name)
        if ax is None:
            rep.obligation(f"theorem {name}", False, "not found by #print axioms (missing or build failed)")
        elif not set(ax) <= ALLOWED_AXIOMS:
            rep.obligation(f"theorem {name}", False, f"depends on axioms {ax}")
        else:
            rep.obligation(f"theorem {name} [axioms: {', '.join(ax) or 'none'}]", True)
    for u in UNPROVED.get(pid, []):
        rep.unproved.append(u)
    for fn in CORR.get(pid, []):
        fn(rep, tier)
    if tier == "thorough":
        leanchecker(rep, pid)


def leanchecker(rep, pid):
    mods = sorted({m for _, m in THEOREMS.get(pid, [])})
    if not mods:
        return
    pr = subprocess.run(["lake", "env", "leanchecker"] + mods, cwd=LEAN, capture_output=True, text=True, timeout=3600)
    rep.obligation(f"leanchecker {' '.join(mods)}", pr.returncode == 0, (pr.stdout + pr.stderr)[-300:] if pr.returncode else "")


# ---------------------------------------------------------------- correspondence runs per property
def corr_c06(rep, tier):
    from harness import corr
    from harness.common import rng
    from harness.gen import corpus, xonshgen

    r = rng("C06", "corr")
    srcs = [p[0] + "\n" for p in corpus.xonsh_pairs()] + list(xonshgen.XONSH_STMTS)
    for _ in range(300 * quick_scale() if tier == "quick" else 6000):
        x, _t, _k = xonshgen.gen_subproc(r)
        srcs.append(f"v = {x}\n")
    from harness.props import c06

    for kind, text, _r, _k in c06.build_inputs("quick"):
        if kind == "composite":
            srcs.append(f"v = {text}\n")
    cases = corr.procargs_cases(srcs)
    bad = corr.run_correspondence(rep, "procArgs", cases)
    for b in bad[:3]:
        rep.extra.setdefault("correspondence_disagreements", []).append(b)


def _peg_sources(pid, tier, n_gen, damaged=True, xonsh=True):
    from harness.common import rng
    from harness.gen import corpus, mutate, pyprog, xonshgen

    r = rng(pid, "pegcorr")
    srcs = list(corpus.PY_STMTS) + ["x = " + s + "\n" for s in corpus.FSTRINGS if "\n" not in s]
    if xonsh:
        srcs += list(xonshgen.XONSH_STMTS) + [p[0] + "\n" for p in corpus.xonsh_pairs()]
    for _ in range(n_gen):
        g = pyprog.gen_program(r, fstrings=True, maxdepth=3, nstmts=r.randint(1, 3))
        if g:
            srcs.append(g[0])
    if damaged:
        srcs += [mutate.damage(s, r) for s in srcs[: max(100, n_gen)]]
    return srcs


def corr_peg(pid, n_quick=250, n_thorough=6000, verbose=False, **kw):
    def run(rep, tier):
        from harness import corr

        cases = corr.peg_cases(_peg_sources(pid, tier, n_quick * quick_scale() if tier == "quick" else n_thorough, **kw), verbose=verbose)
        bad = corr.run_peg_correspondence(rep, cases, name="recogniser-IR, verbose=True" if verbose else "recogniser-IR", verbose=verbose)
        for b in bad[:3]:
            rep.extra.setdefault("correspondence_disagreements", []).append(b)

    return run


GATED_SOURCES = [
    "type X = int\n", "type X[T] = list[T]\n", "def f[T](a): pass\n", "class B[T]: pass\n", "class B[T, *Ts, **P](A): pass\n",
    "try:\n    pass\nexcept* E:\n    pass\n", "try:\n    pass\nexcept* (A, B) as e:\n    pass\nelse:\n    pass\nfinally:\n    pass\n",
    "x = 1\ntype Y[T] = T\ny = 2\n", "async def g[T](): pass\n", "try:\n    pass\nexcept* E:\n    pass\ntype X = int\n",
    "def f[T](a): pass\ntry:\n    pass\nexcept* E:\n    pass\n", "type X = \n", "def f[T(a): pass\n", "type X = int\n)\n", "def f[T] x\n",
    "class A[T] | grep\n", "type = 3\n", "type(x)\n", "try:\n    pass\nexcept E:\n    pass\n", "x = [T]\n", "def f(a): pass\n",
]
GATE_VERSIONS = [None, (3, 8), (3, 10), (3, 11), (3, 12), (3, 13), (3,), (4, 0), (4,), (5, 3), (3, 11, 9), (3, 12, 0), (3, 12, 1, 0), (3, 11, 0, 0), (3, 12, 1, "final", 0)]


def corr_gate(rep, tier):
    """C15 py_version half: model with `gateProg v` vs the implementation run with the corresponding `py_version`."""
    from harness import corr

    srcs = list(GATED_SOURCES)
    if tier != "quick":
        srcs += _peg_sources("C15", tier, 300)[:600]
    else:
        srcs += _peg_sources("C15", tier, 20, damaged=False)[:60]
    cases = corr.peg_cases(srcs, versions=GATE_VERSIONS)
    bad = corr.run_peg_correspondence(rep, cases, name="recogniser-IR with version gates resolved (py_version grid)")
    for b in bad[:3]:
        rep.extra.setdefault("correspondence_disagreements", []).append(b)


def corr_tok(pid):
    def run(rep, tier):
        from harness import corr
        from harness.props import c08

        srcs = [s for _, s in c08.build_inputs(tier) if len(s) < (20000 if tier == "quick" else 200000)]
        if pid == "C10":
            from harness.props import c10

            srcs = [s for _, s, _m in c10.build_inputs(tier)] + srcs[:800]
        elif pid == "C09":
            from harness.props import c09

            srcs = [s for _, s in c09.build_inputs(tier) if len(s) < 20000] + srcs[:800]
        elif pid == "C14":
            from harness.common import rng
            from harness.props import c14

            r = rng("C14", "tokcorr")
            pool14 = c14.statement_pool(r, tier)
            srcs = pool14 + [r.choice(pool14) + r.choice(pool14) for _ in range(600 if tier == "quick" else 20000)] + srcs[:600]
        elif pid == "C03":
            from harness.props import c03

            srcs = [s for _, s, _m in c03.build_inputs(tier)][:4000] + srcs[:500]
        bad = corr.run_tok_correspondence(rep, corr.tok_cases(srcs))
        for b in bad[:3]:
            rep.extra.setdefault("correspondence_disagreements", []).append(b)

    return run


def corr_helpers(pid, kinds):
    def run(rep, tier):
        from harness import corr
        from harness.common import rng
        from harness.gen import corpus, pyprog, xonshgen
        from harness.props import c11

        r = rng(pid, "helpers")
        n = quick_scale() if tier == "quick" else 20
        srcs = []
        if "macro" in kinds:
            for _ in range(250 * n):
                x, _fn, _args = xonshgen.gen_call_macro(r)
                srcs.append(f"r = {x}\n")
            srcs += ["f!(a[)\n", "f!(]\n", "f!(,x)\n", "f!(a, (b]\n", "f!(x\n", "f!( ñ , y)\n", "f!()\n", "f!(a,)\n", "f!(a)(b)!(c, d)\n"]
        if "withmacro" in kinds:
            from harness.props import c07

            for _ in range(300 * n):
                st, _ctx, _body = xonshgen.gen_with_macro(r)
                srcs.append(r.choice(c07.BEFORE) + st + r.choice(c07.AFTER))
                if r.random() < 0.2:
                    srcs.append(st.rstrip("\n"))
                if r.random() < 0.15 and "\x0c" not in st and "\x85" not in st and "\u2028" not in st:
                    srcs.append(st.replace("\n", "\r\n"))
            q3 = "'" * 3
            srcs += ["with! a:\n", "with! a: x\n", "with! a:\n    # only a comment\n", "with! a:\n\n\n    b\n\n", "with! a:\n\tb\n  c\n", "def f():\n    with! a:\n        b\n    return 1\n",
                     "with! a:\n    b\nwith! c:\n    d\n", f"with! a:\n  {q3}x\ny\nz{q3}\n", f"with! a: {q3}x\ny{q3}\nk = 1\n", "with! a:\n    b \\\n  c\n    d\n"]
        if "makeargs" in kinds:
            srcs += [s for s in corpus.PY_STMTS if "def " in s or "lambda" in s]
            for _ in range(150 * n):
                g = pyprog.gen_program(r, maxdepth=3, nstmts=2)
                if g and ("def " in g[0] or "lambda" in g[0]):
                    srcs.append(g[0])
        if "span" in kinds:
            srcs += list(corpus.PY_STMTS) + list(xonshgen.XONSH_STMTS)
            for _ in range(60 * n):
                g = pyprog.gen_program(r, maxdepth=3, nstmts=3)
                if g:
                    srcs.append(g[0])
            srcs += ["if a:\n    pass\n\n\n", "def f():\n    return\n", "class A:\n    def f(self):\n        x = (1,\n 2)\n\n", "x = 1", "", "\n", "pass\n# c\n"]
        if "procmacro" in kinds:
            for _ in range(300 * n):
                x, _cmd, _rest, _m = xonshgen.gen_proc_macro(r)
                srcs.append(r.choice(["", "x = ", "print(", ""]) .replace("print(", "y = ") + x + "\n")
            srcs += ["$(echo! a  b   c)\n", "![ls! -l  'x  y']\n", "$(echo!)\n", "$(echo! )\n", "r = !(bash! -c 'for i in x: pass')\n", "$[timeit! (a  b) c]\n", "$(echo! a\xa0b  c)\n", "$(echo! \u2003x )\n"]
        if "desugar" in kinds:
            srcs += list(xonshgen.XONSH_STMTS) + [x + "\n" for x, _t, _k in corpus.xonsh_pairs()]
            for _ in range(200 * n):
                k, x, t, lvl = xonshgen.gen_construct(r)
                srcs.append(r.choice(["v = {}\n", "f({}, 1)\n", "{}\n", "for i in {}:\n    pass\n"]).format(x))
            srcs += ["$X = 1\n", "${'a' 'b'} = 2\n", "for $I, ${j} in z: pass\n", "a?.b??.c?\n", "$(echo @(x) @$(ls) `p.*`)\n", "f!(a, [b c], 'd')\n", "with! ctx as c:\n    body\n", "x = $HOME + ${name}\n"]
        if "concat" in kinds:
            from harness.props import c10

            cs = [c[1] for c in c10.build_inputs(tier) if c[0] in ("pool", "product", "concat-multiline", "gen", "spec-then-continuation")]
            srcs += cs if tier != "quick" else r.sample(cs, min(len(cs), 1500 * n))
            srcs += ["x = 'a' 'b'\n", "x = b'a' b'b'\n", "x = u'a' 'b'\n", "x = 'a' u'b'\n", "x = b'a' 'b'\n", "x = f'{y}' b'z'\n", "x = '' f'{y}' ''\n", "x = 'a' f'' 'b'\n",
                     "x = p'a' 'b'\n", "x = pf'{y}' 'c'\n", "x = ('a'\n  f'b{c}d'\n  'e')\n", "x = f'{a}' f'{b}'\n", "x = f'a' f'b'\n", "x = f'' f''\n", "x = ''\n", "x = f''\n"]
        if "builderr" in kinds:
            srcs += list(c11.INVALID_SNIPPETS) + ["ok = 1\n\n" + s for s in c11.INVALID_SNIPPETS]
        bad = corr.run_helper_correspondence(rep, corr.helper_cases(srcs), kinds)
        for b in bad[:3]:
            rep.extra.setdefault("correspondence_disagreements", []).append(b)

    return run


def corr_pipeline(pid):
    def run(rep, tier):
        from harness import corr
        from harness.common import rng
        from harness.gen import corpus, mutate, xonshgen
        from harness.props import c11

        r = rng(pid, "pipeline")
        n = 300 * quick_scale() if tier == "quick" else 6000
        srcs = list(corpus.PY_STMTS) + list(c11.INVALID_SNIPPETS) + list(xonshgen.XONSH_STMTS) + [mutate.soup(r) for _ in range(n)]
        srcs += [mutate.damage(s, r) for s in corpus.PY_STMTS]
        bad = corr.run_pipeline_correspondence(rep, corr.pipeline_cases(srcs))
        for b in bad[:3]:
            rep.extra.setdefault("correspondence_disagreements", []).append(b)

    return run


def corr_getlines(pid):
    def run(rep, tier):
        from harness import corr
        from harness.common import rng
        from harness.gen import corpus
        from harness.props import c11

        r = rng(pid, "getlines")
        srcs = list(c11.INVALID_SNIPPETS) + list(corpus.PY_STMTS[:60]) + ["x = '\u00e9' +\n", "\u00f1 = (1 2)\n", "a\n\n\nb", "one line no newline"]
        if tier != "quick":
            srcs += [s + t for s in c11.INVALID_SNIPPETS[:40] for t in corpus.PY_STMTS[:10]]
        bad = corr.run_getlines_correspondence(rep, srcs, r)
        for b in bad[:3]:
            rep.extra.setdefault("correspondence_disagreements", []).append(b)

    return run


def corr_pipeline_oddchars(pid):
    """Whole-pipeline correspondence on subprocess and Python lines with one character that is neither a word
    character nor plain whitespace glued into / next to a word: what the token source drops and what it keeps
    (`is_blank` = the model's `isBlank`) decides between SyntaxError and a changed word list."""
    def run(rep, tier):
        from harness import corr

        odd = ["\u200b", "\u00ad", "\ufeff", "\u2060", "\x01", "\x7f", "\x1b", "\u00a0", "\u3000", "\u2028", "\u0085", "\x0c", "\u200e", "\u061c", "\u180e", "\x1f", "\u2003", "\u00b7", "\u20ac"]
        forms = ["$(echo pre{c}post tail)\n", "$[x {c}y]\n", "$(a{c} b)\n", "$(a {c} b)\n", "x = $(ls {c}){c}\n", "x = 1{c}+ 2\n", "x{c}y = 3\n", "f(a,{c}b)\n", "if a:{c}\n    b\n", "$(echo @(x){c}y)\n", "ls -l{c}a\n"]
        srcs = [f.replace("{c}", c) for c in odd for f in forms]
        bad = corr.run_pipeline_correspondence(rep, corr.pipeline_cases(srcs), name="pipeline (odd characters next to words)")
        for b in bad[:3]:
            rep.extra.setdefault("correspondence_disagreements", []).append(b)

    return run


CORR = {
    "C07": [corr_helpers("C07", ("macro", "withmacro", "procmacro"))],
    "C11": [corr_helpers("C11", ("builderr",))],
    "C06": [corr_c06, corr_pipeline_oddchars("C06")],
    "C01": [corr_peg("C01", xonsh=False), corr_helpers("C01", ("makeargs", "span", "concat"))],
    "C04": [corr_helpers("C04", ("span", "concat"))],
    "C02": [corr_peg("C02")],
    "C05": [corr_peg("C05"), corr_helpers("C05", ("desugar",))],
    "C03": [corr_peg("C03"), corr_tok("C03"), corr_pipeline("C03")],
    "C18": [corr_peg("C18")],
    "C15": [corr_peg("C15", n_quick=150, n_thorough=3000), corr_peg("C15", n_quick=150, n_thorough=3000, verbose=True), corr_gate],
    "C08": [corr_tok("C08")],
    "C09": [corr_tok("C09")],
    "C10": [corr_tok("C10"), corr_helpers("C10", ("concat",))],
    "C14": [corr_tok("C14"), corr_pipeline("C14")],
    "C12": [corr_getlines("C12")],
}
