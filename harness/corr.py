"""Correspondence runs: the native Lean driver vs the real implementation on the same requests."""
from __future__ import annotations

import ast
import os
import subprocess
import sys
from pathlib import Path

from harness.common import REPO, VERIF

if str(REPO) not in sys.path:
    sys.path.insert(0, str(REPO))

DRIVER = VERIF / "lean" / ".lake" / "build" / "bin" / "driver"


def enc_str(s: str) -> str:
    return ",".join(str(ord(c)) for c in s) if s else "-"


class Driver:
    """One-shot use of the native driver: all request lines in, all answer lines out."""

    def ask_many(self, lines):
        for ln in lines:
            assert "\n" not in ln
        # normal throughput is thousands of requests per second; a model that takes minutes (e.g. a regenerated regular
        # expression with exponential back-tracking) is reported as "driver-timeout" for every request of the batch: the
        # comparators then report the correspondence as broken, they never wait it out
        budget = max(90.0, 0.05 * len(lines)) * (1 if os.environ.get("VERIF_TIER", "quick") == "quick" else 4)
        try:
            pr = subprocess.run([str(DRIVER)], input="".join(ln + "\n" for ln in lines), capture_output=True, text=True, timeout=budget)
        except subprocess.TimeoutExpired:
            return ["driver-timeout"] * len(lines)
        if pr.returncode != 0:
            raise RuntimeError(f"driver failed: {pr.stderr[-300:]}")
        out = pr.stdout.split("\n")
        if out and out[-1] == "":
            out.pop()
        if len(out) != len(lines):
            raise RuntimeError(f"driver answered {len(out)} lines for {len(lines)} requests")
        return out

    def close(self):
        pass


# ---------------------------------------------------------------- proc_args
def capture_proc_args(src: str, mode="exec"):
    """Parse `src` with the real parser and record every call of proc_args: (args, result)."""
    from peg_parser.parser import XonshParser

    calls = []

    class P(XonshParser):
        def proc_args(self, args):
            res = super().proc_args(args)
            calls.append((list(args), res))
            return res

    try:
        P.parse_string(src, mode=mode)
    except BaseException:  # noqa: BLE001
        pass
    return calls


def procargs_request(args):
    from peg_parser.tokenize import TokenInfo

    ids = {}
    fields = ["procargs"]
    for a in args:
        if isinstance(a, TokenInfo):
            fields += ["T", enc_str(a.string), a.start[0], a.start[1], a.end[0], a.end[1]]
        else:
            if not isinstance(a, ast.AST) or not hasattr(a, "lineno"):
                return None, None
            if isinstance(a, ast.Constant) and isinstance(a.value, str):
                fields += ["C", enc_str(a.value), a.lineno, a.col_offset, a.end_lineno, a.end_col_offset]
            else:
                ids[id(a)] = len(ids)
                fields += ["S" if isinstance(a, ast.Starred) else "N", ids[id(a)], a.lineno, a.col_offset, a.end_lineno, a.end_col_offset]
    return " ".join(str(f) for f in fields), ids


def enc_arg(n, ids):
    pos = f"{n.lineno}:{n.col_offset};{n.end_lineno}:{n.end_col_offset}"
    if id(n) in ids:
        return f"{'S' if isinstance(n, ast.Starred) else 'N'}({ids[id(n)]};{pos})"
    if isinstance(n, ast.Constant):
        return f"C({enc_str(n.value)};{pos})"
    if isinstance(n, ast.Tuple):
        return "T([" + " ".join(enc_arg(e, ids) for e in n.elts) + f"];{pos})"
    if isinstance(n, ast.BinOp):
        return f"B({enc_arg(n.left, ids)} + {enc_arg(n.right, ids)};{pos})"
    return f"?{type(n).__name__}"


def _procargs_case(src):
    out = []
    for args, res in capture_proc_args(src):
        req, ids = procargs_request(args)
        if req is None:
            continue
        out.append((req, " ".join(enc_arg(r, ids) for r in res), src))
    return out


def procargs_cases(srcs):
    """(request line, expected answer, source) for every proc_args call made while parsing the sources."""
    out = []
    for r in _pooled("_procargs_case", [(s,) for s in srcs]):
        if isinstance(r, list):
            out.extend(tuple(x) for x in r)
    return out


def run_correspondence(rep, name, cases, limit=5):
    """cases: (request, expected answer from the implementation, description). Reports model != impl."""
    if not DRIVER.exists():
        rep.obligation(f"corr:{name}", False, "driver not built")
        return []
    d = Driver()
    try:
        answers = d.ask_many([c[0] for c in cases])
    finally:
        d.close()
    bad = []
    for (req, exp, desc), got in zip(cases, answers):
        if got != exp:
            bad.append({"request": req, "implementation": exp, "model": got, "source": desc})
    rep.extra.setdefault("correspondence", {})[name] = {"requests": len(cases), "disagreements": len(bad)}
    rep.obligation(f"corr:{name} (model == implementation on {len(cases)} requests)", not bad, str(bad[:2])[:400] if bad else "")
    return bad


# ---------------------------------------------------------------- recogniser IR
def load_ir():
    import json

    from harness.common import CACHE

    return json.loads((CACHE / "parser_ir.json").read_text())


def kept_tokens(src: str):
    """Kept tokens of the real Tokenizer (only meaningful when no macro capture happens)."""
    import io

    from peg_parser.tokenize import Token, generate_tokens
    from peg_parser.tokenizer import Tokenizer

    tz = Tokenizer(generate_tokens(io.StringIO(src).readline))
    out = []
    while True:
        t = tz.getnext()
        out.append(t)
        if t.type == Token.ENDMARKER:
            return out


def parse_request(ir, toks, rule="file", fuel=2000000, verbose=False, minor=None):
    strs = ir["strings"]
    kws = set(ir["keywords"])
    soft = set(ir["soft_keywords"])
    names = [r["name"] for r in ir["rules"]]
    fields = ["parsev" if verbose else "parse", str(names.index(rule)), str(fuel)]
    if minor is not None:  # version gates resolved for the effective py_version (3, minor)
        fields = ["parsegv" if verbose else "parseg", str(minor)] + fields[1:]
    for t in toks:
        sid = strs.get(t.string, len(strs))
        fields.append(f"{t.type.name}:{sid}:{1 if t.string in kws else 0}:{1 if t.string in soft else 0}")
    return " ".join(fields)


def effective_minor(py_version):
    """The `v` of the model's `gateProg v` for a given `py_version` option: the largest m with (3, m) <= the version the
    parser actually uses (`min(py_version, sys.version_info)`, or the running version when the option is not given)."""
    import sys

    eff = min(tuple(py_version), tuple(sys.version_info[:3])) if py_version else tuple(sys.version_info)
    ms = [m for m in range(0, 40) if (3, m) <= eff]
    return max(ms) if ms else 0


def impl_parse_observation(src: str, mode="exec", verbose=False, py_version=None):
    """What the real parser does, in the vocabulary of the recogniser model."""
    import contextlib
    import io

    from peg_parser.parser import XonshParser
    from peg_parser.tokenize import TokenError, generate_tokens
    from peg_parser.tokenizer import Tokenizer

    class Counting(Tokenizer):
        def __init__(self, *a, **k):
            super().__init__(*a, **k)
            self.c = {"peeks": 0, "nexts": 0, "resets": 0}

        def getnext(self):
            self.c["nexts"] += 1
            return super().getnext()

        def peek(self):
            self.c["peeks"] += 1
            return super().peek()

        def reset(self, index):
            self.c["resets"] += 1
            return super().reset(index)

    tz = Counting(generate_tokens(io.StringIO(src).readline))
    p = XonshParser(tz, verbose=verbose, py_version=tuple(py_version) if py_version else None)
    rule = "file" if mode == "exec" else "eval"
    # first pass only (what decides acceptance), exactly as Parser.parse starts
    p.call_invalid_rules = False
    try:
        with contextlib.redirect_stdout(io.StringIO()):
            res = getattr(p, rule)()
    except SyntaxError as e:
        return {"k": "raised", "msg": e.msg}
    except TokenError:
        return {"k": "tokerr"}
    except RecursionError:
        return {"k": "recursion"}
    obs = {"k": "tree" if res else "fail", "pos": tz._index, "fetched": len(tz._tokens), **tz.c}
    return obs


def _peg_case(src, mode="exec", verbose=False, py_version=None, gated=False):
    if "!" in src.replace("!=", ""):
        return None
    try:
        toks = kept_tokens(src)
    except BaseException:  # noqa: BLE001
        return None
    obs = impl_parse_observation(src, mode, verbose, py_version)
    if obs["k"] in ("recursion", "tokerr"):
        return None
    minor = effective_minor(py_version) if gated else None
    return (parse_request(load_ir(), toks, "file" if mode == "exec" else "eval", verbose=verbose, minor=minor), obs, src if not gated else f"{src!r} py_version={py_version}")


def peg_cases(srcs, mode="exec", verbose=False, versions=None):
    """(request, expected, source) for the first pass of every source (sources with macro triggers are skipped).
    `versions`: run every source under each of these `py_version` options, the model with its gates resolved accordingly."""
    if versions is None:
        args = [(s, mode, verbose) for s in srcs]
    else:
        args = [(s, mode, verbose, v, True) for s in srcs for v in versions]
    res = _pooled("_peg_case", args, timeout=60 if verbose else 30)
    return [tuple(r) for r in res if isinstance(r, (tuple, list))]


def run_peg_correspondence(rep, cases, name="recogniser-IR", verbose=False):
    """Model (first pass over the regenerated IR) vs implementation: outcome, end position, tokens fetched and the
    three call counters must be EQUAL."""
    if not DRIVER.exists():
        rep.obligation(f"corr:{name}", False, "driver not built")
        return []
    answers = Driver().ask_many([c[0] for c in cases])
    bad = []
    stats = {"tree": 0, "fail": 0, "raised": 0, "undecided": 0}
    for (req, obs, src), ans in zip(cases, answers):
        head = ans.split(" ")[0]
        kv = dict(x.split("=") for x in ans.split(" ") if "=" in x)
        first = kv.get("first")
        if first == "undecided":
            stats["undecided"] += 1
            continue
        if first in ("fuel", "tokerr") or first is None:
            bad.append({"source": src, "implementation": obs, "model": ans, "what": "model did not finish"})
            continue
        if obs["k"] == "raised" or first == "raised":
            stats["raised"] += 1
            if not (obs["k"] == "raised" and first == "raised") and kv.get("assumed") != "true":
                bad.append({"source": src, "implementation": obs, "model": ans, "what": "first pass: only one side raised"})
            continue
        ok = (obs["k"] == "tree") == (first == "ok")
        if ok:
            # verbose=True: the trace's own showpeek() calls are not part of the model (their only possible effect on a
            # result, one more token fetched, is what the `fetched` comparison below would show)
            for k in ("pos", "fetched", "nexts", "resets") if verbose else ("pos", "fetched", "peeks", "nexts", "resets"):
                if int(kv[k]) != obs[k]:
                    ok = False
        if ok:
            stats[obs["k"]] = stats.get(obs["k"], 0) + 1
        else:
            bad.append({"source": src, "implementation": obs, "model": ans})
    rep.extra.setdefault("correspondence", {})[name] = {"requests": len(cases), "disagreements": len(bad), **stats}
    what = "getnext/reset counts" if verbose else "peek/getnext/reset counts"
    rep.obligation(f"corr:{name} (first-pass outcome, end, tokens fetched, {what} equal on {len(cases)} inputs)", not bad, str(bad[:2])[:600] if bad else "")
    return bad


# ---------------------------------------------------------------- tokenizer
def tok_request(src: str) -> str:
    na = sorted({c for c in src if ord(c) > 127})
    wc = ",".join(str(ord(c)) for c in na if c.isalnum()) or "-"
    sc = ",".join(str(ord(c)) for c in na if c.isspace()) or "-"
    return f"tok {wc} {sc} {enc_str(src)}"


def impl_tokens_encoded(src: str) -> str:
    from peg_parser.tokenize import TokenError, generate_tokens

    out = []
    err = None
    try:
        for t in generate_tokens(src):
            out.append(f"{t.type.name}|{enc_str(t.string)}|{t.start[0]}:{t.start[1]}|{t.end[0]}:{t.end[1]}|{enc_str(t.line)}")
            if len(out) > 50 * len(src) + 100:
                return "hang"
    except TokenError as e:
        msg = e.args[0]
        if msg.startswith("Bad token"):
            msg = "Bad token"
        err = f"TokenError|{msg}|{e.args[1][0]}:{e.args[1][1]}"
    except IndentationError as e:
        err = f"IndentationError|{e.lineno}|{e.offset}"
    except RecursionError:
        return "recursion"
    return (f"ok {';'.join(out)}" if err is None else f"err {err} {';'.join(out)}").rstrip() if False else (f"ok {';'.join(out)}" if err is None else f"err {err} {';'.join(out)}")


def _pooled(fn_name, args_list, timeout=20):
    """Run harness.corr.<fn_name> on every argument tuple in worker processes (a hanging implementation is killed)."""
    from harness.pool import Pool

    pool = Pool()
    try:
        return pool.call(f"harness.corr:{fn_name}", args_list, timeout=timeout)
    finally:
        pool.close()


def tok_cases(srcs):
    res = _pooled("impl_tokens_encoded", [(s,) for s in srcs])
    out = []
    for s, r in zip(srcs, res):
        if isinstance(r, dict):  # hang / crash of the implementation: that is C03's verdict, not a correspondence datum
            r = "impl-" + str(r.get("k"))
        out.append((tok_request(s), r, s))
    return out


def run_tok_correspondence(rep, cases, name="tokenizer"):
    if not DRIVER.exists():
        rep.obligation(f"corr:{name}", False, "driver not built")
        return []
    answers = Driver().ask_many([c[0] for c in cases])
    bad = []
    kinds = {"ok": 0, "err": 0}
    for (req, exp, src), got in zip(cases, answers):
        g = got.rstrip()
        e = exp.rstrip()
        if g != e:
            # first differing token for the report
            gt, et = g.split(";"), e.split(";")
            i = next((k for k, (a, b) in enumerate(zip(gt, et)) if a != b), min(len(gt), len(et)))
            bad.append({"source": src, "first_difference_at_token": i, "model": gt[i][:200] if i < len(gt) else None, "implementation": et[i][:200] if i < len(et) else None})
        else:
            kinds[e.split(" ")[0]] = kinds.get(e.split(" ")[0], 0) + 1
    rep.extra.setdefault("correspondence", {})[name] = {"requests": len(cases), "disagreements": len(bad), **kinds}
    rep.obligation(f"corr:{name} (token 5-tuples and raised error equal on {len(cases)} inputs)", not bad, str(bad[:2])[:600] if bad else "")
    return bad


# ---------------------------------------------------------------- small helper models: macro capture, make_arguments, error builder
def _enc_tok4(t):
    return f"{t.type.name}|{enc_str(t.string)}|{t.start[0]}:{t.start[1]}|{t.end[0]}:{t.end[1]}"


def _helper_cases(src: str, mode="exec"):
    """Parse `src` with instrumented subclasses; returns a list of (request, expected answer, source) for every call of
    consume_macro_params / make_arguments / _build_syntax_error that happened."""
    import ast as _ast
    import io

    from peg_parser.parser import XonshParser
    from peg_parser.tokenize import Token, TokenError, TokenInfo, generate_tokens
    from peg_parser.tokenizer import Tokenizer

    cases = []

    class Log:
        def __init__(self, it):
            self.it = iter(it)
            self.seen = []

        def __iter__(self):
            return self

        def __next__(self):
            t = next(self.it)
            self.seen.append(t)
            return t

    class T(Tokenizer):
        def consume_macro_params(self):
            n0 = len(self._tokengen.seen)
            stack0 = len(self._stack)
            try:
                res = super().consume_macro_params()
                if res.type == Token.MACRO_PARAM:
                    exp = f"param|{enc_str(res.string)}|{res.start[0]}:{res.start[1]}|{res.end[0]}:{res.end[1]}"
                elif res.type == Token.WS:
                    exp = f"blank|{enc_str(res.string)}|{res.start[0]}:{res.start[1]}|{res.end[0]}:{res.end[1]}"
                else:
                    exp = f"close|{enc_str(res.string)}|{res.start[0]}:{res.start[1]}|{res.end[0]}:{res.end[1]}"
                err = None
            except SyntaxError as e:
                err, exp = e, None
            except TokenError as e:
                err, exp = e, "eof"
            pulled = self._tokengen.seen[n0:]
            na = sorted({c for t in pulled for c in t.string if ord(c) > 127 and c.isspace()})
            sc = ",".join(str(ord(c)) for c in na) or "-"
            req = "macro " + sc + " " + " ".join(_enc_tok4(t) for t in pulled)
            if isinstance(err, SyntaxError):
                exp = f"unmatched|{enc_str(pulled[-1].string)}"
                full = f"{exp} consumed={len(pulled) - 1} pushed=false rest=0"
            elif exp == "eof":
                full = f"eof consumed={len(pulled)} pushed=false rest=0"
            else:
                pushed = len(self._stack) > stack0 or exp.startswith("close")
                full = f"{exp} consumed={len(pulled) - 1} pushed={'true' if pushed else 'false'} rest=0"
            if " " not in "".join(_enc_tok4(t) for t in pulled):
                cases.append((req, full, src))
            if err is not None:
                raise err
            return res

        def consume_with_macro_params(self):
            n0 = len(self._tokengen.seen)
            asked = {}
            orig_get_lines = self.get_lines

            def spy(nums):
                res = orig_get_lines(nums)
                for n, ln in zip(nums, res):
                    asked[n] = ln
                return res

            self.get_lines = spy
            try:
                res = super().consume_with_macro_params()
            finally:
                del self.get_lines
            pulled = self._tokengen.seen[n0:]
            table = " ".join(f"{n}={enc_str(ln)}" for n, ln in sorted(asked.items()))
            toks = " ".join(_enc_tok4(t) + "|" + enc_str(t.line) for t in pulled)
            req = f"withmacro {table} ## {toks}".replace("  ", " ")
            exp = f"param|{enc_str(res.string)}|consumed={len(pulled)}|cleared={'false' if self._with_macro else 'true'}"
            cases.append((req, exp, src))
            return res

    def _enc_val(v):
        if isinstance(v, bytes):
            return enc_str("".join(chr(b) for b in v)), "1"
        return enc_str(v), "0"

    # ---- xonsh builders (C05): dump the built tree with the argument nodes as holes
    def _ds_sp(n):
        return f"{n.lineno}:{n.col_offset}-{n.end_lineno}:{n.end_col_offset}"

    def _ds_dump(n, holes):
        for i, h in enumerate(holes):
            if n is h:
                return f"H({i})"
        if isinstance(n, _ast.Name):
            return f"N({n.id};{_ds_sp(n)})"
        if isinstance(n, _ast.Attribute):
            return f"A({_ds_dump(n.value, holes)};{n.attr};{_ds_sp(n)})"
        if isinstance(n, _ast.Constant):
            return f"C({enc_str(n.value)};{_ds_sp(n)})"
        if isinstance(n, _ast.Call):
            return f"K({_ds_dump(n.func, holes)};[{'|'.join(_ds_dump(a, holes) for a in n.args)}];{_ds_sp(n)})"
        if isinstance(n, _ast.Subscript):
            return f"S({_ds_dump(n.value, holes)};{_ds_dump(n.slice, holes)};{type(n.ctx).__name__};{_ds_sp(n)})"
        if isinstance(n, _ast.Starred):
            return f"T({_ds_dump(n.value, holes)};{_ds_sp(n)})"
        if isinstance(n, _ast.Tuple):
            return f"U([{'|'.join(_ds_dump(a, holes) for a in n.elts)}];{_ds_sp(n)})"
        return f"?{type(n).__name__}"

    def _ds_locs(locs):
        return f"{locs['lineno']}:{locs['col_offset']}-{locs['end_lineno']}:{locs['end_col_offset']}"

    class P(XonshParser):
        _span_seen = set()

        def concatenate_strings(self, parts):
            req = None
            try:
                ids = {}
                fs = []
                first = self._strip_path_prefix(parts[0]) or parts[0]
                for i, p_ in enumerate(parts):
                    if i == 0:
                        p_ = first
                    if isinstance(p_, _ast.JoinedStr):
                        vs = []
                        for v in p_.values:
                            if isinstance(v, _ast.Constant):
                                val, b = _enc_val(v.value)
                                vs.append(f"C.{val}.{b}.{1 if getattr(v, 'kind', None) == 'u' else 0}.{v.lineno}:{v.col_offset}.{v.end_lineno}:{v.end_col_offset}")
                            else:
                                vs.append(f"F.{ids.setdefault(id(v), len(ids))}")
                        fs.append(f"J|{';'.join(vs) or '-'}|{p_.lineno}:{p_.col_offset}|{p_.end_lineno}:{p_.end_col_offset}")
                    else:
                        value = _ast.literal_eval(p_.string)
                        val, b = _enc_val(value)
                        fs.append(f"T|{val}|{b}|{1 if p_.string.startswith('u') else 0}|{p_.start[0]}:{p_.start[1]}|{p_.end[0]}:{p_.end[1]}")
                req = "concat " + " ".join(fs)
                if any((" " in f) for f in fs) or any(ord(ch) > 0x10FFFF for ch in ""):
                    req = None
            except Exception:  # noqa: BLE001
                req = None
            try:
                res = super().concatenate_strings(parts)
            except SyntaxError as e:
                if req is not None and "cannot mix bytes" in str(e.msg):
                    cases.append((req, "mixerr", src))
                raise
            if req is not None:
                try:
                    node = res
                    if isinstance(node, _ast.Call):
                        node = node.args[0]
                    if isinstance(node, _ast.Constant):
                        val, b = _enc_val(node.value)
                        exp = f"C|{val}|{b}|{1 if getattr(node, 'kind', None) == 'u' else 0}|{node.lineno}:{node.col_offset}|{node.end_lineno}:{node.end_col_offset}"
                    else:
                        vs = []
                        for v in node.values:
                            if isinstance(v, _ast.Constant):
                                val, b = _enc_val(v.value)
                                vs.append(f"C.{val}.{b}.{1 if getattr(v, 'kind', None) == 'u' else 0}.{v.lineno}:{v.col_offset}.{v.end_lineno}:{v.end_col_offset}")
                            else:
                                vs.append(f"F.{ids.setdefault(id(v), len(ids))}")
                        exp = f"J|{';'.join(vs) or '-'}|{node.lineno}:{node.col_offset}|{node.end_lineno}:{node.end_col_offset}"
                    cases.append((req, exp, src))
                except Exception:  # noqa: BLE001
                    pass
            return res

        def span(self, lnum, col):
            res = super().span(lnum, col)
            try:
                tz_ = self._tokenizer
                key = (tz_._index, len(tz_._tokens))
                if key not in self._span_seen and len(self._span_seen) < 40:
                    self._span_seen.add(key)
                    tok = tz_.get_last_non_whitespace_token()
                    js = [i for i, t in enumerate(tz_._tokens) if t is tok]
                    ok = js and (res["end_lineno"], res["end_col_offset"]) == tuple(tz_._tokens[js[0]].end) and (res["lineno"], res["col_offset"]) == (lnum, col)
                    req = f"span {tz_._index} " + " ".join(t.type.name for t in tz_._tokens)
                    cases.append((req, str(js[0]) if ok else "span-does-not-take-that-token's-end", src))
            except Exception:  # noqa: BLE001
                pass
            return res

        def _ds_add(self, req, node, holes):
            try:
                d = _ds_dump(node, holes)
                cases.append((req, d, src))
            except Exception:  # noqa: BLE001
                pass

        def expand_env_name(self, name, ctx=None, **locs):
            res = super().expand_env_name(name, ctx, **locs)
            self._ds_add(f"desugar envname {enc_str(name.string)} {type(res.ctx).__name__} {_ds_locs(locs)}", res, [])
            return res

        def expand_env_expr(self, slices, ctx=None, **locs):
            res = super().expand_env_expr(slices, ctx, **locs)
            self._ds_add(f"desugar envexpr {type(res.ctx).__name__} {_ds_locs(locs)}", res, [slices])
            return res

        def handle_proc(self, method, args, **locs):
            res = super().handle_proc(method, args, **locs)
            self._ds_add(f"desugar proc {method} {len(args)} {_ds_locs(locs)}", res, list(args))
            return res

        def proc_inject(self, args, **locs):
            res = super().proc_inject(args, **locs)
            self._ds_add(f"desugar inject {len(args)} {_ds_locs(locs)}", res, list(args))
            return res

        def proc_pyexpr(self, expr, **locs):
            res = super().proc_pyexpr(expr, **locs)
            self._ds_add(f"desugar pyexpr {_ds_locs(locs)}", res, [expr])
            return res

        def expand_search_path(self, a, **locs):
            res = super().expand_search_path(a, **locs)
            self._ds_add(f"desugar search {enc_str(a.string)} {_ds_locs(locs)}", res, [])
            return res

        def macro_call(self, a, b, **locs):
            res = super().macro_call(a, b, **locs)
            ps = " ".join(f"{enc_str(p_.string)}@{p_.start[0]}:{p_.start[1]}-{p_.end[0]}:{p_.end[1]}" for p_ in b)
            self._ds_add(f"desugar macrocall {_ds_locs(locs)} {ps}".rstrip(), res, [a])
            return res

        def handle_with_macro_stmt(self, a, b, **locs):
            ctx0 = a.context_expr
            res = super().handle_with_macro_stmt(a, b, **locs)
            self._ds_add(f"desugar entermacro {_ds_locs(locs)} {enc_str(b.string)} {b.start[0]}:{b.start[1]}-{b.end[0]}:{b.end[1]}", a.context_expr, [ctx0])
            return res

        def expand_help(self, atoms, **locs):
            try:
                parts = []
                for atom, tok in atoms:
                    idn = atom.id if isinstance(atom, _ast.Name) else "-"
                    parts.append(f"{atom.lineno}:{atom.col_offset}-{atom.end_lineno}:{atom.end_col_offset};{idn};{1 if tok.string == '??' else 0};{tok.end[0]}:{tok.end[1]}")
                req = "desugar help " + " ".join(parts)
            except Exception:  # noqa: BLE001
                req = None
            try:
                res = super().expand_help(atoms, **locs)
            except SyntaxError:
                if req:
                    cases.append((req, "error", src))
                raise
            if req and res is not None and all(ch.isascii() for ch in req):
                self._ds_add(req, res, [a_ for a_, _t in atoms])
            return res

        def proc_macro_arg(self, a, **locs):
            res = super().proc_macro_arg(a, **locs)
            try:
                strs = [(t.string if isinstance(t, TokenInfo) else t) for t in a]
                if all(isinstance(x, str) for x in strs):
                    na = sorted({c for x in strs for c in x if ord(c) > 127 and c.isspace()})
                    sc = ",".join(str(ord(c)) for c in na) or "-"
                    req = "procmacro " + sc + " " + " ".join(enc_str(x) if x else "-" for x in strs)
                    if not any(x == "" for x in strs):
                        cases.append((req.rstrip(), enc_str(res.value), src))
            except Exception:  # noqa: BLE001
                pass
            return res

        def make_arguments(self, pos_only, pos_only_with_default, param_no_default, param_default, after_star):
            res = super().make_arguments(pos_only, pos_only_with_default, param_no_default, param_default, after_star)
            ids = {}

            def pid(x):
                return ids.setdefault(id(x), len(ids))

            def pairs(lst):
                if lst is None:
                    return "N"
                if not lst:
                    return "L"
                return "L" + ",".join(f"{pid(p)}:{'-' if d is None else pid(d)}" for p, d in lst)

            def plain(lst):
                if lst is None:
                    return "N"
                if not lst:
                    return "L"
                return "L" + ",".join(str(pid(p)) for p in lst)

            try:
                a = pairs(pos_only)
                b = pairs(pos_only_with_default)
                c = plain(param_no_default)
                d = pairs(param_default)
                if after_star:
                    va, kws, kwa = after_star
                    req = f"makeargs {a} {b} {c} {d} {'-' if va is None else pid(va)} {pairs(kws)} {'-' if kwa is None else pid(kwa)} 1"
                else:
                    req = f"makeargs {a} {b} {c} {d} - L - 0"
                l = lambda xs: ",".join(str(pid(x)) for x in xs)  # noqa: E731
                o = lambda x: "-" if x is None else str(pid(x))  # noqa: E731
                exp = f"posonly=[{l(res.posonlyargs)}] args=[{l(res.args)}] defaults=[{l(res.defaults)}] vararg={o(res.vararg)} kwonly=[{l(res.kwonlyargs)}] kwdefaults=[{','.join(o(x) for x in res.kw_defaults)}] kwarg={o(res.kwarg)}"
                cases.append((req, exp, src))
            except Exception:  # noqa: BLE001
                pass
            return res

        def _build_syntax_error(self, message, start=None, end=None):
            e = super()._build_syntax_error(message, start, end)
            if start is not None and end is not None:
                try:
                    lines = self._tokenizer.get_lines(list(range(start[0], end[0] + 1)))
                    tab = " ".join(f"{start[0] + i}={enc_str(ln)}" for i, ln in enumerate(lines))
                    req = f"builderr {start[0]} {start[1]} {end[0]} {end[1]} {tab}".rstrip()
                    exp = f"lineno={e.lineno} offset={e.offset} end_lineno={e.end_lineno} end_offset={e.end_offset} text={enc_str(e.text or '')}"
                    cases.append((req, exp, src))
                except Exception:  # noqa: BLE001
                    pass
            return e

    try:
        P._span_seen = set()
        tz = T(Log(generate_tokens(io.StringIO(src).readline)))
        tz._lines = dict(enumerate(io.StringIO(src).readlines(), 1))
        P(tz).parse("file" if mode == "exec" else "eval")
    except BaseException:  # noqa: BLE001
        pass
    return cases


def helper_cases(srcs):
    out = []
    for r in _pooled("_helper_cases", [(s,) for s in srcs]):
        if isinstance(r, list):
            out.extend(tuple(x) for x in r)
    return out


def run_helper_correspondence(rep, cases, kinds=("macro", "withmacro", "makeargs", "builderr", "span", "concat", "procmacro", "desugar")):
    by = {}
    for c in cases:
        k = c[0].split(" ", 1)[0]
        if k in kinds:
            by.setdefault(k, []).append(c)
    bad_all = []
    for k, cs in sorted(by.items()):
        bad_all += run_correspondence(rep, {"macro": "consume_macro_params", "withmacro": "consume_with_macro_params", "makeargs": "make_arguments", "builderr": "_build_syntax_error", "span": "span", "concat": "concatenate_strings", "procmacro": "proc_macro_arg", "desugar": "xonsh builders"}[k], cs)
    return bad_all


# ---------------------------------------------------------------- text -> outcome pipeline
def _pipeline_case(src, mode="exec"):
    if "!" in src.replace("!=", ""):
        return None
    if any(0xD800 <= ord(c) <= 0xDFFF for c in src):
        return None  # a lone surrogate: what happens is the codec's doing (a SyntaxError built from UnicodeEncodeError), not in the model
    from harness import impl

    o = impl.parse(src, mode)
    na = sorted({c for c in src if ord(c) > 127})
    wc = ",".join(str(ord(c)) for c in na if c.isalnum()) or "-"
    sc = ",".join(str(ord(c)) for c in na if c.isspace()) or "-"
    req = f"pipeline {'file' if mode == 'exec' else 'eval'} 3000000 {wc} {sc} {enc_str(src)}"
    if " " in enc_str(src):
        return None
    return (req, {k: o.get(k) for k in ("k", "cls", "msg", "lineno", "offset")}, src)


def pipeline_cases(srcs, mode="exec"):
    res = _pooled("_pipeline_case", [(s, mode) for s in srcs], timeout=30)
    return [tuple(r) for r in res if isinstance(r, (tuple, list))]


def run_pipeline_correspondence(rep, cases, name="pipeline (text -> outcome)"):
    """End to end: tokenizer model + token source + recogniser IR vs parse_string: the OUTCOME CLASS must agree."""
    if not DRIVER.exists():
        rep.obligation(f"corr:{name}", False, "driver not built")
        return []
    answers = Driver().ask_many([c[0] for c in cases])
    bad = []
    stats = {}
    for (req, obs, src), ans in zip(cases, answers):
        head = ans.split(" ")[0]
        k = obs["k"]
        ok = None
        if head == "undecided" or k in ("exc", "hang", "crash"):
            stats["skipped"] = stats.get("skipped", 0) + 1
            continue
        if head == "tree":
            ok = k == "tree"
        elif head == "invalid":
            ok = k == "err" and obs.get("msg") == "invalid syntax"
        elif head == "raised":
            ok = k == "err"
        elif head == "tokenizer-error":
            if "IndentationError" in ans:
                ok = k == "err" and obs.get("cls") == "IndentationError"
            else:
                ok = k == "tokerr" and (obs.get("msg") or "").split(":")[0] in ans
        else:
            ok = False
        if "assumed=true" in ans and k == "err" and head in ("tree", "invalid", "tokenizer-error"):
            ok = None  # a helper (literal evaluation, version gate) raised: outside the recogniser's knowledge
            stats["skipped"] = stats.get("skipped", 0) + 1
            continue
        if ok:
            stats[head] = stats.get(head, 0) + 1
        else:
            bad.append({"source": src, "implementation": obs, "model": ans[:200]})
    rep.extra.setdefault("correspondence", {})[name] = {"requests": len(cases), "disagreements": len(bad), **stats}
    rep.obligation(f"corr:{name} (outcome class of the whole pipeline equal on {len(cases)} texts)", not bad, str(bad[:2])[:600] if bad else "")
    return bad


# ---------------------------------------------------------------- get_lines (C12)
def _getlines_case(src: str, nums_lists):
    """Both modes of the REAL Tokenizer.get_lines on the same content: [(request line, expected answer)]."""
    import io
    import tempfile

    from peg_parser.tokenizer import Tokenizer

    lines = io.StringIO(src).readlines()
    out = []
    fd, tmp = tempfile.mkstemp(suffix=".xsh", prefix="xv_gl_")
    try:
        with os.fdopen(fd, "w", encoding="utf-8", newline="") as fh:
            fh.write(src)
        for nums in nums_lists:
            tf = Tokenizer(iter(()), path=tmp)
            ts = Tokenizer(iter(()))
            ts._lines = dict(enumerate(io.StringIO(src).readlines(), 1))  # what parse_string does before parsing
            for mode, t in (("file", tf), ("string", ts)):
                try:
                    got = ";".join(enc_str(x) for x in t.get_lines(list(nums)))
                except Exception as e:  # noqa: BLE001
                    got = f"raised {type(e).__name__}"
                req = f"getlines {mode} {':'.join(str(n) for n in nums) or '-'} " + " ".join(enc_str(ln) for ln in lines)
                out.append((req.rstrip(), got))
    finally:
        try:
            os.unlink(tmp)
        except OSError:
            pass
    return out


def run_getlines_correspondence(rep, srcs, rng_):
    """`Tokenizer.get_lines` in file mode and in string mode vs the Lean model of both (theorem getLines_file_eq_string
    is about the model): the returned texts must be equal for every request."""
    if not DRIVER.exists():
        rep.obligation("corr:get_lines", False, "driver not built")
        return []
    args = []
    for s in srcs:
        if not s or "\r" in s:
            continue
        n = s.count("\n") + 1
        lists = [list(range(a, b + 1)) for a, b in [(1, 1), (1, min(n, 3)), (max(1, n - 1), n), (n, n + 1), (2, 2)]]
        lists += [[0], [n + 2], [1, 1], [min(2, n), 1], [rng_.randint(0, n + 1) for _ in range(rng_.randint(1, 4))], []]
        args.append((s, lists))
    res = _pooled("_getlines_case", args, timeout=30)
    cases = [c for r in res if isinstance(r, list) for c in r]
    answers = Driver().ask_many([c[0] for c in cases])
    bad = [{"request": c[0][:200], "implementation": c[1][:200], "model": a[:200]} for c, a in zip(cases, answers) if c[1] != a]
    rep.extra.setdefault("correspondence", {})["get_lines"] = {"requests": len(cases), "disagreements": len(bad)}
    rep.obligation(f"corr:get_lines (file mode and string mode of Tokenizer.get_lines equal to the model on {len(cases)} requests)", not bad, str(bad[:2])[:600] if bad else "")
    return bad
