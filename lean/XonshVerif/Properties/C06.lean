/-
  C06 — subprocess arguments follow source word boundaries.
  Property statements only; lemmas live in Proofs/ProcArgs.lean.
-/
import XonshVerif.Proofs.ProcArgs
import XonshVerif.Proofs.ProcLayout
namespace XV

/-- **procArgs_groups.**  `proc_args` returns exactly one expression per run of pieces written
    without a gap, in order. -/
theorem procArgs_groups (ps : List Piece) : procArgs ps = (runs ps).filterMap glueRun :=
  procArgs_none_len ps.length ps (Nat.le_refl _)

/-- The runs partition the piece list in order: nothing dropped, duplicated or reordered. -/
theorem runs_flatten (ps : List Piece) : (runs ps).flatten = ps := by
  induction h : ps.length using Nat.strongRecOn generalizing ps with
  | _ n ih =>
    cases ps with
    | nil => simp [runs]
    | cons p ps =>
      rw [runs_cons]
      have hl := takeRun_length p.stop ps
      have := ih (takeRun p.stop ps).2.length (by simp at h; omega) (takeRun p.stop ps).2 rfl
      simp [this, takeRun_append]

/-- No run is empty (so `filterMap glueRun` drops nothing). -/
theorem runs_nonempty (ps : List Piece) : ∀ r ∈ runs ps, r ≠ [] := by
  induction h : ps.length using Nat.strongRecOn generalizing ps with
  | _ n ih =>
    cases ps with
    | nil => simp [runs]
    | cons p ps =>
      rw [runs_cons]
      intro r hr
      simp at hr
      rcases hr with rfl | hr
      · simp
      · have hl := takeRun_length p.stop ps
        exact ih (takeRun p.stop ps).2.length (by simp at h; omega) (takeRun p.stop ps).2 rfl r hr

/-- As many arguments as runs. -/
theorem procArgs_length (ps : List Piece) : (procArgs ps).length = (runs ps).length := by
  rw [procArgs_groups]
  have hne := runs_nonempty ps
  generalize runs ps = rs at hne
  induction rs with
  | nil => simp
  | cons r rs ih =>
    cases r with
    | nil => exact absurd rfl (hne [] (by simp))
    | cons p ps' =>
      simp only [List.filterMap_cons, glueRun, List.length_cons]
      exact congrArg (· + 1) (ih (fun r hr => hne r (by simp [hr])))

/-- **glue_span.** The expression built for a run starts where its first piece starts and ends where its
    last piece ends. -/
theorem glue_span (p : Piece) (ps : List Piece) :
    (glue p ps).start = p.start ∧ (glue p ps).stop = ((p :: ps).getLast (by simp)).stop := by
  constructor
  · simp [glue, foldl_append_start]
  · cases ps with
    | nil => simp [glue]
    | cons q qs =>
      have := foldl_append_stop p.toArg q qs
      simpa [glue, List.getLast_cons] using this

/-- **glue_words.** A run of plain tokens becomes ONE string constant whose value is the
    concatenation of the token strings (verbatim) and whose span is (first.start, last.end). -/
theorem glue_words (s : List Nat) (a b : Pos) (ps : List Piece) (ss : List (List Nat))
    (h : tokStrs ps = some ss) :
    glue (.tok s a b) ps = .const (s ++ ss.flatten) a (((Piece.tok s a b) :: ps).getLast (by simp)).stop := by
  obtain ⟨e, he⟩ := foldl_tokens s a b ps ss h
  have hsp := (glue_span (.tok s a b) ps).2
  simp only [glue, Piece.toArg] at he hsp ⊢
  rw [he] at hsp ⊢
  simp [Arg.stop] at hsp
  rw [hsp]

/-- **words_are_source_words.**  Take any command text laid out as words, each word being one or
    more tokens written without a gap, and every word after the first preceded by at least one blank
    (`cmdToks` computes the token coordinates from that layout).  Then `proc_args` returns exactly one
    string constant per word, in order, whose value is the word's text (the concatenation of its tokens):
    arguments are split at the whitespace of the source and nowhere else. -/
theorem words_are_source_words (ln c : Nat) (ws : List (Nat × List (List Nat)))
    (hgap : ∀ w ∈ ws.tail, 1 ≤ w.1) (hne : ∀ w ∈ ws, w.2 ≠ []) :
    (procArgs (cmdToks ln c ws)).map Arg.val? = ws.map (fun w => some w.2.flatten) :=
  procArgs_cmd ln c ws hgap hne

/-- Non-vacuity: `ls -l  a.b` (tokens `ls`, `-`,`l`, `a`,`.`,`b`) gives three arguments `ls`, `-l`, `a.b`. -/
example :
    procArgs [.tok (cps "ls") ⟨1,2⟩ ⟨1,4⟩, .tok (cps "-") ⟨1,5⟩ ⟨1,6⟩, .tok (cps "l") ⟨1,6⟩ ⟨1,7⟩,
              .tok (cps "a") ⟨1,9⟩ ⟨1,10⟩, .tok (cps ".") ⟨1,10⟩ ⟨1,11⟩, .tok (cps "b") ⟨1,11⟩ ⟨1,12⟩]
      = [.const (cps "ls") ⟨1,2⟩ ⟨1,4⟩, .const (cps "-l") ⟨1,5⟩ ⟨1,7⟩, .const (cps "a.b") ⟨1,9⟩ ⟨1,12⟩] := by
  rfl

end XV
