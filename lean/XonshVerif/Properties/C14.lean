/-
  C14 — statements tokenize independently.  Property statements only.
-/
import XonshVerif.Proofs.TokCompose
namespace XV.Tz
open XV XV.Rx

/-- what the tokens and the error of a text `B` become when `B` is read after `n` other lines -/
def after (n : Nat) (pre : List Tok5) : Except (Err × List Tok5) (List Tok5) → Except (Err × List Tok5) (List Tok5) :=
  emap (fun r => (shErr n r.1, pre ++ r.2.map (shTok n))) (fun ts => pre ++ ts.map (shTok n))

/-- **tokens_after_neutral_prefix (compositionality of the tokenizer).**  Let the lines `LA` be read
    from the initial state without error and leave the tokenizer in a neutral state (no open bracket,
    string, continuation or indentation), the last of them ending in a line break.  Then for EVERY
    continuation `LB` the tokenizer's result on `LA ++ LB` is its result on `LB` alone with every line
    coordinate (tokens and error position) moved down by the number of lines of `LA`, after the tokens of
    `LA`: nothing else of `LA` is remembered. -/
theorem tokens_after_neutral_prefix (E : Env) (P : Pats) (LA LB : List (List Nat)) (fuel : Nat)
    (sA : TState) (accA : List Tok5)
    (hrun : runLines E P LA TState.init [] = .ok (some (sA, accA)))
    (hn : Neutral sA) (hl : EndsInNewline sA.line.toList) :
    tokenizeLines E P (fuel + LA.length) (LA ++ LB) TState.init [] =
      after sA.lnum accA (tokenizeLines E P fuel LB TState.init []) := by
  rw [tokenizeLines_append E P LB fuel LA _ _ sA accA hrun, tokenizeLines_neutral E P fuel LB sA accA hn hl]
  have h1 := tokenizeLines_prefix E P accA fuel LB (shSt sA.lnum TState.init) []
  have h2 := tokenizeLines_sh sA.lnum E P fuel LB TState.init []
  simp only [List.append_nil, List.map_nil] at h1 h2
  rw [h1, h2]
  unfold after
  cases tokenizeLines E P fuel LB TState.init [] with
  | error e => rfl
  | ok ts => rfl

/-- the line counter in that statement is the number of lines read, and the state holds the last of them:
    the side condition `EndsInNewline` is a condition on the TEXT of `LA` -/
theorem neutral_prefix_lines (E : Env) (P : Pats) (hP : PseudoProgress P) (LA : List (List Nat))
    (sA : TState) (accA : List Tok5) (hrun : runLines E P LA TState.init [] = .ok (some (sA, accA))) :
    sA.lnum = LA.length ∧ sA.line = (LA.getLast?.map List.toArray).getD #[] := by
  have := runLines_keeps E P hP LA TState.init [] sA accA hrun
  simpa [TState.init] using this

/-- `splitLines` of a concatenation whose first part ends in a line feed -/
theorem splitLines_append (A B : List Nat) (hA : A.getLast? = some 10) :
    ∀ cur, splitLines (A ++ B) cur = splitLines A cur ++ splitLines B [] := by
  induction A with
  | nil => simp at hA
  | cons c cs ih =>
    intro cur
    have e1 : ∀ (X cur : List Nat), splitLines (c :: X) cur =
        if c = 10 then (c :: cur).reverse :: splitLines X [] else splitLines X (c :: cur) := fun _ _ => rfl
    rw [List.cons_append, e1, e1]
    cases cs with
    | nil =>
      simp only [List.getLast?_singleton, Option.some.injEq] at hA
      subst hA
      simp only [if_true, List.nil_append]
      rfl
    | cons d ds =>
      have hA' : (d :: ds).getLast? = some 10 := by rw [List.getLast?_cons_cons] at hA; exact hA
      rw [ih hA' [], ih hA' (c :: cur)]
      split <;> rfl

/-- **tokenize_append.**  The same at the level of texts: if `A` ends in a line feed and reading it leaves the
    tokenizer neutral, then `tokenize (A ++ B)` is the tokens of `A`'s lines followed by `tokenize B` moved down by the
    number of lines of `A` (tokens and error alike). -/
theorem tokenize_append (E : Env) (P : Pats) (A B : List Nat) (hA : A.getLast? = some 10)
    (sA : TState) (accA : List Tok5)
    (hrun : runLines E P (splitLines A []) TState.init [] = .ok (some (sA, accA)))
    (hn : Neutral sA) (hl : EndsInNewline sA.line.toList) :
    tokenizeLines E P ((splitLines (A ++ B) []).length + 2) (splitLines (A ++ B) []) TState.init [] =
      after sA.lnum accA (tokenizeLines E P ((splitLines B []).length + 2) (splitLines B []) TState.init []) := by
  rw [splitLines_append A B hA []]
  have hf : (splitLines A [] ++ splitLines B []).length + 2 = ((splitLines B []).length + 2) + (splitLines A []).length := by
    simp only [List.length_append]; omega
  rw [hf]
  exact tokens_after_neutral_prefix E P _ _ _ sA accA hrun hn hl

/-- Non-vacuity: a two-branch pattern set, the text "a\n": reading it leaves the tokenizer neutral with the last line
    ending in a line feed, so the theorem applies to every continuation. -/
def tinyPats : Pats :=
  { pseudo := [("Name", .plus true (.set false [.word])), ("NL", .chr 10)], endpats := [], startLBrace := [], endRBrace := .eps, tabsize := 8 }
def tinyEnv : Env := { wordChars := [], spaceChars := [] }

example : ∃ sA accA, runLines tinyEnv tinyPats (splitLines [97, 10] []) TState.init [] = .ok (some (sA, accA)) ∧
    sA.parenlev = 0 ∧ sA.continued = false ∧ sA.indents = [0] ∧ sA.endProgs = [] ∧ sA.line.toList.getLast? = some 10 ∧
    accA.map (·.ty) = [.NAME, .NEWLINE] := by
  refine ⟨_, _, rfl, ?_⟩
  decide +kernel

end XV.Tz
