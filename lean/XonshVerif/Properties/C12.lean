/-
  C12 — error text is the same in both entry points.
-/
import XonshVerif.Model.Lines
import Mathlib.Data.List.Perm.Subperm
import Mathlib.Data.List.Range
namespace XV.Lines

/-- requested line numbers among the first `c` lines -/
def keysUpTo (nums : List Nat) (c : Nat) : List Nat := (List.range' 1 c).filter nums.contains

def tableUpTo (nums : List Nat) (ls : List (List Nat)) (c : Nat) : List (Nat × List Nat) :=
  (keysUpTo nums c).map (fun k => (k, (ls[k - 1]?).getD []))

theorem keysUpTo_succ (nums : List Nat) (c : Nat) :
    keysUpTo nums (c + 1) = keysUpTo nums c ++ (if nums.contains (c + 1) then [c + 1] else []) := by
  unfold keysUpTo
  rw [List.range'_concat, List.filter_append]
  simp only [Nat.one_mul, Nat.add_comm 1 c, List.filter_cons, List.filter_nil]

theorem tableUpTo_succ (nums : List Nat) (ls : List (List Nat)) (c : Nat) :
    tableUpTo nums ls (c + 1) = tableUpTo nums ls c ++ (if nums.contains (c + 1) then [(c + 1, (ls[c]?).getD [])] else []) := by
  unfold tableUpTo
  rw [keysUpTo_succ, List.map_append]
  split <;> simp

/-- what the scan returns: the table of the requested lines among the first `c'` lines, where either the whole file
    was read or all `n` requested lines were seen -/
theorem scanFile_spec (nums : List Nat) (n : Nat) (ls : List (List Nat)) :
    ∀ (rest : List (List Nat)) (count seen : Nat) (acc : List (Nat × List Nat)),
      count + rest.length = ls.length → rest = ls.drop count →
      acc = tableUpTo nums ls count → seen = (keysUpTo nums count).length →
      ∃ c', c' ≤ ls.length ∧ scanFile nums n rest count seen acc = tableUpTo nums ls c' ∧
        (c' = ls.length ∨ (keysUpTo nums c').length = n) := by
  intro rest
  induction rest with
  | nil =>
    intro count seen acc hlen _ hacc _
    exact ⟨count, by simp at hlen; omega, by simp [scanFile, hacc], Or.inl (by simpa using hlen)⟩
  | cons l rest ih =>
    intro count seen acc hlen hrest hacc hseen
    have hl : ls[count]? = some l := by
      have : (ls.drop count)[0]? = some l := by rw [← hrest]; rfl
      simpa [List.getElem?_drop] using this
    have hrest' : rest = ls.drop (count + 1) := by
      have := congrArg List.tail hrest
      simpa [List.tail_drop] using this
    have hlen' : count + 1 + rest.length = ls.length := by simp at hlen; omega
    simp only [scanFile]
    by_cases hc : nums.contains (count + 1) = true
    · simp only [hc, if_true]
      have hcm : count + 1 ∈ nums := by simpa using hc
      have hacc' : acc ++ [(count + 1, l)] = tableUpTo nums ls (count + 1) := by
        rw [tableUpTo_succ, hacc]; simp [hcm, hl]
      have hseen' : seen + 1 = (keysUpTo nums (count + 1)).length := by
        rw [keysUpTo_succ, hseen]; simp [hcm]
      by_cases hn : seen + 1 = n
      · simp only [hn, if_true]
        exact ⟨count + 1, by omega, hacc', Or.inr (by rw [← hseen', hn])⟩
      · simp only [hn, if_false]
        exact ih (count + 1) (seen + 1) _ hlen' hrest' hacc' hseen'
    · simp only [hc, Bool.false_eq_true, if_false]
      have hcm : count + 1 ∉ nums := by simpa using hc
      have hacc' : acc = tableUpTo nums ls (count + 1) := by
        rw [tableUpTo_succ, hacc]; simp [hcm]
      have hseen' : seen = (keysUpTo nums (count + 1)).length := by
        rw [keysUpTo_succ, hseen]; simp [hcm]
      exact ih (count + 1) seen acc hlen' hrest' hacc' hseen'

theorem keysUpTo_nodup (nums : List Nat) (c : Nat) : (keysUpTo nums c).Nodup :=
  (List.nodup_range' (s := 1) (n := c) (step := 1) (by omega)).sublist (List.filter_sublist)

theorem mem_keysUpTo (nums : List Nat) (c k : Nat) : k ∈ keysUpTo nums c ↔ (1 ≤ k ∧ k ≤ c) ∧ k ∈ nums := by
  unfold keysUpTo
  simp only [List.mem_filter, List.mem_range'_1, List.contains_eq_mem, decide_eq_true_eq]
  constructor
  · rintro ⟨⟨h1, h2⟩, h3⟩; exact ⟨⟨h1, by omega⟩, h3⟩
  · rintro ⟨⟨h1, h2⟩, h3⟩; exact ⟨⟨h1, by omega⟩, h3⟩

theorem lookup_tableUpTo (nums : List Nat) (ls : List (List Nat)) (c k : Nat) :
    lookup (tableUpTo nums ls c) k = if k ∈ keysUpTo nums c then (ls[k - 1]?).getD [] else [] := by
  unfold lookup tableUpTo
  induction keysUpTo nums c with
  | nil => simp
  | cons x xs ih =>
    simp only [List.map_cons, List.find?_cons]
    by_cases hx : x = k
    · subst hx; simp
    · have : decide (x = k) = false := by simp [hx]
      simp only [this]
      rw [ih]
      have : k ≠ x := fun h => hx h.symm
      simp [List.mem_cons, this]

/-- **getLines_file_eq_string.**  For every file content and every list of requested line numbers, re-reading the
    file (with the early exit once all requested lines were seen) finds exactly the texts the line table of string
    mode holds: the `text` of a SyntaxError is the same in both entry points. -/
theorem getLines_file_eq_string (ls : List (List Nat)) (nums : List Nat) :
    getLinesFile ls nums = getLinesString ls nums := by
  unfold getLinesFile getLinesString
  obtain ⟨c', hc', hT, hdone⟩ := scanFile_spec nums nums.length ls ls 0 0 [] (by simp) (by simp) (by simp [tableUpTo, keysUpTo]) (by simp [keysUpTo])
  rw [hT]
  apply List.map_congr_left
  intro k hk
  rw [lookup_tableUpTo]
  by_cases hmem : k ∈ keysUpTo nums c'
  · have := (mem_keysUpTo nums c' k).mp hmem
    have hk0 : k ≠ 0 := by omega
    simp [hmem, hk0]
  · simp only [hmem, if_false]
    -- not found: either k = 0, or beyond the end of the file; the early exit cannot have skipped it
    by_cases hk0 : k = 0
    · simp [hk0]
    · simp only [hk0, if_false]
      have hgt : ls.length < k := by
        rcases hdone with hfull | hall
        · by_contra hle
          exact hmem ((mem_keysUpTo nums c' k).mpr ⟨⟨by omega, by omega⟩, hk⟩)
        · -- all requested numbers were seen: the keys are a duplicate-free sub-collection of nums of the same length
          have hsub : keysUpTo nums c' ⊆ nums := fun x hx => ((mem_keysUpTo nums c' x).mp hx).2
          have hperm := ((keysUpTo_nodup nums c').subperm hsub).perm_of_length_le (by omega)
          exact absurd (hperm.mem_iff.mpr hk) hmem
      have : ls[k - 1]? = none := by
        rw [List.getElem?_eq_none_iff]; omega
      simp [this]

/-- Non-vacuity: three lines, the early exit is taken (lines 1 and 2 requested) and the answers agree. -/
example : getLinesFile [[97, 10], [98, 10], [99]] [1, 2] = [[97, 10], [98, 10]] := by decide
example : getLinesFile [[97, 10], [98, 10], [99]] [0, 3, 7, 3] = [[], [99], [], [99]] := by decide

end XV.Lines
