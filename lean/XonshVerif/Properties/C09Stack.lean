/-
  C09 - the indentation stack follows the language reference: it is strictly increasing from 0; a line whose column is
  larger than the top pushes it (one INDENT), a smaller column pops down to an ENCLOSING column that must be on the stack
  (one DEDENT per popped entry, IndentationError otherwise); afterwards the top of the stack IS the line's column.
-/
import XonshVerif.Model.Tokenize
namespace XV.Tz
open XV

/-- the indentation stack is strictly increasing, bottom first -/
def IndOK (ind : List Nat) : Prop := ind ≠ [] ∧ ind.Pairwise (· < ·)

theorem IndOK.init : IndOK TState.init.indents := ⟨by simp [TState.init], by simp [TState.init]⟩

theorem pairwise_snoc {l : List Nat} {c : Nat} (h : l.Pairwise (· < ·)) (hc : ∀ x ∈ l, x < c) : (l ++ [c]).Pairwise (· < ·) := by
  rw [List.pairwise_append]
  exact ⟨h, by simp, by intro a ha b hb; simp at hb; subst hb; exact hc a ha⟩

theorem le_getLast_of_increasing {l : List Nat} (h : l.Pairwise (· < ·)) (top : Nat) (ht : l.getLast? = some top) : ∀ x ∈ l, x ≤ top := by
  intro x hx
  have hne : l ≠ [] := by intro hc; rw [hc] at ht; simp at ht
  have hcat := List.dropLast_concat_getLast hne
  have hl : l.getLast hne = top := by rw [List.getLast?_eq_some_getLast hne] at ht; injection ht
  rw [← hcat, List.pairwise_append] at h
  rw [← hcat] at hx
  rcases List.mem_append.mp hx with h1 | h1
  · have := h.2.2 x h1 (l.getLast hne) (by simp)
    omega
  · simp at h1; omega

/-- the `while column < indents[-1]` loop: on success the stack is still increasing, `column` is on it when it was before
    or when nothing was popped ..., and its top is at most `column`; every step pops one entry and emits one DEDENT -/
theorem dedents_stack (col lnum pos : Nat) (line : List Nat) : ∀ (fuel : Nat) (ind : List Nat) (acc : List Tok5) (ind' : List Nat) (acc' : List Tok5),
    ind.Pairwise (· < ·) → ind.length < fuel →
    dedents col lnum pos line fuel ind acc = .ok (ind', acc') →
    ind'.Pairwise (· < ·) ∧ (∀ top, ind'.getLast? = some top → top ≤ col) ∧
    (ind' = ind ∨ col ∈ ind') ∧ acc'.length + ind'.length = acc.length + ind.length ∧ (ind ≠ [] → ind' ≠ [] ∨ col ∈ ind') := by
  intro fuel
  induction fuel with
  | zero => intro ind acc ind' acc' _ hf; omega
  | succ fuel ih =>
    intro ind acc ind' acc' hp hf h
    simp only [dedents] at h
    split at h
    · rename_i hnone
      injection h with h; injection h with h1 h2; subst h1; subst h2
      exact ⟨hp, (by intro top ht; rw [hnone] at ht; cases ht), Or.inl rfl, rfl, fun hne => Or.inl hne⟩
    · rename_i top htop
      split at h
      · rename_i hlt
        split at h
        · cases h
        · rename_i hcont
          have hmem : col ∈ ind := by simpa using hcont
          have hne : ind ≠ [] := by intro hc; rw [hc] at htop; simp at htop
          have hcat := List.dropLast_concat_getLast hne
          have hl : ind.getLast hne = top := by rw [List.getLast?_eq_some_getLast hne] at htop; injection htop
          have hp' : ind.dropLast.Pairwise (· < ·) := by
            rw [← hcat, List.pairwise_append] at hp; exact hp.1
          have hmem' : col ∈ ind.dropLast := by
            rw [← hcat] at hmem
            rcases List.mem_append.mp hmem with h1 | h1
            · exact h1
            · simp at h1; omega
          have hlen : ind.dropLast.length + 1 = ind.length := by
            have hpos : 0 < ind.length := List.length_pos_iff.mpr hne
            rw [List.length_dropLast]; omega
          obtain ⟨a, b, c, d, e⟩ := ih ind.dropLast _ ind' acc' hp' (by omega) h
          refine ⟨a, b, Or.inr ?_, by simp at d ⊢; omega, fun _ => ?_⟩
          · rcases c with c | c
            · rw [c]; exact hmem'
            · exact c
          · rcases c with c | c
            · right; rw [c]; exact hmem'
            · exact Or.inr c
      · rename_i hge
        injection h with h; injection h with h1 h2; subst h1; subst h2
        refine ⟨hp, ?_, Or.inl rfl, rfl, fun hne => Or.inl hne⟩
        intro t ht; rw [htop] at ht; injection ht with ht; omega

/-- **indentation_stack_follows_the_reference.**  If `next_statement` lets the line through (`proceed`) from a strictly
    increasing stack, the new stack is strictly increasing, its top is exactly the line's column (as `measureIndent`
    computes it), and the tokens it emitted are one INDENT when the column grew or one DEDENT per popped entry. -/
theorem indentation_stack_follows_the_reference (P : Pats) (st st' : TState) (ts : List Tok5)
    (hok : IndOK st.indents) (h : nextStatement P st = .ok (ts, st', .proceed)) :
    IndOK st'.indents ∧ st'.indents.getLast? = some (measureIndent P.tabsize st.line (st.max + 1) 0 st.pos).1 ∧
    ts.length + st'.indents.length = st.indents.length + (if (measureIndent P.tabsize st.line (st.max + 1) 0 st.pos).1 > st.indents.getLast?.getD 0 then 2 else 0) := by
  obtain ⟨hne, hp⟩ := hok
  unfold nextStatement at h
  split at h
  · injection h with h; injection h with _ h; injection h with _ h3; cases h3
  · simp only [] at h
    split at h
    · injection h with h; injection h with _ h; injection h with _ h3; cases h3
    · split at h
      · split at h <;> (injection h with h; injection h with _ h; injection h with _ h3; cases h3)
      · split at h
        · cases h
        · rename_i ind2 toks2 hd
          injection h with h; injection h with h1 h; injection h with h2 h3; subst h1; subst h2
          -- the top before
          have htop : ∃ top, st.indents.getLast? = some top := by
            cases hg : st.indents.getLast? with
            | none => exact absurd (List.getLast?_eq_none_iff.mp hg) hne
            | some t => exact ⟨t, rfl⟩
          obtain ⟨top, htop⟩ := htop
          simp only [htop, Option.getD_some] at hd ⊢
          by_cases hgt : (measureIndent P.tabsize st.line (st.max + 1) 0 st.pos).1 > top
          · -- one INDENT, nothing to pop
            simp only [hgt, if_true] at hd ⊢
            have hp1 : (st.indents ++ [(measureIndent P.tabsize st.line (st.max + 1) 0 st.pos).1]).Pairwise (· < ·) :=
              pairwise_snoc hp (fun x hx => by have := le_getLast_of_increasing hp top htop x hx; omega)
            obtain ⟨a, b, c, d, e⟩ := dedents_stack _ _ _ _ _ _ _ _ _ hp1 (by simp) hd
            -- the loop does not pop: column is the top
            have hnopop : ind2 = st.indents ++ [(measureIndent P.tabsize st.line (st.max + 1) 0 st.pos).1] := by
              simp only [dedents, List.length_append, List.length_singleton] at hd
              simp only [List.getLast?_append, List.getLast?_singleton, Option.some_or] at hd
              simp only [Nat.lt_irrefl, if_false] at hd
              injection hd with hd; injection hd with h1 _; exact h1.symm
            subst hnopop
            refine ⟨⟨by simp, a⟩, by simp, ?_⟩
            simp only [List.length_singleton] at d
            simp at d ⊢; omega
          · simp only [hgt, if_false] at hd ⊢
            obtain ⟨a, b, c, d, e⟩ := dedents_stack _ _ _ _ _ _ _ _ _ hp (by omega) hd
            have hne2 : ind2 ≠ [] ∨ (measureIndent P.tabsize st.line (st.max + 1) 0 st.pos).1 ∈ ind2 := e hne
            have hne2' : ind2 ≠ [] := by
              rcases hne2 with h1 | h1
              · exact h1
              · intro hc; rw [hc] at h1; cases h1
            obtain ⟨t2, ht2⟩ : ∃ t, ind2.getLast? = some t := by
              cases hg : ind2.getLast? with
              | none => exact absurd (List.getLast?_eq_none_iff.mp hg) hne2'
              | some t => exact ⟨t, rfl⟩
            have hle := b t2 ht2
            have hge : (measureIndent P.tabsize st.line (st.max + 1) 0 st.pos).1 ≤ t2 := by
              rcases c with c | c
              · rw [c, htop] at ht2; injection ht2 with ht2; omega
              · exact le_getLast_of_increasing a t2 ht2 _ c
            refine ⟨⟨hne2', a⟩, by rw [ht2]; congr 1; omega, ?_⟩
            simp at d ⊢; omega

/-- Non-vacuity: from the stack [0, 4, 8] the line `    x` (column 4) pops one entry with one DEDENT, the line `  x` (column 2,
    not on the stack) is an IndentationError, the line `            x` (column 12) pushes with one INDENT. -/
def stackPats : Pats := { pseudo := [], endpats := [], startLBrace := [], endRBrace := .eps, tabsize := 8 }
def stackSt (line : List Nat) : TState := { TState.init with indents := [0, 4, 8], lnum := 3, line := line.toArray, max := line.length }
example : (match nextStatement stackPats (stackSt [32, 32, 32, 32, 120]) with | .ok (ts, s, a) => some (ts.map (·.ty), s.indents, a) | .error _ => none) =
    some ([.DEDENT], [0, 4], .proceed) := by decide
example : (match nextStatement stackPats (stackSt [32, 32, 120]) with | .ok _ => none | .error e => some e) = some (.indentationError 3 2) := by decide
example : (match nextStatement stackPats (stackSt ((List.replicate 12 32) ++ [120])) with | .ok (ts, s, a) => some (ts.map (·.ty), s.indents, a) | .error _ => none) =
    some ([.INDENT], [0, 4, 8, 12], .proceed) := by decide

end XV.Tz
