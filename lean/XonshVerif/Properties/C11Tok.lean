/-
  C11 - the hypothesis of `error_wellformed` discharged for every error raised over a range of tokens:
  tokenizer bounds (`token_starts_in_text`) + tokenizer order (`tokens_in_position_order`) + token source (`kept_sublist`)
  + `_build_syntax_error` (`error_wellformed`).
-/
import XonshVerif.Properties.C04Span
import XonshVerif.Proofs.TokBounds
import XonshVerif.Model.Helpers
namespace XV.Tz
open XV XV.Rx

/-- **token_starts_in_text.**  On every text the tokenizer finishes on, every token starts on a line of the text (or on
    the line right after the last one) at a column no larger than that line's length. -/
theorem token_starts_in_text (E : Env) (P : Pats) (hP : PseudoProgress P) (src : List Nat) (hfin : (tokenize E P src).err = none) :
    ∀ t ∈ (tokenize E P src).toks, StartOK (splitLines src []) t.start := by
  unfold tokenize at hfin ⊢
  simp only [] at hfin ⊢
  cases h : tokenizeLines E P ((splitLines src []).length + 2) (splitLines src []) TState.init [] with
  | error e => rw [h] at hfin; simp at hfin
  | ok ts =>
    simp only []
    exact tokenizeLines_b (splitLines src []) E P hP _ _ TState.init [] ts (by intro p hp; cases hp) (Or.inl ⟨rfl, rfl⟩)
      (by simp [TState.init]) (TB.nil _) h

/-- **token_range_error_wellformed.**  For every pattern set passing the tokenizer certificates and every text the tokenizer
    finishes on: an error built by `_build_syntax_error` from the start of a token the parser sees to the end of the same or a
    later one - what `raise_syntax_error_known_location / _known_range / _starting_from` do with tokens, and with nodes whose
    spans come from `Parser.span` - has a line number between 1 and one past the last line, a 1-based column at most the
    line's length plus one, an end not before the start, and a text that begins with the source line at the reported line. -/
theorem token_range_error_wellformed (E : Env) (P : Pats) (hP : PseudoProgress P) (hF : FstrLen P) (src : List Nat)
    (hfin : (tokenize E P src).err = none) (i j : Nat) (hij : i ≤ j) (a b : Tok5)
    (ha : (Src.kept E (tokenize E P src).toks)[i]? = some a) (hb : (Src.kept E (tokenize E P src).toks)[j]? = some b) :
    let lines : Nat → List Nat := fun k => (splitLines src [])[k - 1]?.getD []
    let e := Helpers.buildError lines a.start b.stop
    1 ≤ e.lineno ∧ e.lineno ≤ (splitLines src []).length + 1 ∧ 1 ≤ e.offset ∧ e.offset ≤ (lines e.lineno).length + 1 ∧
    (e.lineno < e.endLineno ∨ (e.lineno = e.endLineno ∧ e.offset ≤ e.endOffset)) ∧
    ∃ t, e.text = lines e.lineno ++ t := by
  obtain ⟨hord, hself⟩ := tokens_in_position_order E P hP hF src hfin
  have hsub := Src.kept_sublist E (tokenize E P src).toks
  have hle := Span.start_le_stop_of_le _ (hord.sublist hsub) (fun t ht => hself t (hsub.subset ht)) i j hij a b ha hb
  have hin := token_starts_in_text E P hP src hfin a (hsub.subset (List.mem_of_getElem? ha))
  exact Helpers.error_wellformed _ (splitLines src []).length a.start b.stop hin.1 hin.2.1 hin.2.2 hle

end XV.Tz
