/-
  C01 / C04 (spans): every node span the parser computes is well oriented.  A cross-module statement: tokenizer order
  (C08 `tokens_in_position_order`) + token source (`kept_sublist`: the parser sees a sub-sequence) + `Parser.span`
  (`span_end_is_last_significant_token`).
-/
import XonshVerif.Properties.C08
import XonshVerif.Model.TokenSource
import XonshVerif.Proofs.Span
namespace XV.Span
open XV XV.Tz XV.Rx

/-- in a list whose earlier elements end at or before the start of every later one, an element ends after the start of any
    earlier-or-equal one -/
theorem start_le_stop_of_le (toks : List Tok5) (hord : toks.Pairwise (fun a b => a.stop ≤ b.start))
    (hself : ∀ t ∈ toks, t.start ≤ t.stop) (i j : Nat) (hij : i ≤ j) (a b : Tok5) (ha : toks[i]? = some a) (hb : toks[j]? = some b) :
    a.start ≤ b.stop := by
  rcases Nat.lt_or_ge i j with hlt | hge
  · have hrel : a.stop ≤ b.start := by
      have hi := (List.getElem?_eq_some_iff.mp ha)
      have hj := (List.getElem?_eq_some_iff.mp hb)
      have := List.pairwise_iff_getElem.mp hord i j hi.1 hj.1 hlt
      rw [hi.2, hj.2] at this
      exact this
    have h1 := hself a (List.mem_of_getElem? ha)
    have h2 := hself b (List.mem_of_getElem? hb)
    exact Pos.le_trans' h1 (Pos.le_trans' hrel h2)
  · have : i = j := by omega
    subst this
    rw [ha] at hb; injection hb with hb; subst hb
    exact hself a (List.mem_of_getElem? ha)

/-- **span_well_oriented.**  For every pattern set passing the certificates of `tokens_in_position_order`, every
    environment and every text the tokenizer finishes on: let `toks` be the tokens the parser sees (the token source drops
    comments, blank tokens and NLs: `Src.kept`).  If a rule was entered at token `mark` and, up to the current index, has
    consumed at least one token that is not ENDMARKER / NEWLINE / INDENT / DEDENT, then the span `Parser.span` builds -
    from the start of token `mark` to the end of the last significant token before the index - has its start at or before
    its end. -/
theorem span_well_oriented (E : Env) (P : Pats) (hP : PseudoProgress P) (hF : FstrLen P) (src : List Nat)
    (hfin : (tokenize E P src).err = none) (mark index i : Nat) (t first last : Tok5)
    (hi : mark ≤ i ∧ i < index) (hti : (Src.kept E (tokenize E P src).toks)[i]? = some t) (hsig : structural t.ty = false)
    (hfirst : (Src.kept E (tokenize E P src).toks)[mark]? = some first)
    (hlast : (Src.kept E (tokenize E P src).toks)[lastNonWs ((Src.kept E (tokenize E P src).toks).map (·.ty)).toArray index]? = some last) :
    first.start ≤ last.stop := by
  obtain ⟨hord, hself⟩ := tokens_in_position_order E P hP hF src hfin
  have hsub := Src.kept_sublist E (tokenize E P src).toks
  have hord' := hord.sublist hsub
  have hself' : ∀ t ∈ Src.kept E (tokenize E P src).toks, t.start ≤ t.stop := fun t ht => hself t (hsub.subset ht)
  have hty : (((Src.kept E (tokenize E P src).toks).map (·.ty)).toArray)[i]? = some t.ty := by
    simp [hti]
  obtain ⟨hge, _, _, _⟩ := span_end_is_last_significant_token _ mark index i t.ty hi hty hsig
  exact start_le_stop_of_le _ hord' hself' mark _ hge first last hfirst hlast

end XV.Span
