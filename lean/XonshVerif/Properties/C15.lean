/-
  C15 — verbose is inert (recogniser level).  Property statements only.
-/
import XonshVerif.Proofs.PegVerbose
namespace XV.Peg
variable {prog : Prog}

/-- what `verbose` may change: nothing except the flag itself and the number of `reset` calls -/
def SameButVerbose (a b : St) : Prop :=
  a.pos = b.pos ∧ a.invalid = b.invalid ∧ a.cache = b.cache ∧ a.fetched = b.fetched ∧ a.fired = b.fired ∧
  a.assumed = b.assumed ∧ a.peeks = b.peeks ∧ a.nexts = b.nexts

theorem Sim.same {a b : St} (h : Sim a b) : SameButVerbose a b :=
  ⟨h.pos, h.invalid, h.cache, h.fetched, h.fired, h.assumed, h.peeks, h.nexts⟩

theorem execRule_verbose (w : Array RTok) (fuel id : Nat) (a b : St) (h : Sim a b) (hi : CacheInv prog a) :
    (execRule prog w fuel id a).1 = (execRule prog w fuel id b).1 ∧
    Sim (execRule prog w fuel id a).2 (execRule prog w fuel id b).2 ∧
    CacheInv prog (execRule prog w fuel id a).2 :=
  (vinv w fuel).rule id a b h hi

/-- **verbose_inert.**  For every program, token list, fuel and start rule, `Parser.parse` with
    `verbose=True` and with `verbose=False` produce the same outcome (tree / generic error with the same
    farthest token / specialised raise), the same first-pass result, and states that agree on position, cache
    contents, tokens fetched, alternatives fired, and peek/getnext counts — in the first pass and in the
    diagnostic pass.  Only the number of `reset` calls may differ (the slow path of `memoize_left_rec` does
    not reset on a cached failure, whose end mark is the position it was asked at). -/
theorem parse_verbose (w : Array RTok) (fuel start : Nat) :
    (parse prog w fuel start false).1 = (parse prog w fuel start true).1 ∧
    (parse prog w fuel start false).2.2.2 = (parse prog w fuel start true).2.2.2 ∧
    SameButVerbose (parse prog w fuel start false).2.1 (parse prog w fuel start true).2.1 ∧
    (match (parse prog w fuel start false).2.2.1, (parse prog w fuel start true).2.2.1 with
      | none, none => True
      | some x, some y => SameButVerbose x y
      | _, _ => False) := by
  obtain ⟨h1, h2, h3⟩ := execRule_verbose (prog := prog) w fuel start _ _ (sim_init w.size false)
    (cacheInv_fresh (w.size + 1) _ rfl)
  unfold parse
  simp only []
  rw [h1]
  cases hres : (execRule prog w fuel start (St.init w.size false true)).1 with
  | ok e => exact ⟨rfl, rfl, h2.same, trivial⟩
  | raised => exact ⟨rfl, rfl, h2.same, trivial⟩
  | undecided => exact ⟨rfl, rfl, h2.same, trivial⟩
  | tokErr => exact ⟨rfl, rfl, h2.same, trivial⟩
  | outOfFuel => exact ⟨rfl, rfl, h2.same, trivial⟩
  | fail e =>
    simp only []
    have hs : Sim { ((execRule prog w fuel start (St.init w.size false false)).2.reset 0) with invalid := true, cache := Array.replicate (w.size + 1) [] }
                  { ((execRule prog w fuel start (St.init w.size false true)).2.reset 0) with invalid := true, cache := Array.replicate (w.size + 1) [] } :=
      ⟨rfl, rfl, rfl, h2.fetched, h2.fired, h2.assumed, h2.peeks, h2.nexts, h2.va, h2.vb⟩
    obtain ⟨g1, g2, _⟩ := execRule_verbose (prog := prog) w fuel start _ _ hs (cacheInv_fresh (w.size + 1) _ rfl)
    rw [g1, h2.fetched]
    generalize (execRule prog w fuel start { ((execRule prog w fuel start (St.init w.size false true)).2.reset 0) with invalid := true, cache := Array.replicate (w.size + 1) [] }).1 = r2
    cases r2 <;> exact ⟨rfl, rfl, h2.same, g2.same⟩

/-- Non-vacuity: a left-recursive rule asked twice at a position where it fails.  The second call is a
    cache hit: the fast path resets, the slow path does not — the two runs really take different branches,
    and everything observable is nevertheless equal. -/
def lrProg : Prog := #[
  { deco := .leftrec, body := .alts [
      { items := [{ item := .call (.rule 0), opt := false }, { item := .call (.expect 7), opt := false }], act := .truthy, cut := false },
      { items := [{ item := .call (.expect 5), opt := false }], act := .truthy, cut := false }] false false },
  { deco := .memo, body := .alts [
      { items := [{ item := .call (.rule 0), opt := false }, { item := .call (.expect 8), opt := false }], act := .truthy, cut := false },
      { items := [{ item := .call (.rule 0), opt := false }, { item := .call (.expect 9), opt := false }], act := .truthy, cut := false }] false false }]
def lrW : Array RTok := #[{ ty := .NAME, strId := 3, isKw := false, isSoft := false }]

example : (parse lrProg lrW 30 1 false).2.1.resets ≠ (parse lrProg lrW 30 1 true).2.1.resets := by decide +kernel
example : (parse lrProg lrW 30 1 false).1 = .invalidSyntax 1 := by decide +kernel
example : (parse lrProg lrW 30 1 true).1 = .invalidSyntax 1 := by decide +kernel

end XV.Peg
