/-
  C15 — verbose is inert (recogniser level).  Property statements only.
-/
import XonshVerif.Proofs.PegVerbose
import XonshVerif.Proofs.PegGate
namespace XV.Peg
variable {prog : Prog}

/-- what `verbose` may change: nothing except the flag itself and the number of `reset` calls -/
def SameButVerbose (a b : St) : Prop :=
  a.pos = b.pos ∧ a.invalid = b.invalid ∧ a.cache = b.cache ∧ a.fetched = b.fetched ∧ a.fired = b.fired ∧
  a.assumed = b.assumed ∧ a.peeks = b.peeks ∧ a.nexts = b.nexts

theorem Sim.same {a b : St} (h : Sim a b) : SameButVerbose a b :=
  ⟨h.pos, h.invalid, h.cache, h.fetched, h.fired, h.assumed, h.peeks, h.nexts⟩

theorem execRule_verbose (w : Array RTok) (fuel id : Nat) (a b : St) (h : Sim a b) (hi : CacheInv prog a) :
    (execRule prog w fuel id a).1 = (execRule prog w fuel id b).1 ∧
    Sim (execRule prog w fuel id a).2 (execRule prog w fuel id b).2 ∧
    CacheInv prog (execRule prog w fuel id a).2 :=
  (vinv w fuel).rule id a b h hi

/-- **verbose_inert.**  For every program, token list, fuel and start rule, `Parser.parse` with
    `verbose=True` and with `verbose=False` produce the same outcome (tree / generic error with the same
    farthest token / specialised raise), the same first-pass result, and states that agree on position, cache
    contents, tokens fetched, alternatives fired, and peek/getnext counts — in the first pass and in the
    diagnostic pass.  Only the number of `reset` calls may differ (the slow path of `memoize_left_rec` does
    not reset on a cached failure, whose end mark is the position it was asked at). -/
theorem parse_verbose (w : Array RTok) (fuel start : Nat) :
    (parse prog w fuel start false).1 = (parse prog w fuel start true).1 ∧
    (parse prog w fuel start false).2.2.2 = (parse prog w fuel start true).2.2.2 ∧
    SameButVerbose (parse prog w fuel start false).2.1 (parse prog w fuel start true).2.1 ∧
    (match (parse prog w fuel start false).2.2.1, (parse prog w fuel start true).2.2.1 with
      | none, none => True
      | some x, some y => SameButVerbose x y
      | _, _ => False) := by
  obtain ⟨h1, h2, h3⟩ := execRule_verbose (prog := prog) w fuel start _ _ (sim_init w.size false)
    (cacheInv_fresh (w.size + 1) _ rfl)
  unfold parse
  simp only []
  rw [h1]
  cases hres : (execRule prog w fuel start (St.init w.size false true)).1 with
  | ok e => exact ⟨rfl, rfl, h2.same, trivial⟩
  | raised => exact ⟨rfl, rfl, h2.same, trivial⟩
  | undecided => exact ⟨rfl, rfl, h2.same, trivial⟩
  | tokErr => exact ⟨rfl, rfl, h2.same, trivial⟩
  | outOfFuel => exact ⟨rfl, rfl, h2.same, trivial⟩
  | fail e =>
    simp only []
    have hs : Sim { ((execRule prog w fuel start (St.init w.size false false)).2.reset 0) with invalid := true, cache := Array.replicate (w.size + 1) [] }
                  { ((execRule prog w fuel start (St.init w.size false true)).2.reset 0) with invalid := true, cache := Array.replicate (w.size + 1) [] } :=
      ⟨rfl, rfl, rfl, h2.fetched, h2.fired, h2.assumed, h2.peeks, h2.nexts, h2.va, h2.vb⟩
    obtain ⟨g1, g2, _⟩ := execRule_verbose (prog := prog) w fuel start _ _ hs (cacheInv_fresh (w.size + 1) _ rfl)
    rw [g1, h2.fetched]
    generalize (execRule prog w fuel start { ((execRule prog w fuel start (St.init w.size false true)).2.reset 0) with invalid := true, cache := Array.replicate (w.size + 1) [] }).1 = r2
    cases r2 <;> exact ⟨rfl, rfl, h2.same, g2.same⟩

/-- Non-vacuity: a left-recursive rule asked twice at a position where it fails.  The second call is a
    cache hit: the fast path resets, the slow path does not — the two runs really take different branches,
    and everything observable is nevertheless equal. -/
def lrProg : Prog := #[
  { deco := .leftrec, body := .alts [
      { items := [{ item := .call (.rule 0), opt := false }, { item := .call (.expect 7), opt := false }], act := .truthy, cut := false },
      { items := [{ item := .call (.expect 5), opt := false }], act := .truthy, cut := false }] false false },
  { deco := .memo, body := .alts [
      { items := [{ item := .call (.rule 0), opt := false }, { item := .call (.expect 8), opt := false }], act := .truthy, cut := false },
      { items := [{ item := .call (.rule 0), opt := false }, { item := .call (.expect 9), opt := false }], act := .truthy, cut := false }] false false }]
def lrW : Array RTok := #[{ ty := .NAME, strId := 3, isKw := false, isSoft := false }]

example : (parse lrProg lrW 30 1 false).2.1.resets ≠ (parse lrProg lrW 30 1 true).2.1.resets := by decide +kernel
example : (parse lrProg lrW 30 1 false).1 = .invalidSyntax 1 := by decide +kernel
example : (parse lrProg lrW 30 1 true).1 = .invalidSyntax 1 := by decide +kernel


/-! ## py_version: gating is monotone -/

/-- **py_version_monotone.**  `gateProg v prog` is the program `Parser.parse` runs when the effective `py_version` is
    (3, v): every `self.check_version((3, m), ..)` action succeeds if m <= v and raises its SyntaxError otherwise.
    For every program, token list, fuel, start rule, verbosity and v <= v': the run under the lower version either raised
    a SyntaxError, or its complete result (outcome, first-pass result, final states of both passes: positions, cache,
    tokens fetched, alternatives fired, call counts) is identical to the run under the higher version.  So lowering the
    version can only turn a result into a raised error, never into a different tree or a different generic error. -/
theorem py_version_monotone (prog : Prog) (w : Array RTok) (fuel start : Nat) (verbose : Bool) (v v' : Nat) (h : v ≤ v') :
    (parse (gateProg v prog) w fuel start verbose).1 = .raised ∨
      parse (gateProg v prog) w fuel start verbose = parse (gateProg v' prog) w fuel start verbose :=
  parse_gate_mono prog w fuel start verbose v v' h

/-- the thresholds of all version gates of a program -/
def altGates (a : Alt) : List Nat := match a.act with | .gate m => [m] | _ => []
def ruleGates (r : Rule) : List Nat := match r.body with | .alts as _ _ => as.flatMap altGates | _ => []
def progGates (prog : Prog) : List Nat := prog.toList.flatMap ruleGates

/-- **at or above every threshold the grammar contains the version is irrelevant**: the resolved programs are equal, so
    every result is. -/
theorem py_version_irrelevant_above_all_gates (prog : Prog) (v v' : Nat) (hv : ∀ m ∈ progGates prog, m ≤ v) (hv' : ∀ m ∈ progGates prog, m ≤ v') :
    gateProg v prog = gateProg v' prog := by
  unfold gateProg
  apply Array.ext
  · simp
  · intro i h1 h2
    simp only [Array.getElem_map]
    have hmem : prog[i]'(by simpa using h1) ∈ prog.toList := by simp [Array.getElem_mem]
    generalize prog[i]'(by simpa using h1) = r at hmem
    unfold gateRule gateBody
    cases hb : r.body with
    | alts as wo ul =>
      simp only [Rule.mk.injEq, Body.alts.injEq, and_true, true_and]
      apply List.map_congr_left
      intro a ha
      apply gateAlt_saturated
      intro m hm
      have : m ∈ progGates prog := by
        unfold progGates
        rw [List.mem_flatMap]
        refine ⟨r, hmem, ?_⟩
        unfold ruleGates; rw [hb]
        rw [List.mem_flatMap]
        exact ⟨a, ha, by unfold altGates; rw [hm]; simp⟩
      exact ⟨hv m this, hv' m this⟩
    | seqAlts ps => rfl
    | unmodelled => rfl

/-! Non-vacuity: rule 0 `S: 'type' NAME {gate 12} | NAME`.  On `type x` the version matters (raised below 12, a tree from
    12 on); on `x` it does not. -/
def gProg : Prog := #[
  { deco := .none, body := .alts [
      { items := [⟨.call (.expect 7), false⟩, ⟨.call .name, false⟩], act := .gate 12, cut := false },
      { items := [⟨.call .name, false⟩], act := .truthy, cut := false }] false false }]
def gTokType : RTok := { ty := .NAME, strId := 7, isKw := true, isSoft := false }
def gTokX : RTok := { ty := .NAME, strId := 1, isKw := false, isSoft := false }
def gTokEnd : RTok := { ty := .ENDMARKER, strId := 0, isKw := false, isSoft := false }
def gW1 : Array RTok := #[gTokType, gTokX, gTokEnd]
def gW2 : Array RTok := #[gTokX, gTokEnd]

example : (parse (gateProg 11 gProg) gW1 20 0 false).1 = .raised := by decide +kernel
example : (parse (gateProg 12 gProg) gW1 20 0 false).1 = .tree := by decide +kernel
example : (parse (gateProg 8 gProg) gW2 20 0 false).1 = .tree ∧ (parse (gateProg 13 gProg) gW2 20 0 false).1 = .tree := by decide +kernel
example : progGates gProg = [12] := by decide

end XV.Peg
