/-
  C04 — soundness of the nullability analysis of action expressions with respect to the way Python
  evaluates `None`, `or`, `and` and conditional expressions.  Property statements only.
-/
import XonshVerif.Model.ActionNull
namespace XV.Act

/-- what matters about a Python value here -/
inductive Val where
  | none      -- None
  | falsy     -- a falsy value that is not None ([], 0, "")
  | truthy
deriving DecidableEq, Repr

def Val.isTruthy : Val → Bool | .truthy => true | _ => false

/-- a valuation of the variables agrees with how the alternative binds them: a non-optional conjunct is truthy,
    an optional one is None or truthy, `repeated` gives a list (never None), an optional `gathered` None or a list -/
def EnvOK (env : List (String × Bind)) (ρ : String → Val) : Prop :=
  ∀ x, match bindOf env x with
    | some .one => ρ x = .truthy
    | some .opt => ρ x = .none ∨ ρ x = .truthy
    | some .many => ρ x ≠ .none
    | some .optMany => True
    | none => ρ x ≠ .none          -- loop variables, `self`, module-level names

/-- big-step evaluation (a relation: `nonNull` stands for any expression that cannot be None; a conditional
    expression may take either branch) -/
inductive Eval (ρ : String → Val) : AE → Val → Prop where
  | var (x : String) : Eval ρ (.var x) (ρ x)
  | none : Eval ρ .none .none
  | nonNull (v : Val) (h : v ≠ .none) : Eval ρ .nonNull v
  | orL {a b : AE} {v : Val} (ha : Eval ρ a v) (ht : v.isTruthy = true) : Eval ρ (.orE a b) v
  | orR {a b : AE} {v w : Val} (ha : Eval ρ a v) (ht : v.isTruthy = false) (hb : Eval ρ b w) : Eval ρ (.orE a b) w
  | andL {a b : AE} {v : Val} (ha : Eval ρ a v) (ht : v.isTruthy = false) : Eval ρ (.andE a b) v
  | andR {a b : AE} {v w : Val} (ha : Eval ρ a v) (ht : v.isTruthy = true) (hb : Eval ρ b w) : Eval ρ (.andE a b) w
  | ifL {a b : AE} {v : Val} (ha : Eval ρ a v) : Eval ρ (.ifE a b) v
  | ifR {a b : AE} {w : Val} (hb : Eval ρ b w) : Eval ρ (.ifE a b) w

/-- **nullable_sound.**  An expression the analysis calls non-nullable never evaluates to None, under every
    valuation that agrees with the alternative's bindings. -/
theorem nullable_sound (env : List (String × Bind)) (ρ : String → Val) (hρ : EnvOK env ρ) :
    ∀ (e : AE) (v : Val), nullable env e = false → Eval ρ e v → v ≠ .none := by
  intro e v hn hev
  induction hev with
  | var x =>
    have := hρ x
    unfold nullable at hn
    cases hb : bindOf env x with
    | none => rw [hb] at this; exact this
    | some b =>
      rw [hb] at this hn
      cases b <;> simp at hn this ⊢
      · rw [this]; simp
      · exact this
  | none => simp [nullable] at hn
  | nonNull v h => exact h
  | orL ha ht ih => intro hv; rw [hv] at ht; simp [Val.isTruthy] at ht
  | orR ha ht hb iha ihb => exact ihb (by simpa [nullable] using hn)
  | andL ha ht ih =>
    simp only [nullable, Bool.or_eq_false_iff] at hn
    exact ih hn.1
  | andR ha ht hb iha ihb =>
    simp only [nullable, Bool.or_eq_false_iff] at hn
    exact ihb hn.2
  | ifL ha ih =>
    simp only [nullable, Bool.or_eq_false_iff] at hn
    exact ih hn.1
  | ifR hb ih =>
    simp only [nullable, Bool.or_eq_false_iff] at hn
    exact ih hn.2

/-- **required_fields_never_none.**  If the certificate accepts an alternative, then every required (`1`) or
    list (`*`) constructor field in its action receives a value that is not None. -/
theorem required_fields_never_none (a : AltFields) (h : altOK a = true) (ρ : String → Val) (hρ : EnvOK a.binds ρ)
    (f : FieldUse) (hf : f ∈ a.fields) (hk : f.kind = .one ∨ f.kind = .star) (v : Val) (hv : Eval ρ f.value v) : v ≠ .none := by
  unfold altOK at h
  have := List.all_eq_true.mp h f hf
  unfold fieldOK at this
  rcases hk with hk | hk <;> (rw [hk] at this; simp at this; exact nullable_sound a.binds ρ hρ f.value v this hv)

/-- Non-vacuity: `elts = a or []` with `a` bound by an optional conjunct is accepted, `elts = a` is not. -/
example : nullable [("a", .opt)] (.orE (.var "a") .nonNull) = false := by decide
example : nullable [("a", .opt)] (.var "a") = true := by decide

end XV.Act
