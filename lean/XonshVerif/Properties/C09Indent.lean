/-
  C09 — indentation columns: the loop at the head of `next_statement` computes the column of the language reference
  (a blank advances by one, a tab to the next multiple of the tab size, a form feed resets).  Property statements and proof.
-/
import XonshVerif.Model.Tokenize
namespace XV.Tz
open XV

/-- the characters that count as indentation -/
def isIndentCh (c : Nat) : Bool := c = 32 || c = 9 || c = 12

/-- the language reference's column rule: a blank advances by one, a tab to the next multiple of the tab size, a form feed
    resets the count -/
def colStep (tabsize : Nat) (col c : Nat) : Nat :=
  if c = 32 then col + 1 else if c = 9 then (col / tabsize + 1) * tabsize else if c = 12 then 0 else col

def refColumn (tabsize : Nat) (ws : List Nat) (col : Nat) : Nat := ws.foldl (colStep tabsize) col

/-- a tab moves to the least multiple of the tab size that is greater than the current column -/
theorem tab_stop (t col : Nat) (ht : 0 < t) :
    col < (col / t + 1) * t ∧ (col / t + 1) * t % t = 0 ∧ (col / t + 1) * t ≤ col + t ∧
    ∀ m, col < m → m % t = 0 → (col / t + 1) * t ≤ m := by
  have h1 := Nat.div_add_mod col t
  have h2 := Nat.mod_lt col ht
  refine ⟨?_, Nat.mul_mod_left _ _, ?_, ?_⟩
  · rw [Nat.add_mul, Nat.one_mul]
    have : t * (col / t) = col / t * t := Nat.mul_comm _ _
    omega
  · rw [Nat.add_mul, Nat.one_mul]
    have : t * (col / t) = col / t * t := Nat.mul_comm _ _
    omega
  · intro m hm hmod
    obtain ⟨k, hk⟩ := Nat.dvd_of_mod_eq_zero hmod
    subst hk
    have hlt : col / t < k := by
      rw [Nat.div_lt_iff_lt_mul ht]
      rw [Nat.mul_comm]; exact hm
    have : col / t + 1 ≤ k := hlt
    calc (col / t + 1) * t ≤ k * t := Nat.mul_le_mul_right t this
      _ = t * k := Nat.mul_comm _ _

/-- the leading indentation characters of the line from `pos` on -/
def leadingIndent (line : Array Nat) (pos : Nat) : List Nat := (line.toList.drop pos).takeWhile isIndentCh

/-- **indent_columns.**  `measureIndent` (the loop at the head of `next_statement`) computes exactly the column of the
    language reference for the indentation characters in front of the first other character, and stops there. -/
theorem measureIndent_spec (tabsize : Nat) (line : Array Nat) : ∀ (fuel col pos : Nat), (leadingIndent line pos).length < fuel →
    measureIndent tabsize line fuel col pos =
      (refColumn tabsize (leadingIndent line pos) col, pos + (leadingIndent line pos).length) := by
  intro fuel
  induction fuel with
  | zero => intro col pos h; omega
  | succ fuel ih =>
    intro col pos h
    unfold measureIndent
    cases hc : line[pos]? with
    | none =>
      have : leadingIndent line pos = [] := by
        unfold leadingIndent
        have : line.toList.drop pos = [] := by
          apply List.drop_eq_nil_of_le
          rcases Nat.lt_or_ge pos line.size with hlt | hge
          · rw [Array.getElem?_eq_getElem hlt] at hc; cases hc
          · simpa using hge
        rw [this]; rfl
      simp [this, refColumn]
    | some c =>
      have hlt : pos < line.size := by
        rcases Nat.lt_or_ge pos line.size with hlt | hge
        · exact hlt
        · rw [Array.getElem?_eq_none hge] at hc; cases hc
      have hdrop : line.toList.drop pos = c :: line.toList.drop (pos + 1) := by
        have hl : pos < line.toList.length := by simpa using hlt
        rw [List.drop_eq_getElem_cons hl]
        congr 1
        have := Array.getElem?_eq_getElem hlt
        rw [this] at hc
        injection hc with hc
      by_cases hi : isIndentCh c = true
      · have hlead : leadingIndent line pos = c :: leadingIndent line (pos + 1) := by
          unfold leadingIndent; rw [hdrop, List.takeWhile_cons]; simp [hi]
        rw [hlead] at h ⊢
        simp only [List.length_cons] at h
        have hrec := fun col' => ih col' (pos + 1) (by omega)
        simp only [isIndentCh, Bool.or_eq_true, decide_eq_true_eq] at hi
        rcases hi with (hi | hi) | hi <;> subst hi
        · simp only [hrec, refColumn, List.foldl_cons, colStep, if_true, List.length_cons]
          refine Prod.ext rfl ?_; simp; omega
        · simp only [hrec, refColumn, List.foldl_cons, colStep, List.length_cons]
          refine Prod.ext (by simp) ?_; simp; omega
        · simp only [hrec, refColumn, List.foldl_cons, colStep, List.length_cons]
          refine Prod.ext (by simp) ?_; simp; omega
      · have hlead : leadingIndent line pos = [] := by
          unfold leadingIndent; rw [hdrop, List.takeWhile_cons]; simp [hi]
        rw [hlead]
        simp only [isIndentCh, Bool.or_eq_true, decide_eq_true_eq, not_or] at hi
        obtain ⟨⟨h32, h9⟩, h12⟩ := hi
        have : ¬ (some c = some 32) := by intro hh; injection hh with hh; exact h32 hh
        simp [refColumn]
        split <;> simp_all


/-- Non-vacuity: blank, tab, blank, form feed, two blanks in front of `x` with tab size 8: columns 1, 8, 9, 0, 1, 2. -/
example : measureIndent 8 #[32, 9, 32, 12, 32, 32, 120] 10 0 0 = (2, 6) := by decide
example : refColumn 8 [32, 9, 32] 0 = 9 := by decide

end XV.Tz
