/-
  C10 — f-strings: the bracket structure of the f-string tokens.  Property statements only.
-/
import XonshVerif.Proofs.FstringBalance
namespace XV.Tz
open XV XV.Rx

/-- **fstring_tokens_balanced.**  For every pattern set with progressing pseudo-token branches, every environment and
    every text on which the tokenizer finishes: reading FSTRING_START as an opening and FSTRING_END as a closing bracket,
    the token stream is balanced - no FSTRING_END without an open FSTRING_START in any prefix (`fdepthAfter` never
    undefined), every f-string closed at the end.  Nested f-strings (an f-string inside a replacement field) nest properly.
    Invariant: the f-strings left open by the tokens emitted so far are exactly the middle-mode records on the mode stack
    (fields and format specs, which sit on top of them, are never mistaken for one: shape invariant of StringTiling). -/
theorem fstring_tokens_balanced (E : Env) (P : Pats) (hP : PseudoProgress P) (src : List Nat)
    (hfin : (tokenize E P src).err = none) : fdepthAfter 0 (tokenize E P src).toks = some 0 := by
  unfold tokenize at hfin ⊢
  simp only [] at hfin ⊢
  cases h : tokenizeLines E P ((splitLines src []).length + 2) (splitLines src []) TState.init [] with
  | error e => rw [h] at hfin; simp at hfin
  | ok ts =>
    simp only []
    exact tokenizeLines_fbal (splitLines src []) E P hP _ _ TState.init [] ts (between_init _) (by simp [TState.init]) rfl (StrOK.nil _) h

/-- every prefix of a finished stream has at least as many FSTRING_STARTs as FSTRING_ENDs -/
theorem fstring_prefix_depth_defined (E : Env) (P : Pats) (hP : PseudoProgress P) (src : List Nat) (hfin : (tokenize E P src).err = none)
    (pre suf : List Tok5) (hsplit : (tokenize E P src).toks = pre ++ suf) : ∃ d, fdepthAfter 0 pre = some d := by
  have h := fstring_tokens_balanced E P hP src hfin
  rw [hsplit, fdepthAfter_append] at h
  cases hp : fdepthAfter 0 pre with
  | none => rw [hp] at h; simp at h
  | some d => exact ⟨d, rfl⟩

/-- Non-vacuity (tiny pattern set): `f'a{f'b'}c'` - an f-string nested in a field of another: depth 2 after the inner
    FSTRING_START, 0 at the end. -/
def fPats : Pats :=
  { pseudo := [("StringStart", .seq (.chr 102) (.chr 39)), ("Name", .plus true (.set false [.word])), ("NL", .chr 10), ("Special", .alt (.chr 123) (.chr 125))],
    endpats := [("'", .seq (.star false (.set true [.lit 39])) (.chr 39))],
    startLBrace := [("'", .seq (.star false (.set true [.lit 39, .lit 123])) (.chr 123))], endRBrace := .eps, tabsize := 8 }
def fSrc : List Nat := [102, 39, 97, 123, 102, 39, 98, 39, 125, 99, 39, 10]

example : (tokenize ⟨[], []⟩ fPats fSrc).err = none := by decide +kernel
example : ((tokenize ⟨[], []⟩ fPats fSrc).toks.map (·.ty)).filter (fun t => t = .FSTRING_START || t = .FSTRING_END) =
    [.FSTRING_START, .FSTRING_START, .FSTRING_END, .FSTRING_END] := by decide +kernel

end XV.Tz
