/-
  C03 — totality.  Property statements only.
-/
import XonshVerif.Proofs.Tokenize
import XonshVerif.Proofs.PegTotal
import XonshVerif.Model.Pipeline
namespace XV.Tz
open XV XV.Rx

/-- **tokenize_total (C03, tokenizer part).**  For every environment, every pattern set that passes the
    progress certificate, and every input text, the tokenizer model terminates by itself: it never
    runs out of loop fuel.  Its outcome is a token list, a TokenError, an IndentationError - or the
    regex engine's own fuel bound, which is a property of the model's matcher, not of the loop. -/
theorem tokenize_total (E : Env) (P : Pats) (hP : PseudoProgress P) (src : List Nat) :
    (tokenize E P src).err ≠ some .loopFuel := by
  unfold tokenize
  simp only []
  split
  · simp
  · rename_i e ts he
    intro hc
    simp only [Option.some.injEq] at hc
    subst hc
    exact tokenizeLines_no_loopFuel E P hP _ _ _ _ ts (by omega) he

end XV.Tz

namespace XV.Peg

/-- **parser_total (C03, parser part).**  For every program that passes the well-formedness checker `wfCert`
    (with whatever witnesses), every token list, every start rule and both verbosity settings, `Parser.parse`
    reaches a verdict: there is a fuel with which neither the first pass nor the diagnostic pass runs out.
    `wfCert` is checked by the kernel on the IR regenerated from the shipped parser.py (`XVC.wf_cert`). -/
theorem parser_total (prog : Prog) (W : WfW) (hcert : wfCert prog W = true) (w : Array RTok) (start : Nat) (verbose : Bool) :
    ∃ fuel, (parse prog w fuel start verbose).1 ≠ .outOfFuel :=
  parse_total hcert w start verbose

/-- **fuel is only a proof device**: once a verdict is reached, more fuel changes neither the verdict nor any state. -/
theorem verdict_independent_of_fuel (prog : Prog) (w : Array RTok) (n k start : Nat) (v : Bool)
    (h : (parse prog w n start v).1 ≠ .outOfFuel) : parse prog w (n + k) start v = parse prog w n start v :=
  parse_fuel_mono n k start v h

/-! Non-vacuity.  `totProg`: rule 0 `E: E '+' T | T` (a left-recursion leader), rule 1 `T: NAME+`.  It passes the checker
    with ranks (1, 0); and the run on `a + a` really goes through the seed-growing loop. -/
def totProg : Prog := #[
  { deco := .leftrec, body := .alts [
      { items := [⟨.call (.rule 0), false⟩, ⟨.call (.expect 7), false⟩, ⟨.call (.rule 1), false⟩], act := .truthy, cut := false },
      { items := [⟨.call (.rule 1), false⟩], act := .truthy, cut := false }] false false },
  { deco := .none, body := .alts [{ items := [⟨.repeated .name, false⟩], act := .truthy, cut := false }] false false }]
def totW : WfW := { nullable := fun _ => false, rank := fun i => if i = 0 then 1 else 0, lr := fun i => i == 0 }
def tokA : RTok := { ty := .NAME, strId := 1, isKw := false, isSoft := false }
def tokPlus : RTok := { ty := .OP, strId := 7, isKw := false, isSoft := false }
def tokEnd : RTok := { ty := .ENDMARKER, strId := 0, isKw := false, isSoft := false }
def wAPA : Array RTok := #[tokA, tokPlus, tokA, tokEnd]
def wP : Array RTok := #[tokPlus, tokEnd]
def wA : Array RTok := #[tokA, tokEnd]

example : wfCert totProg totW = true := by decide
example : (parse totProg wAPA 40 0 false).1 = .tree := by decide +kernel
example : (parse totProg wAPA 40 0 false).2.1.pos = 3 := by decide +kernel

/-! The two ways to loop, and the checker refusing both.  `spinProg`: `R: (!NAME)*` - the `while result := func()` of
    `repeated` spins on a body that succeeds without consuming.  `selfProg`: `R: R NAME` without the left-recursion
    decorator.  On both the model runs out of any fuel tried (a test, not a theorem) and `wfCert` is false for the natural
    witnesses (and for `selfProg` for every witness: rank 0 < rank 0 is impossible). -/
def spinProg : Prog := #[
  { deco := .none, body := .alts [{ items := [⟨.repeated (.rule 1), false⟩], act := .truthy, cut := false }] false false },
  { deco := .none, body := .alts [{ items := [⟨.negLook .name, false⟩], act := .truthy, cut := false }] false false }]
def selfProg : Prog := #[
  { deco := .none, body := .alts [{ items := [⟨.call (.rule 0), false⟩, ⟨.call .name, false⟩], act := .truthy, cut := false }] false false }]

example : (parse spinProg wP 200 0 false).1 = .outOfFuel := by decide +kernel
example : (parse selfProg wA 200 0 false).1 = .outOfFuel := by decide +kernel
example : wfCert spinProg { nullable := fun i => i == 1, rank := fun i => if i = 0 then 1 else 0, lr := fun _ => false } = false := by decide
example : wfCert spinProg { nullable := fun _ => false, rank := fun i => if i = 0 then 1 else 0, lr := fun _ => false } = false := by decide
theorem selfProg_rejected (W : WfW) : wfCert selfProg W = false := by
  cases hl : W.lr 0 <;> simp [wfCert, wfCertAux, selfProg, ruleOK, bodyOK, itemsOK, itemFirstOK, primOK, hl]

end XV.Peg

namespace XV.Pipe
open XV XV.Rx XV.Tz XV.Src XV.Peg

/-- a verdict of the whole pipeline that is not a hang: not the tokenizer's loop fuel, not the parser's fuel -/
def Out.terminated : Out → Prop
  | .tokenizerError e _ => e ≠ .loopFuel
  | .parsed o _ => o ≠ .outOfFuel

/-- **parse_string_total (C03, the composed pipeline).**  For every character environment, every pattern set with
    progressing pseudo-token branches, every parser program that passes the well-formedness checker, and EVERY text:
    tokenizing, filtering and parsing reach a verdict - a tree, a syntax error, or the tokenizer's TokenError /
    IndentationError (or its regex engine's own fuel bound, which is a bound of the model's matcher, not a loop of the
    code).  Neither the scan loops of the tokenizer nor the recursion and loops of the parser can go on forever. -/
theorem parse_string_total (E : Env) (P : Pats) (hP : PseudoProgress P) (T : Tables) (W : WfW) (hcert : wfCert T.prog W = true)
    (src : List Nat) : ∃ fuel, (parseString E P T fuel src).terminated := by
  obtain ⟨fuel, hf⟩ := parse_total (W := W) hcert
    ((kept E (tokenize E P src).toks).map (toRTok T.strings T.kws T.softs)).toArray T.start false
  refine ⟨fuel, ?_⟩
  unfold parseString
  simp only []
  split
  · rename_i e _ herr _
    exact fun hc => tokenize_total E P hP src (by rw [herr, hc])
  · exact hf

end XV.Pipe
