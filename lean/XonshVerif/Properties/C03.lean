/-
  C03 — totality.  Property statements only.
-/
import XonshVerif.Proofs.Tokenize
namespace XV.Tz
open XV XV.Rx

/-- **tokenize_total (C03, tokenizer part).**  For every environment, every pattern set that passes the
    progress certificate, and every input text, the tokenizer model terminates by itself: it never
    runs out of loop fuel.  Its outcome is a token list, a TokenError, an IndentationError - or the
    regex engine's own fuel bound, which is a property of the model's matcher, not of the loop. -/
theorem tokenize_total (E : Env) (P : Pats) (hP : PseudoProgress P) (src : List Nat) :
    (tokenize E P src).err ≠ some .loopFuel := by
  unfold tokenize
  simp only []
  split
  · simp
  · rename_i e ts he
    intro hc
    simp only [Option.some.injEq] at hc
    subst hc
    exact tokenizeLines_no_loopFuel E P hP _ _ _ _ ts (by omega) he

end XV.Tz
