/-
  C08 — string literals are source slices, across lines.  Property statements only.
-/
import XonshVerif.Proofs.StringTiling
import XonshVerif.Proofs.TokStructure
import XonshVerif.Proofs.TokCover
import XonshVerif.Proofs.TokOrder
import XonshVerif.Proofs.FstringText
import XonshVerif.Proofs.TokGaps
namespace XV.Tz
open XV XV.Rx

/-- splitting into physical lines loses nothing -/
theorem splitLines_flatten : ∀ (src cur : List Nat), (splitLines src cur).flatten = cur.reverse ++ src
  | [], [] => rfl
  | [], c :: cur => by simp [splitLines]
  | c :: cs, cur => by
    simp only [splitLines]
    split
    · rename_i hc
      simp only [List.flatten_cons, splitLines_flatten cs [], List.reverse_cons, List.reverse_nil, List.nil_append, List.append_assoc, List.singleton_append]
    · rw [splitLines_flatten cs (c :: cur)]
      simp

/-- **string_tokens_are_source_slices.**  For every pattern set whose pseudo-token branches make progress (certificate
    `pseudo_branches_progress` for the shipped patterns), every character environment and every text on which the
    tokenizer finishes: each STRING token - one line or many, at top level or inside the braces of an f-string - has as
    its text EXACTLY the characters of the source between its start and end coordinates.  `srcText` reads them off the
    text itself: the physical lines flattened are the source (`splitLines_flatten`). -/
theorem string_tokens_are_source_slices (E : Env) (P : Pats) (hP : PseudoProgress P) (src : List Nat)
    (hfin : (tokenize E P src).err = none) :
    ∀ t ∈ (tokenize E P src).toks, t.ty = .STRING → t.str = srcText (splitLines src []) t.start t.stop := by
  unfold tokenize at hfin ⊢
  simp only [] at hfin ⊢
  cases h : tokenizeLines E P ((splitLines src []).length + 2) (splitLines src []) TState.init [] with
  | error e => rw [h] at hfin; simp at hfin
  | ok ts =>
    simp only []
    exact tokenizeLines_strings (splitLines src []) E P hP _ _ TState.init [] ts (between_init _) (by simp [TState.init]) (StrOK.nil _) h

/-- the text `srcText` slices is the source itself -/
theorem srcText_is_slice_of_source (src : List Nat) (a b : Pos) :
    srcText (splitLines src []) a b = (src.drop (off (splitLines src []) a)).take (off (splitLines src []) b - off (splitLines src []) a) := by
  unfold srcText; rw [splitLines_flatten src []]; simp

/-- Non-vacuity (tiny pattern set, `x` then a two-line string): the STRING token spans two lines and the theorem's
    conclusion is a real equation between its text and the source. -/
def strPats : Pats :=
  { pseudo := [("StringStart", .seq (.chr 39) (.seq (.chr 39) (.chr 39))), ("Name", .plus true (.set false [.word])), ("NL", .chr 10)],
    endpats := [("'''", .seq (.star false (.alt .any (.chr 10))) (.seq (.chr 39) (.seq (.chr 39) (.chr 39))))],
    startLBrace := [], endRBrace := .eps, tabsize := 8 }

/-- `x'''a⏎b'''⏎` -/
def strSrc : List Nat := [120, 39, 39, 39, 97, 10, 98, 39, 39, 39, 10]

example : ((tokenize ⟨[], []⟩ strPats strSrc).toks.filter (·.ty = .STRING)).map (fun t => (t.str, t.start, t.stop)) =
    [([39, 39, 39, 97, 10, 98, 39, 39, 39], ⟨1, 1⟩, ⟨2, 4⟩)] := by decide +kernel
example : (tokenize ⟨[], []⟩ strPats strSrc).err = none := by decide +kernel
example : srcText (splitLines strSrc []) ⟨1, 1⟩ ⟨2, 4⟩ = [39, 39, 39, 97, 10, 98, 39, 39, 39] := by decide +kernel


/-- **tokenize_structure.**  For every pattern set, every character environment and every text on which the tokenizer
    finishes: reading INDENT as an opening and DEDENT as a closing bracket, the token stream is balanced - no DEDENT
    without an open INDENT at any point (`depthAfter` is never `none`), all INDENTs closed at the end - and the stream is
    `body ++ [ENDMARKER]` with no ENDMARKER inside `body`: exactly one ENDMARKER, last.  (No hypothesis on the patterns.) -/
theorem tokenize_structure (E : Env) (P : Pats) (src : List Nat) (hfin : (tokenize E P src).err = none) :
    depthAfter 0 (tokenize E P src).toks = some 0 ∧
    ∃ body e, (tokenize E P src).toks = body ++ [e] ∧ e.ty = .ENDMARKER ∧ ∀ t ∈ body, t.ty ≠ .ENDMARKER := by
  unfold tokenize at hfin ⊢
  simp only [] at hfin ⊢
  cases h : tokenizeLines E P ((splitLines src []).length + 2) (splitLines src []) TState.init [] with
  | error e => rw [h] at hfin; simp at hfin
  | ok ts =>
    simp only []
    exact tokenizeLines_struct E P _ _ TState.init [] ts (by simp [TState.init]) NoEnd.nil rfl h

/-- every prefix of a finished token stream has at least as many INDENTs as DEDENTs (a corollary, stated for prefixes) -/
theorem prefix_depth_defined (E : Env) (P : Pats) (src : List Nat) (hfin : (tokenize E P src).err = none)
    (pre suf : List Tok5) (hsplit : (tokenize E P src).toks = pre ++ suf) : ∃ d, depthAfter 0 pre = some d := by
  have h := (tokenize_structure E P src hfin).1
  rw [hsplit, depthAfter_append] at h
  cases hp : depthAfter 0 pre with
  | none => rw [hp] at h; simp at h
  | some d => exact ⟨d, rfl⟩

/-- Non-vacuity (tiny pattern set): `a⏎ b⏎  c⏎d⏎` opens two indentation levels and closes both before `d`. -/
def indPats : Pats :=
  { pseudo := [("Name", .plus true (.set false [.word])), ("NL", .chr 10)], endpats := [], startLBrace := [], endRBrace := .eps, tabsize := 8 }
def indSrc : List Nat := [97, 10, 32, 98, 10, 32, 32, 99, 10, 100, 10]

example : (tokenize ⟨[], []⟩ indPats indSrc).err = none := by decide +kernel
example : ((tokenize ⟨[], []⟩ indPats indSrc).toks.map (·.ty)) =
    [.NAME, .NEWLINE, .INDENT, .NAME, .NEWLINE, .INDENT, .NAME, .NEWLINE, .DEDENT, .DEDENT, .NAME, .NEWLINE, .ENDMARKER] := by decide +kernel
example : depthAfter 0 ((tokenize ⟨[], []⟩ indPats indSrc).toks.take 7) = some 2 := by decide +kernel


/-- every physical line but the last ends in a line feed -/
theorem splitLines_nonLastEndNL : ∀ (src cur : List Nat), NonLastEndNL (splitLines src cur)
  | [], [] => by intro i l h; simp [splitLines] at h
  | [], c :: cur => by
    intro i l h hlt
    simp [splitLines] at hlt
  | c :: cs, cur => by
    intro i l h hlt
    simp only [splitLines] at h hlt
    split at h
    · rename_i hc
      rw [if_pos hc] at hlt
      cases i with
      | zero =>
        simp only [List.getElem?_cons_zero] at h
        injection h with h
        rw [← h]; simp [hc]
      | succ i =>
        simp only [List.getElem?_cons_succ] at h
        simp only [List.length_cons] at hlt
        exact splitLines_nonLastEndNL cs [] i l h (by omega)
    · rename_i hc
      rw [if_neg hc] at hlt
      exact splitLines_nonLastEndNL cs (c :: cur) i l h hlt

/-- **tokens_are_source_slices.**  For every pattern set with progressing pseudo-token branches, every environment and every
    text on which the tokenizer finishes: EVERY token other than the parts of an f-string (FSTRING_MIDDLE, FSTRING_END, the
    brace operators the f-string scanner emits) has as its text exactly the source characters between its start and end
    coordinates - names, numbers, operators, comments, whitespace, search paths, NL/NEWLINE, ERRORTOKEN, FSTRING_START, INDENT
    (the indentation itself), STRING across any number of lines, and the empty DEDENT / implicit NEWLINE / ENDMARKER. -/
theorem tokens_are_source_slices (E : Env) (P : Pats) (hP : PseudoProgress P) (src : List Nat)
    (hfin : (tokenize E P src).err = none) :
    ∀ t ∈ (tokenize E P src).toks, Covered t → t.str = srcText (splitLines src []) t.start t.stop := by
  unfold tokenize at hfin ⊢
  simp only [] at hfin ⊢
  cases h : tokenizeLines E P ((splitLines src []).length + 2) (splitLines src []) TState.init [] with
  | error e => rw [h] at hfin; simp at hfin
  | ok ts =>
    simp only []
    exact tokenizeLines_cov (splitLines src []) (splitLines_nonLastEndNL src []) E P hP _ _ TState.init [] ts (between_init _)
      (Or.inl ⟨rfl, rfl⟩) (by simp [TState.init]) (CovOK.nil _) h

/-- Non-vacuity: in `a⏎ b⏎  c⏎d⏎` every token is covered, the INDENT tokens carry the indentation and the theorem's
    equation is a real one for each of them. -/
example : ((tokenize ⟨[], []⟩ indPats indSrc).toks.filter (fun t => t.ty = .INDENT)).map (fun t => (t.str, t.start, t.stop)) =
    [([32], ⟨2, 0⟩, ⟨2, 1⟩), ([32, 32], ⟨3, 0⟩, ⟨3, 2⟩)] := by decide +kernel
example : srcText (splitLines indSrc []) ⟨3, 0⟩ ⟨3, 2⟩ = [32, 32] := by decide +kernel


/-- **tokens_in_position_order** (the ordering clause of C08).  For every pattern set whose pseudo-token branches make
    progress and whose f-string scanners consume the brace / closing quote they report (`FstrLen`, a certificate on the
    shipped patterns), every character environment and every text on which the tokenizer finishes: each token ends at or
    after its start, and every token starts at or after the end of every earlier token - non-decreasing, non-overlapping
    position order, for all token kinds including the parts of (nested, multi-line) f-strings. -/
theorem tokens_in_position_order (E : Env) (P : Pats) (hP : PseudoProgress P) (hF : FstrLen P) (src : List Nat)
    (hfin : (tokenize E P src).err = none) :
    (tokenize E P src).toks.Pairwise (fun a b => a.stop ≤ b.start) ∧ ∀ t ∈ (tokenize E P src).toks, t.start ≤ t.stop := by
  unfold tokenize at hfin ⊢
  simp only [] at hfin ⊢
  cases h : tokenizeLines E P ((splitLines src []).length + 2) (splitLines src []) TState.init [] with
  | error e => rw [h] at hfin; simp at hfin
  | ok ts =>
    simp only []
    obtain ⟨hi, hc⟩ := tokenizeLines_ord E P hP hF _ _ TState.init [] ts ⟨0, 0⟩ ⟨0, 0⟩ rfl
      (OI.empty (Pos.le_refl' _)) (Chain.nil _) h
    obtain ⟨a, b⟩ := hc.pairwise
    exact ⟨a, fun t ht => (b t ht).2.1⟩


/-- Non-vacuity: the indentation example is a real chain of 13 tokens. -/
example : (tokenize ⟨[], []⟩ indPats indSrc).err = none ∧ (tokenize ⟨[], []⟩ indPats indSrc).toks.length = 13 := by decide +kernel


/-- **fstring_tokens_are_source_slices.**  Under the hypotheses of `tokens_in_position_order` plus `FstrEnds` (every match
    of the f-string scanners ends with the brace / the closing quote it reports - a certificate on the shipped patterns),
    every FSTRING_MIDDLE token (literal parts and format specs, across any number of lines, inside nested f-strings), every
    FSTRING_END token and every operator token (including the `{` / `}` the f-string scanner emits) has as its text exactly
    the source characters between its start and end coordinates. -/
theorem fstring_tokens_are_source_slices (E : Env) (P : Pats) (hP : PseudoProgress P) (hF : FstrLen P) (hE : FstrEnds P) (src : List Nat)
    (hfin : (tokenize E P src).err = none) :
    ∀ t ∈ (tokenize E P src).toks, (t.ty = .FSTRING_MIDDLE ∨ t.ty = .FSTRING_END ∨ t.ty = .OP) →
      t.str = srcText (splitLines src []) t.start t.stop := by
  unfold tokenize at hfin ⊢
  simp only [] at hfin ⊢
  cases h : tokenizeLines E P ((splitLines src []).length + 2) (splitLines src []) TState.init [] with
  | error e => rw [h] at hfin; simp at hfin
  | ok ts =>
    simp only []
    exact tokenizeLines_ft (splitLines src []) E P hP hF hE _ _ TState.init [] ts ⟨0, 0⟩ rfl (OI.empty (Pos.le_refl' _))
      (by intro p rest hp; cases hp) (by simp [TState.init]) (MidOK.nil _) h

/-- **all_tokens_are_source_slices** (the first clause of C08, for every token): on every text the tokenizer finishes on,
    each token's text equals the source between its start and end coordinates. -/
theorem all_tokens_are_source_slices (E : Env) (P : Pats) (hP : PseudoProgress P) (hF : FstrLen P) (hE : FstrEnds P)
    (src : List Nat) (hfin : (tokenize E P src).err = none) :
    ∀ t ∈ (tokenize E P src).toks, t.str = srcText (splitLines src []) t.start t.stop := by
  intro t ht
  by_cases hm : t.ty = .FSTRING_MIDDLE ∨ t.ty = .FSTRING_END ∨ t.ty = .OP
  · exact fstring_tokens_are_source_slices E P hP hF hE src hfin t ht hm
  · simp only [not_or] at hm
    exact tokens_are_source_slices E P hP src hfin t ht ⟨hm.1, hm.2.1, fun h => hm.2.2 h.1⟩


theorem Gaps.adjacent {lines : List (List Nat)} {g : Pos} (pre : List Tok5) (a b : Tok5) (post : List Tok5)
    (h : Gaps lines g (pre ++ a :: b :: post)) : Gap lines a.stop b.start := by
  induction pre generalizing g with
  | nil => exact h.2.1
  | cons t ts ih => exact ih h.2

/-- **gaps_are_indentation_or_continuation** (the gap clause of C08).  Under the three pattern certificates of
    `all_tokens_are_source_slices` plus `EndGap` (the `End` branch of the master pattern - the backslash continuation -
    consumes only backslash, CR and LF), on every text on which the tokenizer finishes: every character of the source that
    lies before the first token or between two consecutive tokens lies in a `Gap`: line-leading runs of blanks / tabs / form
    feeds (the indentation `next_statement` measures) and stretches of backslash / CR / LF (a backslash continuation); see
    `between_consecutive_tokens` for the character-by-character statement.  Together with
    the slice and order theorems: the tokens and these gaps tile the text up to the last token. -/
theorem gaps_and_trailing (E : Env) (P : Pats) (hP : PseudoProgress P) (hF : FstrLen P) (hE : FstrEnds P)
    (hEG : EndGap P) (src : List Nat) (hfin : (tokenize E P src).err = none) :
    Gaps (splitLines src []) ⟨1, 0⟩ (tokenize E P src).toks ∧
    Gap (splitLines src []) (lastStop ⟨1, 0⟩ (tokenize E P src).toks) ⟨(splitLines src []).length + 1, 0⟩ := by
  unfold tokenize at hfin ⊢
  simp only [] at hfin ⊢
  cases h : tokenizeLines E P ((splitLines src []).length + 2) (splitLines src []) TState.init [] with
  | error e => rw [h] at hfin; simp at hfin
  | ok ts =>
    simp only []
    exact tokenizeLines_g (splitLines src []) (splitLines_nonLastEndNL src []) E P hP hF hE hEG _ _ TState.init [] ts ⟨0, 0⟩ ⟨1, 0⟩ rfl
      (OI.empty (Pos.le_refl' _)) (by intro p rest hp; cases hp) (Or.inl ⟨rfl, rfl⟩) (by simp [TState.init]) trivial
      ⟨(by intro p rest hp; cases hp), fun _ => Gap.refl _ _⟩ (MidOK.nil _) h

theorem gaps_are_indentation_or_continuation (E : Env) (P : Pats) (hP : PseudoProgress P) (hF : FstrLen P) (hE : FstrEnds P)
    (hEG : EndGap P) (src : List Nat) (hfin : (tokenize E P src).err = none) :
    Gaps (splitLines src []) ⟨1, 0⟩ (tokenize E P src).toks :=
  (gaps_and_trailing E P hP hF hE hEG src hfin).1

/-- **after_the_last_token**: what is left of the text after the end of the last token (the ENDMARKER) - a final line of
    indentation without a line end, if anything - is a gap too: with `gaps_are_indentation_or_continuation` every character
    of the source outside all tokens is accounted for. -/
theorem after_the_last_token (E : Env) (P : Pats) (hP : PseudoProgress P) (hF : FstrLen P) (hE : FstrEnds P)
    (hEG : EndGap P) (src : List Nat) (hfin : (tokenize E P src).err = none) :
    ∀ i x, off (splitLines src []) (lastStop ⟨1, 0⟩ (tokenize E P src).toks) ≤ i → (splitLines src []).flatten[i]? = some x →
      (wsChar x = true ∧ LineLeading (splitLines src []) i) ∨ contChar x = true := by
  intro i x h1 h3
  have hlt : i < (splitLines src []).flatten.length := (List.getElem?_eq_some_iff.mp h3).1
  refine (gaps_and_trailing E P hP hF hE hEG src hfin).2.chars i x h1 ?_ h3
  have : off (splitLines src []) ⟨(splitLines src []).length + 1, 0⟩ = (splitLines src []).flatten.length := by
    simp only [off, Nat.add_sub_cancel, Nat.add_zero]
    exact prefixLen_all _ _ (Nat.le_refl _)
  rw [this]; exact hlt

/-- **between_consecutive_tokens** (the gap clause of C08, character by character): every character of the source between
    the end of a token and the start of the next one is either a blank, tab or form feed that is LINE-LEADING (on its
    line, only such characters stand before it) or a backslash, CR or LF (a backslash continuation). -/
theorem between_consecutive_tokens (E : Env) (P : Pats) (hP : PseudoProgress P) (hF : FstrLen P) (hE : FstrEnds P)
    (hEG : EndGap P) (src : List Nat) (hfin : (tokenize E P src).err = none) (pre : List Tok5) (a b : Tok5) (post : List Tok5)
    (hsplit : (tokenize E P src).toks = pre ++ a :: b :: post) :
    ∀ i x, off (splitLines src []) a.stop ≤ i → i < off (splitLines src []) b.start → (splitLines src []).flatten[i]? = some x →
      (wsChar x = true ∧ LineLeading (splitLines src []) i) ∨ contChar x = true := by
  have h := gaps_are_indentation_or_continuation E P hP hF hE hEG src hfin
  rw [hsplit] at h
  exact (Gaps.adjacent pre a b post h).chars

/-- the same before the first token -/
theorem before_the_first_token (E : Env) (P : Pats) (hP : PseudoProgress P) (hF : FstrLen P) (hE : FstrEnds P)
    (hEG : EndGap P) (src : List Nat) (hfin : (tokenize E P src).err = none) (t : Tok5) (rest : List Tok5)
    (hsplit : (tokenize E P src).toks = t :: rest) :
    ∀ i x, i < off (splitLines src []) t.start → (splitLines src []).flatten[i]? = some x →
      (wsChar x = true ∧ LineLeading (splitLines src []) i) ∨ contChar x = true := by
  have h := gaps_are_indentation_or_continuation E P hP hF hE hEG src hfin
  rw [hsplit] at h
  intro i x h2 h3
  exact h.1.chars i x (by simp [off, prefixLen]) h2 h3

end XV.Tz
