/-
  C17 — clauses of PEG semantics that hold of the combinator model for EVERY program (the model that
  the correspondence `generated-code-IR` ties to freshly generated parsers).  Property statements only.
-/
import XonshVerif.Model.Peg
namespace XV.Peg
variable (prog : Prog) (w : Array RTok)

/-- **lookahead_consumes_nothing.**  `&e` and `!e` never move the position: whatever `e` did, the parser is back
    where it was (unless `e` raised). -/
theorem lookahead_consumes_nothing (fuel : Nat) (p : Prim) (neg : Bool) (s : St)
    (h : (execItem prog w (fuel + 1) (if neg then .negLook p else .posLook p) s).1.isAbort = false) :
    (execItem prog w (fuel + 1) (if neg then .negLook p else .posLook p) s).2.pos = s.pos := by
  cases neg <;> simp only [Bool.false_eq_true, if_false, if_true, execItem] at h ⊢ <;>
    · split
      · rename_i hab; simp [hab] at h
      · split <;> rfl

/-- **not_is_complement.**  `!e` succeeds exactly when `&e` fails (same state, same fuel). -/
theorem not_is_complement (fuel : Nat) (p : Prim) (s : St)
    (h : (execPrim prog w fuel p s).1.isAbort = false) :
    (execItem prog w (fuel + 1) (.negLook p) s).1.isOk = !(execItem prog w (fuel + 1) (.posLook p) s).1.isOk := by
  simp only [execItem, h, Bool.false_eq_true, if_false]
  cases (execPrim prog w fuel p s).1.isOk <;> simp [Res.isOk]

/-- **ordered_choice_first.**  In `e1 | e2 | ...` (the `seq_alts` combinator) a successful first operand decides:
    the later operands are not consulted. -/
theorem ordered_choice_first (fuel : Nat) (p : Prim) (ps : List Prim) (mark e : Nat) (s : St)
    (h : (execPrim prog w fuel p s).1 = .ok e) :
    execSeqAlts prog w (fuel + 1) (p :: ps) mark s = (.ok e, (execPrim prog w fuel p s).2) := by
  simp only [execSeqAlts, h, Res.isAbort, Bool.false_eq_true, if_false]

/-- **ordered_choice_next.**  ... and a failing first operand is forgotten: the choice continues with the rest from
    the original position. -/
theorem ordered_choice_next (fuel : Nat) (p : Prim) (ps : List Prim) (mark e : Nat) (s : St)
    (h : (execPrim prog w fuel p s).1 = .fail e) :
    execSeqAlts prog w (fuel + 1) (p :: ps) mark s =
      execSeqAlts prog w fuel ps mark ((execPrim prog w fuel p s).2.reset mark) := by
  simp only [execSeqAlts, h, Res.isAbort, Bool.false_eq_true, if_false]

/-- **empty_choice_fails.** -/
theorem empty_choice_fails (fuel mark : Nat) (s : St) : (execSeqAlts prog w (fuel + 1) [] mark s).1 = .fail mark := by
  simp [execSeqAlts]

end XV.Peg
