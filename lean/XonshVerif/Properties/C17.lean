/-
  C17 — clauses of PEG semantics that hold of the combinator model for EVERY program (the model that
  the correspondence `generated-code-IR` ties to freshly generated parsers).  Property statements only.
-/
import XonshVerif.Model.Peg
import XonshVerif.Proofs.PegConsume
import XonshVerif.Proofs.PegSpec
import XonshVerif.Proofs.PegSpecDet
import XonshVerif.Proofs.PegSpecDeco
import XonshVerif.Proofs.PegSpecRange
import XonshVerif.Proofs.PegComplete
import XonshVerif.Proofs.PegTotal
import XonshVerif.Proofs.PegMono
import XonshVerif.Model.DriverPeg
namespace XV.Peg
variable (prog : Prog) (w : Array RTok)

/-- **lookahead_consumes_nothing.**  `&e` and `!e` never move the position: whatever `e` did, the parser is back
    where it was (unless `e` raised). -/
theorem lookahead_consumes_nothing (fuel : Nat) (p : Prim) (neg : Bool) (s : St)
    (h : (execItem prog w (fuel + 1) (if neg then .negLook p else .posLook p) s).1.isAbort = false) :
    (execItem prog w (fuel + 1) (if neg then .negLook p else .posLook p) s).2.pos = s.pos := by
  cases neg <;> simp only [Bool.false_eq_true, if_false, if_true, execItem] at h ⊢ <;>
    · split
      · rename_i hab; simp [hab] at h
      · split <;> rfl

/-- **not_is_complement.**  `!e` succeeds exactly when `&e` fails (same state, same fuel). -/
theorem not_is_complement (fuel : Nat) (p : Prim) (s : St)
    (h : (execPrim prog w fuel p s).1.isAbort = false) :
    (execItem prog w (fuel + 1) (.negLook p) s).1.isOk = !(execItem prog w (fuel + 1) (.posLook p) s).1.isOk := by
  simp only [execItem, h, Bool.false_eq_true, if_false]
  cases (execPrim prog w fuel p s).1.isOk <;> simp [Res.isOk]

/-- **ordered_choice_first.**  In `e1 | e2 | ...` (the `seq_alts` combinator) a successful first operand decides:
    the later operands are not consulted. -/
theorem ordered_choice_first (fuel : Nat) (p : Prim) (ps : List Prim) (mark e : Nat) (s : St)
    (h : (execPrim prog w fuel p s).1 = .ok e) :
    execSeqAlts prog w (fuel + 1) (p :: ps) mark s = (.ok e, (execPrim prog w fuel p s).2) := by
  simp only [execSeqAlts, h, Res.isAbort, Bool.false_eq_true, if_false]

/-- **ordered_choice_next.**  ... and a failing first operand is forgotten: the choice continues with the rest from
    the original position. -/
theorem ordered_choice_next (fuel : Nat) (p : Prim) (ps : List Prim) (mark e : Nat) (s : St)
    (h : (execPrim prog w fuel p s).1 = .fail e) :
    execSeqAlts prog w (fuel + 1) (p :: ps) mark s =
      execSeqAlts prog w fuel ps mark ((execPrim prog w fuel p s).2.reset mark) := by
  simp only [execSeqAlts, h, Res.isAbort, Bool.false_eq_true, if_false]

/-- **empty_choice_fails.** -/
theorem empty_choice_fails (fuel mark : Nat) (s : St) : (execSeqAlts prog w (fuel + 1) [] mark s).1 = .fail mark := by
  simp [execSeqAlts]


/-! ### repetition: greedy, stops at the first failure, keeps what it consumed -/

/-- **star_continues_after_success.**  `e*` / `e+`: after a successful `e` the loop goes on from where `e` ended, one
    more element counted. -/
theorem star_continues_after_success (fuel : Nat) (p : Prim) (mark n e : Nat) (s : St)
    (h : (execPrim prog w fuel p s).1 = .ok e) :
    execRepeat prog w (fuel + 1) p mark n s =
      execRepeat prog w fuel p (execPrim prog w fuel p s).2.pos (n + 1) (execPrim prog w fuel p s).2 := by
  simp only [execRepeat, h, Res.isAbort, Bool.false_eq_true, if_false]

/-- **star_stops_at_first_failure.**  ... and the first failing `e` ends it: the position goes back to the end of the last
    successful element (`mark`), the elements so far are the result - nothing consumed by the failed attempt is kept. -/
theorem star_stops_at_first_failure (fuel : Nat) (p : Prim) (mark n e : Nat) (s : St)
    (h : (execPrim prog w fuel p s).1 = .fail e) :
    execRepeat prog w (fuel + 1) p mark n s = (n, .ok mark, (execPrim prog w fuel p s).2.reset mark) := by
  simp only [execRepeat, h, Res.isAbort, Bool.false_eq_true, if_false]

/-- **plus_requires_one.**  As an item, a repetition with zero elements is a failure (`e+`: the generator routes `e*`
    through an optional item). -/
theorem plus_requires_one (fuel : Nat) (p : Prim) (s : St)
    (h0 : (execRepeat prog w fuel p s.pos 0 s).1 = 0) (hna : (execRepeat prog w fuel p s.pos 0 s).2.1.isAbort = false) :
    (execItem prog w (fuel + 1) (.repeated p) s).1.isOk = false := by
  simp only [execItem, hna, Bool.false_eq_true, if_false, h0, if_true, Res.isOk]

/-! ### separated lists -/

/-- **gather_needs_first_element.**  `sep.e+` fails, at its start position, when the first element fails. -/
theorem gather_needs_first_element (fuel : Nat) (e sp : Prim) (s : St) (x : Nat)
    (h : (execSeqAlts prog w fuel [e] s.pos s).1 = .fail x) :
    (execItem prog w (fuel + 1) (.gathered e sp) s).1 = .fail s.pos ∧ (execItem prog w (fuel + 1) (.gathered e sp) s).2.pos = s.pos := by
  simp [execItem, h, Res.isAbort, St.reset]

/-- **gather_gives_back_dangling_separator.**  A separator that is not followed by an element is not consumed: the list
    ends at the end of the last element. -/
theorem gather_gives_back_dangling_separator (fuel : Nat) (e sp : Prim) (mark n a b : Nat) (s : St)
    (hs : (execPrim prog w fuel sp s).1 = .ok a)
    (he : (execSeqAlts prog w fuel [e] (execPrim prog w fuel sp s).2.pos (execPrim prog w fuel sp s).2).1 = .fail b) :
    (execSepRepeat prog w (fuel + 1) e sp mark n s).1 = n ∧ (execSepRepeat prog w (fuel + 1) e sp mark n s).2.1 = .ok mark ∧
      (execSepRepeat prog w (fuel + 1) e sp mark n s).2.2.pos = mark := by
  simp [execSepRepeat, hs, he, Res.isAbort, St.reset]

/-- **gather_stops_without_separator.** -/
theorem gather_stops_without_separator (fuel : Nat) (e sp : Prim) (mark n a : Nat) (s : St)
    (hs : (execPrim prog w fuel sp s).1 = .fail a) :
    execSepRepeat prog w (fuel + 1) e sp mark n s = (n, .ok mark, (execPrim prog w fuel sp s).2.reset mark) := by
  simp only [execSepRepeat, hs, Res.isAbort, Bool.false_eq_true, if_false]

/-! ### cut, forced tokens, optional items -/

/-- **cut_commits.**  When an alternative fails after its cut `~`, the rule fails: the later alternatives are not tried. -/
theorem cut_commits (fuel rid idx mark : Nat) (a : Alt) (as : List Alt) (s : St)
    (hna : (execItems prog w fuel a.items false [] s).2.2.1.isAbort = false)
    (hfail : (execItems prog w fuel a.items false [] s).1 = false)
    (hcut : (execItems prog w fuel a.items false [] s).2.1 = true) :
    (execAlts prog w (fuel + 1) rid idx (a :: as) mark s).1 = .fail mark := by
  simp only [execAlts, hna, Bool.false_eq_true, if_false, hfail, hcut, if_true]

/-- **without_cut_next_alternative.**  Without a cut the next alternative is tried from the rule's start position. -/
theorem without_cut_next_alternative (fuel rid idx mark : Nat) (a : Alt) (as : List Alt) (s : St)
    (hna : (execItems prog w fuel a.items false [] s).2.2.1.isAbort = false)
    (hfail : (execItems prog w fuel a.items false [] s).1 = false)
    (hcut : (execItems prog w fuel a.items false [] s).2.1 = false) :
    execAlts prog w (fuel + 1) rid idx (a :: as) mark s =
      execAlts prog w fuel rid (idx + 1) as mark ((execItems prog w fuel a.items false [] s).2.2.2.1.reset mark) := by
  simp only [execAlts, hna, Bool.false_eq_true, if_false, hfail, hcut]

/-- **forced_raises_on_failure.**  `&&e`: a failing forced token is a SyntaxError, not a failure of the alternative. -/
theorem forced_raises_on_failure (fuel : Nat) (p : Prim) (what x : Nat) (s : St)
    (h : (execPrim prog w fuel p s).1 = .fail x) : (execItem prog w (fuel + 1) (.forced p what) s).1 = .raised := by
  simp only [execItem, h, Res.isAbort, Res.isOk, Bool.false_eq_true, if_false]

/-- **optional_never_fails.**  `[e]`: a failing optional item lets the alternative go on with the following items (from
    wherever the failed attempt left the position - the generated methods reset before they return). -/
theorem optional_never_fails (fuel : Nat) (it : AltItem) (its : List AltItem) (cut : Bool) (oks : List Bool) (s : St) (x : Nat)
    (hopt : it.opt = true) (hitem : it.item ≠ .setCut ∧ it.item ≠ .guardInvalid)
    (h : (execItem prog w fuel it.item s).1 = .fail x) :
    execItems prog w (fuel + 1) (it :: its) cut oks s = execItems prog w fuel its cut (false :: oks) (execItem prog w fuel it.item s).2 := by
  rw [execItems]
  cases hi : it.item with
  | setCut => exact absurd hi hitem.1
  | guardInvalid => exact absurd hi hitem.2
  | _ => simp only [hi] at h ⊢ <;> simp only [h, hopt, Res.isAbort, Res.isOk, Bool.false_eq_true, if_false, Bool.or_true, if_true]

/-! ### the memo flag -/

/-- **memo_second_call_is_the_first_result.**  A memoised rule asked again at a position for which its cache holds a
    success returns exactly that success and moves to its end: the body is not run (`memo_hit_is_constant` counts the cost). -/
theorem memo_second_call_is_the_first_result (fuel id e : Nat) (r : Rule) (s : St)
    (hr : prog[id]? = some r) (hd : r.deco = .memo) (hc : cacheGet s.cache s.pos id = some (.ok e)) :
    execRule prog w (fuel + 1) id s = (.ok e, s.reset e) := by
  simp only [execRule, hr, hd, hc]


/-! ### the generator's inlining of a choice of single items (`rhs_helper` -> `seq_alts`) -/

/-- the long form of one operand: an alternative `x=p { x }` -/
def inlineAlt (p : Prim) : Alt := { items := [⟨.call p, false⟩], act := .truthy, cut := false }

/-- equal up to the record of fired alternatives (which only the long form keeps) -/
def SameButFired (a b : St) : Prop :=
  a.pos = b.pos ∧ a.invalid = b.invalid ∧ a.verbose = b.verbose ∧ a.cache = b.cache ∧ a.fetched = b.fetched ∧ a.assumed = b.assumed ∧
  a.resets = b.resets ∧ a.peeks = b.peeks ∧ a.nexts = b.nexts

/-- equal results, the payload of a success aside (the long form returns the position, the short form what the operand returned) -/
def SameVerdict (a b : Res) : Prop := a = b ∨ (a.isOk = true ∧ b.isOk = true)

/-- **inlined_choice_equiv.**  A rule whose alternatives are single items without actions behaves the same whether the
    generator emits the standard method (`if (x := self.p1()): return x; self._reset(mark); if (x := self.p2()): ...`)
    or the shortcut `return self.seq_alts(self.p1, self.p2, ...)`: same verdict, same position, cache, token and reset
    counts - for every program, token list, state and fuel (the long form nests two calls deeper). -/
theorem inlined_choice_equiv (g rid mark : Nat) (ps : List Prim) : ∀ (idx : Nat) (s : St),
    SameVerdict (execAlts prog w (g + 3) rid idx (ps.map inlineAlt) mark s).1 (execSeqAlts prog w (g + 1) ps mark s).1 ∧
    SameButFired (execAlts prog w (g + 3) rid idx (ps.map inlineAlt) mark s).2 (execSeqAlts prog w (g + 1) ps mark s).2 := by
  induction ps generalizing g with
  | nil => intro idx s; simp [execAlts, execSeqAlts, SameVerdict, SameButFired]
  | cons p ps ih =>
    intro idx s
    cases g with
    | zero =>
      -- the operand call has no fuel in either form
      simp [List.map_cons, execAlts, execSeqAlts, inlineAlt, execItems, execItem, execPrim, Res.isAbort, SameVerdict, SameButFired]
    | succ g =>
      have hA : execAlts prog w (g + 1 + 3) rid idx ((p :: ps).map inlineAlt) mark s =
          (if (execPrim prog w (g + 1) p s).1.isAbort = true then ((execPrim prog w (g + 1) p s).1, (execPrim prog w (g + 1) p s).2)
           else if (execPrim prog w (g + 1) p s).1.isOk = true then
             (.ok (execPrim prog w (g + 1) p s).2.pos, { (execPrim prog w (g + 1) p s).2 with fired := (rid, idx) :: (execPrim prog w (g + 1) p s).2.fired })
           else execAlts prog w (g + 3) rid (idx + 1) (ps.map inlineAlt) mark ((execPrim prog w (g + 1) p s).2.reset mark)) := by
        simp only [List.map_cons, execAlts, inlineAlt, execItems, execItem]
        by_cases hab : (execPrim prog w (g + 1) p s).1.isAbort = true
        · simp [hab]
        · by_cases hok : (execPrim prog w (g + 1) p s).1.isOk = true
          · simp only [hab, hok, Bool.false_eq_true, if_false, if_true, Bool.true_or, execItems]
            simp [show (Res.ok (execPrim prog w (g + 1) p s).2.pos).isAbort = false from rfl]
          · simp [hab, hok]
      have hB : execSeqAlts prog w (g + 1 + 1) (p :: ps) mark s =
          (if (execPrim prog w (g + 1) p s).1.isAbort = true then ((execPrim prog w (g + 1) p s).1, (execPrim prog w (g + 1) p s).2)
           else if (execPrim prog w (g + 1) p s).1.isOk = true then ((execPrim prog w (g + 1) p s).1, (execPrim prog w (g + 1) p s).2)
           else execSeqAlts prog w (g + 1) ps mark ((execPrim prog w (g + 1) p s).2.reset mark)) := by
        simp only [execSeqAlts]
        by_cases hab : (execPrim prog w (g + 1) p s).1.isAbort = true
        · simp [hab]
        · cases hr : (execPrim prog w (g + 1) p s).1 <;> simp [hr, Res.isAbort, Res.isOk] at hab ⊢
      rw [hA, hB]
      by_cases hab : (execPrim prog w (g + 1) p s).1.isAbort = true
      · simp only [hab, if_true]
        exact ⟨Or.inl rfl, rfl, rfl, rfl, rfl, rfl, rfl, rfl, rfl, rfl⟩
      · by_cases hok : (execPrim prog w (g + 1) p s).1.isOk = true
        · simp only [hab, Bool.false_eq_true, if_false, hok, if_true]
          exact ⟨Or.inr ⟨rfl, hok⟩, rfl, rfl, rfl, rfl, rfl, rfl, rfl, rfl, rfl⟩
        · simp only [hab, Bool.false_eq_true, if_false, hok]
          exact ih g (idx + 1) _


/-- **rule_consumes_exactly_its_match.**  For every recogniser program none of whose actions can be falsy (`noFalsyB`, the
    well-formedness condition of the random grammars; decidable on every IR), every token list, every rule - plain,
    `memoize`d or `memoize_left_rec` - called with any amount of fuel from the initial state or from any state whose cached
    failures stand at their own positions: if the rule succeeds with end position `e` the tokenizer is AT `e`, and if it
    fails the tokenizer is back where the rule was called - a failing rule consumes nothing, a successful one exactly the
    tokens of its match. -/
theorem rule_consumes_exactly_its_match (prog : Prog) (w : Array RTok) (hnf : noFalsyB prog = true) (fuel id : Nat) (s : St)
    (hs : CacheOK s) :
    (∀ e, (execRule prog w fuel id s).1 = .ok e → (execRule prog w fuel id s).2.pos = e) ∧
    (∀ m, (execRule prog w fuel id s).1 = .fail m → (execRule prog w fuel id s).2.pos = s.pos) := by
  have h := (consInv (prog := prog) w (noFalsy_of_B prog hnf) fuel).rule id s hs
  exact ⟨h.1, h.2.1⟩

/-- ... and the cache invariant it needs holds initially and is kept -/
theorem cache_invariant_kept (prog : Prog) (w : Array RTok) (hnf : noFalsyB prog = true) (fuel id : Nat) (s : St) (hs : CacheOK s) :
    CacheOK (execRule prog w fuel id s).2 :=
  ((consInv (prog := prog) w (noFalsy_of_B prog hnf) fuel).rule id s hs).2.2

/-- Non-vacuity: a left-recursive two-rule program (`e: e '+' t | t ; t: NAME+`) has no falsy action, and on `a + a` its
    start rule ends at 3, with the tokenizer at 3. -/
def consProg : Prog := #[
  { deco := .leftrec, body := .alts [
      { items := [⟨.call (.rule 0), false⟩, ⟨.call (.expect 7), false⟩, ⟨.call (.rule 1), false⟩], act := .truthy, cut := false },
      { items := [⟨.call (.rule 1), false⟩], act := .truthy, cut := false }] false false },
  { deco := .memo, body := .alts [{ items := [⟨.repeated .name, false⟩], act := .truthy, cut := false }] false false }]
def consW : Array RTok := #[{ ty := .NAME, strId := 1, isKw := false, isSoft := false }, { ty := .OP, strId := 7, isKw := false, isSoft := false },
  { ty := .NAME, strId := 1, isKw := false, isSoft := false }, { ty := .ENDMARKER, strId := 0, isKw := false, isSoft := false }]
example : noFalsyB consProg = true := by decide +kernel
example : (execRule consProg consW 40 0 (St.init consW.size false false)).1 = .ok 3 ∧
    (execRule consProg consW 40 0 (St.init consW.size false false)).2.pos = 3 := by decide +kernel

/-- **recogniser_sound_for_peg_semantics.**  The declarative semantics of `Proofs/PegSpec.lean` (`SRule prog w id p r`:
    ordered choice, sequences with optional items, greedy `*`/`+`, separated lists, look-aheads, cut, forced items - no
    cache, no fuel, no tokenizer state) is what the recogniser computes: for every program of the plain fragment (`plainB`:
    no `memoize_left_rec` rule, no `invalid_` guard, no falsy action; decidable on every IR), every token list, every rule,
    every amount of fuel and every state whose memo cache is sound (the initial state is), an answer `ok e` is a derivation
    of a match ending at `e`, an answer `fail` a derivation of failure, and the cache stays sound - packrat memoisation is
    transparent.  Running out of fuel and raised `SyntaxError`s answer neither. -/
theorem recogniser_sound_for_peg_semantics (prog : Prog) (w : Array RTok) (hpl : plainB prog = true) (fuel id : Nat) (s : St)
    (hc : CacheOK s) (hs : CSound prog w s) :
    (∀ e, (execRule prog w fuel id s).1 = .ok e → SRule prog w id s.pos (some e)) ∧
    (∀ m, (execRule prog w fuel id s).1 = .fail m → SRule prog w id s.pos none) ∧
    CSound prog w (execRule prog w fuel id s).2 := by
  have h := (specInv (prog := prog) w (plain_of_B prog hpl) fuel).rule id s hc hs
  exact ⟨h.1.1, h.1.2, h.2⟩

/-- from the initial state: what `parse` answers about the start rule is derivable at position 0 -/
theorem recogniser_sound_from_start (prog : Prog) (w : Array RTok) (hpl : plainB prog = true) (fuel id : Nat) (b v : Bool) :
    (∀ e, (execRule prog w fuel id (St.init w.size b v)).1 = .ok e → SRule prog w id 0 (some e)) ∧
    (∀ m, (execRule prog w fuel id (St.init w.size b v)).1 = .fail m → SRule prog w id 0 none) := by
  have h := recogniser_sound_for_peg_semantics prog w hpl fuel id (St.init w.size b v) (cacheOK_init _ _ _) (cSound_init w _ _ _)
  exact ⟨h.1, h.2.1⟩

/-- Non-vacuity: `s: t '+' t | t ; t(memo): NAME+` is plain, and on `a + a` the recogniser answers 3 - so the semantics
    derives a match of rule 0 from 0 to 3. -/
def plainProg : Prog := #[
  { deco := .none, body := .alts [
      { items := [⟨.call (.rule 1), false⟩, ⟨.call (.expect 7), false⟩, ⟨.call (.rule 1), false⟩], act := .truthy, cut := false },
      { items := [⟨.call (.rule 1), false⟩], act := .truthy, cut := false }] false false },
  { deco := .memo, body := .alts [{ items := [⟨.repeated .name, false⟩], act := .truthy, cut := false }] false false }]
example : plainB plainProg = true := by decide +kernel
example : SRule plainProg consW 0 0 (some 3) :=
  (recogniser_sound_from_start plainProg consW (by decide +kernel) 40 0 false false).1 3 (by decide +kernel)

/-- **peg_semantics_deterministic.**  The declarative semantics assigns every rule at every position at most one outcome. -/
theorem peg_semantics_deterministic (prog : Prog) (w : Array RTok) (id p : Nat) (r1 r2 : Option Nat)
    (h1 : SRule prog w id p r1) (h2 : SRule prog w id p r2) : r1 = r2 := SRule.det h1 h2

/-- **answers_do_not_depend_on_cache_or_fuel.**  In the plain fragment, two runs of the same rule at the same position -
    with ANY two amounts of fuel and ANY two sound memo caches (empty, or filled by whatever was parsed before) - that both
    answer give the SAME answer: it is the unique outcome of the semantics.  So memoisation can change how long a parse
    takes and nothing else. -/
theorem answers_do_not_depend_on_cache_or_fuel (prog : Prog) (w : Array RTok) (hpl : plainB prog = true) (id fuel1 fuel2 : Nat) (s1 s2 : St)
    (hc1 : CacheOK s1) (hs1 : CSound prog w s1) (hc2 : CacheOK s2) (hs2 : CSound prog w s2) (hpos : s1.pos = s2.pos)
    (a b : Option Nat) (ha : (execRule prog w fuel1 id s1).1.verdict = some a) (hb : (execRule prog w fuel2 id s2).1.verdict = some b) :
    a = b := by
  have h1 := recogniser_sound_for_peg_semantics prog w hpl fuel1 id s1 hc1 hs1
  have h2 := recogniser_sound_for_peg_semantics prog w hpl fuel2 id s2 hc2 hs2
  rw [hpos] at h1
  have d1 : SRule prog w id s2.pos a := by
    generalize (execRule prog w fuel1 id s1).1 = r at ha h1
    cases r with
    | ok e => simp only [Res.verdict] at ha; injection ha with ha; subst ha; exact h1.1 e rfl
    | fail m => simp only [Res.verdict] at ha; injection ha with ha; subst ha; exact h1.2.1 m rfl
    | _ => simp [Res.verdict] at ha
  have d2 : SRule prog w id s2.pos b := by
    generalize (execRule prog w fuel2 id s2).1 = r at hb h2
    cases r with
    | ok e => simp only [Res.verdict] at hb; injection hb with hb; subst hb; exact h2.1 e rfl
    | fail m => simp only [Res.verdict] at hb; injection hb with hb; subst hb; exact h2.2.1 m rfl
    | _ => simp [Res.verdict] at hb
  exact SRule.det d1 d2

/-- **memo_flags_do_not_change_answers.**  Two plain programs with the same rule bodies - the same grammar with and without
    `(memo)` flags, say - give the same answer for every rule at every position, whatever the fuel and the (sound) caches,
    whenever both answer: the semantics does not look at decorators (`srule_iff_of_sameBodies`), each run is sound for it,
    and it is deterministic. -/
theorem memo_flags_do_not_change_answers (P Q : Prog) (w : Array RTok) (hb : SameBodies P Q) (hP : plainB P = true) (hQ : plainB Q = true)
    (id fuel1 fuel2 : Nat) (s1 s2 : St) (hc1 : CacheOK s1) (hs1 : CSound P w s1) (hc2 : CacheOK s2) (hs2 : CSound Q w s2) (hpos : s1.pos = s2.pos)
    (a b : Option Nat) (ha : (execRule P w fuel1 id s1).1.verdict = some a) (hb' : (execRule Q w fuel2 id s2).1.verdict = some b) :
    a = b := by
  have h1 := recogniser_sound_for_peg_semantics P w hP fuel1 id s1 hc1 hs1
  have h2 := recogniser_sound_for_peg_semantics Q w hQ fuel2 id s2 hc2 hs2
  rw [hpos] at h1
  have d1 : SRule P w id s2.pos a := by
    generalize (execRule P w fuel1 id s1).1 = r at ha h1
    cases r with
    | ok e => simp only [Res.verdict] at ha; injection ha with ha; subst ha; exact h1.1 e rfl
    | fail m => simp only [Res.verdict] at ha; injection ha with ha; subst ha; exact h1.2.1 m rfl
    | _ => simp [Res.verdict] at ha
  have d2 : SRule Q w id s2.pos b := by
    generalize (execRule Q w fuel2 id s2).1 = r at hb' h2
    cases r with
    | ok e => simp only [Res.verdict] at hb'; injection hb' with hb'; subst hb'; exact h2.1 e rfl
    | fail m => simp only [Res.verdict] at hb'; injection hb' with hb'; subst hb'; exact h2.2.1 m rfl
    | _ => simp [Res.verdict] at hb'
  exact SRule.det (SRule.transport hb d1) d2

theorem plainB_dropMemo (P : Prog) : plainB (dropMemo P) = plainB P := by
  unfold plainB dropMemo
  rw [Array.all_map]
  congr 1; funext r
  simp only [Function.comp]
  cases r.deco <;> rfl

/-- **removing_memo_flags_changes_no_answer.**  The special case the property names: a plain program and the same program
    with every `(memo)` flag removed answer alike (from the initial state, with any two amounts of fuel). -/
theorem removing_memo_flags_changes_no_answer (P : Prog) (w : Array RTok) (hP : plainB P = true) (id fuel1 fuel2 : Nat) (b v : Bool)
    (x y : Option Nat) (hx : (execRule P w fuel1 id (St.init w.size b v)).1.verdict = some x)
    (hy : (execRule (dropMemo P) w fuel2 id (St.init w.size b v)).1.verdict = some y) : x = y :=
  memo_flags_do_not_change_answers P (dropMemo P) w (dropMemo_sameBodies P) hP (by rw [plainB_dropMemo]; exact hP) id fuel1 fuel2 _ _
    (cacheOK_init _ _ _) (cSound_init w _ _ _) (cacheOK_init _ _ _) (cSound_init w _ _ _) rfl x y hx hy

/-- non-vacuity: the example program without its `(memo)` flag is another plain program with the same bodies -/
example : SameBodies plainProg (dropMemo plainProg) := dropMemo_sameBodies plainProg
example : plainB (dropMemo plainProg) = true := by decide +kernel

/-- **matches_are_forward_ranges.**  In the semantics a rule that matches from position `p` ends at an `e` with
    `p ≤ e ≤ max p (number of tokens)`: a match is a forward range inside the token list (look-aheads and empty matches end at `p`). -/
theorem matches_are_forward_ranges (prog : Prog) (w : Array RTok) (id p e : Nat) (h : SRule prog w id p (some e)) :
    p ≤ e ∧ e ≤ max p w.size := SRule.rng h e rfl

/-- ... hence so is every `ok` answer of the recogniser on a plain program -/
theorem ok_answers_are_forward_ranges (prog : Prog) (w : Array RTok) (hpl : plainB prog = true) (fuel id : Nat) (s : St)
    (hc : CacheOK s) (hs : CSound prog w s) (e : Nat) (he : (execRule prog w fuel id s).1 = .ok e) :
    s.pos ≤ e ∧ e ≤ max s.pos w.size :=
  matches_are_forward_ranges prog w id s.pos e ((recogniser_sound_for_peg_semantics prog w hpl fuel id s hc hs).1 e he)

/-- **recogniser_complete_for_peg_semantics.**  The converse, on the pure fragment (`pureB`: plain, every action truthy, no
    rule that peeks at its first token's location): whenever the semantics derives an outcome `r` for a rule at a position,
    every run of that rule from a state at that position with a sound memo cache that holds no exceptional entry (the
    initial state is one) EITHER runs out of fuel OR answers exactly `r` - it does not raise, does not fall off the token
    list, and a memo hit gives the same answer. -/
theorem recogniser_complete_for_peg_semantics (prog : Prog) (w : Array RTok) (hp : pureB prog = true) (id p : Nat) (r : Option Nat)
    (h : SRule prog w id p r) (fuel : Nat) (s : St) (hpos : s.pos = p) (hc : CacheOK s) (hs : CSound prog w s) (hn : CNA s) :
    (execRule prog w fuel id s).1 = .outOfFuel ∨ (execRule prog w fuel id s).1.verdict = some r := by
  rcases SRule.cpl (pure_of_B prog hp) h fuel s hpos ⟨hc, hs, hn⟩ with h1 | h1
  · exact Or.inl h1
  · exact Or.inr h1.1

/-- **exceptional_answer_means_no_outcome.**  On the pure fragment an exceptional answer other than running out of fuel - the
    SyntaxError of a forced token (`&&'x'`) that is missing, or reading past the end of the token list - is given only where
    the semantics assigns the rule NO outcome at that position: a forced token never turns an input the grammar matches, or
    cleanly fails on, into an error. -/
theorem exceptional_answer_means_no_outcome (prog : Prog) (w : Array RTok) (hp : pureB prog = true) (id fuel : Nat) (s : St)
    (hc : CacheOK s) (hs : CSound prog w s) (hn : CNA s)
    (hx : (execRule prog w fuel id s).1 = .raised ∨ (execRule prog w fuel id s).1 = .tokErr ∨ (execRule prog w fuel id s).1 = .undecided) :
    ¬ ∃ r, SRule prog w id s.pos r := by
  rintro ⟨r, h⟩
  rcases recogniser_complete_for_peg_semantics prog w hp id s.pos r h fuel s rfl hc hs hn with h1 | h1
  · rcases hx with hx | hx | hx <;> rw [hx] at h1 <;> cases h1
  · rcases hx with hx | hx | hx <;> rw [hx] at h1 <;> simp [Res.verdict] at h1

/-- **recogniser_decides_peg_semantics.**  Total correctness from the start state: for a pure program that passes the
    well-formedness certificate (`wfCert`, the hypothesis of `parser_total`), the semantics derives outcome `r` for a rule
    at position 0 IF AND ONLY IF the recogniser answers `r` for all sufficiently large fuel. -/
theorem recogniser_decides_peg_semantics (prog : Prog) (W : WfW) (hcert : wfCert prog W = true) (hp : pureB prog = true)
    (w : Array RTok) (id : Nat) (b v : Bool) (r : Option Nat) :
    SRule prog w id 0 r ↔ ∃ n, ∀ k, (execRule prog w (n + k) id (St.init w.size b v)).1.verdict = some r := by
  constructor
  · intro h
    obtain ⟨n, hn⟩ := execRule_total (W := W) (w := w) hcert id (St.init w.size b v) (inv_fresh _ (Nat.zero_le _) rfl)
    refine ⟨n, fun k => ?_⟩
    rw [execRule_fuel_mono (prog := prog) (w := w) n k id _ hn]
    rcases recogniser_complete_for_peg_semantics prog w hp id 0 r h n _ rfl (cacheOK_init _ _ _) (cSound_init w _ _ _) (cna_init _ _ _) with h1 | h1
    · exact absurd h1 hn
    · exact h1
  · rintro ⟨n, hn⟩
    have h0 := hn 0
    have hs' := (specInv (prog := prog) w (plainB_of_pureB prog hp) n).rule id (St.init w.size b v) (cacheOK_init _ _ _) (cSound_init w _ _ _)
    have hs : (∀ e, (execRule prog w n id (St.init w.size b v)).1 = .ok e → SRule prog w id 0 (some e)) ∧
        (∀ m, (execRule prog w n id (St.init w.size b v)).1 = .fail m → SRule prog w id 0 none) := ⟨hs'.1.1, hs'.1.2⟩
    clear hs'
    rw [Nat.add_zero] at h0
    generalize (execRule prog w n id (St.init w.size b v)).1 = res at h0 hs
    cases res with
    | ok e => simp only [Res.verdict] at h0; injection h0 with h0; subst h0; exact hs.1 e rfl
    | fail m => simp only [Res.verdict] at h0; injection h0 with h0; subst h0; exact hs.2 m rfl
    | _ => simp [Res.verdict] at h0

/-- Non-vacuity of both hypotheses and of the equivalence: the two-rule program above is pure and well-formed, so the
    derivation `SRule 0 0 (some 3)` on `a + a` is answered `ok 3` for all sufficiently large fuel. -/
def plainW : WfW := { nullable := fun _ => false, lr := fun _ => false, rank := fun i => 1 - i }
example : wfCert plainProg plainW = true := by decide +kernel
example : pureB plainProg = true := by decide +kernel
example : ∃ n, ∀ k, (execRule plainProg consW (n + k) 0 (St.init consW.size false false)).1.verdict = some (some 3) :=
  (recogniser_decides_peg_semantics plainProg plainW (by decide +kernel) (by decide +kernel) consW 0 false false (some 3)).mp
    ((recogniser_sound_from_start plainProg consW (by decide +kernel) 40 0 false false).1 3 (by decide +kernel))

/-- the facts the driver command `progfacts` reports for every generated IR ARE the hypotheses of the two theorems above -/
theorem driver_noFalsy_is_hypothesis (prog : Prog) : XV.Driver.progNoFalsy prog = noFalsyB prog := rfl
theorem driver_plain_is_hypothesis (prog : Prog) : XV.Driver.progPlain prog = plainB prog := by
  unfold XV.Driver.progPlain plainB
  congr 1; funext r
  have h1 : (match r.deco with | .leftrec => false | _ => true) = (r.deco != .leftrec) := by cases r.deco <;> rfl
  exact h1 ▸ rfl

theorem driver_pure_is_hypothesis (prog : Prog) : XV.Driver.progPure prog = pureB prog := by
  unfold XV.Driver.progPure pureB
  congr 1; funext r
  have h1 : (match r.deco with | .leftrec => false | _ => true) = (r.deco != .leftrec) := by cases r.deco <;> rfl
  exact h1 ▸ rfl

end XV.Peg
