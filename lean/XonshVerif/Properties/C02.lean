/-
  C01 / C02 / C05 — the xonsh extension is inert on the Python lexicon; acceptance is decided by the
  first pass.  Property statements only.
-/
import XonshVerif.Proofs.PegFired
namespace XV.Peg

/-- **second_pass_never_accepts.**  `Parser.parse` returns a tree only if the FIRST call of the start
    rule succeeded: whatever the diagnostic pass does, it ends in a raise. -/
theorem second_pass_never_accepts (prog : Prog) (w : Array RTok) (fuel start : Nat)
    (h : (parse prog w fuel start).1 = .tree) :
    (execRule prog w fuel start (St.init w.size false)).1.isOk = true := by
  unfold parse at h
  simp only [] at h
  split at h
  · rename_i e heq; simp [heq, Res.isOk]
  · simp at h
  · simp at h
  · simp at h
  · simp at h
  · split at h <;> simp at h

/-- **xonsh_alternatives_inert (conservativity, trace form).**  Let `W` be a witness accepted by the
    dead-alternative certificate.  For every token list of the Python lexicon, every fuel and every start
    rule, no alternative marked dead has its action run, in the first pass or in the diagnostic pass:
    on Python-lexicon input every xonsh-only alternative of the grammar is inert. -/
theorem xonsh_alternatives_inert (L : Lexicon) (prog : Prog) (W : DeadSet) (w : Array RTok)
    (hc : deadCert L prog W = true) (hw : PyLex L w) (fuel start : Nat) :
    FiredOK L prog W (parse prog w fuel start).2.1 ∧
    (∀ s2, (parse prog w fuel start).2.2.1 = some s2 → FiredOK L prog W s2) := by
  have inv := firedInv (L := L) (prog := prog) (W := W) w hc hw fuel
  have h1 : FiredOK L prog W (execRule prog w fuel start (St.init w.size false)).2 :=
    inv.rule start _ (firedOK_init _ _)
  unfold parse
  simp only []
  split
  · exact ⟨h1, by simp⟩
  · exact ⟨h1, by simp⟩
  · exact ⟨h1, by simp⟩
  · exact ⟨h1, by simp⟩
  · exact ⟨h1, by simp⟩
  · rename_i e heq
    have h2 : FiredOK L prog W (execRule prog w fuel start
        { ((execRule prog w fuel start (St.init w.size false)).2.reset 0) with invalid := true, cache := Array.replicate (w.size + 1) [] }).2 :=
      inv.rule start _ (firedOK_of_fired_eq rfl h1)
    split <;> exact ⟨h1, by intro s2 hs2; injection hs2 with hs2; subst hs2; exact h2⟩

/-- Non-vacuity: a two-alternative rule whose first alternative needs a xonsh-only token; on a Python-lexicon
    input the witness is accepted, the input satisfies `PyLex`, and exactly the live alternative fires. -/
def tinyProg : Prog := #[{ deco := .none, body := .alts [
    { items := [{ item := .call (.expect 7), opt := false }], act := .truthy, cut := false },
    { items := [{ item := .call .name, opt := false }], act := .truthy, cut := false }] false false }]
def tinyLex : Lexicon := { xonshStrs := [7], xonshTypes := [.SEARCH_PATH] }
def tinyW : Array RTok := #[{ ty := .NAME, strId := 3, isKw := false, isSoft := false }]

example : deadCert tinyLex tinyProg [] = true := by decide
example : (parse tinyProg tinyW 20 0).2.1.fired = [(0, 1)] := by decide +kernel
example : deadAltsOf tinyLex [] tinyProg = [(0, 0)] := by decide

end XV.Peg
