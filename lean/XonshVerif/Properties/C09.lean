/-
  C09 — maximal munch for operators: what the certificate `longest_operator_first` buys.
  Property statements only.
-/
namespace XV.Ops

/-- in the list, no entry is a proper prefix of an entry listed later -/
def noEarlierPrefix {α : Type} [DecidableEq α] : List (List α) → Bool
  | [] => true
  | x :: rest => rest.all (fun y => !(x.isPrefixOf y && x != y)) && noEarlierPrefix rest

/-- the first entry of the list that is a prefix of the text (what an ordered alternation of literals matches) -/
def firstPrefix {α : Type} [DecidableEq α] (ops : List (List α)) (text : List α) : Option (List α) :=
  ops.find? (fun o => o.isPrefixOf text)

theorem prefix_of_prefixes {α : Type} [DecidableEq α] : ∀ (x y text : List α), x.isPrefixOf text = true → y.isPrefixOf text = true →
    x.length ≤ y.length → x.isPrefixOf y = true
  | [], _, _, _, _, _ => by simp
  | a :: x, [], _, _, _, hl => by simp at hl
  | a :: x, b :: y, [], hx, _, _ => by simp at hx
  | a :: x, b :: y, c :: t, hx, hy, hl => by
    simp only [List.isPrefixOf, Bool.and_eq_true, beq_iff_eq] at hx hy ⊢
    exact ⟨hx.1.trans hy.1.symm, prefix_of_prefixes x y t hx.2 hy.2 (by simpa using hl)⟩

theorem prefix_same_length_eq {α : Type} [DecidableEq α] : ∀ (x y : List α), x.isPrefixOf y = true → x.length = y.length → x = y
  | [], [], _, _ => rfl
  | [], b :: y, _, hl => by simp at hl
  | a :: x, [], hp, _ => by simp at hp
  | a :: x, b :: y, hp, hl => by
    simp only [List.isPrefixOf, Bool.and_eq_true, beq_iff_eq] at hp
    rw [hp.1, prefix_same_length_eq x y hp.2 (by simpa using hl)]

/-- **first_listed_is_longest (maximal munch).**  In a list where no entry is a proper prefix of a later one, the
    FIRST entry that is a prefix of the text is at least as long as EVERY entry that is a prefix of the text: an
    ordered alternation of such literals takes the longest operator. -/
theorem first_listed_is_longest {α : Type} [DecidableEq α] : ∀ (ops : List (List α)) (text o : List α),
    noEarlierPrefix ops = true → firstPrefix ops text = some o →
    ∀ o' ∈ ops, o'.isPrefixOf text = true → o'.length ≤ o.length
  | [], _, _, _, h, _, _, _ => by simp [firstPrefix] at h
  | x :: rest, text, o, hc, h, o', ho', hp' => by
    simp only [noEarlierPrefix, Bool.and_eq_true, List.all_eq_true] at hc
    unfold firstPrefix at h
    simp only [List.find?_cons] at h
    cases hx : x.isPrefixOf text with
    | true =>
      rw [hx] at h
      injection h with h; subst h
      rcases List.mem_cons.mp ho' with he | hm
      · rw [he]; exact Nat.le_refl _
      · -- a later entry that is also a prefix of the text cannot be longer: x would be a proper prefix of it
        rcases Nat.lt_or_ge x.length o'.length with hlt | hge
        · exfalso
          have hpre := prefix_of_prefixes x o' text hx hp' (Nat.le_of_lt hlt)
          have hne : (x != o') = true := by
            simp only [bne_iff_ne, ne_eq]
            intro he; rw [he] at hlt; exact Nat.lt_irrefl _ hlt
          have := hc.1 o' hm
          simp [hpre, hne] at this
        · exact hge
    | false =>
      rw [hx] at h
      rcases List.mem_cons.mp ho' with he | hm
      · rw [he, hx] at hp'; cases hp'
      · exact first_listed_is_longest rest text o hc.2 h o' hm hp'

/-- Non-vacuity: `**=` is listed before `**` and `*`; on the text `**= 2` the first listed prefix is `**=`. -/
example : firstPrefix ["**=".toList, "**".toList, "*=".toList, "*".toList] "**= 2".toList = some "**=".toList := by decide
example : noEarlierPrefix ["**=".toList, "**".toList, "*=".toList, "*".toList] = true := by decide
example : noEarlierPrefix ["*".toList, "**".toList] = false := by decide

end XV.Ops
