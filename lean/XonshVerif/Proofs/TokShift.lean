/-
  C14 (tokenizer level) — line-number shift invariance.  The tokenizer never LOOKS at `lnum`, it only
  copies it into coordinates: running any of its functions on a state whose line counter (and the
  start coordinates of its open strings) are `k` higher gives the same tokens, state and error with
  every line coordinate `k` higher.
-/
import XonshVerif.Model.Tokenize
namespace XV.Tz
open XV XV.Rx

def shP (k : Nat) (p : Pos) : Pos := ⟨p.line + k, p.col⟩
def shTok (k : Nat) (t : Tok5) : Tok5 := { t with start := shP k t.start, stop := shP k t.stop }
def shProg (k : Nat) (p : EndProg) : EndProg := { p with start := shP k p.start }
def shSt (k : Nat) (s : TState) : TState := { s with lnum := s.lnum + k, endProgs := s.endProgs.map (shProg k) }
def shErr (k : Nat) : Err → Err
  | .tokenError m p => .tokenError m (shP k p)
  | .indentationError l p => .indentationError (l + k) p
  | .reFuel => .reFuel
  | .loopFuel => .loopFuel

@[simp] theorem shSt_line (k s) : (shSt k s).line = s.line := rfl
@[simp] theorem shSt_pos (k s) : (shSt k s).pos = s.pos := rfl
@[simp] theorem shSt_max (k s) : (shSt k s).max = s.max := rfl
@[simp] theorem shSt_parenlev (k s) : (shSt k s).parenlev = s.parenlev := rfl
@[simp] theorem shSt_continued (k s) : (shSt k s).continued = s.continued := rfl
@[simp] theorem shSt_indents (k s) : (shSt k s).indents = s.indents := rfl
@[simp] theorem shSt_lnum (k s) : (shSt k s).lnum = s.lnum + k := rfl
@[simp] theorem shSt_commentLine (k s) : (shSt k s).commentLine = s.commentLine := rfl
@[simp] theorem shSt_endProgs (k s) : (shSt k s).endProgs = s.endProgs.map (shProg k) := rfl
@[simp] theorem shProg_mode (k p) : (shProg k p).mode = p.mode := rfl
@[simp] theorem shProg_pat (k p) : (shProg k p).pat = p.pat := rfl
@[simp] theorem shProg_text (k p) : (shProg k p).text = p.text := rfl
@[simp] theorem shProg_contline (k p) : (shProg k p).contline = p.contline := rfl
@[simp] theorem shProg_quote (k p) : (shProg k p).quote = p.quote := rfl
@[simp] theorem shProg_start (k p) : (shProg k p).start = shP k p.start := rfl
@[simp] theorem reFuel_sh (k s) : reFuel (shSt k s) = reFuel s := rfl

@[simp] theorem inMiddle_sh (k s) : (shSt k s).inMiddle = s.inMiddle := by
  unfold TState.inMiddle; simp only [shSt_endProgs]; cases s.endProgs <;> simp
@[simp] theorem inBraces_sh (k s) : (shSt k s).inBraces = s.inBraces := by
  unfold TState.inBraces; simp only [shSt_endProgs]; cases s.endProgs <;> simp
@[simp] theorem inColon_sh (k s) : (shSt k s).inColon = s.inColon := by
  unfold TState.inColon; simp only [shSt_endProgs]; cases s.endProgs <;> simp
@[simp] theorem inMultiLineString_sh (k s) : (shSt k s).inMultiLineString = s.inMultiLineString := by
  unfold TState.inMultiLineString; simp only [shSt_endProgs]; cases s.endProgs <;> rfl
@[simp] theorem atParenlev_sh (k s) : (shSt k s).atParenlev = s.atParenlev := by
  unfold TState.atParenlev; simp only [shSt_endProgs, shSt_parenlev]; cases s.endProgs <;> rfl
@[simp] theorem inContinuedString_sh (k s) : (shSt k s).inContinuedString = s.inContinuedString := by
  unfold TState.inContinuedString; simp only [shSt_endProgs, shSt_line, List.isEmpty_map]; rfl

theorem popMode_sh (k : Nat) (s : TState) (e : Option Pos) :
    (shSt k s).popMode (e.map (shP k)) = shSt k (s.popMode e) := by
  unfold TState.popMode
  simp only [shSt_endProgs]
  cases h : s.endProgs with
  | nil => simp [shSt, h]
  | cons p rest =>
    cases rest with
    | nil => cases e <;> simp [shSt, h]
    | cons q more => cases e <;> simp [shSt, h, shProg]

theorem addProg_sh (k : Nat) (s : TState) (a b : Nat) (m : Mode) (pt : PatKind) (q : List Nat) :
    (shSt k s).addProg a b m pt q = shSt k (s.addProg a b m pt q) := by
  simp [TState.addProg, shSt, shProg, shP]

theorem progToken_sh (k : Nat) (s : TState) (e : Nat) (ty : TT) (hne : s.endProgs ≠ []) :
    (shSt k s).progToken e ty = (shTok k (s.progToken e ty).1, shSt k (s.progToken e ty).2) := by
  unfold TState.progToken
  simp only [shSt_endProgs]
  cases h : s.endProgs with
  | nil => exact absurd h hne
  | cons p rest => simp [shSt, h, shTok, shP, shProg]


def emap {ε ε' α α' : Type} (fe : ε → ε') (fa : α → α') : Except ε α → Except ε' α'
  | .error e => .error (fe e)
  | .ok a => .ok (fa a)

@[simp] theorem emap_ok {ε ε' α α' : Type} (fe : ε → ε') (fa : α → α') (a : α) : emap fe fa (.ok a) = .ok (fa a) := rfl
@[simp] theorem emap_error {ε ε' α α' : Type} (fe : ε → ε') (fa : α → α') (e : ε) : emap fe fa (.error e : Except ε α) = .error (fe e) := rfl

theorem dedents_sh (k col lnum pos : Nat) (line : List Nat) : ∀ (fuel : Nat) (ind : List Nat) (acc : List Tok5),
    dedents col (lnum + k) pos line fuel ind (acc.map (shTok k)) =
      emap (shErr k) (fun r => (r.1, r.2.map (shTok k))) (dedents col lnum pos line fuel ind acc)
  | 0, ind, acc => by simp [dedents]
  | fuel + 1, ind, acc => by
    simp only [dedents]
    split
    · simp
    · split
      · split
        · simp [shErr]
        · have := dedents_sh k col lnum pos line fuel ind.dropLast
            (acc ++ [{ ty := .DEDENT, str := [], start := ⟨lnum, pos⟩, stop := ⟨lnum, pos⟩, line := line }])
          simp only [List.map_append, List.map_cons, List.map_nil] at this
          exact this
      · simp

theorem mkTok_sh (k : Nat) (s : TState) (a b : Nat) (ty : TT) : mkTok (shSt k s) a b ty = shTok k (mkTok s a b ty) := rfl


/-- both sides branch on the same condition -/
theorem ite_both {α β : Type} {c : Prop} [Decidable c] (f : α → β) {a b : β} {a' b' : α}
    (h1 : c → a = f a') (h2 : ¬c → b = f b') : (if c then a else b) = f (if c then a' else b') := by
  split
  · rename_i h; exact h1 h
  · rename_i h; exact h2 h

def shStmt (k : Nat) (r : List Tok5 × TState × StmtAction) : List Tok5 × TState × StmtAction :=
  (r.1.map (shTok k), shSt k r.2.1, r.2.2)

theorem nextStatement_sh (k : Nat) (P : Pats) (s : TState) :
    nextStatement P (shSt k s) = emap (shErr k) (shStmt k) (nextStatement P s) := by
  unfold nextStatement
  obtain ⟨lnum, pl, c, ind, line, pos, max, eps, cl⟩ := s
  dsimp only [shSt]
  refine ite_both _ (fun _ => rfl) (fun _ => ?_)
  refine ite_both _ (fun _ => rfl) (fun _ => ?_)
  refine ite_both _ (fun _ => ?_) (fun _ => ?_)
  · exact ite_both _ (fun _ => rfl) (fun _ => rfl)
  · by_cases hc : (measureIndent P.tabsize line (max + 1) 0 pos).fst > ind.getLast?.getD 0
    · simp only [hc, if_true]
      have := dedents_sh k (measureIndent P.tabsize line (max + 1) 0 pos).fst lnum (measureIndent P.tabsize line (max + 1) 0 pos).snd line.toList
        ((ind ++ [(measureIndent P.tabsize line (max + 1) 0 pos).fst]).length + 1) (ind ++ [(measureIndent P.tabsize line (max + 1) 0 pos).fst])
        [{ ty := .INDENT, str := line.toList.take (measureIndent P.tabsize line (max + 1) 0 pos).snd, start := ⟨lnum, 0⟩, stop := ⟨lnum, (measureIndent P.tabsize line (max + 1) 0 pos).snd⟩, line := line.toList }]
      simp only [List.map_cons, List.map_nil, shTok, shP] at this
      rw [this]
      cases dedents (measureIndent P.tabsize line (max + 1) 0 pos).fst lnum (measureIndent P.tabsize line (max + 1) 0 pos).snd line.toList
        ((ind ++ [(measureIndent P.tabsize line (max + 1) 0 pos).fst]).length + 1) (ind ++ [(measureIndent P.tabsize line (max + 1) 0 pos).fst])
        [{ ty := .INDENT, str := line.toList.take (measureIndent P.tabsize line (max + 1) 0 pos).snd, start := ⟨lnum, 0⟩, stop := ⟨lnum, (measureIndent P.tabsize line (max + 1) 0 pos).snd⟩, line := line.toList }] with
      | error e => rfl
      | ok r => rfl
    · simp only [hc, if_false]
      have := dedents_sh k (measureIndent P.tabsize line (max + 1) 0 pos).fst lnum (measureIndent P.tabsize line (max + 1) 0 pos).snd line.toList
        (ind.length + 1) ind []
      simp only [List.map_nil] at this
      rw [this]
      cases dedents (measureIndent P.tabsize line (max + 1) 0 pos).fst lnum (measureIndent P.tabsize line (max + 1) 0 pos).snd line.toList (ind.length + 1) ind [] with
      | error e => rfl
      | ok r => rfl


theorem ite_both' {β : Type} {c : Prop} [Decidable c] {a b a' b' : β}
    (h1 : c → a = a') (h2 : ¬c → b = b') : (if c then a else b) = (if c then a' else b') := by
  split
  · rename_i h; exact h1 h
  · rename_i h; exact h2 h

theorem specialAction_sh (k : Nat) (s : TState) (a b : Nat) :
    specialAction (shSt k s) a b = shSt k (specialAction s a b) := by
  unfold specialAction
  simp only [shSt_line, inBraces_sh, atParenlev_sh, shSt_parenlev, shSt_lnum]
  have hp : (shSt k s).popMode (some ⟨s.lnum + k, b⟩) = shSt k (s.popMode (some ⟨s.lnum, b⟩)) := popMode_sh k s (some ⟨s.lnum, b⟩)
  rw [hp]
  refine ite_both (shSt k) (fun _ => rfl) (fun _ => ?_)
  refine ite_both (shSt k) (fun _ => ?_) (fun _ => ?_)
  · by_cases hb : (s.inBraces && s.atParenlev) = true
    · simp only [hb, if_true]; rfl
    · simp only [hb, Bool.false_eq_true, if_false]; rfl
  · exact ite_both (shSt k) (fun _ => addProg_sh k s (a + 1) b _ _ _) (fun _ => rfl)


def shOT (k : Nat) (r : Option Tok5 × TState) : Option Tok5 × TState := (r.1.map (shTok k), shSt k r.2)

theorem pseudoAction_sh (k : Nat) (s : TState) (g : String) (a b : Nat) :
    pseudoAction (shSt k s) g a b = emap (shErr k) (shOT k) (pseudoAction s g a b) := by
  unfold pseudoAction
  simp only [shSt_line, shSt_parenlev, shSt_lnum, mkTok_sh, addProg_sh, specialAction_sh]
  refine ite_both _ (fun _ => ?_) (fun _ => ?_)
  · exact ite_both _ (fun _ => rfl) (fun _ => rfl)
  refine ite_both _ (fun _ => rfl) (fun _ => ?_)
  refine ite_both _ (fun _ => rfl) (fun _ => ?_)
  refine ite_both _ (fun _ => rfl) (fun _ => ?_)
  refine ite_both _ (fun _ => rfl) (fun _ => ?_)
  refine ite_both _ (fun _ => rfl) (fun _ => ?_)
  refine ite_both _ (fun _ => rfl) (fun _ => ?_)
  refine ite_both _ (fun _ => rfl) (fun _ => ?_)
  exact ite_both _ (fun _ => rfl) (fun _ => rfl)

theorem nextPseudoMatches_sh (k : Nat) (E : Env) (P : Pats) (s : TState) :
    nextPseudoMatches E P (shSt k s) = emap (shErr k) (shOT k) (nextPseudoMatches E P s) := by
  unfold nextPseudoMatches
  simp only [shSt_pos, shSt_max, inMiddle_sh, reFuel_sh, shSt_line]
  refine ite_both _ (fun _ => rfl) (fun _ => ?_)
  cases matchBranches E (reFuel s) P.pseudo s.line s.pos with
  | inr u => rfl
  | inl o =>
    cases o with
    | none => rfl
    | some ge => exact pseudoAction_sh k { s with pos := ge.2 } ge.1 s.pos ge.2


def shTS (k : Nat) (r : List Tok5 × TState) : List Tok5 × TState := (r.1.map (shTok k), shSt k r.2)

theorem emitMiddle_sh (k : Nat) (s : TState) (m : Nat) (prog : EndProg) (hne : s.endProgs ≠ []) :
    emitMiddle (shSt k s) m (shProg k prog) = shTS k (emitMiddle s m prog) := by
  unfold emitMiddle
  simp only [shSt_pos, shProg_text, progToken_sh k s m _ hne]
  exact ite_both (shTS k) (fun _ => rfl) (fun _ => rfl)

theorem emitMiddle_lnum (s : TState) (m : Nat) (prog : EndProg) : (emitMiddle s m prog).2.lnum = s.lnum := by
  unfold emitMiddle TState.progToken
  split
  · cases s.endProgs <;> rfl
  · rfl

theorem emitMiddle_line (s : TState) (m : Nat) (prog : EndProg) : (emitMiddle s m prog).2.line = s.line := by
  unfold emitMiddle TState.progToken
  split
  · cases s.endProgs <;> rfl
  · rfl


theorem rbrace_step (k : Nat) (t : TState) (e : Nat) :
    (({ (shSt k t) with parenlev := t.parenlev - 1 }).popMode none).popMode (some ⟨t.lnum + k, e⟩) =
      shSt k ((({ t with parenlev := t.parenlev - 1 }).popMode none).popMode (some ⟨t.lnum, e⟩)) := by
  have h1 : ({ (shSt k t) with parenlev := t.parenlev - 1 } : TState) = shSt k { t with parenlev := t.parenlev - 1 } := rfl
  rw [h1]
  have h2 := popMode_sh k { t with parenlev := t.parenlev - 1 } none
  simp only [Option.map_none] at h2
  rw [h2]
  exact popMode_sh k _ (some ⟨t.lnum, e⟩)

def shTSB (k : Nat) (r : List Tok5 × TState × Bool) : List Tok5 × TState × Bool := (r.1.map (shTok k), shSt k r.2.1, r.2.2)

theorem handleFstringProgs_sh (k : Nat) (E : Env) (P : Pats) (s : TState) :
    handleFstringProgs E P (shSt k s) = emap (shErr k) (shTSB k) (handleFstringProgs E P s) := by
  unfold handleFstringProgs
  cases h : s.endProgs with
  | nil => simp only [shSt_endProgs, h, List.map_nil]; rfl
  | cons prog rest =>
    have hne : s.endProgs ≠ [] := by rw [h]; simp
    simp only [shSt_endProgs, h, List.map_cons, reFuel_sh, shSt_line, shSt_pos, shProg_pat, shProg_quote]
    cases matchBranches E (reFuel s) (patBranches P prog.pat) s.line s.pos with
    | inr u => rfl
    | inl o =>
      cases o with
      | none => rfl
      | some ge =>
        obtain ⟨group, e⟩ := ge
        simp only []
        refine ite_both _ (fun _ => rfl) (fun _ => ?_)
        have hem1 := emitMiddle_sh k s (e - prog.quote.length) prog hne
        have hem2 := emitMiddle_sh k s (e - 1) prog hne
        refine ite_both _ (fun _ => ?_) (fun _ => ?_)
        · rw [hem1]
          simp only [shTS, shSt_lnum, shSt_pos, emap_ok, shTSB, List.map_append, List.map_cons, List.map_nil]
          have := popMode_sh k (emitMiddle s (e - prog.quote.length) prog).2 none
          simp only [Option.map_none] at this
          rw [this]
          rfl
        · rw [hem2]
          refine ite_both _ (fun _ => ?_) (fun _ => ?_)
          · simp only [shTS, shSt_lnum, shSt_pos, shSt_parenlev, emap_ok, shTSB, List.map_append, List.map_cons, List.map_nil]
            rfl
          · generalize emitMiddle s (e - 1) prog = r
            obtain ⟨ts, t⟩ := r
            simp only [shTS, shSt_lnum, shSt_pos, shSt_parenlev, emap_ok, shTSB, List.map_append, List.map_cons, List.map_nil]
            have := rbrace_step k t e
            simp only [shSt_parenlev, shSt_lnum, shSt_pos] at this
            rw [this]
            rfl


def shTSBB (k : Nat) (r : List Tok5 × TState × Bool × Bool) : List Tok5 × TState × Bool × Bool :=
  (r.1.map (shTok k), shSt k r.2.1, r.2.2)

theorem endProgStep_sh (k : Nat) (E : Env) (P : Pats) (s : TState) (prog : EndProg) (hne : s.endProgs ≠ []) :
    endProgStep E P (shSt k s) (shProg k prog) = emap (shErr k) (shTSBB k) (endProgStep E P s prog) := by
  unfold endProgStep
  simp only [inMiddle_sh, inColon_sh, reFuel_sh, shSt_line, shSt_pos, shProg_pat, handleFstringProgs_sh]
  refine ite_both _ (fun _ => ?_) (fun _ => ?_)
  · cases handleFstringProgs E P s with
    | error e => rfl
    | ok r => rfl
  · cases matchBranches E (reFuel s) (patBranches P prog.pat) s.line s.pos with
    | inr u => rfl
    | inl o =>
      cases o with
      | none => rfl
      | some ge =>
        simp only [progToken_sh k s ge.2 _ hne]
        have := popMode_sh k (s.progToken ge.2 .STRING).2 none
        simp only [Option.map_none] at this
        rw [this]
        rfl

theorem endProgFinish_sh (k : Nat) (ts : List Tok5) (s : TState) (m early : Bool) :
    endProgFinish (ts.map (shTok k)) (shSt k s) m early = emap (shErr k) (shTS k) (endProgFinish ts s m early) := by
  unfold endProgFinish
  simp only [inBraces_sh, shSt_endProgs, List.isEmpty_map, shSt_pos, inMultiLineString_sh, inContinuedString_sh, shSt_line, shSt_max]
  refine ite_both _ (fun _ => rfl) (fun _ => ?_)
  refine ite_both _ (fun _ => rfl) (fun hnb => ?_)
  refine ite_both _ (fun _ => rfl) (fun _ => ?_)
  refine ite_both _ (fun _ => ?_) (fun _ => ?_)
  · cases h : s.endProgs with
    | nil => rfl
    | cons p rest => simp only [List.map_cons, emap_ok, shTS, shSt, h, shProg]
  · refine ite_both _ (fun _ => ?_) (fun _ => rfl)
    cases h : s.endProgs with
    | nil => simp [h] at hnb
    | cons p rest => rfl

theorem handleEndProgs_sh (k : Nat) (E : Env) (P : Pats) (s : TState) :
    handleEndProgs E P (shSt k s) = emap (shErr k) (shTS k) (handleEndProgs E P s) := by
  unfold handleEndProgs
  cases h : s.endProgs with
  | nil => simp only [shSt_endProgs, h, List.map_nil]; rfl
  | cons prog rest =>
    have hne : s.endProgs ≠ [] := by rw [h]; simp
    simp only [shSt_endProgs, h, List.map_cons, shSt_pos, shSt_line, inBraces_sh]
    refine ite_both _ (fun _ => rfl) (fun _ => ?_)
    refine ite_both _ (fun _ => rfl) (fun _ => ?_)
    rw [endProgStep_sh k E P s prog hne]
    cases endProgStep E P s prog with
    | error e => rfl
    | ok r =>
      obtain ⟨ts, s', m, early⟩ := r
      exact endProgFinish_sh k ts s' m early


def shET (k : Nat) (r : Err × List Tok5) : Err × List Tok5 := (shErr k r.1, r.2.map (shTok k))
def shST (k : Nat) (r : TState × List Tok5) : TState × List Tok5 := (shSt k r.1, r.2.map (shTok k))

theorem scanLine_sh (k : Nat) (E : Env) (P : Pats) : ∀ (fuel : Nat) (s : TState) (acc : List Tok5),
    scanLine E P fuel (shSt k s) (acc.map (shTok k)) = emap (shET k) (shST k) (scanLine E P fuel s acc)
  | 0, s, acc => rfl
  | fuel + 1, s, acc => by
    simp only [scanLine, shSt_pos, shSt_max, handleEndProgs_sh]
    refine ite_both _ (fun _ => ?_) (fun _ => rfl)
    cases handleEndProgs E P s with
    | error e => rfl
    | ok r =>
      obtain ⟨ts1, s1⟩ := r
      simp only [emap_ok, shTS, nextPseudoMatches_sh]
      cases nextPseudoMatches E P s1 with
      | error e => simp only [emap_error, shET, List.map_append]
      | ok r2 =>
        obtain ⟨ot, s2⟩ := r2
        cases ot with
        | some t =>
          simp only [emap_ok, shOT, Option.map_some]
          have := scanLine_sh k E P fuel s2 (acc ++ ts1 ++ [t])
          simp only [List.map_append, List.map_cons, List.map_nil] at this
          exact this
        | none =>
          simp only [emap_ok, shOT, Option.map_none, shSt_pos, shSt_line, shSt_lnum]
          refine ite_both _ (fun _ => ?_) (fun _ => ?_)
          · have := scanLine_sh k E P fuel { s2 with pos := s2.pos + 1 }
              (acc ++ ts1 ++ [{ ty := .ERRORTOKEN, str := [s2.line[s2.pos]?.getD 0], start := ⟨s2.lnum, s2.pos⟩, stop := ⟨s2.lnum, s2.pos + 1⟩, line := s2.line.toList }])
            simp only [List.map_append, List.map_cons, List.map_nil] at this
            exact this
          · have := scanLine_sh k E P fuel s2 (acc ++ ts1)
            simp only [List.map_append] at this
            exact this


def shLH (k : Nat) (r : TState × List Tok5 × Bool × Bool) : TState × List Tok5 × Bool × Bool :=
  (shSt k r.1, r.2.1.map (shTok k), r.2.2)

theorem lineHead_sh (k : Nat) (E : Env) (P : Pats) (s : TState) :
    lineHead E P (shSt k s) = emap (shErr k) (shLH k) (lineHead E P s) := by
  unfold lineHead
  have hns := nextStatement_sh k P s
  have hep := handleEndProgs_sh k E P { s with continued := false }
  obtain ⟨lnum, pl, c, ind, line, pos, max, eps, cl⟩ := s
  dsimp only [shSt] at hns hep ⊢
  simp only [List.isEmpty_map]
  refine ite_both _ (fun _ => ?_) (fun _ => ?_)
  · rw [hep]
    cases handleEndProgs E P ⟨lnum, pl, false, ind, line, pos, max, eps, cl⟩ with
    | error e => rfl
    | ok r => rfl
  · refine ite_both _ (fun _ => ?_) (fun _ => ?_)
    · rw [hns]
      cases nextStatement P ⟨lnum, pl, c, ind, line, pos, max, eps, cl⟩ with
      | error e => rfl
      | ok r =>
        obtain ⟨ts, s', a⟩ := r
        cases a <;> rfl
    · exact ite_both _ (fun _ => rfl) (fun _ => rfl)

theorem moveNextLine_sh (k : Nat) (s : TState) (l : List Nat) : (shSt k s).moveNextLine l = shSt k (s.moveNextLine l) := by
  simp only [TState.moveNextLine, shSt]
  congr 1
  omega

theorem nextEndTokens_sh (k : Nat) (ll : List Nat) (lc : Bool) (s : TState) (h1 : 1 ≤ s.lnum) :
    nextEndTokens ll lc (shSt k s) = (nextEndTokens ll lc s).map (shTok k) := by
  unfold nextEndTokens
  have hl : s.lnum + k - 1 = s.lnum - 1 + k := by omega
  simp only [shSt_lnum, shSt_indents, hl]
  cases ll.getLast? with
  | none => simp [shTok, shP, Function.comp_def]
  | some c =>
    simp only []
    split <;> simp [shTok, shP, Function.comp_def]

end XV.Tz
