/-
  Soundness of the regex checker `nonNull` and basic facts about the back-tracking matcher:
  a match never ends before its start, ends strictly later when `nonNull`, and stays inside the line.
-/
import XonshVerif.Model.Regex
namespace XV.Rx

/-- Restrict a continuation to positions satisfying `p`. -/
def restrict (p : Nat → Bool) (k : Nat → MR) : Nat → MR := fun q => if p q then k q else .noMatch

/-- The matcher only ever calls its continuation at positions ≥ the start position. -/
theorem m_mono (E : Env) (s : Array Nat) : ∀ (fuel : Nat) (r : Re) (pos : Nat) (k : Nat → MR),
    m E s fuel r pos k = m E s fuel r pos (restrict (fun q => pos ≤ q) k) := by
  intro fuel
  induction fuel with
  | zero => intros; rfl
  | succ fuel ih =>
    intro r pos k
    cases r with
    | eps => simp [m, restrict]
    | chr c => simp only [m, restrict]; split <;> simp
    | notChr c => simp only [m, restrict]; split <;> (try split) <;> simp
    | any => simp only [m, restrict]; split <;> (try split) <;> simp
    | set neg items => simp only [m, restrict]; split <;> (try split) <;> simp
    | seq a b =>
      simp only [m]
      rw [ih a pos, ih a pos (fun p => m E s fuel b p (restrict (fun q => pos ≤ q) k))]
      congr 1
      funext p
      simp only [restrict]
      split
      · rename_i hp
        rw [ih b p k, ih b p (restrict (fun q => pos ≤ q) k)]
        congr 1
        funext q
        simp only [restrict]
        split
        · rename_i hq
          have : pos ≤ q := Nat.le_trans (by simpa using hp) (by simpa using hq)
          simp [this]
        · rfl
      · rfl
    | alt a b =>
      simp only [m]
      rw [ih a pos k, ih b pos k]
    | star g body =>
      cases g with
      | true =>
        simp only [m]
        have h1 : m E s fuel body pos (fun p => if p > pos then m E s fuel (.star true body) p k else .noMatch)
            = m E s fuel body pos (fun p => if p > pos then m E s fuel (.star true body) p (restrict (fun q => pos ≤ q) k) else .noMatch) := by
          congr 1
          funext p
          split
          · rename_i hp
            rw [ih (.star true body) p k, ih (.star true body) p (restrict (fun q => pos ≤ q) k)]
            congr 1
            funext q
            simp only [restrict]
            split
            · rename_i hq
              have : pos ≤ q := Nat.le_trans (Nat.le_of_lt hp) (by simpa using hq)
              simp [this]
            · rfl
          · rfl
        rw [h1]
        simp [restrict]
      | false =>
        simp only [m]
        have h1 : m E s fuel body pos (fun p => if p > pos then m E s fuel (.star false body) p k else .noMatch)
            = m E s fuel body pos (fun p => if p > pos then m E s fuel (.star false body) p (restrict (fun q => pos ≤ q) k) else .noMatch) := by
          congr 1
          funext p
          split
          · rename_i hp
            rw [ih (.star false body) p k, ih (.star false body) p (restrict (fun q => pos ≤ q) k)]
            congr 1
            funext q
            simp only [restrict]
            split
            · rename_i hq
              have : pos ≤ q := Nat.le_trans (Nat.le_of_lt hp) (by simpa using hq)
              simp [this]
            · rfl
          · rfl
        rw [h1]
        simp [restrict]
    | look neg body => simp [m, restrict]
    | eoi => simp only [m, restrict]; split <;> simp

end XV.Rx

namespace XV.Rx

theorem restrict_restrict_lt_le (pos p : Nat) (hp : pos < p) (k : Nat → MR) :
    restrict (fun q => p ≤ q) (restrict (fun q => pos < q) k) = restrict (fun q => p ≤ q) k := by
  funext q
  simp only [restrict]
  split
  · rename_i hq
    have : pos < q := Nat.lt_of_lt_of_le hp (by simpa using hq)
    simp [this]
  · rfl

theorem restrict_restrict_le_lt (pos p : Nat) (hp : pos ≤ p) (k : Nat → MR) :
    restrict (fun q => p < q) (restrict (fun q => pos < q) k) = restrict (fun q => p < q) k := by
  funext q
  simp only [restrict]
  split
  · rename_i hq
    have : pos < q := Nat.lt_of_le_of_lt hp (by simpa using hq)
    simp [this]
  · rfl

/-- **nonNull soundness**: a regex that passes `nonNull` only ever continues strictly further. -/
theorem m_nonNull (E : Env) (s : Array Nat) : ∀ (fuel : Nat) (r : Re) (pos : Nat) (k : Nat → MR),
    nonNull r = true →
    m E s fuel r pos k = m E s fuel r pos (restrict (fun q => pos < q) k) := by
  intro fuel
  induction fuel with
  | zero => intros; rfl
  | succ fuel ih =>
    intro r pos k hn
    cases r with
    | eps => simp [nonNull] at hn
    | chr c => simp only [m, restrict]; split <;> simp
    | notChr c => simp only [m, restrict]; split <;> (try split) <;> simp
    | any => simp only [m, restrict]; split <;> (try split) <;> simp
    | set neg items => simp only [m, restrict]; split <;> (try split) <;> simp
    | seq a b =>
      simp only [nonNull, Bool.or_eq_true] at hn
      simp only [m]
      rcases hn with ha | hb
      · -- `a` already moves forward: every call of the inner continuation is at p > pos
        rw [ih a pos _ ha, ih a pos (fun p => m E s fuel b p (restrict (fun q => pos < q) k)) ha]
        congr 1
        funext p
        simp only [restrict]
        split
        · rename_i hp
          have hp' : pos < p := by simpa using hp
          rw [m_mono E s fuel b p k, m_mono E s fuel b p (restrict (fun q => pos < q) k),
              restrict_restrict_lt_le pos p hp']
        · rfl
      · -- `b` moves forward from wherever `a` stopped (which is ≥ pos)
        rw [m_mono E s fuel a pos, m_mono E s fuel a pos (fun p => m E s fuel b p (restrict (fun q => pos < q) k))]
        congr 1
        funext p
        simp only [restrict]
        split
        · rename_i hp
          have hp' : pos ≤ p := by simpa using hp
          rw [ih b p k hb, ih b p (restrict (fun q => pos < q) k) hb, restrict_restrict_le_lt pos p hp']
        · rfl
    | alt a b =>
      simp only [nonNull, Bool.and_eq_true] at hn
      simp only [m]
      rw [ih a pos k hn.1, ih b pos k hn.2]
    | star g body => simp [nonNull] at hn
    | look neg body => simp [nonNull] at hn
    | eoi => simp [nonNull] at hn

/-- A `matched` result is always produced by the continuation. -/
theorem m_result (E : Env) (s : Array Nat) : ∀ (fuel : Nat) (r : Re) (pos : Nat) (k : Nat → MR) (e : Nat),
    m E s fuel r pos k = .matched e → ∃ p, k p = .matched e := by
  intro fuel
  induction fuel with
  | zero => intro r pos k e h; simp [m] at h
  | succ fuel ih =>
    intro r pos k e h
    cases r with
    | eps => exact ⟨pos, by simpa [m] using h⟩
    | chr c =>
      simp only [m] at h
      split at h
      · exact ⟨_, h⟩
      · simp at h
    | notChr c =>
      simp only [m] at h
      split at h
      · split at h
        · exact ⟨_, h⟩
        · simp at h
      · simp at h
    | any =>
      simp only [m] at h
      split at h
      · split at h
        · exact ⟨_, h⟩
        · simp at h
      · simp at h
    | set neg items =>
      simp only [m] at h
      split at h
      · split at h
        · exact ⟨_, h⟩
        · simp at h
      · simp at h
    | seq a b =>
      simp only [m] at h
      obtain ⟨p, hp⟩ := ih a pos _ e h
      exact ih b p k e hp
    | alt a b =>
      simp only [m] at h
      split at h
      · exact ih b pos k e h
      · rename_i other hne
        exact ih a pos k e (by rw [h])
    | star g body =>
      cases g with
      | true =>
        simp only [m] at h
        split at h
        · exact ⟨pos, h⟩
        · rename_i other hne
          obtain ⟨p, hp⟩ := ih body pos _ e (by rw [h])
          split at hp
          · exact ih (.star true body) p k e hp
          · simp at hp
      | false =>
        simp only [m] at h
        split at h
        · obtain ⟨p, hp⟩ := ih body pos _ e h
          split at hp
          · exact ih (.star false body) p k e hp
          · simp at hp
        · rename_i other hne
          exact ⟨pos, by rw [h]⟩
    | look neg body =>
      simp only [m] at h
      split at h
      · split at h
        · simp at h
        · exact ⟨pos, h⟩
      · split at h
        · exact ⟨pos, h⟩
        · simp at h
      · simp at h
    | eoi =>
      simp only [m] at h
      split at h
      · exact ⟨pos, h⟩
      · simp at h

/-- **match_monotone**: a match never ends before it starts. -/
theorem matchAt_ge (E : Env) (fuel : Nat) (r : Re) (s : Array Nat) (pos e : Nat)
    (h : matchAt E fuel r s pos = .matched e) : pos ≤ e := by
  unfold matchAt at h
  rw [m_mono] at h
  obtain ⟨p, hp⟩ := m_result E s fuel r pos _ e h
  simp only [restrict] at hp
  split at hp
  · rename_i hle
    injection hp with hp
    subst hp
    simpa using hle
  · simp at hp

/-- **match_progress**: a match of a regex that passes `nonNull` ends strictly after its start. -/
theorem matchAt_gt (E : Env) (fuel : Nat) (r : Re) (s : Array Nat) (pos e : Nat)
    (hn : nonNull r = true) (h : matchAt E fuel r s pos = .matched e) : pos < e := by
  unfold matchAt at h
  rw [m_nonNull E s fuel r pos _ hn] at h
  obtain ⟨p, hp⟩ := m_result E s fuel r pos _ e h
  simp only [restrict] at hp
  split at hp
  · rename_i hlt
    injection hp with hp
    subst hp
    simpa using hlt
  · simp at hp

end XV.Rx

namespace XV.Rx

theorem getElem?_some_lt {s : Array Nat} {pos d : Nat} (h : s[pos]? = some d) : pos < s.size := by
  cases Nat.lt_or_ge pos s.size with
  | inl hlt => exact hlt
  | inr hge =>
    have : s[pos]? = none := by simp [hge]
    rw [this] at h
    simp at h

/-- Starting inside the input, the continuation is only called inside the input. -/
theorem m_bound (E : Env) (s : Array Nat) : ∀ (fuel : Nat) (r : Re) (pos : Nat) (k : Nat → MR),
    pos ≤ s.size →
    m E s fuel r pos k = m E s fuel r pos (restrict (fun q => q ≤ s.size) k) := by
  intro fuel
  induction fuel with
  | zero => intros; rfl
  | succ fuel ih =>
    intro r pos k hpos
    cases r with
    | eps => simp [m, restrict, hpos]
    | chr c =>
      simp only [m, restrict]
      split
      · rename_i h
        have := getElem?_some_lt h
        simp [Nat.succ_le_of_lt this]
      · rfl
    | notChr c =>
      simp only [m, restrict]
      split
      · rename_i d h
        have := getElem?_some_lt h
        split <;> simp [Nat.succ_le_of_lt this]
      · rfl
    | any =>
      simp only [m, restrict]
      split
      · rename_i d h
        have := getElem?_some_lt h
        split <;> simp [Nat.succ_le_of_lt this]
      · rfl
    | set neg items =>
      simp only [m, restrict]
      split
      · rename_i d h
        have := getElem?_some_lt h
        split <;> simp [Nat.succ_le_of_lt this]
      · rfl
    | seq a b =>
      simp only [m]
      rw [ih a pos _ hpos, ih a pos (fun p => m E s fuel b p (restrict (fun q => q ≤ s.size) k)) hpos]
      congr 1
      funext p
      simp only [restrict]
      split
      · rename_i hp
        exact ih b p k (by simpa using hp)
      · rfl
    | alt a b =>
      simp only [m]
      rw [ih a pos k hpos, ih b pos k hpos]
    | star g body =>
      cases g with
      | true =>
        simp only [m]
        have h1 : m E s fuel body pos (fun p => if p > pos then m E s fuel (.star true body) p k else .noMatch)
            = m E s fuel body pos (fun p => if p > pos then m E s fuel (.star true body) p (restrict (fun q => q ≤ s.size) k) else .noMatch) := by
          rw [ih body pos _ hpos, ih body pos (fun p => if p > pos then m E s fuel (.star true body) p (restrict (fun q => q ≤ s.size) k) else .noMatch) hpos]
          congr 1
          funext p
          simp only [restrict]
          split
          · rename_i hp
            split
            · exact ih (.star true body) p k (by simpa using hp)
            · rfl
          · rfl
        rw [h1]
        simp [restrict, hpos]
      | false =>
        simp only [m]
        have h1 : m E s fuel body pos (fun p => if p > pos then m E s fuel (.star false body) p k else .noMatch)
            = m E s fuel body pos (fun p => if p > pos then m E s fuel (.star false body) p (restrict (fun q => q ≤ s.size) k) else .noMatch) := by
          rw [ih body pos _ hpos, ih body pos (fun p => if p > pos then m E s fuel (.star false body) p (restrict (fun q => q ≤ s.size) k) else .noMatch) hpos]
          congr 1
          funext p
          simp only [restrict]
          split
          · rename_i hp
            split
            · exact ih (.star false body) p k (by simpa using hp)
            · rfl
          · rfl
        rw [h1]
        simp [restrict, hpos]
    | look neg body => simp [m, restrict, hpos]
    | eoi => simp only [m, restrict]; split <;> simp [hpos]

/-- **match_in_bounds**: a match that starts inside the line ends inside the line. -/
theorem matchAt_le_size (E : Env) (fuel : Nat) (r : Re) (s : Array Nat) (pos e : Nat)
    (hpos : pos ≤ s.size) (h : matchAt E fuel r s pos = .matched e) : e ≤ s.size := by
  unfold matchAt at h
  rw [m_bound E s fuel r pos _ hpos] at h
  obtain ⟨p, hp⟩ := m_result E s fuel r pos _ e h
  simp only [restrict] at hp
  split at hp
  · rename_i hle
    injection hp with hp
    subst hp
    simpa using hle
  · simp at hp

end XV.Rx
