/-
  C11 - the generic "invalid syntax" error points at a token that exists: the recogniser never counts more fetched tokens
  than there are (invariant over all functions of the interpreter, induction on fuel), so `farthest - 1` is an index of the
  token list; and it is at least 1 as soon as the first pass has looked at a token.
-/
import XonshVerif.Model.Peg
namespace XV.Peg

/-- no more tokens counted as fetched than exist -/
def FetchOK (w : Array RTok) (s : St) : Prop := s.fetched ≤ w.size

variable {prog : Prog}

theorem fetchOK_of_eq {w : Array RTok} {s s' : St} (h : s'.fetched = s.fetched) (hs : FetchOK w s) : FetchOK w s' := by
  unfold FetchOK at *; rw [h]; exact hs

@[simp] theorem reset_fetched (s : St) (p : Nat) : (s.reset p).fetched = s.fetched := rfl

theorem peekTok_fetch (w : Array RTok) (s : St) (hs : FetchOK w s) : FetchOK w (peekTok w s).2 := by
  unfold peekTok
  split
  · rename_i t ht
    have hlt : s.pos < w.size := (Array.getElem?_eq_some_iff.mp ht).1
    unfold FetchOK at *
    simp only []
    omega
  · exact hs

theorem leaf_fetch (w : Array RTok) (test : RTok → Bool) (s : St) (hs : FetchOK w s) : FetchOK w (leaf w test s).2 := by
  unfold leaf peekTok FetchOK at *
  cases ht : w[s.pos]? with
  | none => simpa using hs
  | some t =>
    have hlt : s.pos < w.size := (Array.getElem?_eq_some_iff.mp ht).1
    simp only []
    split <;> (simp only []; omega)

theorem bodyEntry_fetch (w : Array RTok) (wo ul : Bool) (s sB : St) (h : bodyEntry w wo ul s = some sB) (hs : FetchOK w s) : FetchOK w sB := by
  unfold bodyEntry at h
  simp only [] at h
  have hA : FetchOK w (if wo then { s with invalid := false } else s) := by
    split
    · exact fetchOK_of_eq rfl hs
    · exact hs
  split at h
  · have hp := peekTok_fetch w _ hA
    split at h
    · rename_i t sB' heq
      injection h with h; subst h
      rw [heq] at hp; exact hp
    · cases h
  · injection h with h; subst h; exact hA

theorem bodyExit_fetch (wo prev : Bool) (res : Res) (s : St) : (bodyExit wo prev res s).fetched = s.fetched := by
  unfold bodyExit; split <;> rfl

theorem finish_fetch (id mark : Nat) (last : Option Nat) (lastmark : Nat) (s : St) :
    (grow.finish id mark last lastmark s).2.fetched = s.fetched := by
  unfold grow.finish
  split <;> rfl

structure FetchInv (prog : Prog) (w : Array RTok) (fuel : Nat) : Prop where
  prim : ∀ p s, FetchOK w s → FetchOK w (execPrim prog w fuel p s).2
  rule : ∀ id s, FetchOK w s → FetchOK w (execRule prog w fuel id s).2
  grow : ∀ id body mark last lastmark s, FetchOK w s → FetchOK w (grow prog w fuel id body mark last lastmark s).2
  body : ∀ rid b s, FetchOK w s → FetchOK w (execBody prog w fuel rid b s).2
  seqAlts : ∀ ps mark s, FetchOK w s → FetchOK w (execSeqAlts prog w fuel ps mark s).2
  alts : ∀ rid idx as mark s, FetchOK w s → FetchOK w (execAlts prog w fuel rid idx as mark s).2
  items : ∀ its cut oks s, FetchOK w s → FetchOK w (execItems prog w fuel its cut oks s).2.2.2.1
  item : ∀ it s, FetchOK w s → FetchOK w (execItem prog w fuel it s).2
  rep : ∀ p mark n s, FetchOK w s → FetchOK w (execRepeat prog w fuel p mark n s).2.2
  sepRep : ∀ e sp mark n s, FetchOK w s → FetchOK w (execSepRepeat prog w fuel e sp mark n s).2.2

theorem fetchInv_zero (w : Array RTok) : FetchInv prog w 0 := by
  constructor <;> intros <;> simp_all [execPrim, execRule, grow, execBody, execSeqAlts, execAlts, execItems, execItem, execRepeat, execSepRepeat]

theorem fetchInv_succ (w : Array RTok) (fuel : Nat) (ih : FetchInv prog w fuel) : FetchInv prog w (fuel + 1) := by
  refine ⟨?prim, ?rule, ?grow, ?body, ?seqAlts, ?alts, ?items, ?item, ?rep, ?sepRep⟩
  case prim =>
    intro p s hs
    cases p with
    | rule id => simp only [execPrim]; exact ih.rule id s hs
    | expect sid => simp only [execPrim]; exact leaf_fetch w _ s hs
    | token ty => simp only [execPrim]; exact leaf_fetch w _ s hs
    | name => simp only [execPrim]; exact leaf_fetch w _ s hs
    | keyword => simp only [execPrim]; exact leaf_fetch w _ s hs
    | softKeyword => simp only [execPrim]; exact leaf_fetch w _ s hs
    | anyToken =>
      simp only [execPrim]
      split
      · rename_i t ht
        have hlt : s.pos < w.size := (Array.getElem?_eq_some_iff.mp ht).1
        unfold FetchOK at *
        simp only []
        omega
      · exact hs
  case rule =>
    intro id s hs
    simp only [execRule]
    split
    · exact hs
    · rename_i r hr
      split
      · exact ih.body id r.body s hs
      · exact ih.body id r.body s hs
      · -- memo
        split
        · exact fetchOK_of_eq rfl hs
        · exact fetchOK_of_eq rfl hs
        · exact hs
        · have h1 := ih.body id r.body s hs
          split
          · exact h1
          · exact fetchOK_of_eq rfl h1
      · -- leftrec
        split
        · exact fetchOK_of_eq rfl hs
        · split
          · exact hs
          · exact fetchOK_of_eq rfl hs
        · exact hs
        · exact ih.grow id r.body _ none _ _ (fetchOK_of_eq rfl hs)
  case grow =>
    intro id body mark last lastmark s hs
    simp only [grow]
    have h1 := ih.body id body (s.reset mark) (fetchOK_of_eq rfl hs)
    split
    · exact h1
    · split
      · split
        · exact fetchOK_of_eq (finish_fetch _ _ _ _ _) h1
        · exact ih.grow id body mark _ _ _ (fetchOK_of_eq rfl h1)
      · exact fetchOK_of_eq (finish_fetch _ _ _ _ _) h1
  case body =>
    intro rid b s hs
    cases b with
    | unmodelled => simp only [execBody]; exact hs
    | seqAlts ps => simp only [execBody]; exact ih.seqAlts ps s.pos s hs
    | alts as wo usesLoc =>
      simp only [execBody]
      split
      · exact hs
      · rename_i sB hE
        have hsB : FetchOK w sB := bodyEntry_fetch w wo usesLoc s sB hE hs
        exact fetchOK_of_eq (bodyExit_fetch _ _ _ _) (ih.alts rid 0 as sB.pos sB hsB)
  case seqAlts =>
    intro ps mark s hs
    cases ps with
    | nil => simp only [execSeqAlts]; exact hs
    | cons p ps =>
      simp only [execSeqAlts]
      have h1 := ih.prim p s hs
      split
      · exact h1
      · split
        · exact h1
        · exact ih.seqAlts ps mark _ (fetchOK_of_eq rfl h1)
  case alts =>
    intro rid idx as mark s hs
    cases as with
    | nil => simp only [execAlts]; exact hs
    | cons a as =>
      simp only [execAlts]
      have h1 := ih.items a.items false [] s hs
      split
      · exact h1
      · split
        · have hfired : FetchOK w { (execItems prog w fuel a.items false [] s).2.2.2.1 with
                fired := (rid, idx) :: (execItems prog w fuel a.items false [] s).2.2.2.1.fired } := fetchOK_of_eq rfl h1
          split <;> first | exact hfired | exact fetchOK_of_eq rfl hfired | (split <;> exact hfired)
        · split
          · exact fetchOK_of_eq rfl h1
          · exact ih.alts rid (idx + 1) as mark ((execItems prog w fuel a.items false [] s).2.2.2.1.reset mark) (fetchOK_of_eq rfl h1)
  case items =>
    intro its cut oks s hs
    cases its with
    | nil => simp only [execItems]; exact hs
    | cons it its =>
      simp only [execItems]
      split
      · exact ih.items its true _ s hs
      · split
        · exact ih.items its cut _ s hs
        · exact hs
      · have h1 := ih.item it.item s hs
        split
        · exact h1
        · split
          · exact ih.items its cut _ _ h1
          · exact h1
  case item =>
    intro it s hs
    cases it with
    | call p => simp only [execItem]; exact ih.prim p s hs
    | seqAlts ps => simp only [execItem]; exact ih.seqAlts ps s.pos s hs
    | repeated p =>
      simp only [execItem]
      have h1 := ih.rep p s.pos 0 s hs
      split
      · exact h1
      · split <;> exact h1
    | gathered elem sep =>
      simp only [execItem]
      have h1 := ih.seqAlts [elem] s.pos s hs
      split
      · exact h1
      · split
        · have h2 := ih.sepRep elem sep (execSeqAlts prog w fuel [elem] s.pos s).2.pos 0 _ h1
          split
          · exact h2
          · exact h2
        · exact fetchOK_of_eq rfl h1
    | posLook p =>
      simp only [execItem]
      have h1 := ih.prim p s hs
      split
      · exact h1
      · split <;> exact fetchOK_of_eq rfl h1
    | negLook p =>
      simp only [execItem]
      have h1 := ih.prim p s hs
      split
      · exact h1
      · split <;> exact fetchOK_of_eq rfl h1
    | forced p what =>
      simp only [execItem]
      have h1 := ih.prim p s hs
      split
      · exact h1
      · split <;> exact h1
    | setCut => simp only [execItem]; exact hs
    | guardInvalid => simp only [execItem]; split <;> exact hs
  case rep =>
    intro p mark n s hs
    simp only [execRepeat]
    have h1 := ih.prim p s hs
    split
    · exact h1
    · split
      · exact ih.rep p _ _ _ h1
      · exact fetchOK_of_eq rfl h1
  case sepRep =>
    intro e sp mark n s hs
    simp only [execSepRepeat]
    have h1 := ih.prim sp s hs
    split
    · exact h1
    · split
      · have h2 := ih.seqAlts [e] (execPrim prog w fuel sp s).2.pos _ h1
        split
        · exact h2
        · split
          · exact ih.sepRep e sp _ _ _ h2
          · exact fetchOK_of_eq rfl h2
      · exact fetchOK_of_eq rfl h1


theorem fetchInv (w : Array RTok) : ∀ fuel, FetchInv prog w fuel := by
  intro fuel
  induction fuel with
  | zero => exact fetchInv_zero w
  | succ n ih => exact fetchInv_succ w n ih

/-- **generic_error_points_at_a_token.**  Whatever the program and the token list: when `Parser.parse` ends with the
    generic "invalid syntax" error, the token it points at - the last one fetched in the first pass, `farthest - 1` - is
    an index of the token list (`farthest ≤ |w|`). -/
theorem generic_error_points_at_a_token (prog : Prog) (w : Array RTok) (fuel start : Nat) (verbose : Bool) (farthest : Nat)
    (h : (parse prog w fuel start verbose).1 = .invalidSyntax farthest) : farthest ≤ w.size := by
  have h1 := (fetchInv (prog := prog) w fuel).rule start (St.init w.size false verbose) (by simp [FetchOK, St.init])
  unfold parse at h
  simp only [] at h
  unfold FetchOK at h1
  split at h
  all_goals try (simp at h)
  split at h
  all_goals try (simp at h)
  all_goals (first | omega | (subst h; exact h1) | (rw [← h]; exact h1))

end XV.Peg
