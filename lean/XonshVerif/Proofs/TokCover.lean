/-
  C08 (a), for every token kind outside f-strings: the text of a token is the source between its coordinates.
  Reuses the scan invariant of Proofs/StringTiling (which settles STRING tokens across lines) and adds the single-line
  tokens of the master pattern, ERRORTOKEN, COMMENT / NL / INDENT / DEDENT of `next_statement` and the closing tokens.
  Not covered: FSTRING_MIDDLE, FSTRING_END and the brace operators emitted by the f-string scanner.
-/
import XonshVerif.Proofs.StringTiling
import XonshVerif.Proofs.Tiling
import XonshVerif.Proofs.TokCompose
namespace XV.Tz
open XV XV.Rx

/-- the token kinds this file covers -/
def Covered (t : Tok5) : Prop :=
  t.ty ≠ .FSTRING_MIDDLE ∧ t.ty ≠ .FSTRING_END ∧ ¬ (t.ty = .OP ∧ (t.str = [123] ∨ t.str = [125]))

def CovOK (lines : List (List Nat)) (ts : List Tok5) : Prop := ∀ t ∈ ts, Covered t → TokSrc lines t

theorem CovOK.append {lines : List (List Nat)} {a b : List Tok5} (ha : CovOK lines a) (hb : CovOK lines b) : CovOK lines (a ++ b) := by
  intro t ht; rcases List.mem_append.mp ht with h | h
  · exact ha t h
  · exact hb t h
theorem CovOK.nil (lines : List (List Nat)) : CovOK lines [] := by intro t ht; cases ht
theorem CovOK.single {lines : List (List Nat)} {t : Tok5} (h : Covered t → TokSrc lines t) : CovOK lines [t] := by
  intro x hx; simp only [List.mem_singleton] at hx; subst hx; exact h

/-- a slice of the current line is a slice of the source -/
theorem lineSlice_src (lines : List (List Nat)) (st : TState) (t : Tok5) (hl : LineOK lines st)
    (h : IsLineSlice st.line st.lnum t) (hmax : t.stop.col ≤ st.line.size) : TokSrc lines t := by
  obtain ⟨h1, h2, h3, h4⟩ := h
  unfold TokSrc srcText
  have hs : off lines t.stop - off lines t.start = t.stop.col - t.start.col := by
    unfold off; rw [h1, h2]; omega
  rw [hs, h4, slice_eq]
  have := flatten_slice lines st.lnum st.line.toList hl.one hl.cur t.start.col t.stop.col h3 (by simpa using hmax)
  have e : off lines t.start = off lines ⟨st.lnum, t.start.col⟩ := by unfold off; rw [h1]
  rw [e, this]

/-- an empty token is (trivially) a source slice when it starts where it stops -/
theorem empty_src (lines : List (List Nat)) (t : Tok5) (hs : t.str = []) (h : t.start = t.stop) : TokSrc lines t := by
  unfold TokSrc srcText; rw [hs, h]; simp


/-! ### the string / f-string scanners: STRING tokens (settled by StringTiling) or kinds outside this file -/

def Uncov (ts : List Tok5) : Prop := ∀ t ∈ ts, ¬ Covered t

theorem Uncov.append {a b : List Tok5} (ha : Uncov a) (hb : Uncov b) : Uncov (a ++ b) := by
  intro t ht; rcases List.mem_append.mp ht with h | h
  · exact ha t h
  · exact hb t h

theorem emitMiddle_uncov (st : TState) (m : Nat) (prog : EndProg) (hne : st.endProgs ≠ []) : Uncov (emitMiddle st m prog).1 := by
  unfold emitMiddle
  split
  · intro t ht
    simp only [List.mem_singleton] at ht
    subst ht
    unfold TState.progToken
    split
    · rename_i h; exact absurd h hne
    · intro hc; exact hc.1 rfl
  · intro t ht; cases ht

theorem handleFstringProgs_uncov (E : Env) (P : Pats) (st st' : TState) (ts : List Tok5) (mt : Bool)
    (h : handleFstringProgs E P st = .ok (ts, st', mt)) : Uncov ts := by
  unfold handleFstringProgs at h
  split at h
  · injection h with h; injection h with h1 _; subst h1; intro t ht; cases ht
  · rename_i prog rest hprogs
    have hne : st.endProgs ≠ [] := by rw [hprogs]; simp
    split at h
    · cases h
    · injection h with h; injection h with h1 _; subst h1; intro t ht; cases ht
    · simp only [] at h
      split at h
      · injection h with h; injection h with h1 _; subst h1; intro t ht; cases ht
      · split at h
        · injection h with h; injection h with h1 _; subst h1
          refine (emitMiddle_uncov st _ prog hne).append ?_
          intro t ht; simp only [List.mem_singleton] at ht; subst ht
          intro hc; exact hc.2.1 rfl
        · split at h
          · injection h with h; injection h with h1 _; subst h1
            refine (emitMiddle_uncov st _ prog hne).append ?_
            intro t ht; simp only [List.mem_singleton] at ht; subst ht
            intro hc; exact hc.2.2 ⟨rfl, Or.inl rfl⟩
          · injection h with h; injection h with h1 _; subst h1
            refine (emitMiddle_uncov st _ prog hne).append ?_
            intro t ht; simp only [List.mem_singleton] at ht; subst ht
            intro hc; exact hc.2.2 ⟨rfl, Or.inr rfl⟩

theorem handleEndProgs_kinds (E : Env) (P : Pats) (st st' : TState) (ts : List Tok5)
    (h : handleEndProgs E P st = .ok (ts, st')) : ∀ t ∈ ts, t.ty = .STRING ∨ ¬ Covered t := by
  unfold handleEndProgs at h
  split at h
  · injection h with h; injection h with h1 _; subst h1; intro t ht; cases ht
  · rename_i prog rest hprogs
    have hne : st.endProgs ≠ [] := by rw [hprogs]; simp
    split at h
    · cases h
    · split at h
      · injection h with h; injection h with h1 _; subst h1; intro t ht; cases ht
      · split at h
        · cases h
        · rename_i ts1 s1 matched early hstep
          have hs1 : ∀ t ∈ ts1, t.ty = .STRING ∨ ¬ Covered t := by
            unfold endProgStep at hstep
            split at hstep
            · split at hstep
              · cases hstep
              · rename_i ts0 s0 m0 hf
                injection hstep with hstep; injection hstep with h1 _; subst h1
                intro t ht; exact Or.inr (handleFstringProgs_uncov E P st _ _ _ hf t ht)
            · split at hstep
              · cases hstep
              · injection hstep with hstep; injection hstep with h1 _; subst h1
                intro t ht; simp only [List.mem_singleton] at ht; subst ht
                left
                unfold TState.progToken
                split
                · rename_i hnil; exact absurd hnil hne
                · rfl
              · injection hstep with hstep; injection hstep with h1 _; subst h1; intro t ht; cases ht
          unfold endProgFinish at h
          split at h
          · injection h with h; injection h with h1 _; subst h1; exact hs1
          · split at h
            · injection h with h; injection h with h1 _; subst h1; exact hs1
            · split at h
              · injection h with h; injection h with h1 _; subst h1; exact hs1
              · split at h
                · split at h
                  · injection h with h; injection h with h1 _; subst h1; exact hs1
                  · injection h with h; injection h with h1 _; subst h1; exact hs1
                · split at h
                  · cases h
                  · injection h with h; injection h with h1 _; subst h1; exact hs1

/-- the tokens of `handle_end_progs` that this file covers are STRING tokens, which `handleEndProgs_inv` settles -/
theorem handleEndProgs_cov (lines : List (List Nat)) (E : Env) (P : Pats) (st st' : TState) (ts : List Tok5)
    (hinv : Inv lines st) (h : handleEndProgs E P st = .ok (ts, st')) : CovOK lines ts := by
  obtain ⟨_, hstr, _⟩ := handleEndProgs_inv lines E P st st' ts hinv h
  intro t ht hc
  rcases handleEndProgs_kinds E P st st' ts h t ht with hk | hk
  · exact hstr t ht hk
  · exact absurd hc hk


/-! ### tokens of the master pattern, ERRORTOKEN -/

theorem nextPseudoMatches_cov (lines : List (List Nat)) (E : Env) (P : Pats) (hP : PseudoProgress P) (st st' : TState) (tok : Option Tok5)
    (hl : LineOK lines st) (h : nextPseudoMatches E P st = .ok (tok, st')) : ∀ t, tok = some t → TokSrc lines t := by
  intro t ht
  subst ht
  obtain ⟨hsl, _, hstop⟩ := pseudo_token_is_source_slice E P st st' t h
  obtain ⟨hadv, hpm, _⟩ := nextPseudo_adv E P hP st st' (some t) hl.max hl.pos h
  refine lineSlice_src lines st t hl hsl ?_
  rw [hstop, ← hl.max, ← hadv.max]; exact hpm

theorem slice_to_end (a : Array Nat) (k : Nat) : slice a k a.toList.length = a.toList.drop k := by
  rw [slice_eq]
  apply List.take_of_length_le
  simp

theorem slice_from_zero (a : Array Nat) (k : Nat) : slice a 0 k = a.toList.take k := by
  rw [slice_eq]; simp

theorem slice_one (a : Array Nat) (i : Nat) (h : i < a.size) : slice a i (i + 1) = [a[i]?.getD 0] := by
  rw [slice_eq]
  have : i + 1 - i = 1 := by omega
  rw [this]
  have hl : i < a.toList.length := by simpa using h
  rw [List.drop_eq_getElem_cons hl]
  simp [Array.getElem?_eq_getElem h]

theorem errortoken_src (lines : List (List Nat)) (st : TState) (hl : LineOK lines st) (hlt : st.pos < st.max) :
    TokSrc lines { ty := .ERRORTOKEN, str := [st.line[st.pos]?.getD 0], start := ⟨st.lnum, st.pos⟩, stop := ⟨st.lnum, st.pos + 1⟩, line := st.line.toList } := by
  have hsz : st.pos < st.line.size := by rw [← hl.max]; exact hlt
  refine lineSlice_src lines st _ hl ⟨rfl, rfl, by simp, ?_⟩ (by simp; omega)
  simp only []
  exact (slice_one st.line st.pos hsz).symm

/-! ### `next_statement`: COMMENT, NL, INDENT, DEDENT -/

theorem rstrip_is_take (l : List Nat) : rstripNewlines l = l.take (rstripNewlines l).length := by
  unfold rstripNewlines
  have hsuf : (l.reverse.dropWhile (fun c => c = 13 || c = 10)) <:+ l.reverse := List.dropWhile_suffix _
  have hpre : (l.reverse.dropWhile (fun c => c = 13 || c = 10)).reverse <+: l := by
    have := List.reverse_prefix.mpr hsuf
    simpa using this
  exact List.prefix_iff_eq_take.mp hpre

theorem dedents_cov (lines : List (List Nat)) (col lnum pos : Nat) (line : List Nat) : ∀ (fuel : Nat) (ind : List Nat) (acc : List Tok5) (ind' : List Nat) (acc' : List Tok5),
    CovOK lines acc → dedents col lnum pos line fuel ind acc = .ok (ind', acc') → CovOK lines acc'
  | 0, ind, acc, ind', acc', ha, h => by
    simp only [dedents] at h; injection h with h; injection h with _ h2; subst h2; exact ha
  | fuel + 1, ind, acc, ind', acc', ha, h => by
    simp only [dedents] at h
    split at h
    · injection h with h; injection h with _ h2; subst h2; exact ha
    · split at h
      · split at h
        · cases h
        · refine dedents_cov lines col lnum pos line fuel _ _ ind' acc' ?_ h
          exact ha.append (CovOK.single (fun _ => empty_src lines _ rfl rfl))
      · injection h with h; injection h with _ h2; subst h2; exact ha

theorem nextStatement_cov (lines : List (List Nat)) (P : Pats) (st st' : TState) (ts : List Tok5) (a : StmtAction)
    (hl : LineOK lines st) (h : nextStatement P st = .ok (ts, st', a)) : CovOK lines ts := by
  unfold nextStatement at h
  split at h
  · injection h with h; injection h with h0 _; subst h0; exact CovOK.nil _
  · simp only [] at h
    have hposle : (measureIndent P.tabsize st.line (st.max + 1) 0 st.pos).2 ≤ st.line.size :=
      measureIndent_le _ _ _ _ _ (by rw [← hl.max]; exact hl.pos)
    split at h
    · injection h with h; injection h with h0 _; subst h0; exact CovOK.nil _
    · have hl' : LineOK lines { st with pos := (measureIndent P.tabsize st.line (st.max + 1) 0 st.pos).2 } :=
        ⟨hl.one, hl.cur, hl.max, by have := hl.max; simp only []; omega⟩
      split at h
      · split at h
        · -- a comment line: COMMENT and NL
          injection h with h; injection h with h0 _; subst h0
          intro t ht _
          simp only [List.mem_cons, List.mem_singleton, List.not_mem_nil, or_false] at ht
          have hlen : (rstripNewlines (st.line.toList.drop (measureIndent P.tabsize st.line (st.max + 1) 0 st.pos).2)).length ≤
              (st.line.toList.drop (measureIndent P.tabsize st.line (st.max + 1) 0 st.pos).2).length := by
            have := rstrip_is_take (st.line.toList.drop (measureIndent P.tabsize st.line (st.max + 1) 0 st.pos).2)
            rw [this]; simp only [List.length_take]; omega
          simp only [List.length_drop, Array.length_toList] at hlen
          rcases ht with ht | ht
          · subst ht
            refine lineSlice_src lines st _ hl ⟨rfl, rfl, by simp, ?_⟩ (by simp only []; omega)
            simp only []
            rw [slice_eq, Nat.add_sub_cancel_left]
            exact rstrip_is_take _
          · subst ht
            refine lineSlice_src lines st _ hl ⟨rfl, rfl, by simp only [Array.length_toList]; omega, ?_⟩ (by simp)
            simp only []
            exact (slice_to_end _ _).symm
        · -- a blank line: NL
          injection h with h; injection h with h0 _; subst h0
          refine CovOK.single (fun _ => ?_)
          refine lineSlice_src lines st _ hl ⟨rfl, rfl, by simpa using hposle, ?_⟩ (by simp)
          simp only []
          exact (slice_to_end _ _).symm
      · split at h
        · cases h
        · rename_i ind2 toks2 hd
          injection h with h; injection h with h0 _; subst h0
          refine dedents_cov lines _ _ _ _ _ _ _ ind2 toks2 ?_ hd
          split
          · refine CovOK.single (fun _ => ?_)
            refine lineSlice_src lines st _ hl ⟨rfl, rfl, Nat.zero_le _, ?_⟩ (by simpa using hposle)
            simp only []
            exact (slice_from_zero _ _).symm
          · exact CovOK.nil _


/-! ### the scan loop of one line -/

theorem scanLine_cov (lines : List (List Nat)) (E : Env) (P : Pats) (hP : PseudoProgress P) :
    ∀ (fuel : Nat) (st : TState) (acc : List Tok5) (st' : TState) (acc' : List Tok5),
      Inv lines st → CovOK lines acc → scanLine E P fuel st acc = .ok (st', acc') → CovOK lines acc' := by
  intro fuel
  induction fuel with
  | zero => intro st acc st' acc' _ _ h; simp [scanLine] at h
  | succ fuel ih =>
    intro st acc st' acc' hinv hacc h
    unfold scanLine at h
    split at h
    · rename_i hlt
      split at h
      · cases h
      · rename_i ts1 st1 h1
        obtain ⟨hinv1, _, hat1⟩ := handleEndProgs_inv lines E P st st1 ts1 hinv h1
        have hcov1 := handleEndProgs_cov lines E P st st1 ts1 hinv h1
        have hadv1 := handleEndProgs_adv E P st st1 ts1 hinv.line.max hinv.line.pos h1
        split at h
        · cases h
        · rename_i t st2 h2
          obtain ⟨hinv2, _, _⟩ := nextPseudoMatches_inv lines E P hP st1 st2 (some t) hinv1 hat1 h2
          have hcov2 := nextPseudoMatches_cov lines E P hP st1 st2 (some t) hinv1.line h2
          exact ih st2 _ st' acc' hinv2 ((hacc.append hcov1).append (CovOK.single (fun _ => hcov2 t rfl))) h
        · rename_i st2 h2
          obtain ⟨hinv2, _, hprog⟩ := nextPseudoMatches_inv lines E P hP st1 st2 none hinv1 hat1 h2
          obtain ⟨hadv2, _, _⟩ := nextPseudo_adv E P hP st1 st2 none hinv1.line.max hinv1.line.pos h2
          simp only [] at h
          split at h
          · rename_i heq
            have hnotN : ∀ q more, st2.endProgs = q :: more → isN q = false := by
              intro q more hq
              cases hN : isN q with
              | false => rfl
              | true =>
                exfalso
                rcases hprog q more hq hN with he | hlt2
                · have := hat1 q more (he ▸ hq) hN
                  have h1m := hadv1.1.max
                  have : st2.pos = st2.max := by rw [he]; exact this
                  have := hadv2.max; have := hadv1.1.max
                  omega
                · have := hadv1.1.ge; omega
            have hlt2 : st2.pos < st2.max := by
              have := hadv2.max; have := hadv1.1.max; omega
            refine ih { st2 with pos := st2.pos + 1 } _ st' acc' ⟨⟨hinv2.line.one, hinv2.line.cur, hinv2.line.max, by simp only []; omega⟩, hinv2.shape, topOK_of_notN lines _ hnotN⟩ ?_ h
            exact (hacc.append hcov1).append (CovOK.single (fun _ => errortoken_src lines st2 hinv2.line hlt2))
          · exact ih st2 _ st' acc' hinv2 (hacc.append hcov1) h
    · injection h with h; injection h with h1 h2; subst h1; subst h2
      exact hacc


/-! ### line heads, the closing tokens, the line loop -/

theorem lineHead_cov (lines : List (List Nat)) (E : Env) (P : Pats) (st s : TState) (ts : List Tok5) (cont brk : Bool)
    (hinv : Inv lines st) (h : lineHead E P st = .ok (s, ts, cont, brk)) : CovOK lines ts := by
  unfold lineHead at h
  split at h
  · split at h
    · cases h
    · rename_i ts0 s0 h0
      injection h with h; injection h with _ h; injection h with h2 _; subst h2
      have hinv0 : Inv lines { st with continued := false } := ⟨⟨hinv.line.one, hinv.line.cur, hinv.line.max, hinv.line.pos⟩, hinv.shape, hinv.top⟩
      exact handleEndProgs_cov lines E P _ _ _ hinv0 h0
  · split at h
    · split at h
      · cases h
      all_goals
        rename_i ts0 s0 h0
        injection h with h; injection h with _ h; injection h with h2 _; subst h2
        exact nextStatement_cov lines P st _ _ _ hinv.line h0
    · split at h
      · cases h
      · injection h with h; injection h with _ h; injection h with h2 _; subst h2
        exact CovOK.nil _

/-- at end of input `lineHead` emits nothing -/
theorem lineHead_eof_ts (E : Env) (P : Pats) (st s : TState) (ts : List Tok5) (cont brk : Bool)
    (hempty : st.line.isEmpty = true) (hpos : st.pos = 0) (h : lineHead E P st = .ok (s, ts, cont, brk)) : ts = [] := by
  unfold lineHead at h
  split at h
  · split at h
    · cases h
    · rename_i ts0 s0 h0
      exfalso
      unfold handleEndProgs at h0
      split at h0
      · rename_i hne _ _ hnil
        have : st.endProgs = [] := hnil
        simp [this] at hne
      · simp [hpos, hempty] at h0
  · split at h
    · unfold nextStatement at h
      simp [hempty] at h
      exact h.2.1
    · simp [hempty] at h

/-- every line but the last ends in a line feed (what `splitLines` produces) -/
def NonLastEndNL (lines : List (List Nat)) : Prop := ∀ i l, lines[i]? = some l → i + 1 < lines.length → l.getLast? = some 10

/-- what the loop knows about the line it has just left: it is line `lnum` of the source (or nothing has been read yet) -/
def PrevOK (lines : List (List Nat)) (st : TState) : Prop :=
  (st.lnum = 0 ∧ st.line.toList = []) ∨ (1 ≤ st.lnum ∧ lines[st.lnum - 1]? = some st.line.toList)

theorem prefixLen_all (lines : List (List Nat)) (k : Nat) (h : lines.length ≤ k) : prefixLen lines k = lines.flatten.length := by
  unfold prefixLen
  rw [List.take_of_length_le h, List.length_flatten]

theorem nextEndTokens_cov (lines : List (List Nat)) (hnl : NonLastEndNL lines) (st s : TState)
    (hprev : PrevOK lines st) (hlnum : s.lnum = st.lnum + 1) : CovOK lines (nextEndTokens st.line.toList st.commentLine s) := by
  unfold nextEndTokens
  refine (CovOK.append ?_ ?_).append (CovOK.single (fun _ => empty_src lines _ rfl rfl))
  · -- the implicit NEWLINE after a last line without line end
    intro t ht _
    split at ht
    · rename_i c hc
      split at ht
      · rename_i hcond
        simp only [List.mem_singleton] at ht; subst ht
        rcases hprev with ⟨_, hnil⟩ | ⟨h1, hcur⟩
        · rw [hnil] at hc; simp at hc
        · -- the line is the last one: its end is the end of the text
          have hlast : lines.length ≤ st.lnum := by
            rcases Nat.lt_or_ge st.lnum lines.length with hlt | hge
            · exfalso
              have := hnl (st.lnum - 1) st.line.toList hcur (by omega)
              rw [hc] at this
              injection this with this
              simp [this] at hcond
            · exact hge
          unfold TokSrc srcText
          simp only []
          have hoff : off lines ⟨s.lnum - 1, st.line.toList.length⟩ = lines.flatten.length := by
            unfold off
            simp only []
            rw [hlnum, Nat.add_sub_cancel]
            have := prefixLen_succ lines (st.lnum - 1) st.line.toList hcur
            rw [show st.lnum - 1 + 1 = st.lnum by omega] at this
            rw [← this]
            exact prefixLen_all lines st.lnum hlast
          rw [hoff, List.drop_of_length_le (Nat.le_refl _)]
          simp
      · cases ht
    · cases ht
  · intro t ht _
    simp only [List.mem_map] at ht
    obtain ⟨_, _, rfl⟩ := ht
    exact empty_src lines _ rfl rfl


theorem CovOK.strOK {lines : List (List Nat)} {ts : List Tok5} (h : CovOK lines ts) : StrOK lines ts := by
  intro t ht hty
  exact h t ht ⟨by rw [hty]; decide, by rw [hty]; decide, fun hc => by rw [hty] at hc; exact absurd hc.1 (by decide)⟩

/-- the whole line loop -/
theorem tokenizeLines_cov (lines : List (List Nat)) (hnl : NonLastEndNL lines) (E : Env) (P : Pats) (hP : PseudoProgress P) :
    ∀ (fuel : Nat) (rest : List (List Nat)) (st : TState) (acc out : List Tok5),
      Between lines st → PrevOK lines st → rest = lines.drop st.lnum → CovOK lines acc →
      tokenizeLines E P fuel rest st acc = .ok out → CovOK lines out := by
  intro fuel
  induction fuel with
  | zero => intro rest st acc out _ _ _ _ h; simp [tokenizeLines] at h
  | succ fuel ih =>
    intro rest st acc out hb hprev hrest hacc h
    simp only [tokenizeLines] at h
    cases hr : rest with
    | nil =>
      rw [hr] at h
      simp only [List.headD_nil, List.tail_nil] at h
      have hempty : (st.moveNextLine []).line.isEmpty = true := by simp [TState.moveNextLine]
      split at h
      · cases h
      · rename_i s ts cont brk hlh
        have hbrk := lineHead_eof E P _ s ts cont brk hempty (by simp [TState.moveNextLine]) hlh
        have hts := lineHead_eof_ts E P _ s ts cont brk hempty (by simp [TState.moveNextLine]) hlh
        have hlnum : s.lnum = st.lnum + 1 := by
          have := lineHead_lnum E P _ s ts cont brk (by simp) (by simp [TState.moveNextLine]) hlh
          rw [this]; rfl
        subst hbrk; subst hts
        simp only [if_true] at h
        injection h with h; subst h
        exact (hacc.append (CovOK.nil _)).append (nextEndTokens_cov lines hnl st s hprev hlnum)
    | cons l rest' =>
      rw [hr] at h
      simp only [List.headD_cons, List.tail_cons] at h
      have hl : lines[st.lnum]? = some l := by
        have : (lines.drop st.lnum)[0]? = some l := by rw [← hrest, hr]; rfl
        simpa [List.getElem?_drop] using this
      have hrest' : rest' = lines.drop (st.lnum + 1) := by
        have := congrArg List.tail (hrest.symm.trans hr)
        simp only [List.tail_drop, List.tail_cons] at this
        exact this.symm
      have hinv0 := inv_of_between lines st l hb hl
      split at h
      · cases h
      · rename_i s ts cont brk hlh
        obtain ⟨_, hgo, hcont⟩ := lineHead_inv lines E P _ s ts cont brk hinv0 hlh
        have hts := lineHead_cov lines E P _ s ts cont brk hinv0 hlh
        have hlnum : s.lnum = st.lnum + 1 := by
          have := lineHead_lnum E P _ s ts cont brk hinv0.line.max hinv0.line.pos hlh
          rw [this]; rfl
        have hline : s.line = (st.moveNextLine l).line := lineHead_line E P _ s ts cont brk hinv0.line.max hinv0.line.pos hlh
        have hprevS : PrevOK lines s := by
          right
          refine ⟨by omega, ?_⟩
          rw [hlnum, Nat.add_sub_cancel, hline]
          simpa [TState.moveNextLine] using hl
        cases brk with
        | true =>
          simp only [if_true] at h
          injection h with h; subst h
          exact (hacc.append hts).append (nextEndTokens_cov lines hnl st s hprev hlnum)
        | false =>
          simp only [Bool.false_eq_true, if_false] at h
          cases cont with
          | true =>
            simp only [if_true] at h
            have hbs : Between lines s := ⟨by rw [hcont rfl]; rfl, by intro p r hp; rw [hcont rfl] at hp; cases hp⟩
            exact ih rest' s _ out hbs hprevS (by rw [hlnum]; exact hrest') (hacc.append hts) h
          | false =>
            simp only [Bool.false_eq_true, if_false] at h
            have hinvs := hgo rfl rfl
            split at h
            · cases h
            · rename_i s2 acc2 hsc
              obtain ⟨hinv2, _, hend2⟩ := scanLine_inv lines E P hP _ s _ s2 acc2 hinvs (hacc.append hts).strOK hsc
              have hacc2 := scanLine_cov lines E P hP _ s _ s2 acc2 hinvs (hacc.append hts) hsc
              obtain ⟨hk1, _⟩ := scanLine_keeps E P hP _ s _ s2 acc2 hinvs.line.max hinvs.line.pos hsc
              exact ih rest' s2 _ out (between_of_inv lines s2 hinv2 hend2) (Or.inr ⟨hinv2.line.one, hinv2.line.cur⟩)
                (by rw [hk1, hlnum]; exact hrest') hacc2 h

end XV.Tz
