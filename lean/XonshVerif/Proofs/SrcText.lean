/-
  C08 — the text between two coordinates of a source given as its list of physical lines, and the
  arithmetic needed to follow a string literal across lines.
-/
import XonshVerif.Model.Tokenize
namespace XV.Tz
open XV

/-- number of characters in the first `k` lines -/
def prefixLen (lines : List (List Nat)) (k : Nat) : Nat := ((lines.take k).map List.length).sum

/-- offset of a (1-based line, 0-based column) coordinate in the concatenated text -/
def off (lines : List (List Nat)) (p : Pos) : Nat := prefixLen lines (p.line - 1) + p.col

/-- the source text from `a` (inclusive) to `b` (exclusive) -/
def srcText (lines : List (List Nat)) (a b : Pos) : List Nat :=
  (lines.flatten.drop (off lines a)).take (off lines b - off lines a)

theorem prefixLen_succ (lines : List (List Nat)) (k : Nat) (l : List Nat) (h : lines[k]? = some l) :
    prefixLen lines (k + 1) = prefixLen lines k + l.length := by
  unfold prefixLen
  have hk : k < lines.length := by
    rcases Nat.lt_or_ge k lines.length with h1 | h1
    · exact h1
    · rw [List.getElem?_eq_none_iff.mpr h1] at h; cases h
  rw [List.take_succ_eq_append_getElem hk]
  have : lines[k] = l := by
    have := List.getElem?_eq_getElem hk
    rw [this] at h; injection h
  simp [this]

/-- the end of a line is the start of the next one -/
theorem off_line_end (lines : List (List Nat)) (n : Nat) (l : List Nat) (hn : 1 ≤ n) (h : lines[n - 1]? = some l) :
    off lines ⟨n, l.length⟩ = off lines ⟨n + 1, 0⟩ := by
  unfold off
  simp only [Nat.add_sub_cancel, Nat.add_zero]
  have : n = (n - 1) + 1 := by omega
  rw [this, prefixLen_succ lines (n - 1) l h]
  simp

/-- the flattened text, dropped to the start of line `k + 1`, begins with that line -/
theorem flatten_drop_prefix (lines : List (List Nat)) : ∀ (k : Nat) (l : List Nat), lines[k]? = some l →
    ∃ rest, lines.flatten.drop (prefixLen lines k) = l ++ rest := by
  induction lines with
  | nil => intro k l h; simp at h
  | cons x xs ih =>
    intro k l h
    cases k with
    | zero =>
      simp only [List.getElem?_cons_zero, Option.some.injEq] at h
      subst h
      exact ⟨xs.flatten, by simp [prefixLen]⟩
    | succ k =>
      simp only [List.getElem?_cons_succ] at h
      obtain ⟨rest, hr⟩ := ih k l h
      refine ⟨rest, ?_⟩
      have : prefixLen (x :: xs) (k + 1) = x.length + prefixLen xs k := by simp [prefixLen]
      rw [this, List.flatten_cons, List.drop_append]
      simp only [List.drop_eq_nil_of_le (Nat.le_add_right _ _), List.nil_append, Nat.add_sub_cancel_left]
      exact hr

/-- a slice of the current line is the corresponding piece of the flattened text -/
theorem flatten_slice (lines : List (List Nat)) (n : Nat) (l : List Nat) (hn : 1 ≤ n) (h : lines[n - 1]? = some l)
    (c1 c2 : Nat) (h12 : c1 ≤ c2) (h2 : c2 ≤ l.length) :
    (lines.flatten.drop (off lines ⟨n, c1⟩)).take (c2 - c1) = (l.drop c1).take (c2 - c1) := by
  unfold off
  obtain ⟨rest, hr⟩ := flatten_drop_prefix lines (n - 1) l h
  simp only []
  rw [← List.drop_drop, hr, List.drop_append]
  have : c1 - l.length = 0 := by omega
  rw [this, List.drop_zero, List.take_append]
  have : c2 - c1 - (l.drop c1).length = 0 := by simp; omega
  rw [this, List.take_zero, List.append_nil]

/-- joining a piece of the current line onto text that ends where the piece starts -/
theorem srcText_append (lines : List (List Nat)) (a : Pos) (n : Nat) (l : List Nat) (hn : 1 ≤ n) (h : lines[n - 1]? = some l)
    (c1 c2 : Nat) (h12 : c1 ≤ c2) (h2 : c2 ≤ l.length) (ha : off lines a ≤ off lines ⟨n, c1⟩) :
    srcText lines a ⟨n, c1⟩ ++ (l.drop c1).take (c2 - c1) = srcText lines a ⟨n, c2⟩ := by
  unfold srcText
  rw [← flatten_slice lines n l hn h c1 c2 h12 h2]
  have hoff : off lines ⟨n, c2⟩ = off lines ⟨n, c1⟩ + (c2 - c1) := by unfold off; simp only []; omega
  have e1 : lines.flatten.drop (off lines ⟨n, c1⟩) = (lines.flatten.drop (off lines a)).drop (off lines ⟨n, c1⟩ - off lines a) := by
    rw [List.drop_drop]; congr 1; omega
  rw [e1, hoff]
  have : off lines ⟨n, c1⟩ + (c2 - c1) - off lines a = (off lines ⟨n, c1⟩ - off lines a) + (c2 - c1) := by omega
  rw [this, List.take_add]

end XV.Tz
