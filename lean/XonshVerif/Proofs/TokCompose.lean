/-
  C14 (tokenizer level) — the line loop is a fold, and a text that ends in a neutral state
  (no open bracket, string, continuation or indentation) is followed by tokens that are exactly the
  tokens of the rest of the text alone, shifted by the number of lines read.
-/
import XonshVerif.Proofs.TokShift
import XonshVerif.Proofs.Tokenize
namespace XV.Tz
open XV XV.Rx

theorem nextStatement_lnum (P : Pats) (st st' : TState) (ts : List Tok5) (a : StmtAction)
    (h : nextStatement P st = .ok (ts, st', a)) : st'.lnum = st.lnum := by
  unfold nextStatement at h
  split at h
  · injection h with h; injection h with _ h; injection h with h1 h2; subst h1; rfl
  · simp only [] at h
    split at h
    · injection h with h; injection h with _ h; injection h with h1 h2; subst h1; rfl
    · split at h
      · split at h <;>
        · injection h with h; injection h with _ h; injection h with h1 h2; subst h1; rfl
      · split at h
        · cases h
        · injection h with h; injection h with _ h; injection h with h1 h2; subst h1; rfl

theorem lineHead_lnum (E : Env) (P : Pats) (st s : TState) (ts : List Tok5) (cont brk : Bool)
    (hmax : st.max = st.line.size) (hle : st.pos ≤ st.max)
    (h : lineHead E P st = .ok (s, ts, cont, brk)) : s.lnum = st.lnum := by
  unfold lineHead at h
  split at h
  · split at h
    · cases h
    · rename_i ts0 s0 h0
      injection h with h; injection h with h1 _; subst h1
      exact (handleEndProgs_adv E P { st with continued := false } s0 ts0 hmax hle h0).1.lnum
  · split at h
    · split at h
      · cases h
      · rename_i ts0 s0 h0
        injection h with h; injection h with h1 _; subst h1
        exact nextStatement_lnum P st s0 ts0 _ h0
      · rename_i ts0 s0 h0
        injection h with h; injection h with h1 _; subst h1
        exact nextStatement_lnum P st s0 ts0 _ h0
      · rename_i ts0 s0 h0
        injection h with h; injection h with h1 _; subst h1
        exact nextStatement_lnum P st s0 ts0 _ h0
    · split at h
      · cases h
      · injection h with h; injection h with h1 _; subst h1; rfl

/-- the whole line loop commutes with the shift -/
theorem tokenizeLines_sh (k : Nat) (E : Env) (P : Pats) : ∀ (fuel : Nat) (lines : List (List Nat)) (s : TState) (acc : List Tok5),
    tokenizeLines E P fuel lines (shSt k s) (acc.map (shTok k)) =
      emap (shET k) (List.map (shTok k)) (tokenizeLines E P fuel lines s acc)
  | 0, lines, s, acc => rfl
  | fuel + 1, lines, s, acc => by
    simp only [tokenizeLines, moveNextLine_sh, lineHead_sh, shSt_line]
    cases hlh : lineHead E P (s.moveNextLine (lines.headD [])) with
    | error e => rfl
    | ok r =>
      obtain ⟨s1, ts, cont, brk⟩ := r
      have hl : s1.lnum = s.lnum + 1 := by
        have := lineHead_lnum E P _ s1 ts cont brk (by simp [TState.moveNextLine]) (by simp [TState.moveNextLine]) hlh
        rw [this]; rfl
      simp only [emap_ok, shLH]
      cases brk with
      | true =>
        simp only [if_true]
        rw [nextEndTokens_sh k _ _ s1 (by omega)]
        simp [List.map_append]
      | false =>
        simp only [Bool.false_eq_true, if_false]
        cases cont with
        | true =>
          simp only [if_true]
          have := tokenizeLines_sh k E P fuel lines.tail s1 (acc ++ ts)
          simp only [List.map_append] at this
          exact this
        | false =>
          simp only [Bool.false_eq_true, if_false, shSt_max]
          have hs := scanLine_sh k E P (2 * s1.max + 4) s1 (acc ++ ts)
          simp only [List.map_append] at hs
          rw [hs]
          cases scanLine E P (2 * s1.max + 4) s1 (acc ++ ts) with
          | error e => rfl
          | ok r2 =>
            obtain ⟨s2, acc2⟩ := r2
            exact tokenizeLines_sh k E P fuel lines.tail s2 acc2


/-! ### the accumulator is only ever appended to -/

def preET (pre : List Tok5) (r : Err × List Tok5) : Err × List Tok5 := (r.1, pre ++ r.2)
def preST (pre : List Tok5) (r : TState × List Tok5) : TState × List Tok5 := (r.1, pre ++ r.2)

theorem scanLine_prefix (E : Env) (P : Pats) (pre : List Tok5) : ∀ (fuel : Nat) (s : TState) (acc : List Tok5),
    scanLine E P fuel s (pre ++ acc) = emap (preET pre) (preST pre) (scanLine E P fuel s acc)
  | 0, s, acc => rfl
  | fuel + 1, s, acc => by
    simp only [scanLine]
    refine ite_both _ (fun _ => ?_) (fun _ => rfl)
    cases handleEndProgs E P s with
    | error e => rfl
    | ok r =>
      obtain ⟨ts1, s1⟩ := r
      simp only []
      cases nextPseudoMatches E P s1 with
      | error e => simp only [emap_error, preET, List.append_assoc]
      | ok r2 =>
        obtain ⟨ot, s2⟩ := r2
        cases ot with
        | some t =>
          simp only []
          have := scanLine_prefix E P pre fuel s2 (acc ++ ts1 ++ [t])
          simp only [List.append_assoc] at this ⊢
          exact this
        | none =>
          simp only []
          refine ite_both _ (fun _ => ?_) (fun _ => ?_)
          · have := scanLine_prefix E P pre fuel { s2 with pos := s2.pos + 1 }
              (acc ++ ts1 ++ [{ ty := .ERRORTOKEN, str := [s2.line[s2.pos]?.getD 0], start := ⟨s2.lnum, s2.pos⟩, stop := ⟨s2.lnum, s2.pos + 1⟩, line := s2.line.toList }])
            simp only [List.append_assoc] at this ⊢
            exact this
          · have := scanLine_prefix E P pre fuel s2 (acc ++ ts1)
            simp only [List.append_assoc] at this ⊢
            exact this

theorem tokenizeLines_prefix (E : Env) (P : Pats) (pre : List Tok5) : ∀ (fuel : Nat) (lines : List (List Nat)) (s : TState) (acc : List Tok5),
    tokenizeLines E P fuel lines s (pre ++ acc) = emap (preET pre) (pre ++ ·) (tokenizeLines E P fuel lines s acc)
  | 0, lines, s, acc => rfl
  | fuel + 1, lines, s, acc => by
    simp only [tokenizeLines]
    cases lineHead E P (s.moveNextLine (lines.headD [])) with
    | error e => rfl
    | ok r =>
      obtain ⟨s1, ts, cont, brk⟩ := r
      simp only []
      cases brk with
      | true => simp only [if_true, emap_ok, List.append_assoc]
      | false =>
        simp only [Bool.false_eq_true, if_false]
        cases cont with
        | true =>
          simp only [if_true]
          have := tokenizeLines_prefix E P pre fuel lines.tail s1 (acc ++ ts)
          simp only [List.append_assoc] at this ⊢
          exact this
        | false =>
          simp only [Bool.false_eq_true, if_false]
          have hs := scanLine_prefix E P pre (2 * s1.max + 4) s1 (acc ++ ts)
          simp only [List.append_assoc] at hs ⊢
          rw [hs]
          cases scanLine E P (2 * s1.max + 4) s1 (acc ++ ts) with
          | error e => rfl
          | ok r2 =>
            obtain ⟨s2, acc2⟩ := r2
            exact tokenizeLines_prefix E P pre fuel lines.tail s2 acc2


/-! ### the line loop is a fold -/

/-- the loop body applied to exactly the given lines (no end of input among them);
    `none`: the loop stopped inside them (a last line holding only blanks) -/
def runLines (E : Env) (P : Pats) : List (List Nat) → TState → List Tok5 → Except (Err × List Tok5) (Option (TState × List Tok5))
  | [], s, acc => .ok (some (s, acc))
  | l :: ls, s, acc =>
    match lineHead E P (s.moveNextLine l) with
    | .error e => .error (e, acc)
    | .ok (s1, ts, cont, brk) =>
      if brk then .ok none
      else if cont then runLines E P ls s1 (acc ++ ts)
      else
        match scanLine E P (2 * s1.max + 4) s1 (acc ++ ts) with
        | .error e => .error e
        | .ok (s2, acc2) => runLines E P ls s2 acc2

/-- reading `LA ++ LB` = reading `LA`, then reading `LB` from the state reached -/
theorem tokenizeLines_append (E : Env) (P : Pats) (LB : List (List Nat)) (fuel : Nat) :
    ∀ (LA : List (List Nat)) (s : TState) (acc : List Tok5) (s' : TState) (acc' : List Tok5),
      runLines E P LA s acc = .ok (some (s', acc')) →
      tokenizeLines E P (fuel + LA.length) (LA ++ LB) s acc = tokenizeLines E P fuel LB s' acc'
  | [], s, acc, s', acc', h => by
    simp only [runLines] at h
    injection h with h; injection h with h; injection h with h1 h2
    subst h1; subst h2; rfl
  | l :: ls, s, acc, s', acc', h => by
    simp only [runLines] at h
    have hf : fuel + (l :: ls).length = (fuel + ls.length) + 1 := by simp [Nat.add_assoc]
    rw [hf]
    simp only [tokenizeLines, List.cons_append, List.headD_cons, List.tail_cons]
    cases hlh : lineHead E P (s.moveNextLine l) with
    | error e => rw [hlh] at h; cases h
    | ok r =>
      obtain ⟨s1, ts, cont, brk⟩ := r
      rw [hlh] at h
      simp only [] at h ⊢
      cases brk with
      | true => simp at h
      | false =>
        simp only [Bool.false_eq_true, if_false] at h ⊢
        cases cont with
        | true =>
          simp only [if_true] at h ⊢
          exact tokenizeLines_append E P LB fuel ls s1 (acc ++ ts) s' acc' h
        | false =>
          simp only [Bool.false_eq_true, if_false] at h ⊢
          cases hsc : scanLine E P (2 * s1.max + 4) s1 (acc ++ ts) with
          | error e => rw [hsc] at h; cases h
          | ok r2 =>
            obtain ⟨s2, acc2⟩ := r2
            rw [hsc] at h
            exact tokenizeLines_append E P LB fuel ls s2 acc2 s' acc' h

/-- nothing is open: no bracket, no string, no continuation, no indentation -/
def Neutral (s : TState) : Prop :=
  s.parenlev = 0 ∧ s.continued = false ∧ s.indents = [0] ∧ s.endProgs = []

/-- the line read last ends in a line break (or nothing was read) -/
def EndsInNewline (l : List Nat) : Prop := l.getLast? = none ∨ l.getLast? = some 10 ∨ l.getLast? = some 13

theorem nextEndTokens_ll (l l' : List Nat) (c c' : Bool) (s : TState) (h : EndsInNewline l) (h' : EndsInNewline l') :
    nextEndTokens l c s = nextEndTokens l' c' s := by
  have key : ∀ m b, EndsInNewline m → nextEndTokens m b s = nextEndTokens [] false s := by
    intro m b hm
    unfold nextEndTokens
    rcases hm with hm | hm | hm <;> simp [hm]
  rw [key l c h, key l' c' h']

/-- a neutral state differs from the initial state only in the line counter and in the line it still holds -/
theorem tokenizeLines_neutral (E : Env) (P : Pats) (fuel : Nat) (lines : List (List Nat)) (s : TState) (acc : List Tok5)
    (hn : Neutral s) (hl : EndsInNewline s.line.toList) :
    tokenizeLines E P fuel lines s acc = tokenizeLines E P fuel lines (shSt s.lnum TState.init) acc := by
  cases fuel with
  | zero => rfl
  | succ fuel =>
    obtain ⟨h1, h2, h3, h4⟩ := hn
    have hm : s.moveNextLine (lines.headD []) = (shSt s.lnum TState.init).moveNextLine (lines.headD []) := by
      simp only [TState.moveNextLine, shSt, TState.init, h1, h2, h3, h4, List.map_nil, Nat.zero_add]
    simp only [tokenizeLines, hm]
    cases lineHead E P ((shSt s.lnum TState.init).moveNextLine (lines.headD [])) with
    | error e => rfl
    | ok r =>
      obtain ⟨s1, ts, cont, brk⟩ := r
      simp only []
      cases brk with
      | true =>
        simp only [if_true]
        rw [nextEndTokens_ll s.line.toList (shSt s.lnum TState.init).line.toList s.commentLine (shSt s.lnum TState.init).commentLine s1 hl (Or.inl rfl)]
      | false => rfl


/-! ### the scan of a line keeps the line and its number -/

theorem scanLine_keeps (E : Env) (P : Pats) (hP : PseudoProgress P) :
    ∀ (fuel : Nat) (st : TState) (acc : List Tok5) (st' : TState) (acc' : List Tok5),
      st.max = st.line.size → st.pos ≤ st.max →
      scanLine E P fuel st acc = .ok (st', acc') → st'.lnum = st.lnum ∧ st'.line = st.line := by
  intro fuel
  induction fuel with
  | zero => intro st acc st' acc' _ _ h; simp [scanLine] at h
  | succ fuel ih =>
    intro st acc st' acc' hmax hle h
    unfold scanLine at h
    split at h
    · split at h
      · cases h
      · rename_i ts1 st1 h1
        obtain ⟨a1, b1⟩ := handleEndProgs_adv E P st st1 ts1 hmax hle h1
        have hmax1 : st1.max = st1.line.size := by rw [a1.max, a1.line]; exact hmax
        split at h
        · cases h
        · rename_i t st2 h2
          obtain ⟨a2, b2, _⟩ := nextPseudo_adv E P hP st1 st2 (some t) hmax1 b1 h2
          have := ih st2 _ st' acc' (by rw [a2.max, a2.line]; exact hmax1) b2 h
          exact ⟨by rw [this.1, a2.lnum, a1.lnum], by rw [this.2, a2.line, a1.line]⟩
        · rename_i st2 h2
          obtain ⟨a2, b2, _⟩ := nextPseudo_adv E P hP st1 st2 none hmax1 b1 h2
          have hmax2 : st2.max = st2.line.size := by rw [a2.max, a2.line]; exact hmax1
          simp only [] at h
          split at h
          · rename_i heq
            have hlt : st2.pos < st2.max := by
              have := a1.ge; have := a2.ge; have := a1.max; have := a2.max
              rename_i hlt0 _ _ _ _
              omega
            have := ih { st2 with pos := st2.pos + 1 } _ st' acc' hmax2 (by simp only []; omega) h
            exact ⟨by rw [this.1]; simp only []; rw [a2.lnum, a1.lnum], by rw [this.2]; simp only []; rw [a2.line, a1.line]⟩
          · have := ih st2 _ st' acc' hmax2 b2 h
            exact ⟨by rw [this.1, a2.lnum, a1.lnum], by rw [this.2, a2.line, a1.line]⟩
    · injection h with h; injection h with h1 _; subst h1; exact ⟨rfl, rfl⟩


theorem lineHead_line (E : Env) (P : Pats) (st s : TState) (ts : List Tok5) (cont brk : Bool)
    (hmax : st.max = st.line.size) (hle : st.pos ≤ st.max)
    (h : lineHead E P st = .ok (s, ts, cont, brk)) : s.line = st.line := by
  unfold lineHead at h
  split at h
  · split at h
    · cases h
    · rename_i ts0 s0 h0
      injection h with h; injection h with h1 _; subst h1
      exact (handleEndProgs_adv E P { st with continued := false } s0 ts0 hmax hle h0).1.line
  · split at h
    · split at h
      · cases h
      · rename_i ts0 s0 h0
        injection h with h; injection h with h1 _; subst h1
        exact (nextStatement_spec P st s0 ts0 _ hmax hle h0).1
      · rename_i ts0 s0 h0
        injection h with h; injection h with h1 _; subst h1
        exact (nextStatement_spec P st s0 ts0 _ hmax hle h0).1
      · rename_i ts0 s0 h0
        injection h with h; injection h with h1 _; subst h1
        exact (nextStatement_spec P st s0 ts0 _ hmax hle h0).1
    · split at h
      · cases h
      · injection h with h; injection h with h1 _; subst h1; rfl

/-- after reading the lines `LA` the line counter has advanced by their number and the state holds the last of them -/
theorem runLines_keeps (E : Env) (P : Pats) (hP : PseudoProgress P) :
    ∀ (LA : List (List Nat)) (s : TState) (acc : List Tok5) (s' : TState) (acc' : List Tok5),
      runLines E P LA s acc = .ok (some (s', acc')) →
      s'.lnum = s.lnum + LA.length ∧ s'.line = (LA.getLast?.map List.toArray).getD s.line
  | [], s, acc, s', acc', h => by
    simp only [runLines] at h
    injection h with h; injection h with h; injection h with h1 _
    subst h1; exact ⟨rfl, rfl⟩
  | l :: ls, s, acc, s', acc', h => by
    simp only [runLines] at h
    have hmax0 : (s.moveNextLine l).max = (s.moveNextLine l).line.size := by simp [TState.moveNextLine]
    have hle0 : (s.moveNextLine l).pos ≤ (s.moveNextLine l).max := by simp [TState.moveNextLine]
    have hlast : ∀ (x : Array Nat), ((l :: ls).getLast?.map List.toArray).getD s.line = (ls.getLast?.map List.toArray).getD l.toArray := by
      intro _
      cases ls with
      | nil => rfl
      | cons l2 ls2 => rw [List.getLast?_cons_cons]; simp [List.getLast?_cons]
    cases hlh : lineHead E P (s.moveNextLine l) with
    | error e => rw [hlh] at h; cases h
    | ok r =>
      obtain ⟨s1, ts, cont, brk⟩ := r
      rw [hlh] at h
      have hn1 : s1.lnum = s.lnum + 1 := lineHead_lnum E P _ s1 ts cont brk hmax0 hle0 hlh
      have hl1 : s1.line = l.toArray := lineHead_line E P _ s1 ts cont brk hmax0 hle0 hlh
      have hsp := lineHead_spec E P _ s1 ts cont brk hmax0 hle0 hlh
      simp only [] at h
      cases brk with
      | true => simp at h
      | false =>
        simp only [Bool.false_eq_true, if_false] at h
        cases cont with
        | true =>
          simp only [if_true] at h
          obtain ⟨a, b⟩ := runLines_keeps E P hP ls s1 _ s' acc' h
          exact ⟨by rw [a, hn1]; simp only [List.length_cons]; omega, by rw [b, hl1, hlast #[]]⟩
        | false =>
          simp only [Bool.false_eq_true, if_false] at h
          cases hsc : scanLine E P (2 * s1.max + 4) s1 (acc ++ ts) with
          | error e => rw [hsc] at h; cases h
          | ok r2 =>
            obtain ⟨s2, acc2⟩ := r2
            rw [hsc] at h
            obtain ⟨k1, k2⟩ := scanLine_keeps E P hP _ s1 _ s2 acc2 hsp.1 (hsp.2 rfl rfl) hsc
            obtain ⟨a, b⟩ := runLines_keeps E P hP ls s2 _ s' acc' h
            exact ⟨by rw [a, k1, hn1]; simp only [List.length_cons]; omega, by rw [b, k2, hl1, hlast #[]]⟩

end XV.Tz
