/-
  C17 - COMPLETENESS of the recogniser model for the declarative PEG semantics, on the pure fragment (plain; every action
  truthy; no rule peeks at the location of its first token): whenever the semantics derives an outcome for a rule at a
  position, a run from any good state at that position either runs out of fuel or answers exactly that outcome - it never
  raises, never hits the end of the token list, and a memo hit is the same answer.  Mutual structural recursion on the
  derivation; uses soundness (`specInv`), consumption (`consInv`) and determinism (`SRule.det`).
-/
import XonshVerif.Proofs.PegSpecDet
namespace XV.Peg

/-- what an answer says, if it says anything: `some (some e)` match ending at `e`, `some none` failure, `none` out of fuel / raised -/
def Res.verdict : Res → Option (Option Nat)
  | .ok e => some (some e)
  | .fail _ => some none
  | _ => none

theorem verdict_some_some {res : Res} {e : Nat} (h : res.verdict = some (some e)) : res = .ok e := by
  cases res <;> simp [Res.verdict] at h; subst h; rfl
theorem verdict_some_none {res : Res} (h : res.verdict = some none) : ∃ m, res = .fail m := by
  cases res <;> simp [Res.verdict] at h; exact ⟨_, rfl⟩

/-- actions that always produce a truthy value -/
def actOk : ActKind → Bool
  | .truthy | .mayRaise | .gate _ => true
  | _ => false

def PureBody : Body → Prop
  | .alts as _ ul => ul = false ∧ ∀ a ∈ as, actOk a.act = true ∧ ∀ it ∈ a.items, itemPlain it.item = true
  | _ => True

/-- the fragment of the completeness theorem: plain, every action truthy, no rule peeks for its location -/
def Pure (prog : Prog) : Prop := ∀ (id : Nat) (r : Rule), prog[id]? = some r → r.deco ≠ .leftrec ∧ PureBody r.body

theorem actNF_of_ok {a : ActKind} (h : actOk a = true) : actNF a = true := by cases a <;> simp_all [actOk, actNF]

theorem PureBody.plain {b : Body} (h : PureBody b) : PlainBody b := by
  unfold PureBody at h; unfold PlainBody
  split
  · rename_i as wo ul
    simp only [] at h
    exact fun a ha => ⟨actNF_of_ok (h.2 a ha).1, (h.2 a ha).2⟩
  · trivial

theorem Pure.plain {prog : Prog} (h : Pure prog) : Plain prog := fun id r hr => ⟨(h id r hr).1, (h id r hr).2.plain⟩

/-- no exceptional result is ever cached -/
def CNA (s : St) : Prop := ∀ p id r, cacheGet s.cache p id = some r → r.isAbort = false

theorem cna_of_eq {s s' : St} (h : s'.cache = s.cache) (hs : CNA s) : CNA s' := by
  unfold CNA at *; rw [h]; exact hs

theorem cna_put {s : St} (hs : CNA s) (p i : Nat) (r : Res) (hr : r.isAbort = false) (s' : St)
    (h : s'.cache = cachePut s.cache p i r) : CNA s' := by
  intro p' i' r' hg
  rw [h, cacheGet_cachePut] at hg
  split at hg
  · injection hg with hg; rw [← hg]; exact hr
  · exact hs p' i' r' hg

theorem cna_init (n : Nat) (a b : Bool) : CNA (St.init n a b) := by
  intro p id r h
  simp only [St.init, cacheGet] at h
  split at h
  · rename_i l hl
    have : l = [] := by
      have := Array.getElem?_eq_some_iff.mp hl
      obtain ⟨hlt, hv⟩ := this
      simpa using hv.symm
    subst this
    simp at h
  · cases h

section
variable {prog : Prog} {w : Array RTok}

structure Good (prog : Prog) (w : Array RTok) (s : St) : Prop where
  ok : CacheOK s
  snd : CSound prog w s
  na : CNA s

theorem Good.of_eq {s s' : St} (h : s'.cache = s.cache) (hg : Good prog w s) : Good prog w s' :=
  ⟨cacheOK_of_eq h hg.ok, cSound_of_eq h hg.snd, cna_of_eq h hg.na⟩

/-- the conclusion: out of fuel, or THE outcome (and nothing exceptional cached) -/
def Cpl (r : Option Nat) (x : Res × St) : Prop := x.1 = .outOfFuel ∨ (x.1.verdict = some r ∧ CNA x.2)

theorem leaf_exec (q : Prim) (test : RTok → Bool) (hq : leafTest q = some test) (s : St) (t : RTok) (hw : w[s.pos]? = some t) (fuel : Nat) :
    (execPrim prog w (fuel + 1) q s).1 = (if test t then .ok (s.pos + 1) else .fail s.pos) ∧ (execPrim prog w (fuel + 1) q s).2.cache = s.cache := by
  cases q <;> simp only [leafTest] at hq <;> (try cases hq) <;> (try (injection hq with hq; subst hq)) <;>
    simp only [execPrim, leaf, peekTok, hw] <;> split <;> simp_all

@[simp] theorem isAbort_ok (e : Nat) : (Res.ok e).isAbort = false := rfl
@[simp] theorem isAbort_fail (e : Nat) : (Res.fail e).isAbort = false := rfl
@[simp] theorem isAbort_oof : Res.outOfFuel.isAbort = true := rfl
@[simp] theorem isOk_ok (e : Nat) : (Res.ok e).isOk = true := rfl
@[simp] theorem isOk_fail (e : Nat) : (Res.fail e).isOk = false := rfl

theorem cpl_abort {r : Option Nat} {res : Res} {s : St} (h : res = .outOfFuel) : Cpl r (res, s) := Or.inl h

mutual
theorem SPrim.cpl (hp : Pure prog) {q : Prim} {p : Nat} {r : Option Nat} (h : SPrim prog w q p r) (fuel : Nat) (s : St)
    (hpos : s.pos = p) (hg : Good prog w s) : Cpl r (execPrim prog w fuel q s) :=
  match h with
  | .hit _ test _ t hq hw ht => by
    cases fuel with
    | zero => exact Or.inl (by simp [execPrim])
    | succ fuel =>
      rw [← hpos] at hw
      have := leaf_exec (prog := prog) q test hq s t hw fuel
      rw [ht] at this
      refine Or.inr ⟨?_, cna_of_eq this.2 hg.na⟩
      rw [this.1]; simp [Res.verdict, hpos]
  | .miss _ test _ t hq hw ht => by
    cases fuel with
    | zero => exact Or.inl (by simp [execPrim])
    | succ fuel =>
      rw [← hpos] at hw
      have := leaf_exec (prog := prog) q test hq s t hw fuel
      rw [ht] at this
      refine Or.inr ⟨?_, cna_of_eq this.2 hg.na⟩
      rw [this.1]; simp [Res.verdict]
  | .rule id _ _ h' => by
    cases fuel with
    | zero => exact Or.inl (by simp [execPrim])
    | succ fuel =>
      simp only [execPrim]
      exact SRule.cpl hp h' fuel s hpos hg
termination_by structural h
theorem SRule.cpl (hp : Pure prog) {id : Nat} {p : Nat} {r : Option Nat} (h : SRule prog w id p r) (fuel : Nat) (s : St)
    (hpos : s.pos = p) (hg : Good prog w s) : Cpl r (execRule prog w fuel id s) :=
  match h with
  | .mk _ _ _ rule hr hb => by
    cases fuel with
    | zero => exact Or.inl (by simp [execRule])
    | succ fuel =>
      have hpr := hp id rule hr
      have ihb := SBody.cpl hp hpr.2 hb fuel id s hpos hg
      simp only [execRule, hr]
      cases hd : rule.deco with
      | none => simp only []; exact ihb
      | logger => simp only []; exact ihb
      | leftrec => exact absurd hd hpr.1
      | memo =>
        simp only []
        cases hcg : cacheGet s.cache s.pos id with
        | some cached =>
          have hna := hg.na _ _ _ hcg
          have hsd := hg.snd _ _ _ hcg
          rw [hpos] at hsd
          rcases isAbort_false_cases hna with ⟨e, rfl⟩ | ⟨m, rfl⟩
          · simp only []
            have := SRule.det (hsd.1 e rfl) (SRule.mk id p r rule hr hb)
            exact Or.inr ⟨by simp [Res.verdict, this], cna_of_eq rfl hg.na⟩
          · simp only []
            have := SRule.det (hsd.2 m rfl) (SRule.mk id p r rule hr hb)
            exact Or.inr ⟨by simp [Res.verdict, this], cna_of_eq rfl hg.na⟩
        | none =>
          simp only []
          generalize execBody prog w fuel id rule.body s = x at ihb
          obtain ⟨res, s1⟩ := x
          rcases ihb with ho | ⟨hv, hcna⟩
          · simp only [] at ho; subst ho; simp only [Res.isAbort, if_true]; exact Or.inl rfl
          · simp only [] at hv hcna
            have hna : res.isAbort = false := by cases res <;> simp [Res.verdict, Res.isAbort] at hv ⊢
            simp only [hna, Bool.false_eq_true, if_false]
            refine Or.inr ⟨hv, cna_put hcna s.pos id _ ?_ _ rfl⟩
            cases res <;> simp [Res.isAbort]
termination_by structural h
theorem SBody.cpl (hp : Pure prog) {b : Body} (hpb : PureBody b) {p : Nat} {r : Option Nat} (h : SBody prog w b p r) (fuel rid : Nat) (s : St)
    (hpos : s.pos = p) (hg : Good prog w s) : Cpl r (execBody prog w fuel rid b s) :=
  match h with
  | .seqAlts ps _ _ h' => by
    cases fuel with
    | zero => exact Or.inl (by simp [execBody])
    | succ fuel =>
      simp only [execBody]
      rw [hpos]
      exact SSeq.cpl hp h' fuel s hpos hg
  | .alts as wo ul _ _ h' => by
    cases fuel with
    | zero => exact Or.inl (by simp [execBody])
    | succ fuel =>
      have hul : ul = false := hpb.1
      subst hul
      simp only [execBody, bodyEntry, Bool.false_eq_true, if_false]
      have ih := SAlts.cpl hp h' hpb.2 fuel rid 0 (if wo = true then { s with invalid := false } else s)
        (by split <;> exact hpos) (Good.of_eq (by split <;> rfl) hg)
      have hp2 : (if wo = true then { s with invalid := false } else s).pos = p := by split <;> exact hpos
      rw [hp2]
      generalize execAlts prog w fuel rid 0 as p (if wo = true then { s with invalid := false } else s) = x at ih
      rcases ih with ho | ⟨hv, hcna⟩
      · exact Or.inl ho
      · refine Or.inr ⟨hv, cna_of_eq ?_ hcna⟩
        unfold bodyExit; split <;> rfl
termination_by structural h
theorem SSeq.cpl (hp : Pure prog) {ps : List Prim} {p : Nat} {r : Option Nat} (h : SSeq prog w ps p r) (fuel : Nat) (s : St)
    (hpos : s.pos = p) (hg : Good prog w s) : Cpl r (execSeqAlts prog w fuel ps p s) :=
  match h with
  | .nil _ => by
    cases fuel with
    | zero => exact Or.inl (by simp [execSeqAlts])
    | succ fuel => simp only [execSeqAlts]; exact Or.inr ⟨rfl, hg.na⟩
  | .hit q qs _ e h' => by
    cases fuel with
    | zero => exact Or.inl (by simp [execSeqAlts])
    | succ fuel =>
      simp only [execSeqAlts]
      have ih := SPrim.cpl hp h' fuel s hpos hg
      generalize execPrim prog w fuel q s = x at ih
      obtain ⟨res, s1⟩ := x
      rcases ih with ho | ⟨hv, hcna⟩
      · simp only [] at ho; subst ho; simp only [Res.isAbort, if_true]; exact Or.inl rfl
      · simp only [] at hv hcna
        have := verdict_some_some hv; subst this
        simp only [Res.isAbort, Bool.false_eq_true, if_false]
        exact Or.inr ⟨rfl, hcna⟩
  | .miss q qs _ _ h' hs => by
    cases fuel with
    | zero => exact Or.inl (by simp [execSeqAlts])
    | succ fuel =>
      simp only [execSeqAlts]
      have ih := SPrim.cpl hp h' fuel s hpos hg
      have hS := (specInv (prog := prog) w hp.plain fuel).prim q s hg.ok hg.snd
      have hC := (consInv (prog := prog) w hp.plain.noFalsy fuel).prim q s hg.ok
      generalize execPrim prog w fuel q s = x at ih hS hC
      obtain ⟨res, s1⟩ := x
      rcases ih with ho | ⟨hv, hcna⟩
      · simp only [] at ho; subst ho; simp only [Res.isAbort, if_true]; exact Or.inl rfl
      · simp only [] at hv hcna
        obtain ⟨m, rfl⟩ := verdict_some_none hv
        simp only [Res.isAbort, Bool.false_eq_true, if_false]
        exact SSeq.cpl hp hs fuel (s1.reset p) rfl (Good.of_eq rfl ⟨hC.2.2, hS.2, hcna⟩)
termination_by structural h
theorem SAlts.cpl (hp : Pure prog) {as : List Alt} {p : Nat} {r : Option Nat} (h : SAlts prog w as p r)
    (hpa : ∀ a ∈ as, actOk a.act = true ∧ ∀ it ∈ a.items, itemPlain it.item = true) (fuel rid idx : Nat) (s : St)
    (hpos : s.pos = p) (hg : Good prog w s) : Cpl r (execAlts prog w fuel rid idx as p s) :=
  match h with
  | .nil _ => by
    cases fuel with
    | zero => exact Or.inl (by simp [execAlts])
    | succ fuel => simp only [execAlts]; exact Or.inr ⟨rfl, hg.na⟩
  | .hit a as _ e c hi => by
    cases fuel with
    | zero => exact Or.inl (by simp [execAlts])
    | succ fuel =>
      simp only [execAlts]
      have hpa1 := hpa a (List.mem_cons_self ..)
      have ih := SItems.cpl hp hi hpa1.2 fuel [] s hpos hg
      generalize execItems prog w fuel a.items false [] s = x at ih
      obtain ⟨ok, cut, res, s0, oks⟩ := x
      rcases ih with ho | ⟨hna, hcna, hcut, hsome, _⟩
      · simp only [] at ho; subst ho; simp only [isAbort_oof, if_true]; exact Or.inl (by first | rfl | trivial)
      · simp only [] at hna hcna hcut hsome
        obtain ⟨hok, hpe⟩ := hsome e rfl
        subst hok
        simp only [hna, Bool.false_eq_true, if_false, if_true]
        have hact := hpa1.1
        cases hk : a.act <;> rw [hk] at hact <;> simp only [actOk] at hact <;> (try cases hact) <;> simp only [] <;>
          exact Or.inr ⟨by simp [Res.verdict, hpe], cna_of_eq rfl hcna⟩
  | .cut a as _ hi => by
    cases fuel with
    | zero => exact Or.inl (by simp [execAlts])
    | succ fuel =>
      simp only [execAlts]
      have hpa1 := hpa a (List.mem_cons_self ..)
      have ih := SItems.cpl hp hi hpa1.2 fuel [] s hpos hg
      generalize execItems prog w fuel a.items false [] s = x at ih
      obtain ⟨ok, cut, res, s0, oks⟩ := x
      rcases ih with ho | ⟨hna, hcna, hcut, _, hnone⟩
      · simp only [] at ho; subst ho; simp only [isAbort_oof, if_true]; exact Or.inl (by first | rfl | trivial)
      · simp only [] at hna hcna hcut hnone
        have hok := hnone (by first | rfl | trivial)
        subst hok; subst hcut
        simp only [hna, Bool.false_eq_true, if_false, if_true]
        exact Or.inr ⟨rfl, cna_of_eq rfl hcna⟩
  | .miss a as _ _ hi hs => by
    cases fuel with
    | zero => exact Or.inl (by simp [execAlts])
    | succ fuel =>
      simp only [execAlts]
      have hpa1 := hpa a (List.mem_cons_self ..)
      have ih := SItems.cpl hp hi hpa1.2 fuel [] s hpos hg
      have hS := (specInv (prog := prog) w hp.plain fuel).items a.items false [] s hpa1.2 hg.ok hg.snd
      generalize execItems prog w fuel a.items false [] s = x at ih hS
      obtain ⟨ok, cut, res, s0, oks⟩ := x
      rcases ih with ho | ⟨hna, hcna, hcut, _, hnone⟩
      · simp only [] at ho; subst ho; simp only [isAbort_oof, if_true]; exact Or.inl (by first | rfl | trivial)
      · simp only [] at hna hcna hcut hnone hS
        have hok := hnone (by first | rfl | trivial)
        subst hok; subst hcut
        simp only [hna, Bool.false_eq_true, if_false]
        exact SAlts.cpl hp hs (fun a' ha' => hpa a' (List.mem_cons_of_mem _ ha')) fuel rid (idx + 1) (s0.reset p) rfl
          (Good.of_eq rfl ⟨hS.2.1, hS.1, hcna⟩)
termination_by structural h
theorem SItems.cpl (hp : Pure prog) {its : List AltItem} {p : Nat} {c : Bool} {r : Option Nat} {c' : Bool} (h : SItems prog w its p c r c')
    (hpi : ∀ it ∈ its, itemPlain it.item = true) (fuel : Nat) (oks : List Bool) (s : St)
    (hpos : s.pos = p) (hg : Good prog w s) :
    (execItems prog w fuel its c oks s).2.2.1 = .outOfFuel ∨
      ((execItems prog w fuel its c oks s).2.2.1.isAbort = false ∧ CNA (execItems prog w fuel its c oks s).2.2.2.1 ∧
       (execItems prog w fuel its c oks s).2.1 = c' ∧
       (∀ e, r = some e → (execItems prog w fuel its c oks s).1 = true ∧ (execItems prog w fuel its c oks s).2.2.2.1.pos = e) ∧
       (r = none → (execItems prog w fuel its c oks s).1 = false)) :=
  match h with
  | .nil _ _ => by
    cases fuel with
    | zero => exact Or.inl (by simp [execItems])
    | succ fuel => simp only [execItems]; exact Or.inr ⟨(by first | rfl | trivial), hg.na, (by first | rfl | trivial), (fun e he => ⟨(by first | rfl | trivial), by injection he with he; exact hpos.trans he⟩), (fun he => by cases he)⟩
  | .setCut o its _ _ _ _ h' => by
    cases fuel with
    | zero => exact Or.inl (by simp [execItems])
    | succ fuel =>
      simp only [execItems]
      exact SItems.cpl hp h' (fun it hit => hpi it (List.mem_cons_of_mem _ hit)) fuel (true :: oks) s hpos hg
  | .ok it its _ q _ _ _ hne hi hs => by
    cases fuel with
    | zero => exact Or.inl (by simp [execItems])
    | succ fuel =>
      have hpl := hpi it (List.mem_cons_self ..)
      have hng : it.item ≠ .guardInvalid := by intro hh; rw [hh] at hpl; cases hpl
      rw [execItems_cons_generic w fuel it its _ oks s hne hng]
      have ih := SItem.cpl hp hi fuel s hpos hg
      have hS := (specInv (prog := prog) w hp.plain fuel).item it.item s hpl hne hg.ok hg.snd
      have hC := (consInv (prog := prog) w hp.plain.noFalsy fuel).item it.item s hg.ok
      generalize execItem prog w fuel it.item s = x at ih hS hC
      obtain ⟨res, s1⟩ := x
      rcases ih with ho | ⟨hv, hcna⟩
      · simp only [] at ho; subst ho; simp only [isAbort_oof, if_true]; exact Or.inl (by first | rfl | trivial)
      · simp only [] at hv hcna
        have := verdict_some_some hv; subst this
        simp only [isAbort_ok, isOk_ok, Bool.false_eq_true, if_false, Bool.true_or, if_true]
        exact SItems.cpl hp hs (fun it hit => hpi it (List.mem_cons_of_mem _ hit)) fuel (true :: oks) s1 (hC.1 q rfl) ⟨hC.2.2, hS.2, hcna⟩
  | .skip it its _ _ _ _ hne hopt hi hs => by
    cases fuel with
    | zero => exact Or.inl (by simp [execItems])
    | succ fuel =>
      have hpl := hpi it (List.mem_cons_self ..)
      have hng : it.item ≠ .guardInvalid := by intro hh; rw [hh] at hpl; cases hpl
      rw [execItems_cons_generic w fuel it its _ oks s hne hng]
      have ih := SItem.cpl hp hi fuel s hpos hg
      have hS := (specInv (prog := prog) w hp.plain fuel).item it.item s hpl hne hg.ok hg.snd
      have hC := (consInv (prog := prog) w hp.plain.noFalsy fuel).item it.item s hg.ok
      generalize execItem prog w fuel it.item s = x at ih hS hC
      obtain ⟨res, s1⟩ := x
      rcases ih with ho | ⟨hv, hcna⟩
      · simp only [] at ho; subst ho; simp only [isAbort_oof, if_true]; exact Or.inl (by first | rfl | trivial)
      · simp only [] at hv hcna
        obtain ⟨m, rfl⟩ := verdict_some_none hv
        simp only [isAbort_fail, isOk_fail, hopt, Bool.false_eq_true, if_false, Bool.or_true, if_true]
        exact SItems.cpl hp hs (fun it hit => hpi it (List.mem_cons_of_mem _ hit)) fuel (false :: oks) s1 ((hC.2.1 m rfl).trans hpos) ⟨hC.2.2, hS.2, hcna⟩
  | .fail it its _ _ hne hopt hi => by
    cases fuel with
    | zero => exact Or.inl (by simp [execItems])
    | succ fuel =>
      have hpl := hpi it (List.mem_cons_self ..)
      have hng : it.item ≠ .guardInvalid := by intro hh; rw [hh] at hpl; cases hpl
      rw [execItems_cons_generic w fuel it its _ oks s hne hng]
      have ih := SItem.cpl hp hi fuel s hpos hg
      generalize execItem prog w fuel it.item s = x at ih
      obtain ⟨res, s1⟩ := x
      rcases ih with ho | ⟨hv, hcna⟩
      · simp only [] at ho; subst ho; simp only [isAbort_oof, if_true]; exact Or.inl (by first | rfl | trivial)
      · simp only [] at hv hcna
        obtain ⟨m, rfl⟩ := verdict_some_none hv
        simp only [isAbort_fail, isOk_fail, hopt, Bool.false_eq_true, if_false, Bool.or_false]
        exact Or.inr ⟨(by first | rfl | trivial), hcna, (by first | rfl | trivial), (fun e he => by cases he), (fun _ => (by first | rfl | trivial))⟩
termination_by structural h
theorem SItem.cpl (hp : Pure prog) {it : Item} {p : Nat} {r : Option Nat} (h : SItem prog w it p r) (fuel : Nat) (s : St)
    (hpos : s.pos = p) (hg : Good prog w s) : Cpl r (execItem prog w fuel it s) :=
  match h with
  | .call q _ _ h' => by
    cases fuel with
    | zero => exact Or.inl (by simp [execItem])
    | succ fuel =>
      simp only [execItem]; exact SPrim.cpl hp h' fuel s hpos hg
  | .seqAlts ps _ _ h' => by
    cases fuel with
    | zero => exact Or.inl (by simp [execItem])
    | succ fuel =>
      simp only [execItem]; rw [hpos]; exact SSeq.cpl hp h' fuel s hpos hg
  | .plusOk q _ n e h' => by
    cases fuel with
    | zero => exact Or.inl (by simp [execItem])
    | succ fuel =>
      simp only [execItem]; rw [hpos]
      have ih := SStar.cpl hp h' fuel 0 s hpos hg
      generalize execRepeat prog w fuel q p 0 s = x at ih
      obtain ⟨k, res, s1⟩ := x
      rcases ih with ho | ⟨hna, hk, hpe, hcna⟩
      · simp only [] at ho; subst ho; simp only [isAbort_oof, if_true]; exact Or.inl (by first | rfl | trivial)
      · simp only [] at hna hk hpe hcna
        have hk0 : ¬ k = 0 := by omega
        simp only [hna, Bool.false_eq_true, if_false, hk0]
        exact Or.inr ⟨by simp [Res.verdict, hpe], hcna⟩
  | .plusFail q _ h' => by
    cases fuel with
    | zero => exact Or.inl (by simp [execItem])
    | succ fuel =>
      simp only [execItem]; rw [hpos]
      have ih := SStar.cpl hp h' fuel 0 s hpos hg
      generalize execRepeat prog w fuel q p 0 s = x at ih
      obtain ⟨k, res, s1⟩ := x
      rcases ih with ho | ⟨hna, hk, hpe, hcna⟩
      · simp only [] at ho; subst ho; simp only [isAbort_oof, if_true]; exact Or.inl (by first | rfl | trivial)
      · simp only [] at hna hk hpe hcna
        have hk0 : k = 0 := by omega
        simp only [hna, Bool.false_eq_true, if_false, hk0, if_true]
        exact Or.inr ⟨rfl, hcna⟩
  | .gatherOk el sp _ q n e h' hs => by
    cases fuel with
    | zero => exact Or.inl (by simp [execItem])
    | succ fuel =>
      simp only [execItem]; rw [hpos]
      have ih := SSeq.cpl hp h' fuel s hpos hg
      have hS := (specInv (prog := prog) w hp.plain fuel).seqAlts [el] p s hpos hg.ok hg.snd
      have hC := (consInv (prog := prog) w hp.plain.noFalsy fuel).seqAlts [el] p s hpos hg.ok
      generalize execSeqAlts prog w fuel [el] p s = x at ih hS hC
      obtain ⟨res, s1⟩ := x
      rcases ih with ho | ⟨hv, hcna⟩
      · simp only [] at ho; subst ho; simp only [isAbort_oof, if_true]; exact Or.inl (by first | rfl | trivial)
      · simp only [] at hv hcna
        have := verdict_some_some hv; subst this
        simp only [isAbort_ok, Bool.false_eq_true, if_false]
        have hp1 : s1.pos = q := hC.1 q rfl
        rw [hp1]
        have ih2 := SSep.cpl hp hs fuel 0 s1 hp1 ⟨hC.2.2, hS.2, hcna⟩
        generalize execSepRepeat prog w fuel el sp q 0 s1 = y at ih2
        obtain ⟨k, res2, s2⟩ := y
        rcases ih2 with ho | ⟨hna, hpe, hcna2⟩
        · simp only [] at ho; subst ho; simp only [isAbort_oof, if_true]; exact Or.inl (by first | rfl | trivial)
        · simp only [] at hna hpe hcna2
          simp only [hna, Bool.false_eq_true, if_false]
          exact Or.inr ⟨by simp [Res.verdict, hpe], hcna2⟩
  | .gatherFail el sp _ h' => by
    cases fuel with
    | zero => exact Or.inl (by simp [execItem])
    | succ fuel =>
      simp only [execItem]; rw [hpos]
      have ih := SSeq.cpl hp h' fuel s hpos hg
      generalize execSeqAlts prog w fuel [el] p s = x at ih
      obtain ⟨res, s1⟩ := x
      rcases ih with ho | ⟨hv, hcna⟩
      · simp only [] at ho; subst ho; simp only [isAbort_oof, if_true]; exact Or.inl (by first | rfl | trivial)
      · simp only [] at hv hcna
        obtain ⟨m, rfl⟩ := verdict_some_none hv
        simp only [isAbort_fail, Bool.false_eq_true, if_false]
        exact Or.inr ⟨rfl, cna_of_eq rfl hcna⟩
  | .posOk q _ e h' => by
    cases fuel with
    | zero => exact Or.inl (by simp [execItem])
    | succ fuel =>
      simp only [execItem]
      have ih := SPrim.cpl hp h' fuel s hpos hg
      have hS := (specInv (prog := prog) w hp.plain fuel).prim q s hg.ok hg.snd
      have hC := (consInv (prog := prog) w hp.plain.noFalsy fuel).prim q s hg.ok
      generalize execPrim prog w fuel q s = x at ih hS hC
      obtain ⟨res, s1⟩ := x
      rcases ih with ho | ⟨hv, hcna⟩
      · simp only [] at ho; subst ho; simp only [isAbort_oof, if_true]; exact Or.inl (by first | rfl | trivial)
      · simp only [] at hv hcna
        have := verdict_some_some hv; subst this
        simp only [isAbort_ok, isOk_ok, Bool.false_eq_true, if_false, if_true]
        exact Or.inr ⟨by simp [Res.verdict, hpos], cna_of_eq rfl hcna⟩
  | .posFail q _ h' => by
    cases fuel with
    | zero => exact Or.inl (by simp [execItem])
    | succ fuel =>
      simp only [execItem]
      have ih := SPrim.cpl hp h' fuel s hpos hg
      have hS := (specInv (prog := prog) w hp.plain fuel).prim q s hg.ok hg.snd
      have hC := (consInv (prog := prog) w hp.plain.noFalsy fuel).prim q s hg.ok
      generalize execPrim prog w fuel q s = x at ih hS hC
      obtain ⟨res, s1⟩ := x
      rcases ih with ho | ⟨hv, hcna⟩
      · simp only [] at ho; subst ho; simp only [isAbort_oof, if_true]; exact Or.inl (by first | rfl | trivial)
      · simp only [] at hv hcna
        obtain ⟨m, rfl⟩ := verdict_some_none hv
        simp only [isAbort_fail, isOk_fail, Bool.false_eq_true, if_false]
        exact Or.inr ⟨rfl, cna_of_eq rfl hcna⟩
  | .negOk q _ h' => by
    cases fuel with
    | zero => exact Or.inl (by simp [execItem])
    | succ fuel =>
      simp only [execItem]
      have ih := SPrim.cpl hp h' fuel s hpos hg
      have hS := (specInv (prog := prog) w hp.plain fuel).prim q s hg.ok hg.snd
      have hC := (consInv (prog := prog) w hp.plain.noFalsy fuel).prim q s hg.ok
      generalize execPrim prog w fuel q s = x at ih hS hC
      obtain ⟨res, s1⟩ := x
      rcases ih with ho | ⟨hv, hcna⟩
      · simp only [] at ho; subst ho; simp only [isAbort_oof, if_true]; exact Or.inl (by first | rfl | trivial)
      · simp only [] at hv hcna
        obtain ⟨m, rfl⟩ := verdict_some_none hv
        simp only [isAbort_fail, isOk_fail, Bool.false_eq_true, if_false]
        exact Or.inr ⟨by simp [Res.verdict, hpos], cna_of_eq rfl hcna⟩
  | .negFail q _ e h' => by
    cases fuel with
    | zero => exact Or.inl (by simp [execItem])
    | succ fuel =>
      simp only [execItem]
      have ih := SPrim.cpl hp h' fuel s hpos hg
      have hS := (specInv (prog := prog) w hp.plain fuel).prim q s hg.ok hg.snd
      have hC := (consInv (prog := prog) w hp.plain.noFalsy fuel).prim q s hg.ok
      generalize execPrim prog w fuel q s = x at ih hS hC
      obtain ⟨res, s1⟩ := x
      rcases ih with ho | ⟨hv, hcna⟩
      · simp only [] at ho; subst ho; simp only [isAbort_oof, if_true]; exact Or.inl (by first | rfl | trivial)
      · simp only [] at hv hcna
        have := verdict_some_some hv; subst this
        simp only [isAbort_ok, isOk_ok, Bool.false_eq_true, if_false, if_true]
        exact Or.inr ⟨rfl, cna_of_eq rfl hcna⟩
  | .forced q what _ e h' => by
    cases fuel with
    | zero => exact Or.inl (by simp [execItem])
    | succ fuel =>
      simp only [execItem]
      have ih := SPrim.cpl hp h' fuel s hpos hg
      have hS := (specInv (prog := prog) w hp.plain fuel).prim q s hg.ok hg.snd
      have hC := (consInv (prog := prog) w hp.plain.noFalsy fuel).prim q s hg.ok
      generalize execPrim prog w fuel q s = x at ih hS hC
      obtain ⟨res, s1⟩ := x
      rcases ih with ho | ⟨hv, hcna⟩
      · simp only [] at ho; subst ho; simp only [isAbort_oof, if_true]; exact Or.inl (by first | rfl | trivial)
      · simp only [] at hv hcna
        have := verdict_some_some hv; subst this
        simp only [isAbort_ok, isOk_ok, Bool.false_eq_true, if_false, if_true]
        exact Or.inr ⟨rfl, hcna⟩
termination_by structural h
theorem SStar.cpl (hp : Pure prog) {q : Prim} {p k e : Nat} (h : SStar prog w q p k e) (fuel n : Nat) (s : St)
    (hpos : s.pos = p) (hg : Good prog w s) :
    (execRepeat prog w fuel q p n s).2.1 = .outOfFuel ∨
      ((execRepeat prog w fuel q p n s).2.1.isAbort = false ∧ (execRepeat prog w fuel q p n s).1 = n + k ∧
       (execRepeat prog w fuel q p n s).2.2.pos = e ∧ CNA (execRepeat prog w fuel q p n s).2.2) :=
  match h with
  | .stop _ _ h' => by
    cases fuel with
    | zero => exact Or.inl (by simp [execRepeat])
    | succ fuel =>
      simp only [execRepeat]
      have ih := SPrim.cpl hp h' fuel s hpos hg
      have hS := (specInv (prog := prog) w hp.plain fuel).prim q s hg.ok hg.snd
      have hC := (consInv (prog := prog) w hp.plain.noFalsy fuel).prim q s hg.ok
      generalize execPrim prog w fuel q s = x at ih hS hC
      obtain ⟨res, s1⟩ := x
      rcases ih with ho | ⟨hv, hcna⟩
      · simp only [] at ho; subst ho; simp only [isAbort_oof, if_true]; exact Or.inl (by first | rfl | trivial)
      · simp only [] at hv hcna
        obtain ⟨m, rfl⟩ := verdict_some_none hv
        simp only [isAbort_fail, Bool.false_eq_true, if_false]
        exact Or.inr ⟨rfl, rfl, rfl, cna_of_eq rfl hcna⟩
  | .step _ _ e1 k' _ h' hs => by
    cases fuel with
    | zero => exact Or.inl (by simp [execRepeat])
    | succ fuel =>
      simp only [execRepeat]
      have ih := SPrim.cpl hp h' fuel s hpos hg
      have hS := (specInv (prog := prog) w hp.plain fuel).prim q s hg.ok hg.snd
      have hC := (consInv (prog := prog) w hp.plain.noFalsy fuel).prim q s hg.ok
      generalize execPrim prog w fuel q s = x at ih hS hC
      obtain ⟨res, s1⟩ := x
      rcases ih with ho | ⟨hv, hcna⟩
      · simp only [] at ho; subst ho; simp only [isAbort_oof, if_true]; exact Or.inl (by first | rfl | trivial)
      · simp only [] at hv hcna
        have := verdict_some_some hv; subst this
        simp only [isAbort_ok, Bool.false_eq_true, if_false]
        have hp1 : s1.pos = e1 := hC.1 e1 rfl
        rw [hp1]
        have ih2 := SStar.cpl hp hs fuel (n + 1) s1 hp1 ⟨hC.2.2, hS.2, hcna⟩
        rcases ih2 with ho | ⟨a, b, c, d⟩
        · exact Or.inl ho
        · exact Or.inr ⟨a, by omega, c, d⟩
termination_by structural h
theorem SSep.cpl (hp : Pure prog) {el sp : Prim} {p k e : Nat} (h : SSep prog w el sp p k e) (fuel n : Nat) (s : St)
    (hpos : s.pos = p) (hg : Good prog w s) :
    (execSepRepeat prog w fuel el sp p n s).2.1 = .outOfFuel ∨
      ((execSepRepeat prog w fuel el sp p n s).2.1.isAbort = false ∧
       (execSepRepeat prog w fuel el sp p n s).2.2.pos = e ∧ CNA (execSepRepeat prog w fuel el sp p n s).2.2) :=
  match h with
  | .stopSep _ _ _ h' => by
    cases fuel with
    | zero => exact Or.inl (by simp [execSepRepeat])
    | succ fuel =>
      simp only [execSepRepeat]
      have ih := SPrim.cpl hp h' fuel s hpos hg
      have hS := (specInv (prog := prog) w hp.plain fuel).prim sp s hg.ok hg.snd
      have hC := (consInv (prog := prog) w hp.plain.noFalsy fuel).prim sp s hg.ok
      generalize execPrim prog w fuel sp s = x at ih hS hC
      obtain ⟨res, s1⟩ := x
      rcases ih with ho | ⟨hv, hcna⟩
      · simp only [] at ho; subst ho; simp only [isAbort_oof, if_true]; exact Or.inl (by first | rfl | trivial)
      · simp only [] at hv hcna
        obtain ⟨m, rfl⟩ := verdict_some_none hv
        simp only [isAbort_fail, Bool.false_eq_true, if_false]
        exact Or.inr ⟨rfl, rfl, cna_of_eq rfl hcna⟩
  | .stopElem _ _ _ q h' hs => by
    cases fuel with
    | zero => exact Or.inl (by simp [execSepRepeat])
    | succ fuel =>
      simp only [execSepRepeat]
      have ih := SPrim.cpl hp h' fuel s hpos hg
      have hS := (specInv (prog := prog) w hp.plain fuel).prim sp s hg.ok hg.snd
      have hC := (consInv (prog := prog) w hp.plain.noFalsy fuel).prim sp s hg.ok
      generalize execPrim prog w fuel sp s = x at ih hS hC
      obtain ⟨res, s1⟩ := x
      rcases ih with ho | ⟨hv, hcna⟩
      · simp only [] at ho; subst ho; simp only [isAbort_oof, if_true]; exact Or.inl (by first | rfl | trivial)
      · simp only [] at hv hcna
        have := verdict_some_some hv; subst this
        simp only [isAbort_ok, Bool.false_eq_true, if_false]
        have hp1 : s1.pos = q := hC.1 q rfl
        rw [hp1]
        have ih2 := SSeq.cpl hp hs fuel s1 hp1 ⟨hC.2.2, hS.2, hcna⟩
        generalize execSeqAlts prog w fuel [el] q s1 = y at ih2
        obtain ⟨res2, s2⟩ := y
        rcases ih2 with ho | ⟨hv2, hcna2⟩
        · simp only [] at ho; subst ho; simp only [isAbort_oof, if_true]; exact Or.inl (by first | rfl | trivial)
        · simp only [] at hv2 hcna2
          obtain ⟨m, rfl⟩ := verdict_some_none hv2
          simp only [isAbort_fail, Bool.false_eq_true, if_false]
          exact Or.inr ⟨rfl, rfl, cna_of_eq rfl hcna2⟩
  | .step _ _ _ q r1 k' _ h' hs hss => by
    cases fuel with
    | zero => exact Or.inl (by simp [execSepRepeat])
    | succ fuel =>
      simp only [execSepRepeat]
      have ih := SPrim.cpl hp h' fuel s hpos hg
      have hS := (specInv (prog := prog) w hp.plain fuel).prim sp s hg.ok hg.snd
      have hC := (consInv (prog := prog) w hp.plain.noFalsy fuel).prim sp s hg.ok
      generalize execPrim prog w fuel sp s = x at ih hS hC
      obtain ⟨res, s1⟩ := x
      rcases ih with ho | ⟨hv, hcna⟩
      · simp only [] at ho; subst ho; simp only [isAbort_oof, if_true]; exact Or.inl (by first | rfl | trivial)
      · simp only [] at hv hcna
        have := verdict_some_some hv; subst this
        simp only [isAbort_ok, Bool.false_eq_true, if_false]
        have hp1 : s1.pos = q := hC.1 q rfl
        rw [hp1]
        have ih2 := SSeq.cpl hp hs fuel s1 hp1 ⟨hC.2.2, hS.2, hcna⟩
        have hS2 := (specInv (prog := prog) w hp.plain fuel).seqAlts [el] q s1 hp1 hC.2.2 hS.2
        have hC2 := (consInv (prog := prog) w hp.plain.noFalsy fuel).seqAlts [el] q s1 hp1 hC.2.2
        generalize execSeqAlts prog w fuel [el] q s1 = y at ih2 hS2 hC2
        obtain ⟨res2, s2⟩ := y
        rcases ih2 with ho | ⟨hv2, hcna2⟩
        · simp only [] at ho; subst ho; simp only [isAbort_oof, if_true]; exact Or.inl (by first | rfl | trivial)
        · simp only [] at hv2 hcna2
          have := verdict_some_some hv2; subst this
          simp only [isAbort_ok, Bool.false_eq_true, if_false]
          have hp2 : s2.pos = r1 := hC2.1 r1 rfl
          rw [hp2]
          exact SSep.cpl hp hss fuel (n + 1) s2 hp2 ⟨hC2.2.2, hS2.2, hcna2⟩
termination_by structural h
end
end

/-- decidable form of `Pure` -/
def pureB (prog : Prog) : Bool :=
  prog.all (fun r => r.deco != .leftrec && (match r.body with
    | .alts as _ ul => !ul && as.all (fun a => actOk a.act && a.items.all (fun it => itemPlain it.item))
    | _ => true))

theorem pure_of_B (prog : Prog) (h : pureB prog = true) : Pure prog := by
  intro id r hr
  unfold pureB at h
  rw [Array.all_eq_true] at h
  have hlt := (Array.getElem?_eq_some_iff.mp hr).1
  have hv := (Array.getElem?_eq_some_iff.mp hr).2
  have := h id hlt
  rw [hv] at this
  simp only [Bool.and_eq_true, bne_iff_ne, ne_eq] at this
  refine ⟨this.1, ?_⟩
  have h2 := this.2
  unfold PureBody
  split
  · rename_i as wo ul hb
    rw [hb] at h2
    simp only [List.all_eq_true, Bool.and_eq_true, Bool.not_eq_true'] at h2
    exact h2
  · trivial

theorem plainB_of_pureB (prog : Prog) (h : pureB prog = true) : Plain prog := (pure_of_B prog h).plain

end XV.Peg
