/-
  One more sound syntactic analysis: `onlyChars ok r = true` - every character a match of `r` consumes satisfies `ok`.
  Used for the gap clause of C08 (what a backslash continuation skips).
-/
import XonshVerif.Proofs.RegexSuffix
namespace XV.Rx

def onlyChars (ok : Nat → Bool) : Re → Bool
  | .eps => true
  | .chr c => ok c
  | .notChr _ => false
  | .any => false
  | .set neg items => !neg && items.all (fun it => match it with | .lit c => ok c | _ => false)
  | .seq a b => onlyChars ok a && onlyChars ok b
  | .alt a b => onlyChars ok a && onlyChars ok b
  | .star _ r => onlyChars ok r
  | .look _ _ => true
  | .eoi => true

/-- all characters of `s` in `[a, b)` satisfy `ok` -/
def allIn (ok : Nat → Bool) (s : Array Nat) (a b : Nat) : Prop := ∀ i, a ≤ i → i < b → ∃ c, s[i]? = some c ∧ ok c = true

theorem allIn_refl (ok : Nat → Bool) (s : Array Nat) (a : Nat) : allIn ok s a a := by intro i h1 h2; omega
theorem allIn_trans {ok : Nat → Bool} {s : Array Nat} {a b c : Nat} (h1 : allIn ok s a b) (h2 : allIn ok s b c) : allIn ok s a c := by
  intro i hi1 hi2
  by_cases h : i < b
  · exact h1 i hi1 h
  · exact h2 i (by omega) hi2
theorem allIn_step {ok : Nat → Bool} {s : Array Nat} {a : Nat} {c : Nat} (h : s[a]? = some c) (hc : ok c = true) : allIn ok s a (a + 1) := by
  intro i h1 h2
  have : i = a := by omega
  subst this
  exact ⟨c, h, hc⟩

open Classical in
noncomputable def allInB (ok : Nat → Bool) (s : Array Nat) (a : Nat) : Nat → Bool := fun q => decide (allIn ok s a q)

theorem items_ok (ok : Nat → Bool) (E : Env) (items : List SetItem) (h : items.all (fun it => match it with | .lit c => ok c | _ => false) = true)
    (d : Nat) (hd : items.any (·.has E d) = true) : ok d = true := by
  rw [List.any_eq_true] at hd
  obtain ⟨it, hit, hhas⟩ := hd
  rw [List.all_eq_true] at h
  have := h it hit
  cases it with
  | lit c => simp only [SetItem.has, decide_eq_true_eq] at hhas; subst hhas; exact this
  | range lo hi => simp at this
  | word => simp at this

/-- **onlyChars soundness**: the matcher only ever calls its continuation after consuming characters that satisfy `ok` -/
theorem m_onlyChars (ok : Nat → Bool) (E : Env) (s : Array Nat) : ∀ (fuel : Nat) (r : Re) (pos : Nat) (k : Nat → MR), onlyChars ok r = true →
    m E s fuel r pos k = m E s fuel r pos (restrict (allInB ok s pos) k) := by
  intro fuel
  induction fuel with
  | zero => intros; rfl
  | succ fuel ih =>
    intro r pos k hr
    have hself : allInB ok s pos pos = true := by simp [allInB, allIn_refl]
    cases r with
    | eps => simp [m, restrict, hself]
    | chr c =>
      simp only [onlyChars] at hr
      simp only [m, restrict]
      split
      · rename_i hc
        have : allInB ok s pos (pos + 1) = true := by simp only [allInB, decide_eq_true_eq]; exact allIn_step hc hr
        simp [this]
      · rfl
    | notChr c => simp [onlyChars] at hr
    | any => simp [onlyChars] at hr
    | set neg items =>
      simp only [onlyChars, Bool.and_eq_true, Bool.not_eq_true'] at hr
      obtain ⟨hneg, hitems⟩ := hr
      subst hneg
      simp only [m, restrict]
      split
      · rename_i d hd
        split
        · rename_i hany
          have hany' : items.any (·.has E d) = true := by simpa using hany
          have : allInB ok s pos (pos + 1) = true := by
            simp only [allInB, decide_eq_true_eq]; exact allIn_step hd (items_ok ok E items hitems d hany')
          simp [this]
        · rfl
      · rfl
    | seq a b =>
      simp only [onlyChars, Bool.and_eq_true] at hr
      simp only [m]
      rw [ih a pos _ hr.1, ih a pos (fun p => m E s fuel b p (restrict (allInB ok s pos) k)) hr.1]
      congr 1
      funext p
      simp only [restrict]
      split
      · rename_i hp
        rw [ih b p k hr.2, ih b p (restrict (allInB ok s pos) k) hr.2]
        congr 1
        funext q
        simp only [restrict]
        split
        · rename_i hq
          have : allInB ok s pos q = true := by
            simp only [allInB, decide_eq_true_eq] at hp hq ⊢
            exact allIn_trans hp hq
          simp [this]
        · rfl
      · rfl
    | alt a b =>
      simp only [onlyChars, Bool.and_eq_true] at hr
      simp only [m]
      rw [ih a pos k hr.1, ih b pos k hr.2]
    | star g body =>
      have hbody : onlyChars ok body = true := by simpa [onlyChars] using hr
      have hinner : ∀ k' : Nat → MR, (∀ q, allInB ok s pos q = true → k' q = k q) →
          m E s fuel body pos (fun p => if p > pos then m E s fuel (.star g body) p k' else .noMatch) =
          m E s fuel body pos (fun p => if p > pos then m E s fuel (.star g body) p k else .noMatch) := by
        intro k' hk'
        rw [ih body pos _ hbody, ih body pos (fun p => if p > pos then m E s fuel (.star g body) p k else .noMatch) hbody]
        congr 1
        funext p
        simp only [restrict]
        split
        · rename_i hp
          split
          · rw [ih (.star g body) p k' hr, ih (.star g body) p k hr]
            congr 1
            funext q
            simp only [restrict]
            split
            · rename_i hq
              apply hk'
              simp only [allInB, decide_eq_true_eq] at hp hq ⊢
              exact allIn_trans hp hq
            · rfl
          · rfl
        · rfl
      have hk : ∀ q, allInB ok s pos q = true → restrict (allInB ok s pos) k q = k q := by
        intro q hq; simp [restrict, hq]
      cases g with
      | true =>
        simp only [m]
        rw [hinner (restrict (allInB ok s pos) k) hk]
        simp [restrict, hself]
      | false =>
        simp only [m]
        rw [hinner (restrict (allInB ok s pos) k) hk]
        simp [restrict, hself]
    | look neg body => simp [m, restrict, hself]
    | eoi => simp only [m, restrict]; split <;> simp [hself]

/-- every character a match consumes satisfies `ok` -/
theorem matchAt_onlyChars (ok : Nat → Bool) (E : Env) (fuel : Nat) (r : Re) (s : Array Nat) (pos e : Nat) (hr : onlyChars ok r = true)
    (h : matchAt E fuel r s pos = .matched e) : allIn ok s pos e := by
  unfold matchAt at h
  rw [m_onlyChars ok E s fuel r pos _ hr] at h
  obtain ⟨p, hp⟩ := m_result E s fuel r pos _ e h
  simp only [restrict] at hp
  split at hp
  · rename_i hq
    injection hp with hp
    subst hp
    simpa [allInB] using hq
  · cases hp

end XV.Rx
