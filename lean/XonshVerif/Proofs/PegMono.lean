/-
  Fuel monotonicity of the recogniser model: a run that does not run out of fuel gives the same
  result and the same final state with any larger fuel.  So `fuel` is a pure proof device: whenever
  a verdict is reached it is THE verdict of the fuel-free Python code the model transcribes.
  (Used by C03 `parser_total`, where the existence of enough fuel is proved.)
-/
import XonshVerif.Model.Peg
namespace XV.Peg
variable {prog : Prog} {w : Array RTok}

/-- `a` (the run with less fuel) either ran out of fuel or is equal to `b` -/
abbrev Le (a b : Res × St) : Prop := a.1 = .outOfFuel ∨ b = a
abbrev Le3 (a b : Nat × Res × St) : Prop := a.2.1 = .outOfFuel ∨ b = a
abbrev Le5 (a b : Bool × Bool × Res × St × List Bool) : Prop := a.2.2.1 = .outOfFuel ∨ b = a

structure Mono (prog : Prog) (w : Array RTok) (n : Nat) : Prop where
  prim : ∀ p s, Le (execPrim prog w n p s) (execPrim prog w (n+1) p s)
  rule : ∀ id s, Le (execRule prog w n id s) (execRule prog w (n+1) id s)
  grow : ∀ id body mark last lastmark s, Le (grow prog w n id body mark last lastmark s) (grow prog w (n+1) id body mark last lastmark s)
  body : ∀ rid bd s, Le (execBody prog w n rid bd s) (execBody prog w (n+1) rid bd s)
  seqAlts : ∀ ps mark s, Le (execSeqAlts prog w n ps mark s) (execSeqAlts prog w (n+1) ps mark s)
  alts : ∀ rid idx as mark s, Le (execAlts prog w n rid idx as mark s) (execAlts prog w (n+1) rid idx as mark s)
  items : ∀ its cut oks s, Le5 (execItems prog w n its cut oks s) (execItems prog w (n+1) its cut oks s)
  item : ∀ it s, Le (execItem prog w n it s) (execItem prog w (n+1) it s)
  rep : ∀ p mark k s, Le3 (execRepeat prog w n p mark k s) (execRepeat prog w (n+1) p mark k s)
  sepRep : ∀ e sp mark k s, Le3 (execSepRepeat prog w n e sp mark k s) (execSepRepeat prog w (n+1) e sp mark k s)

theorem mono_zero : Mono prog w 0 := by
  constructor <;> intros <;> left <;>
    simp [execPrim, execRule, grow, execBody, execSeqAlts, execAlts, execItems, execItem, execRepeat, execSepRepeat]


theorem mono_succ (n : Nat) (ih : Mono prog w n) : Mono prog w (n+1) := by
  refine ⟨?prim, ?rule, ?grow, ?body, ?seqAlts, ?alts, ?items, ?item, ?rep, ?sepRep⟩
  case prim =>
    intro p s
    cases p with
    | rule id => rw [execPrim, execPrim]; exact ih.rule id s
    | expect sid => right; simp only [execPrim]
    | token ty => right; simp only [execPrim]
    | name => right; simp only [execPrim]
    | keyword => right; simp only [execPrim]
    | softKeyword => right; simp only [execPrim]
    | anyToken => right; simp only [execPrim]
  case rule =>
    intro id s
    rw [execRule, execRule]
    cases hr : prog[id]? with
    | none => right; rfl
    | some r =>
      simp only []
      cases hd : r.deco with
      | none => exact ih.body id r.body s
      | logger => exact ih.body id r.body s
      | memo =>
        simp only []
        cases hc : cacheGet s.cache s.pos id with
        | some res => cases res <;> (right; rfl)
        | none =>
          simp only []
          rcases ih.body id r.body s with h | h
          · left; simp [h, Res.isAbort]
          · rw [h]; right; rfl
      | leftrec =>
        simp only []
        cases hc : cacheGet s.cache s.pos id with
        | some res => cases res <;> (right; rfl)
        | none => exact ih.grow _ _ _ _ _ _
  case grow =>
    intro id body mark last lastmark s
    rw [grow, grow]
    simp only []
    rcases ih.body id body (s.reset mark) with h | h
    · left; simp [h, Res.isAbort]
    · rw [h]
      by_cases hab : (execBody prog w n id body (s.reset mark)).1.isAbort = true
      · simp only [hab, if_true]; right; trivial
      · simp only [hab, Bool.false_eq_true, if_false]
        cases hres : (execBody prog w n id body (s.reset mark)).1 with
        | ok e =>
          simp only []
          by_cases hle : (execBody prog w n id body (s.reset mark)).2.pos ≤ lastmark
          · simp only [hle, if_true]; right; trivial
          · simp only [hle, if_false]; exact ih.grow _ _ _ _ _ _
        | _ => right; trivial
  case body =>
    intro rid bd s
    cases bd with
    | unmodelled => right; rw [execBody, execBody]
    | seqAlts ps => rw [execBody, execBody]; exact ih.seqAlts ps s.pos s
    | alts as wo ul =>
      rw [execBody, execBody]
      cases hb : bodyEntry w wo ul s with
      | none => right; rfl
      | some sB =>
        simp only []
        rcases ih.alts rid 0 as sB.pos sB with h | h
        · left; simp [h]
        · rw [h]; right; rfl
  case seqAlts =>
    intro ps mark s
    cases ps with
    | nil => right; rw [execSeqAlts, execSeqAlts]
    | cons p ps =>
      rw [execSeqAlts, execSeqAlts]
      simp only []
      rcases ih.prim p s with h | h
      · left; simp [h, Res.isAbort]
      · rw [h]
        by_cases hab : (execPrim prog w n p s).1.isAbort = true
        · simp only [hab, if_true]; right; trivial
        · simp only [hab, Bool.false_eq_true, if_false]
          cases hres : (execPrim prog w n p s).1 with
          | ok e => right; trivial
          | _ => exact ih.seqAlts _ _ _
  case alts =>
    intro rid idx as mark s
    cases as with
    | nil => right; rw [execAlts, execAlts]
    | cons a as =>
      rw [execAlts, execAlts]
      simp only []
      rcases ih.items a.items false [] s with h | h
      · left; simp [h, Res.isAbort]
      · rw [h]
        by_cases hab : (execItems prog w n a.items false [] s).2.2.1.isAbort = true
        · simp only [hab, if_true]; right; trivial
        · simp only [hab, Bool.false_eq_true, if_false]
          by_cases hok : (execItems prog w n a.items false [] s).1 = true
          · simp only [hok, if_true]; right; trivial
          · simp only [hok, Bool.false_eq_true, if_false]
            by_cases hcut : (execItems prog w n a.items false [] s).2.1 = true
            · simp only [hcut, if_true]; right; trivial
            · simp only [hcut, Bool.false_eq_true, if_false]; exact ih.alts _ _ _ _ _
  case items =>
    intro its cut oks s
    cases its with
    | nil => right; rw [execItems, execItems]
    | cons it its =>
      rw [execItems, execItems]
      have generic : ∀ item, it.item = item →
          Le5 (if (execItem prog w n item s).1.isAbort = true then (false, cut, (execItem prog w n item s).1, (execItem prog w n item s).2, oks)
               else if ((execItem prog w n item s).1.isOk || it.opt) = true then execItems prog w n its cut ((execItem prog w n item s).1.isOk :: oks) (execItem prog w n item s).2
               else (false, cut, (execItem prog w n item s).1, (execItem prog w n item s).2, oks))
              (if (execItem prog w (n+1) item s).1.isAbort = true then (false, cut, (execItem prog w (n+1) item s).1, (execItem prog w (n+1) item s).2, oks)
               else if ((execItem prog w (n+1) item s).1.isOk || it.opt) = true then execItems prog w (n+1) its cut ((execItem prog w (n+1) item s).1.isOk :: oks) (execItem prog w (n+1) item s).2
               else (false, cut, (execItem prog w (n+1) item s).1, (execItem prog w (n+1) item s).2, oks)) := by
        intro item _
        rcases ih.item item s with h | h
        · left; simp [h, Res.isAbort]
        · rw [h]
          by_cases hab : (execItem prog w n item s).1.isAbort = true
          · simp only [hab, if_true]; right; trivial
          · simp only [hab, Bool.false_eq_true, if_false]
            by_cases hok : ((execItem prog w n item s).1.isOk || it.opt) = true
            · simp only [hok, if_true]; exact ih.items _ _ _ _
            · simp only [hok, Bool.false_eq_true, if_false]; right; trivial
      cases hit : it.item with
      | setCut => simp only []; exact ih.items _ _ _ _
      | guardInvalid =>
        simp only []
        by_cases hi : s.invalid = true
        · simp only [hi, if_true]; exact ih.items _ _ _ _
        · simp only [hi, Bool.false_eq_true, if_false]; right; trivial
      | call p => exact generic _ hit
      | repeated p => exact generic _ hit
      | gathered e sp => exact generic _ hit
      | seqAlts ps => exact generic _ hit
      | posLook p => exact generic _ hit
      | negLook p => exact generic _ hit
      | forced p x => exact generic _ hit
  case item =>
    intro it s
    cases it with
    | call p => rw [execItem, execItem]; exact ih.prim p s
    | seqAlts ps => rw [execItem, execItem]; exact ih.seqAlts ps s.pos s
    | repeated p =>
      rw [execItem, execItem]; simp only []
      rcases ih.rep p s.pos 0 s with h | h
      · left; simp [h, Res.isAbort]
      · rw [h]; right; rfl
    | gathered e sp =>
      rw [execItem, execItem]; simp only []
      rcases ih.seqAlts [e] s.pos s with h | h
      · left; simp [h, Res.isAbort]
      · rw [h]
        by_cases hab : (execSeqAlts prog w n [e] s.pos s).1.isAbort = true
        · simp only [hab, if_true]; right; trivial
        · simp only [hab, Bool.false_eq_true, if_false]
          cases hres : (execSeqAlts prog w n [e] s.pos s).1 with
          | ok x =>
            simp only []
            rcases ih.sepRep e sp (execSeqAlts prog w n [e] s.pos s).2.pos 0 (execSeqAlts prog w n [e] s.pos s).2 with h2 | h2
            · left; simp [h2, Res.isAbort]
            · rw [h2]; right; rfl
          | _ => right; trivial
    | posLook p =>
      rw [execItem, execItem]; simp only []
      rcases ih.prim p s with h | h
      · left; simp [h, Res.isAbort]
      · rw [h]; right; rfl
    | negLook p =>
      rw [execItem, execItem]; simp only []
      rcases ih.prim p s with h | h
      · left; simp [h, Res.isAbort]
      · rw [h]; right; rfl
    | forced p x =>
      rw [execItem, execItem]; simp only []
      rcases ih.prim p s with h | h
      · left; simp [h, Res.isAbort]
      · rw [h]; right; rfl
    | setCut => right; rw [execItem, execItem]
    | guardInvalid => right; rw [execItem, execItem]
  case rep =>
    intro p mark k s
    rw [execRepeat, execRepeat]; simp only []
    rcases ih.prim p s with h | h
    · left; simp [h, Res.isAbort]
    · rw [h]
      by_cases hab : (execPrim prog w n p s).1.isAbort = true
      · simp only [hab, if_true]; right; trivial
      · simp only [hab, Bool.false_eq_true, if_false]
        cases hres : (execPrim prog w n p s).1 with
        | ok e => exact ih.rep _ _ _ _
        | _ => right; trivial
  case sepRep =>
    intro e sp mark k s
    rw [execSepRepeat, execSepRepeat]; simp only []
    rcases ih.prim sp s with h | h
    · left; simp [h, Res.isAbort]
    · rw [h]
      by_cases hab : (execPrim prog w n sp s).1.isAbort = true
      · simp only [hab, if_true]; right; trivial
      · simp only [hab, Bool.false_eq_true, if_false]
        cases hres : (execPrim prog w n sp s).1 with
        | ok x =>
          simp only []
          rcases ih.seqAlts [e] (execPrim prog w n sp s).2.pos (execPrim prog w n sp s).2 with h2 | h2
          · left; simp [h2, Res.isAbort]
          · rw [h2]
            by_cases hab2 : (execSeqAlts prog w n [e] (execPrim prog w n sp s).2.pos (execPrim prog w n sp s).2).1.isAbort = true
            · simp only [hab2, if_true]; right; trivial
            · simp only [hab2, Bool.false_eq_true, if_false]
              cases hres2 : (execSeqAlts prog w n [e] (execPrim prog w n sp s).2.pos (execPrim prog w n sp s).2).1 with
              | ok y => exact ih.sepRep _ _ _ _ _
              | _ => right; trivial
        | _ => right; trivial


theorem mono_all (n : Nat) : Mono prog w n := by
  induction n with
  | zero => exact mono_zero
  | succ n ih => exact mono_succ n ih

/-- **fuel monotonicity of a rule call**: a verdict reached with fuel `n` is reached, with the same
    final state, with every larger fuel. -/
theorem execRule_fuel_mono (n k id : Nat) (s : St) (h : (execRule prog w n id s).1 ≠ .outOfFuel) :
    execRule prog w (n + k) id s = execRule prog w n id s := by
  induction k with
  | zero => rfl
  | succ k ih =>
    rcases (mono_all (prog := prog) (w := w) (n + k)).rule id s with h' | h'
    · rw [ih] at h'; exact absurd h' h
    · rw [← Nat.add_assoc, h', ih]

/-- **fuel monotonicity of `Parser.parse`** (both passes). -/
theorem parse_fuel_mono (n k start : Nat) (v : Bool) (h : (parse prog w n start v).1 ≠ .outOfFuel) :
    parse prog w (n + k) start v = parse prog w n start v := by
  unfold parse at h ⊢
  simp only [] at h ⊢
  have h1 : (execRule prog w n start (St.init w.size false v)).1 ≠ .outOfFuel := by
    intro hc; rw [hc] at h; simp at h
  rw [execRule_fuel_mono n k start _ h1]
  cases hr : (execRule prog w n start (St.init w.size false v)).1 with
  | fail e =>
    rw [hr] at h
    simp only [] at h ⊢
    have h2 : (execRule prog w n start { ((execRule prog w n start (St.init w.size false v)).2.reset 0) with invalid := true, cache := Array.replicate (w.size + 1) [] }).1 ≠ .outOfFuel := by
      intro hc; rw [hc] at h; simp at h
    rw [execRule_fuel_mono n k start _ h2]
  | _ => rfl

end XV.Peg
