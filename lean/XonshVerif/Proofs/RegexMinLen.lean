/-
  A sound lower bound on the length of every match of a regular expression (generalises `nonNull`).
-/
import XonshVerif.Proofs.Regex
namespace XV.Rx

/-- every match of `r` consumes at least `minLen r` characters -/
def minLen : Re → Nat
  | .eps => 0
  | .chr _ | .notChr _ | .any | .set _ _ => 1
  | .seq a b => minLen a + minLen b
  | .alt a b => min (minLen a) (minLen b)
  | .star _ _ => 0
  | .look _ _ => 0
  | .eoi => 0

/-- the matcher only ever calls its continuation at positions ≥ start + minLen -/
theorem m_minLen (E : Env) (s : Array Nat) : ∀ (fuel : Nat) (r : Re) (pos : Nat) (k : Nat → MR),
    m E s fuel r pos k = m E s fuel r pos (restrict (fun q => Nat.ble (pos + minLen r) q) k) := by
  intro fuel
  induction fuel with
  | zero => intros; rfl
  | succ fuel ih =>
    intro r pos k
    cases r with
    | eps => simp [m, restrict, minLen]
    | chr c => simp only [m, restrict, minLen]; split <;> simp
    | notChr c => simp only [m, restrict, minLen]; split <;> (try split) <;> simp
    | any => simp only [m, restrict, minLen]; split <;> (try split) <;> simp
    | set neg items => simp only [m, restrict, minLen]; split <;> (try split) <;> simp
    | seq a b =>
      simp only [m, minLen]
      rw [ih a pos, ih a pos (fun p => m E s fuel b p (restrict (fun q => Nat.ble (pos + (minLen a + minLen b)) q) k))]
      congr 1
      funext p
      simp only [restrict]
      split
      · rename_i hp
        have hp' : pos + minLen a ≤ p := by simpa using hp
        rw [ih b p k, ih b p (restrict (fun q => Nat.ble (pos + (minLen a + minLen b)) q) k)]
        congr 1
        funext q
        simp only [restrict]
        split
        · rename_i hq
          have hq' : p + minLen b ≤ q := by simpa using hq
          have : pos + (minLen a + minLen b) ≤ q := by omega
          simp [this]
        · rfl
      · rfl
    | alt a b =>
      simp only [m, minLen]
      have ha : m E s fuel a pos k = m E s fuel a pos (restrict (fun q => Nat.ble (pos + min (minLen a) (minLen b)) q) k) := by
        rw [ih a pos k, ih a pos (restrict (fun q => Nat.ble (pos + min (minLen a) (minLen b)) q) k)]
        congr 1
        funext q
        simp only [restrict]
        split
        · rename_i hq
          have hq' : pos + minLen a ≤ q := by simpa using hq
          have : pos + min (minLen a) (minLen b) ≤ q := by omega
          simp [this]
        · rfl
      have hb : m E s fuel b pos k = m E s fuel b pos (restrict (fun q => Nat.ble (pos + min (minLen a) (minLen b)) q) k) := by
        rw [ih b pos k, ih b pos (restrict (fun q => Nat.ble (pos + min (minLen a) (minLen b)) q) k)]
        congr 1
        funext q
        simp only [restrict]
        split
        · rename_i hq
          have hq' : pos + minLen b ≤ q := by simpa using hq
          have : pos + min (minLen a) (minLen b) ≤ q := by omega
          simp [this]
        · rfl
      rw [ha, hb]
    | star g body =>
      have h0 : (fun q => Nat.ble (pos + minLen (.star g body)) q) = (fun q => decide (pos ≤ q)) := by
        funext q; simp only [minLen, Nat.add_zero]; rw [Bool.eq_iff_iff]; simp [Nat.ble_eq]
      rw [h0]; exact m_mono E s (fuel + 1) (.star g body) pos k
    | look neg body =>
      have h0 : (fun q => Nat.ble (pos + minLen (.look neg body)) q) = (fun q => decide (pos ≤ q)) := by
        funext q; simp only [minLen, Nat.add_zero]; rw [Bool.eq_iff_iff]; simp [Nat.ble_eq]
      rw [h0]; exact m_mono E s (fuel + 1) (.look neg body) pos k
    | eoi =>
      have h0 : (fun q => Nat.ble (pos + minLen .eoi) q) = (fun q => decide (pos ≤ q)) := by
        funext q; simp only [minLen, Nat.add_zero]; rw [Bool.eq_iff_iff]; simp [Nat.ble_eq]
      rw [h0]; exact m_mono E s (fuel + 1) .eoi pos k

/-- a match ends at least `minLen` characters after its start -/
theorem matchAt_minLen (E : Env) (fuel : Nat) (r : Re) (s : Array Nat) (pos e : Nat)
    (h : matchAt E fuel r s pos = .matched e) : pos + minLen r ≤ e := by
  unfold matchAt at h
  rw [m_minLen] at h
  obtain ⟨p, hp⟩ := m_result E s fuel r pos _ e h
  simp only [restrict] at hp
  split at hp
  · rename_i hq
    injection hp with hp
    subst hp
    simpa using hq
  · cases hp

end XV.Rx
