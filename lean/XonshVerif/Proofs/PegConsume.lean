/-
  C17 - "consumes exactly the tokens of the match": for every recogniser program none of whose actions can be falsy
  (the well-formedness condition the random grammars satisfy), every rule - plain, memoised or left-recursive - that
  succeeds with end position `e` leaves the tokenizer AT `e`, and a rule that fails leaves it where it was called.
  Invariant carried along: every failure entry of the memo cache records its own position.
-/
import XonshVerif.Proofs.PegVerbose
namespace XV.Peg

def actNF : ActKind → Bool
  | .none => false
  | .viaItem _ => false
  | _ => true

def BodyNF : Body → Prop
  | .alts as _ _ => ∀ a ∈ as, actNF a.act = true
  | _ => True

/-- no action of the program can be falsy -/
def NoFalsy (prog : Prog) : Prop := ∀ (id : Nat) (r : Rule), prog[id]? = some r → BodyNF r.body

/-- a cached failure stands at its own position -/
def CacheOK (s : St) : Prop := ∀ p id e, cacheGet s.cache p id = some (.fail e) → e = p

/-- what a call promises: success ends where the result says, failure consumes nothing -/
def Claim (s : St) (r : Res × St) : Prop :=
  (∀ e, r.1 = .ok e → r.2.pos = e) ∧ (∀ m, r.1 = .fail m → r.2.pos = s.pos) ∧ CacheOK r.2

theorem cacheOK_of_eq {s s' : St} (h : s'.cache = s.cache) (hs : CacheOK s) : CacheOK s' := by
  unfold CacheOK at *; rw [h]; exact hs

theorem cacheOK_put {s : St} (hs : CacheOK s) (p i : Nat) (r : Res) (hr : ∀ e, r = .fail e → e = p) (s' : St)
    (h : s'.cache = cachePut s.cache p i r) : CacheOK s' := by
  intro p' i' e hg
  rw [h, cacheGet_cachePut] at hg
  split at hg
  · rename_i hc
    injection hg with hg
    rw [hc.1]; exact hr e hg
  · exact hs p' i' e hg

theorem claim_abort {s : St} {res : Res} {s1 : St} (ha : res.isAbort = true) (hc : CacheOK s1) : Claim s (res, s1) := by
  refine ⟨?_, ?_, hc⟩
  · intro e he; simp only [] at he; subst he; simp [Res.isAbort] at ha
  · intro m hm; simp only [] at hm; subst hm; simp [Res.isAbort] at ha

theorem Claim.ofOk {s s1 : St} {e : Nat} (h : s1.pos = e) (hc : CacheOK s1) : Claim s (.ok e, s1) :=
  ⟨(fun e' he => by injection he with he; rw [← he]; exact h), (fun m hm => by cases hm), hc⟩

theorem Claim.ofFail {s s1 : St} {m : Nat} (h : s1.pos = s.pos) (hc : CacheOK s1) : Claim s (.fail m, s1) :=
  ⟨(fun e' he => by cases he), (fun m' hm => h), hc⟩

/-- the same relative to a mark (the seed-growing loop) -/
def GClaim (mark : Nat) (r : Res × St) : Prop :=
  (∀ e, r.1 = .ok e → r.2.pos = e) ∧ (∀ m, r.1 = .fail m → r.2.pos = mark) ∧ CacheOK r.2

theorem GClaim.ofOk {mark : Nat} {s1 : St} {e : Nat} (h : s1.pos = e) (hc : CacheOK s1) : GClaim mark (.ok e, s1) :=
  ⟨(fun e' he => by injection he with he; rw [← he]; exact h), (fun m hm => by cases hm), hc⟩
theorem GClaim.ofFail {mark : Nat} {s1 : St} {m : Nat} (h : s1.pos = mark) (hc : CacheOK s1) : GClaim mark (.fail m, s1) :=
  ⟨(fun e' he => by cases he), (fun m' hm => h), hc⟩
theorem GClaim.abort {mark : Nat} {res : Res} {s1 : St} (ha : res.isAbort = true) (hc : CacheOK s1) : GClaim mark (res, s1) := by
  refine ⟨?_, ?_, hc⟩
  · intro e he; simp only [] at he; subst he; simp [Res.isAbort] at ha
  · intro m hm; simp only [] at hm; subst hm; simp [Res.isAbort] at ha

variable {prog : Prog}

theorem leaf_claim (w : Array RTok) (test : RTok → Bool) (s : St) (hs : CacheOK s) : Claim s (leaf w test s) := by
  unfold leaf peekTok
  cases ht : w[s.pos]? with
  | none => exact claim_abort rfl hs
  | some t =>
    simp only []
    split
    · exact Claim.ofOk rfl (cacheOK_of_eq rfl hs)
    · exact Claim.ofFail rfl (cacheOK_of_eq rfl hs)

theorem bodyEntry_same (w : Array RTok) (wo ul : Bool) (s sB : St) (h : bodyEntry w wo ul s = some sB) : sB.pos = s.pos ∧ sB.cache = s.cache := by
  unfold bodyEntry peekTok at h
  simp only [] at h
  split at h
  · split at h
    · rename_i t sB' heq
      injection h with h; subst h
      split at heq
      · injection heq with _ h2; subst h2; split <;> exact ⟨rfl, rfl⟩
      · injection heq with h1 _; cases h1
    · cases h
  · injection h with h; subst h; split <;> exact ⟨rfl, rfl⟩

theorem bodyExit_same (wo prev : Bool) (res : Res) (s : St) : (bodyExit wo prev res s).pos = s.pos ∧ (bodyExit wo prev res s).cache = s.cache := by
  unfold bodyExit; split <;> exact ⟨rfl, rfl⟩

theorem finish_claim (id mark : Nat) (last : Option Nat) (lastmark : Nat) (s : St) (hs : CacheOK s)
    (hl : ∀ e, last = some e → e = lastmark) : GClaim mark (grow.finish id mark last lastmark s) := by
  unfold grow.finish
  cases last with
  | some e =>
    simp only []
    refine GClaim.ofOk (hl e rfl).symm ?_
    exact cacheOK_put (s := s.reset lastmark) (cacheOK_of_eq rfl hs) mark id _ (by intro e' he; cases he) _ rfl
  | none =>
    simp only []
    refine GClaim.ofFail rfl ?_
    exact cacheOK_put (s := (s.reset lastmark).reset mark) (cacheOK_of_eq rfl hs) mark id _ (by intro e' he; injection he with he; exact he.symm) _ rfl

structure ConsInv (prog : Prog) (w : Array RTok) (fuel : Nat) : Prop where
  prim : ∀ p s, CacheOK s → Claim s (execPrim prog w fuel p s)
  rule : ∀ id s, CacheOK s → Claim s (execRule prog w fuel id s)
  grow : ∀ id body mark last lastmark s, BodyNF body → CacheOK s → (∀ e, last = some e → e = lastmark) →
          GClaim mark (grow prog w fuel id body mark last lastmark s)
  body : ∀ rid b s, BodyNF b → CacheOK s → Claim s (execBody prog w fuel rid b s)
  seqAlts : ∀ ps mark s, s.pos = mark → CacheOK s → Claim s (execSeqAlts prog w fuel ps mark s)
  alts : ∀ rid idx as mark s, (∀ a ∈ as, actNF a.act = true) → s.pos = mark → CacheOK s → Claim s (execAlts prog w fuel rid idx as mark s)
  items : ∀ its cut oks s, CacheOK s → CacheOK (execItems prog w fuel its cut oks s).2.2.2.1
  item : ∀ it s, CacheOK s → Claim s (execItem prog w fuel it s)
  rep : ∀ p mark n s, CacheOK s → CacheOK (execRepeat prog w fuel p mark n s).2.2 ∧ n ≤ (execRepeat prog w fuel p mark n s).1 ∧
          ((execRepeat prog w fuel p mark n s).1 = n → (execRepeat prog w fuel p mark n s).2.1.isAbort = false → (execRepeat prog w fuel p mark n s).2.2.pos = mark)
  sepRep : ∀ e sp mark n s, CacheOK s → CacheOK (execSepRepeat prog w fuel e sp mark n s).2.2

theorem consInv_zero (w : Array RTok) : ConsInv prog w 0 := by
  refine ⟨?_, ?_, ?_, ?_, ?_, ?_, ?_, ?_, ?_, ?_⟩
  · intro p s hs; simp only [execPrim]; exact claim_abort rfl hs
  · intro id s hs; simp only [execRule]; exact claim_abort rfl hs
  · intro id body mark last lastmark s _ hs _; simp only [grow]; exact GClaim.abort rfl hs
  · intro rid b s _ hs; simp only [execBody]; exact claim_abort rfl hs
  · intro ps mark s _ hs; simp only [execSeqAlts]; exact claim_abort rfl hs
  · intro rid idx as mark s _ _ hs; simp only [execAlts]; exact claim_abort rfl hs
  · intro its cut oks s hs; simp only [execItems]; exact hs
  · intro it s hs; simp only [execItem]; exact claim_abort rfl hs
  · intro p mark n s hs; simp only [execRepeat]; exact ⟨hs, Nat.le_refl _, (fun _ h => by simp [Res.isAbort] at h)⟩
  · intro e sp mark n s hs; simp only [execSepRepeat]; exact hs


theorem isAbort_false_cases {res : Res} (h : res.isAbort = false) : (∃ e, res = .ok e) ∨ (∃ m, res = .fail m) := by
  cases res <;> simp [Res.isAbort] at h ⊢

theorem consInv_succ (w : Array RTok) (hnf : NoFalsy prog) (fuel : Nat) (ih : ConsInv prog w fuel) : ConsInv prog w (fuel + 1) := by
  refine ⟨?prim, ?rule, ?grow, ?body, ?seqAlts, ?alts, ?items, ?item, ?rep, ?sepRep⟩
  case prim =>
    intro p s hs
    cases p with
    | rule id => simp only [execPrim]; exact ih.rule id s hs
    | expect sid => simp only [execPrim]; exact leaf_claim w _ s hs
    | token ty => simp only [execPrim]; exact leaf_claim w _ s hs
    | name => simp only [execPrim]; exact leaf_claim w _ s hs
    | keyword => simp only [execPrim]; exact leaf_claim w _ s hs
    | softKeyword => simp only [execPrim]; exact leaf_claim w _ s hs
    | anyToken =>
      simp only [execPrim]
      split
      · exact Claim.ofOk rfl (cacheOK_of_eq rfl hs)
      · exact claim_abort rfl hs
  case rule =>
    intro id s hs
    simp only [execRule]
    cases hr : prog[id]? with
    | none => exact claim_abort rfl hs
    | some r =>
      have hb : BodyNF r.body := hnf id r hr
      simp only []
      cases hd : r.deco with
      | none => simp only []; exact ih.body id r.body s hb hs
      | logger => simp only []; exact ih.body id r.body s hb hs
      | memo =>
        simp only []
        cases hcg : cacheGet s.cache s.pos id with
        | some v =>
          cases v with
          | ok e => exact Claim.ofOk rfl (cacheOK_of_eq rfl hs)
          | fail e => exact Claim.ofFail (hs s.pos id e hcg) (cacheOK_of_eq rfl hs)
          | raised => exact claim_abort rfl hs
          | undecided => exact claim_abort rfl hs
          | tokErr => exact claim_abort rfl hs
          | outOfFuel => exact claim_abort rfl hs
        | none =>
          simp only []
          have h1 := ih.body id r.body s hb hs
          generalize execBody prog w fuel id r.body s = rb at h1
          obtain ⟨res, s1⟩ := rb
          simp only []
          cases ha : res.isAbort with
          | true => simp only [if_true]; exact claim_abort ha h1.2.2
          | false =>
            simp only [Bool.false_eq_true, if_false]
            rcases isAbort_false_cases ha with ⟨e, rfl⟩ | ⟨m, rfl⟩
            · refine Claim.ofOk (h1.1 e rfl) ?_
              exact cacheOK_put h1.2.2 s.pos id _ (by intro e' he; cases he) _ rfl
            · refine Claim.ofFail (h1.2.1 m rfl) ?_
              exact cacheOK_put h1.2.2 s.pos id _ (by intro e' he; injection he with he; rw [← he]; exact h1.2.1 m rfl) _ rfl
      | leftrec =>
        simp only []
        cases hcg : cacheGet s.cache s.pos id with
        | some v =>
          cases v with
          | ok e => exact Claim.ofOk rfl (cacheOK_of_eq rfl hs)
          | fail e =>
            simp only []
            split
            · exact Claim.ofFail rfl hs
            · exact Claim.ofFail (hs s.pos id e hcg) (cacheOK_of_eq rfl hs)
          | raised => exact claim_abort rfl hs
          | undecided => exact claim_abort rfl hs
          | tokErr => exact claim_abort rfl hs
          | outOfFuel => exact claim_abort rfl hs
        | none =>
          simp only []
          have hs0 : CacheOK { s with cache := cachePut s.cache s.pos id (.fail s.pos) } :=
            cacheOK_put hs s.pos id _ (by intro e' he; injection he with he; exact he.symm) _ rfl
          have hg := ih.grow id r.body s.pos none s.pos _ hb hs0 (by intro e he; cases he)
          exact ⟨hg.1, hg.2.1, hg.2.2⟩
  case grow =>
    intro id body mark last lastmark s hb hs hl
    simp only [grow]
    have h1 := ih.body id body (s.reset mark) hb (cacheOK_of_eq rfl hs)
    generalize execBody prog w fuel id body (s.reset mark) = rb at h1
    obtain ⟨res, s2⟩ := rb
    simp only []
    cases ha : res.isAbort with
    | true => simp only [if_true]; exact GClaim.abort ha h1.2.2
    | false =>
      simp only [Bool.false_eq_true, if_false]
      rcases isAbort_false_cases ha with ⟨e, rfl⟩ | ⟨m, rfl⟩
      · simp only []
        split
        · exact finish_claim id mark last lastmark s2 h1.2.2 hl
        · exact ih.grow id body mark (some s2.pos) s2.pos _ hb
            (cacheOK_put h1.2.2 mark id _ (by intro e' he; cases he) _ rfl) (by intro e' he; injection he with he; exact he.symm)
      · simp only []
        exact finish_claim id mark last lastmark s2 h1.2.2 hl
  case body =>
    intro rid b s hb hs
    cases b with
    | unmodelled => simp only [execBody]; exact claim_abort rfl hs
    | seqAlts ps => simp only [execBody]; exact ih.seqAlts ps s.pos s rfl hs
    | alts as wo usesLoc =>
      simp only [execBody]
      cases hE : bodyEntry w wo usesLoc s with
      | none => exact claim_abort rfl hs
      | some sB =>
        simp only []
        obtain ⟨e1, e2⟩ := bodyEntry_same w wo usesLoc s sB hE
        have h1 := ih.alts rid 0 as sB.pos sB hb rfl (cacheOK_of_eq e2 hs)
        obtain ⟨x1, x2⟩ := bodyExit_same wo s.invalid (execAlts prog w fuel rid 0 as sB.pos sB).1 (execAlts prog w fuel rid 0 as sB.pos sB).2
        refine ⟨?_, ?_, cacheOK_of_eq x2 h1.2.2⟩
        · intro e he; simp only [] at he ⊢; rw [x1]; exact h1.1 e he
        · intro m hm; simp only [] at hm ⊢; rw [x1, h1.2.1 m hm, e1]
  case seqAlts =>
    intro ps mark s hpos hs
    cases ps with
    | nil => simp only [execSeqAlts]; exact Claim.ofFail rfl hs
    | cons p ps =>
      simp only [execSeqAlts]
      have h1 := ih.prim p s hs
      generalize execPrim prog w fuel p s = rp at h1
      obtain ⟨res, s1⟩ := rp
      simp only []
      cases ha : res.isAbort with
      | true => simp only [if_true]; exact claim_abort ha h1.2.2
      | false =>
        simp only [Bool.false_eq_true, if_false]
        rcases isAbort_false_cases ha with ⟨e, rfl⟩ | ⟨m, rfl⟩
        · simp only []; exact Claim.ofOk (h1.1 e rfl) h1.2.2
        · simp only []
          have h2 := ih.seqAlts ps mark (s1.reset mark) rfl (cacheOK_of_eq rfl h1.2.2)
          refine ⟨h2.1, ?_, h2.2.2⟩
          intro m' hm'
          rw [h2.2.1 m' hm']; exact hpos.symm
  case alts =>
    intro rid idx as mark s hacts hpos hs
    cases as with
    | nil => simp only [execAlts]; exact Claim.ofFail rfl hs
    | cons a as =>
      simp only [execAlts]
      have hi := ih.items a.items false [] s hs
      generalize execItems prog w fuel a.items false [] s = ri at hi
      obtain ⟨ok, cut, res, s0, oks⟩ := ri
      simp only [] at hi ⊢
      cases ha : res.isAbort with
      | true => simp only [if_true]; exact claim_abort ha hi
      | false =>
        simp only [Bool.false_eq_true, if_false]
        cases ok with
        | true =>
          simp only [if_true]
          have hact : actNF a.act = true := hacts a (by simp)
          have hc1 : CacheOK ({ s0 with fired := (rid, idx) :: s0.fired } : St) := cacheOK_of_eq rfl hi
          cases hk : a.act with
          | truthy => exact Claim.ofOk rfl hc1
          | none => rw [hk] at hact; cases hact
          | raises => exact claim_abort rfl hc1
          | mayRaise => exact Claim.ofOk rfl (cacheOK_of_eq rfl hc1)
          | viaItem i => rw [hk] at hact; cases hact
          | unknown => exact claim_abort rfl hc1
          | gate m => exact Claim.ofOk rfl (cacheOK_of_eq rfl hc1)
        | false =>
          simp only [Bool.false_eq_true, if_false]
          cases cut with
          | true => simp only [if_true]; exact Claim.ofFail hpos.symm (cacheOK_of_eq rfl hi)
          | false =>
            simp only [Bool.false_eq_true, if_false]
            have h2 := ih.alts rid (idx + 1) as mark (s0.reset mark) (fun a' ha' => hacts a' (List.mem_cons_of_mem _ ha')) rfl (cacheOK_of_eq rfl hi)
            refine ⟨h2.1, ?_, h2.2.2⟩
            intro m' hm'
            rw [h2.2.1 m' hm']; exact hpos.symm
  case items =>
    intro its cut oks s hs
    cases its with
    | nil => simp only [execItems]; exact hs
    | cons it its =>
      simp only [execItems]
      split
      · exact ih.items its true _ s hs
      · split
        · exact ih.items its cut _ s hs
        · exact hs
      · have h1 := (ih.item it.item s hs).2.2
        split
        · exact h1
        · split
          · exact ih.items its cut _ _ h1
          · exact h1
  case item =>
    intro it s hs
    cases it with
    | call p => simp only [execItem]; exact ih.prim p s hs
    | seqAlts ps => simp only [execItem]; exact ih.seqAlts ps s.pos s rfl hs
    | repeated p =>
      simp only [execItem]
      have h1 := ih.rep p s.pos 0 s hs
      generalize execRepeat prog w fuel p s.pos 0 s = rr at h1
      obtain ⟨n, res, s1⟩ := rr
      simp only [] at h1 ⊢
      cases ha : res.isAbort with
      | true => simp only [if_true]; exact claim_abort ha h1.1
      | false =>
        simp only [Bool.false_eq_true, if_false]
        split
        · rename_i hn
          exact Claim.ofFail (h1.2.2 hn ha) h1.1
        · exact Claim.ofOk rfl h1.1
    | gathered elem sep =>
      simp only [execItem]
      have h1 := ih.seqAlts [elem] s.pos s rfl hs
      generalize execSeqAlts prog w fuel [elem] s.pos s = r1 at h1
      obtain ⟨res, s1⟩ := r1
      simp only []
      cases ha : res.isAbort with
      | true => simp only [if_true]; exact claim_abort ha h1.2.2
      | false =>
        simp only [Bool.false_eq_true, if_false]
        rcases isAbort_false_cases ha with ⟨e, rfl⟩ | ⟨m, rfl⟩
        · simp only []
          have h2 := ih.sepRep elem sep s1.pos 0 s1 h1.2.2
          generalize execSepRepeat prog w fuel elem sep s1.pos 0 s1 = r2 at h2
          obtain ⟨n2, res2, s2⟩ := r2
          simp only [] at h2 ⊢
          cases ha2 : res2.isAbort with
          | true => simp only [if_true]; exact claim_abort ha2 h2
          | false => simp only [Bool.false_eq_true, if_false]; exact Claim.ofOk rfl h2
        · simp only []; exact Claim.ofFail rfl (cacheOK_of_eq rfl h1.2.2)
    | posLook p =>
      simp only [execItem]
      have h1 := ih.prim p s hs
      generalize execPrim prog w fuel p s = rp at h1
      obtain ⟨res, s1⟩ := rp
      simp only []
      cases ha : res.isAbort with
      | true => simp only [if_true]; exact claim_abort ha h1.2.2
      | false =>
        simp only [Bool.false_eq_true, if_false]
        split
        · exact Claim.ofOk rfl (cacheOK_of_eq rfl h1.2.2)
        · exact Claim.ofFail rfl (cacheOK_of_eq rfl h1.2.2)
    | negLook p =>
      simp only [execItem]
      have h1 := ih.prim p s hs
      generalize execPrim prog w fuel p s = rp at h1
      obtain ⟨res, s1⟩ := rp
      simp only []
      cases ha : res.isAbort with
      | true => simp only [if_true]; exact claim_abort ha h1.2.2
      | false =>
        simp only [Bool.false_eq_true, if_false]
        split
        · exact Claim.ofFail rfl (cacheOK_of_eq rfl h1.2.2)
        · exact Claim.ofOk rfl (cacheOK_of_eq rfl h1.2.2)
    | forced p what =>
      simp only [execItem]
      have h1 := ih.prim p s hs
      generalize execPrim prog w fuel p s = rp at h1
      obtain ⟨res, s1⟩ := rp
      simp only []
      cases ha : res.isAbort with
      | true => simp only [if_true]; exact claim_abort ha h1.2.2
      | false =>
        simp only [Bool.false_eq_true, if_false]
        split
        · exact h1
        · exact claim_abort rfl h1.2.2
    | setCut => simp only [execItem]; exact Claim.ofOk rfl hs
    | guardInvalid =>
      simp only [execItem]
      split
      · exact Claim.ofOk rfl hs
      · exact Claim.ofFail rfl hs
  case rep =>
    intro p mark n s hs
    simp only [execRepeat]
    have h1 := ih.prim p s hs
    generalize execPrim prog w fuel p s = rp at h1
    obtain ⟨res, s1⟩ := rp
    simp only []
    cases ha : res.isAbort with
    | true =>
      simp only [if_true]
      exact ⟨h1.2.2, Nat.le_refl _, (fun _ h => by rw [ha] at h; cases h)⟩
    | false =>
      simp only [Bool.false_eq_true, if_false]
      rcases isAbort_false_cases ha with ⟨e, rfl⟩ | ⟨m, rfl⟩
      · simp only []
        have h2 := ih.rep p s1.pos (n + 1) s1 h1.2.2
        refine ⟨h2.1, by omega, ?_⟩
        intro hn; omega
      · simp only []
        exact ⟨cacheOK_of_eq rfl h1.2.2, Nat.le_refl _, (fun _ _ => rfl)⟩
  case sepRep =>
    intro e sp mark n s hs
    simp only [execSepRepeat]
    have h1 := ih.prim sp s hs
    generalize execPrim prog w fuel sp s = rp at h1
    obtain ⟨res, s1⟩ := rp
    simp only []
    cases ha : res.isAbort with
    | true => simp only [if_true]; exact h1.2.2
    | false =>
      simp only [Bool.false_eq_true, if_false]
      rcases isAbort_false_cases ha with ⟨e', rfl⟩ | ⟨m, rfl⟩
      · simp only []
        have h2 := ih.seqAlts [e] s1.pos s1 rfl h1.2.2
        generalize execSeqAlts prog w fuel [e] s1.pos s1 = r2 at h2
        obtain ⟨res2, s2⟩ := r2
        simp only []
        cases ha2 : res2.isAbort with
        | true => simp only [if_true]; exact h2.2.2
        | false =>
          simp only [Bool.false_eq_true, if_false]
          rcases isAbort_false_cases ha2 with ⟨e2, rfl⟩ | ⟨m2, rfl⟩
          · simp only []; exact ih.sepRep e sp s2.pos (n + 1) s2 h2.2.2
          · simp only []; exact cacheOK_of_eq rfl h2.2.2
      · simp only []; exact cacheOK_of_eq rfl h1.2.2


theorem consInv (w : Array RTok) (hnf : NoFalsy prog) : ∀ fuel, ConsInv prog w fuel := by
  intro fuel
  induction fuel with
  | zero => exact consInv_zero w
  | succ n ih => exact consInv_succ w hnf n ih

theorem cacheOK_init (n : Nat) (b v : Bool) : CacheOK (St.init n b v) := by
  intro p id e h
  simp only [St.init, cacheGet] at h
  split at h
  · rename_i l hl
    have : l = [] := by
      have := Array.getElem?_eq_some_iff.mp hl
      obtain ⟨hlt, hv⟩ := this
      simpa using hv.symm
    subst this
    simp at h
  · cases h

/-- the decidable form of `NoFalsy` -/
def noFalsyB (prog : Prog) : Bool :=
  prog.all (fun r => match r.body with | .alts as _ _ => as.all (fun a => actNF a.act) | _ => true)

theorem noFalsy_of_B (prog : Prog) (h : noFalsyB prog = true) : NoFalsy prog := by
  intro id r hr
  unfold noFalsyB at h
  rw [Array.all_eq_true] at h
  have hlt := (Array.getElem?_eq_some_iff.mp hr).1
  have hv := (Array.getElem?_eq_some_iff.mp hr).2
  have := h id hlt
  rw [hv] at this
  unfold BodyNF
  split
  · rename_i as wo ul hb
    rw [hb] at this
    simp only [List.all_eq_true] at this
    exact this
  · trivial

end XV.Peg
