/-
  C15 (verbose half) — simulation between a run with verbose = false and a run with verbose = true:
  the two runs stay equal on everything but the flag and the number of reset calls, provided every
  failure entry of a left-recursive rule in the cache carries its own position as end mark (CacheInv),
  which both wrappers maintain.
-/
import XonshVerif.Model.Peg
namespace XV.Peg

/-- two parser states that differ only in the verbose flag and in the number of `reset` calls made -/
structure Sim (a b : St) : Prop where
  pos : a.pos = b.pos
  invalid : a.invalid = b.invalid
  cache : a.cache = b.cache
  fetched : a.fetched = b.fetched
  fired : a.fired = b.fired
  assumed : a.assumed = b.assumed
  peeks : a.peeks = b.peeks
  nexts : a.nexts = b.nexts
  va : a.verbose = false
  vb : b.verbose = true

/-- every failure entry of a left-recursive rule is stored with end mark = its own position
    (`self._cache[key] = None, mark`): this is why skipping the reset in the verbose path is harmless -/
def CacheInv (prog : Prog) (s : St) : Prop :=
  ∀ pos id e r, cacheGet s.cache pos id = some (.fail e) → prog[id]? = some r → r.deco = .leftrec → e = pos

theorem find_filter_ne (l : List (Nat × Res)) (i i' : Nat) (h : i' ≠ i) :
    (l.filter (fun x => decide (x.1 ≠ i))).find? (fun x => decide (x.1 = i')) = l.find? (fun x => decide (x.1 = i')) := by
  induction l with
  | nil => rfl
  | cons x xs ih =>
    by_cases hx : x.1 = i
    · have hx' : ¬ x.1 = i' := fun h' => h (h' ▸ hx)
      have e1 : (x :: xs).filter (fun x => decide (x.1 ≠ i)) = xs.filter (fun x => decide (x.1 ≠ i)) := by
        rw [List.filter_cons]; simp [hx]
      have e2 : (x :: xs).find? (fun x => decide (x.1 = i')) = xs.find? (fun x => decide (x.1 = i')) := by
        rw [List.find?_cons]; simp [hx']
      rw [e1, e2, ih]
    · have e1 : (x :: xs).filter (fun x => decide (x.1 ≠ i)) = x :: xs.filter (fun x => decide (x.1 ≠ i)) := by
        rw [List.filter_cons]; simp [hx]
      rw [e1, List.find?_cons, List.find?_cons, ih]

theorem cacheGet_cachePut (c : Array (List (Nat × Res))) (p i : Nat) (r : Res) (p' i' : Nat) :
    cacheGet (cachePut c p i r) p' i' =
      if p' = p ∧ i' = i ∧ p < c.size then some r else cacheGet c p' i' := by
  unfold cachePut
  split
  · rename_i hlt
    unfold cacheGet
    by_cases hp : p' = p
    · subst hp
      by_cases hi : i' = i
      · subst hi; simp [hlt]
      · have hne : ¬ (i = i') := fun h => hi h.symm
        simp only [hi, false_and, and_false, if_false]
        rw [Array.getElem?_set_self hlt]
        simp only [List.find?_cons, hne, decide_false, Bool.false_eq_true, if_false]
        rw [find_filter_ne _ _ _ hi]
        simp [Array.getElem?_eq_getElem hlt]
    · have : ¬ (p' = p ∧ i' = i ∧ p < c.size) := fun h => hp h.1
      simp only [this, if_false]
      rw [Array.getElem?_set_ne]
      exact fun h => hp h.symm
  · rename_i hge
    have : ¬ (p' = p ∧ i' = i ∧ p < c.size) := fun h => hge h.2.2
    simp [this]

end XV.Peg

namespace XV.Peg
variable {prog : Prog}

def Rel (prog : Prog) (x y : Res × St) : Prop := x.1 = y.1 ∧ Sim x.2 y.2 ∧ CacheInv prog x.2

theorem Sim.reset {a b : St} (h : Sim a b) (p : Nat) : Sim (a.reset p) (b.reset p) :=
  ⟨rfl, h.invalid, h.cache, h.fetched, h.fired, h.assumed, h.peeks, h.nexts, h.va, h.vb⟩

theorem CacheInv.of_cache_eq {s s' : St} (h : s'.cache = s.cache) (hs : CacheInv prog s) : CacheInv prog s' := by
  unfold CacheInv at *; rw [h]; exact hs

theorem CacheInv.put_ok {s : St} (hs : CacheInv prog s) (p i e : Nat) (s' : St) (h : s'.cache = cachePut s.cache p i (.ok e)) :
    CacheInv prog s' := by
  intro pos id e' r hget hr hd
  rw [h, cacheGet_cachePut] at hget
  split at hget
  · cases hget
  · exact hs pos id e' r hget hr hd

theorem CacheInv.put_fail_self {s : St} (hs : CacheInv prog s) (p i : Nat) (s' : St) (h : s'.cache = cachePut s.cache p i (.fail p)) :
    CacheInv prog s' := by
  intro pos id e' r hget hr hd
  rw [h, cacheGet_cachePut] at hget
  split at hget
  · rename_i hc
    injection hget with hget; injection hget with hget
    rw [← hget, hc.1]
  · exact hs pos id e' r hget hr hd

/-- a put for a rule that is not left-recursive never matters for the invariant -/
theorem CacheInv.put_nonleftrec {s : St} (hs : CacheInv prog s) (p i : Nat) (res : Res) (s' : St) (r0 : Rule)
    (hr0 : prog[i]? = some r0) (hd0 : r0.deco ≠ .leftrec) (h : s'.cache = cachePut s.cache p i res) : CacheInv prog s' := by
  intro pos id e' r hget hr hd
  rw [h, cacheGet_cachePut] at hget
  split at hget
  · rename_i hc
    rw [hc.2.1, hr0] at hr
    injection hr with hr
    subst hr
    exact absurd hd hd0
  · exact hs pos id e' r hget hr hd

theorem leaf_rel (w : Array RTok) (test : RTok → Bool) (a b : St) (h : Sim a b) (hi : CacheInv prog a) :
    Rel prog (leaf w test a) (leaf w test b) := by
  cases hw : w[b.pos]? with
  | none =>
    have hwa : w[a.pos]? = none := by rw [h.pos]; exact hw
    simp only [leaf, peekTok, hw, hwa]
    exact ⟨rfl, h, hi⟩
  | some t =>
    have hwa : w[a.pos]? = some t := by rw [h.pos]; exact hw
    simp only [leaf, peekTok, hw, hwa]
    by_cases ht : test t = true
    · simp only [ht, if_true]
      exact ⟨by simp [h.pos], ⟨by simp [h.pos], h.invalid, h.cache, by simp [h.fetched, h.pos], h.fired, h.assumed, by simp [h.peeks], by simp [h.nexts], h.va, h.vb⟩,
             CacheInv.of_cache_eq rfl hi⟩
    · simp only [ht, if_false]
      exact ⟨by simp [h.pos], ⟨h.pos, h.invalid, h.cache, by simp [h.fetched, h.pos], h.fired, h.assumed, by simp [h.peeks], h.nexts, h.va, h.vb⟩,
             CacheInv.of_cache_eq rfl hi⟩

end XV.Peg

namespace XV.Peg
variable {prog : Prog}

structure VInv (prog : Prog) (w : Array RTok) (fuel : Nat) : Prop where
  prim : ∀ p a b, Sim a b → CacheInv prog a → Rel prog (execPrim prog w fuel p a) (execPrim prog w fuel p b)
  rule : ∀ id a b, Sim a b → CacheInv prog a → Rel prog (execRule prog w fuel id a) (execRule prog w fuel id b)
  grow : ∀ id body mark last lastmark a b, (∃ r, prog[id]? = some r ∧ r.deco = .leftrec) → Sim a b → CacheInv prog a →
          Rel prog (grow prog w fuel id body mark last lastmark a) (grow prog w fuel id body mark last lastmark b)
  body : ∀ rid bd a b, Sim a b → CacheInv prog a → Rel prog (execBody prog w fuel rid bd a) (execBody prog w fuel rid bd b)
  seqAlts : ∀ ps mark a b, Sim a b → CacheInv prog a → Rel prog (execSeqAlts prog w fuel ps mark a) (execSeqAlts prog w fuel ps mark b)
  alts : ∀ rid idx as mark a b, Sim a b → CacheInv prog a → Rel prog (execAlts prog w fuel rid idx as mark a) (execAlts prog w fuel rid idx as mark b)
  items : ∀ its cut oks a b, Sim a b → CacheInv prog a →
          (execItems prog w fuel its cut oks a).1 = (execItems prog w fuel its cut oks b).1 ∧
          (execItems prog w fuel its cut oks a).2.1 = (execItems prog w fuel its cut oks b).2.1 ∧
          (execItems prog w fuel its cut oks a).2.2.1 = (execItems prog w fuel its cut oks b).2.2.1 ∧
          (execItems prog w fuel its cut oks a).2.2.2.2 = (execItems prog w fuel its cut oks b).2.2.2.2 ∧
          Sim (execItems prog w fuel its cut oks a).2.2.2.1 (execItems prog w fuel its cut oks b).2.2.2.1 ∧
          CacheInv prog (execItems prog w fuel its cut oks a).2.2.2.1
  item : ∀ it a b, Sim a b → CacheInv prog a → Rel prog (execItem prog w fuel it a) (execItem prog w fuel it b)
  rep : ∀ p mark n a b, Sim a b → CacheInv prog a →
          (execRepeat prog w fuel p mark n a).1 = (execRepeat prog w fuel p mark n b).1 ∧
          Rel prog (execRepeat prog w fuel p mark n a).2 (execRepeat prog w fuel p mark n b).2
  sepRep : ∀ e sp mark n a b, Sim a b → CacheInv prog a →
          (execSepRepeat prog w fuel e sp mark n a).1 = (execSepRepeat prog w fuel e sp mark n b).1 ∧
          Rel prog (execSepRepeat prog w fuel e sp mark n a).2 (execSepRepeat prog w fuel e sp mark n b).2

theorem vinv_zero (w : Array RTok) : VInv prog w 0 := by
  constructor <;> intros <;> simp_all [Rel, execPrim, execRule, grow, execBody, execSeqAlts, execAlts, execItems, execItem, execRepeat, execSepRepeat]

end XV.Peg

namespace XV.Peg
variable {prog : Prog}

theorem Sim.cache_eq {a b : St} (h : Sim a b) : cacheGet a.cache a.pos = cacheGet b.cache b.pos := by rw [h.cache, h.pos]

theorem bodyEntry_rel (w : Array RTok) (wo ul : Bool) (a b : St) (h : Sim a b) (hi : CacheInv prog a) :
    (bodyEntry w wo ul a = none ∧ bodyEntry w wo ul b = none) ∨
    (∃ x y, bodyEntry w wo ul a = some x ∧ bodyEntry w wo ul b = some y ∧ Sim x y ∧ CacheInv prog x) := by
  have hs : Sim (if wo then { a with invalid := false } else a) (if wo then { b with invalid := false } else b) := by
    cases wo with
    | false => simpa using h
    | true => exact ⟨h.pos, rfl, h.cache, h.fetched, h.fired, h.assumed, h.peeks, h.nexts, h.va, h.vb⟩
  have hci : CacheInv prog (if wo then { a with invalid := false } else a) := by
    cases wo with
    | false => simpa using hi
    | true => exact CacheInv.of_cache_eq rfl hi
  unfold bodyEntry
  simp only []
  generalize (if wo = true then { a with invalid := false } else a) = sa at hs hci ⊢
  generalize (if wo = true then { b with invalid := false } else b) = sb at hs ⊢
  cases ul with
  | false =>
    right
    exact ⟨sa, sb, by simp, by simp, hs, hci⟩
  | true =>
    simp only [if_true]
    cases hw : w[sb.pos]? with
    | none =>
      left
      have hwa : w[sa.pos]? = none := by rw [hs.pos]; exact hw
      constructor <;> simp [peekTok, hw, hwa]
    | some t =>
      right
      have hwa : w[sa.pos]? = some t := by rw [hs.pos]; exact hw
      refine ⟨{ sa with fetched := max sa.fetched (sa.pos + 1), peeks := sa.peeks + 1 }, { sb with fetched := max sb.fetched (sb.pos + 1), peeks := sb.peeks + 1 }, ?_, ?_, ?_, ?_⟩
      · simp [peekTok, hwa]
      · simp [peekTok, hw]
      · exact ⟨hs.pos, hs.invalid, hs.cache, by simp [hs.fetched, hs.pos], hs.fired, hs.assumed, by simp [hs.peeks], hs.nexts, hs.va, hs.vb⟩
      · exact CacheInv.of_cache_eq rfl hci

theorem vinv_succ (w : Array RTok) (fuel : Nat) (ih : VInv prog w fuel) : VInv prog w (fuel + 1) := by
  refine ⟨?prim, ?rule, ?grow, ?body, ?seqAlts, ?alts, ?items, ?item, ?rep, ?sepRep⟩
  case prim =>
    intro p a b h hi
    cases p with
    | rule id => simp only [execPrim]; exact ih.rule id a b h hi
    | expect sid => simp only [execPrim]; exact leaf_rel w _ a b h hi
    | token ty => simp only [execPrim]; exact leaf_rel w _ a b h hi
    | name => simp only [execPrim]; exact leaf_rel w _ a b h hi
    | keyword => simp only [execPrim]; exact leaf_rel w _ a b h hi
    | softKeyword => simp only [execPrim]; exact leaf_rel w _ a b h hi
    | anyToken =>
      simp only [execPrim]
      rw [h.pos]
      cases hw : w[b.pos]? with
      | none => exact ⟨rfl, h, hi⟩
      | some t =>
        exact ⟨rfl, ⟨rfl, h.invalid, h.cache, by simp [h.fetched], h.fired, h.assumed, by simp [h.peeks], by simp [h.nexts], h.va, h.vb⟩, CacheInv.of_cache_eq rfl hi⟩
  case rule =>
    intro id a b h hi
    simp only [execRule]
    cases hr : prog[id]? with
    | none => exact ⟨rfl, h, hi⟩
    | some r =>
      simp only []
      cases hd : r.deco with
      | none => exact ih.body id r.body a b h hi
      | logger => exact ih.body id r.body a b h hi
      | memo =>
        simp only []
        rw [h.cache, h.pos]
        cases hc : cacheGet b.cache b.pos id with
        | some res =>
          cases res with
          | ok e => exact ⟨rfl, h.reset e, CacheInv.of_cache_eq rfl hi⟩
          | fail e => exact ⟨rfl, h.reset e, CacheInv.of_cache_eq rfl hi⟩
          | raised => exact ⟨rfl, h, hi⟩
          | undecided => exact ⟨rfl, h, hi⟩
          | tokErr => exact ⟨rfl, h, hi⟩
          | outOfFuel => exact ⟨rfl, h, hi⟩
        | none =>
          simp only []
          obtain ⟨h1, h2, h3⟩ := ih.body id r.body a b h hi
          rw [h1]
          by_cases hab : (execBody prog w fuel id r.body b).1.isAbort = true
          · simp only [hab, if_true]; exact ⟨rfl, h2, h3⟩
          · simp only [hab, Bool.false_eq_true, if_false]
            have hne : r.deco ≠ .leftrec := by rw [hd]; simp
            refine ⟨rfl, ⟨h2.pos, h2.invalid, ?_, h2.fetched, h2.fired, h2.assumed, h2.peeks, h2.nexts, h2.va, h2.vb⟩, ?_⟩
            · simp only []; rw [h2.cache, h2.pos]
            · exact CacheInv.put_nonleftrec h3 _ id _ _ r hr hne rfl
      | leftrec =>
        simp only []
        rw [h.cache, h.pos]
        cases hc : cacheGet b.cache b.pos id with
        | some res =>
          cases res with
          | ok e => exact ⟨rfl, h.reset e, CacheInv.of_cache_eq rfl hi⟩
          | fail e =>
            -- the only place where the two runs take different code paths
            have he : e = b.pos := by
              have := hi b.pos id e r (by rw [h.cache]; exact hc) hr hd
              exact this
            simp only [h.va, h.vb, Bool.false_eq_true, if_false, if_true]
            refine ⟨by rw [he], ⟨by simp [St.reset, he], h.invalid, h.cache, h.fetched, h.fired, h.assumed, h.peeks, h.nexts, h.va, h.vb⟩, CacheInv.of_cache_eq rfl hi⟩
          | raised => exact ⟨rfl, h, hi⟩
          | undecided => exact ⟨rfl, h, hi⟩
          | tokErr => exact ⟨rfl, h, hi⟩
          | outOfFuel => exact ⟨rfl, h, hi⟩
        | none =>
          simp only []
          apply ih.grow id r.body _ none _ _ _ ⟨r, hr, hd⟩
          · exact ⟨rfl, h.invalid, rfl, h.fetched, h.fired, h.assumed, h.peeks, h.nexts, h.va, h.vb⟩
          · exact CacheInv.put_fail_self hi b.pos id _ (by simp [h.cache])
  case grow =>
    intro id body mark last lastmark a b hl h hi
    obtain ⟨r, hr, hd⟩ := hl
    simp only [grow]
    obtain ⟨h1, h2, h3⟩ := ih.body id body (a.reset mark) (b.reset mark) (h.reset mark) (CacheInv.of_cache_eq rfl hi)
    rw [h1]
    by_cases hab : (execBody prog w fuel id body (b.reset mark)).1.isAbort = true
    · simp only [hab, if_true]; exact ⟨rfl, h2, h3⟩
    · simp only [hab, Bool.false_eq_true, if_false]
      have fin : ∀ (x y : St), Sim x y → CacheInv prog x →
          Rel prog (grow.finish id mark last lastmark x) (grow.finish id mark last lastmark y) := by
        intro x y hxy hix
        unfold grow.finish
        cases last with
        | some e =>
          refine ⟨rfl, ⟨rfl, hxy.invalid, by simp [St.reset, hxy.cache], hxy.fetched, hxy.fired, hxy.assumed, hxy.peeks, hxy.nexts, hxy.va, hxy.vb⟩, ?_⟩
          exact CacheInv.put_ok (s := x.reset lastmark) (CacheInv.of_cache_eq rfl hix) mark id _ _ rfl
        | none =>
          refine ⟨rfl, ⟨rfl, hxy.invalid, by simp [St.reset, hxy.cache], hxy.fetched, hxy.fired, hxy.assumed, hxy.peeks, hxy.nexts, hxy.va, hxy.vb⟩, ?_⟩
          exact CacheInv.put_fail_self (s := (x.reset lastmark).reset mark) (CacheInv.of_cache_eq rfl hix) mark id _ rfl
      cases hres : (execBody prog w fuel id body (b.reset mark)).1 with
      | ok e =>
        simp only []
        rw [h2.pos]
        by_cases hle : (execBody prog w fuel id body (b.reset mark)).2.pos ≤ lastmark
        · simp only [hle, if_true]; exact fin _ _ h2 h3
        · simp only [hle, if_false]
          apply ih.grow id body mark _ _ _ _ ⟨r, hr, hd⟩
          · exact ⟨rfl, h2.invalid, by simp [h2.cache], h2.fetched, h2.fired, h2.assumed, h2.peeks, h2.nexts, h2.va, h2.vb⟩
          · exact CacheInv.put_ok h3 mark id _ _ rfl
      | fail e => exact fin _ _ h2 h3
      | raised => exact fin _ _ h2 h3
      | undecided => exact fin _ _ h2 h3
      | tokErr => exact fin _ _ h2 h3
      | outOfFuel => exact fin _ _ h2 h3
  case body =>
    intro rid bd a b h hi
    cases bd with
    | unmodelled => simp only [execBody]; exact ⟨rfl, h, hi⟩
    | seqAlts ps => simp only [execBody]; rw [h.pos]; exact ih.seqAlts ps b.pos a b h hi
    | alts as wo ul =>
      simp only [execBody]
      have hent := bodyEntry_rel (prog := prog) w wo ul a b h hi
      rcases hent with ⟨ha, hb⟩ | ⟨x, y, ha, hb, hxy, hix⟩
      · rw [ha, hb]; exact ⟨rfl, h, hi⟩
      · rw [ha, hb]
        simp only []
        rw [hxy.pos, h.invalid]
        obtain ⟨h1, h2, h3⟩ := ih.alts rid 0 as y.pos x y hxy hix
        refine ⟨h1, ?_, ?_⟩
        · unfold bodyExit
          rw [h1]
          split
          · exact h2
          · exact ⟨h2.pos, rfl, h2.cache, h2.fetched, h2.fired, h2.assumed, h2.peeks, h2.nexts, h2.va, h2.vb⟩
        · unfold bodyExit
          split
          · exact h3
          · exact CacheInv.of_cache_eq rfl h3
  case seqAlts =>
    intro ps mark a b h hi
    cases ps with
    | nil => simp only [execSeqAlts]; exact ⟨rfl, h, hi⟩
    | cons p ps =>
      simp only [execSeqAlts]
      obtain ⟨h1, h2, h3⟩ := ih.prim p a b h hi
      rw [h1]
      by_cases hab : (execPrim prog w fuel p b).1.isAbort = true
      · simp only [hab, if_true]; exact ⟨rfl, h2, h3⟩
      · simp only [hab, Bool.false_eq_true, if_false]
        cases hres : (execPrim prog w fuel p b).1 with
        | ok e => exact ⟨rfl, h2, h3⟩
        | fail e => exact ih.seqAlts ps mark _ _ (h2.reset mark) (CacheInv.of_cache_eq rfl h3)
        | raised => exact ih.seqAlts ps mark _ _ (h2.reset mark) (CacheInv.of_cache_eq rfl h3)
        | undecided => exact ih.seqAlts ps mark _ _ (h2.reset mark) (CacheInv.of_cache_eq rfl h3)
        | tokErr => exact ih.seqAlts ps mark _ _ (h2.reset mark) (CacheInv.of_cache_eq rfl h3)
        | outOfFuel => exact ih.seqAlts ps mark _ _ (h2.reset mark) (CacheInv.of_cache_eq rfl h3)
  case alts =>
    intro rid idx as mark a b h hi
    cases as with
    | nil => simp only [execAlts]; exact ⟨rfl, h, hi⟩
    | cons al as =>
      simp only [execAlts]
      obtain ⟨e1, e2, e3, e4, hsim, hinv⟩ := ih.items al.items false [] a b h hi
      rw [e1, e2, e3, e4]
      by_cases hab : (execItems prog w fuel al.items false [] b).2.2.1.isAbort = true
      · simp only [hab, if_true]; exact ⟨rfl, hsim, hinv⟩
      · simp only [hab, Bool.false_eq_true, if_false]
        by_cases hok : (execItems prog w fuel al.items false [] b).1 = true
        · simp only [hok, if_true]
          have hs' : Sim { (execItems prog w fuel al.items false [] a).2.2.2.1 with fired := (rid, idx) :: (execItems prog w fuel al.items false [] a).2.2.2.1.fired }
                         { (execItems prog w fuel al.items false [] b).2.2.2.1 with fired := (rid, idx) :: (execItems prog w fuel al.items false [] b).2.2.2.1.fired } :=
            ⟨hsim.pos, hsim.invalid, hsim.cache, hsim.fetched, by simp [hsim.fired], hsim.assumed, hsim.peeks, hsim.nexts, hsim.va, hsim.vb⟩
          have hi' : CacheInv prog { (execItems prog w fuel al.items false [] a).2.2.2.1 with fired := (rid, idx) :: (execItems prog w fuel al.items false [] a).2.2.2.1.fired } :=
            CacheInv.of_cache_eq rfl hinv
          cases al.act with
          | truthy => exact ⟨by simp [hsim.pos], hs', hi'⟩
          | none => exact ⟨by simp [hsim.pos], hs', hi'⟩
          | raises => exact ⟨rfl, hs', hi'⟩
          | mayRaise => exact ⟨by simp [hsim.pos], ⟨hsim.pos, hsim.invalid, hsim.cache, hsim.fetched, by simp [hsim.fired], rfl, hsim.peeks, hsim.nexts, hsim.va, hsim.vb⟩, CacheInv.of_cache_eq rfl hinv⟩
          | gate m => exact ⟨by simp [hsim.pos], ⟨hsim.pos, hsim.invalid, hsim.cache, hsim.fetched, by simp [hsim.fired], rfl, hsim.peeks, hsim.nexts, hsim.va, hsim.vb⟩, CacheInv.of_cache_eq rfl hinv⟩
          | viaItem i =>
            simp only []
            split
            · exact ⟨by simp [hsim.pos], hs', hi'⟩
            · exact ⟨by simp [hsim.pos], hs', hi'⟩
          | unknown => exact ⟨rfl, hs', hi'⟩
        · simp only [hok, Bool.false_eq_true, if_false]
          by_cases hcut : (execItems prog w fuel al.items false [] b).2.1 = true
          · simp only [hcut, if_true]; exact ⟨rfl, hsim.reset mark, CacheInv.of_cache_eq rfl hinv⟩
          · simp only [hcut, Bool.false_eq_true, if_false]
            exact ih.alts rid (idx + 1) as mark _ _ (hsim.reset mark) (CacheInv.of_cache_eq rfl hinv)
  case items =>
    intro its cut oks a b h hi
    cases its with
    | nil => simp only [execItems]; exact ⟨by simp, by simp, by simp [h.pos], by simp, h, hi⟩
    | cons it its =>
      simp only [execItems]
      cases hit : it.item with
      | setCut => exact ih.items its true _ a b h hi
      | guardInvalid =>
        simp only []
        rw [h.invalid]
        by_cases hinvd : b.invalid = true
        · simp only [hinvd, if_true]; exact ih.items its cut _ a b h hi
        · simp only [hinvd, Bool.false_eq_true, if_false]; exact ⟨by simp, by simp, by simp [h.pos], by simp, h, hi⟩
      | call p =>
        simp only []
        obtain ⟨h1, h2, h3⟩ := ih.item (.call p) a b h hi
        rw [h1]
        by_cases hab : (execItem prog w fuel (.call p) b).1.isAbort = true
        · simp only [hab, if_true]; exact ⟨by simp, by simp, by simp [h2.pos], by simp, h2, h3⟩
        · simp only [hab, Bool.false_eq_true, if_false]
          split
          · exact ih.items its cut _ _ _ h2 h3
          · exact ⟨by simp, by simp, by simp [h2.pos], by simp, h2, h3⟩
      | repeated p =>
        simp only []
        obtain ⟨h1, h2, h3⟩ := ih.item (.repeated p) a b h hi
        rw [h1]
        by_cases hab : (execItem prog w fuel (.repeated p) b).1.isAbort = true
        · simp only [hab, if_true]; exact ⟨by simp, by simp, by simp [h2.pos], by simp, h2, h3⟩
        · simp only [hab, Bool.false_eq_true, if_false]
          split
          · exact ih.items its cut _ _ _ h2 h3
          · exact ⟨by simp, by simp, by simp [h2.pos], by simp, h2, h3⟩
      | gathered e sp =>
        simp only []
        obtain ⟨h1, h2, h3⟩ := ih.item (.gathered e sp) a b h hi
        rw [h1]
        by_cases hab : (execItem prog w fuel (.gathered e sp) b).1.isAbort = true
        · simp only [hab, if_true]; exact ⟨by simp, by simp, by simp [h2.pos], by simp, h2, h3⟩
        · simp only [hab, Bool.false_eq_true, if_false]
          split
          · exact ih.items its cut _ _ _ h2 h3
          · exact ⟨by simp, by simp, by simp [h2.pos], by simp, h2, h3⟩
      | seqAlts ps =>
        simp only []
        obtain ⟨h1, h2, h3⟩ := ih.item (.seqAlts ps) a b h hi
        rw [h1]
        by_cases hab : (execItem prog w fuel (.seqAlts ps) b).1.isAbort = true
        · simp only [hab, if_true]; exact ⟨by simp, by simp, by simp [h2.pos], by simp, h2, h3⟩
        · simp only [hab, Bool.false_eq_true, if_false]
          split
          · exact ih.items its cut _ _ _ h2 h3
          · exact ⟨by simp, by simp, by simp [h2.pos], by simp, h2, h3⟩
      | posLook p =>
        simp only []
        obtain ⟨h1, h2, h3⟩ := ih.item (.posLook p) a b h hi
        rw [h1]
        by_cases hab : (execItem prog w fuel (.posLook p) b).1.isAbort = true
        · simp only [hab, if_true]; exact ⟨by simp, by simp, by simp [h2.pos], by simp, h2, h3⟩
        · simp only [hab, Bool.false_eq_true, if_false]
          split
          · exact ih.items its cut _ _ _ h2 h3
          · exact ⟨by simp, by simp, by simp [h2.pos], by simp, h2, h3⟩
      | negLook p =>
        simp only []
        obtain ⟨h1, h2, h3⟩ := ih.item (.negLook p) a b h hi
        rw [h1]
        by_cases hab : (execItem prog w fuel (.negLook p) b).1.isAbort = true
        · simp only [hab, if_true]; exact ⟨by simp, by simp, by simp [h2.pos], by simp, h2, h3⟩
        · simp only [hab, Bool.false_eq_true, if_false]
          split
          · exact ih.items its cut _ _ _ h2 h3
          · exact ⟨by simp, by simp, by simp [h2.pos], by simp, h2, h3⟩
      | forced p wh =>
        simp only []
        obtain ⟨h1, h2, h3⟩ := ih.item (.forced p wh) a b h hi
        rw [h1]
        by_cases hab : (execItem prog w fuel (.forced p wh) b).1.isAbort = true
        · simp only [hab, if_true]; exact ⟨by simp, by simp, by simp [h2.pos], by simp, h2, h3⟩
        · simp only [hab, Bool.false_eq_true, if_false]
          split
          · exact ih.items its cut _ _ _ h2 h3
          · exact ⟨by simp, by simp, by simp [h2.pos], by simp, h2, h3⟩
  case item =>
    intro it a b h hi
    cases it with
    | call p => simp only [execItem]; exact ih.prim p a b h hi
    | seqAlts ps => simp only [execItem]; rw [h.pos]; exact ih.seqAlts ps b.pos a b h hi
    | repeated p =>
      simp only [execItem]
      rw [h.pos]
      obtain ⟨hn, h1, h2, h3⟩ := ih.rep p b.pos 0 a b h hi
      rw [hn, h1]
      by_cases hab : (execRepeat prog w fuel p b.pos 0 b).2.1.isAbort = true
      · simp only [hab, if_true]; exact ⟨rfl, h2, h3⟩
      · simp only [hab, Bool.false_eq_true, if_false]
        split
        · exact ⟨by simp [h2.pos], h2, h3⟩
        · exact ⟨by simp [h2.pos], h2, h3⟩
    | gathered elem sep =>
      simp only [execItem]
      rw [h.pos]
      obtain ⟨h1, h2, h3⟩ := ih.seqAlts [elem] b.pos a b h hi
      rw [h1]
      by_cases hab : (execSeqAlts prog w fuel [elem] b.pos b).1.isAbort = true
      · simp only [hab, if_true]; exact ⟨rfl, h2, h3⟩
      · simp only [hab, Bool.false_eq_true, if_false]
        cases hres : (execSeqAlts prog w fuel [elem] b.pos b).1 with
        | ok e =>
          simp only []
          rw [h2.pos]
          obtain ⟨_, g1, g2, g3⟩ := ih.sepRep elem sep (execSeqAlts prog w fuel [elem] b.pos b).2.pos 0 _ _ h2 h3
          rw [g1]
          split
          · exact ⟨rfl, g2, g3⟩
          · exact ⟨by simp [g2.pos], g2, g3⟩
        | fail e => exact ⟨rfl, h2.reset _, CacheInv.of_cache_eq rfl h3⟩
        | raised => exact ⟨rfl, h2.reset _, CacheInv.of_cache_eq rfl h3⟩
        | undecided => exact ⟨rfl, h2.reset _, CacheInv.of_cache_eq rfl h3⟩
        | tokErr => exact ⟨rfl, h2.reset _, CacheInv.of_cache_eq rfl h3⟩
        | outOfFuel => exact ⟨rfl, h2.reset _, CacheInv.of_cache_eq rfl h3⟩
    | posLook p =>
      simp only [execItem]
      rw [h.pos]
      obtain ⟨h1, h2, h3⟩ := ih.prim p a b h hi
      rw [h1]
      split
      · exact ⟨rfl, h2, h3⟩
      · split <;> exact ⟨rfl, h2.reset _, CacheInv.of_cache_eq rfl h3⟩
    | negLook p =>
      simp only [execItem]
      rw [h.pos]
      obtain ⟨h1, h2, h3⟩ := ih.prim p a b h hi
      rw [h1]
      split
      · exact ⟨rfl, h2, h3⟩
      · split <;> exact ⟨rfl, h2.reset _, CacheInv.of_cache_eq rfl h3⟩
    | forced p what =>
      simp only [execItem]
      obtain ⟨h1, h2, h3⟩ := ih.prim p a b h hi
      rw [h1]
      split
      · exact ⟨rfl, h2, h3⟩
      · split <;> exact ⟨rfl, h2, h3⟩
    | setCut => simp only [execItem]; exact ⟨by simp [h.pos], h, hi⟩
    | guardInvalid =>
      simp only [execItem]
      rw [h.invalid]
      split <;> exact ⟨by simp [h.pos], h, hi⟩
  case rep =>
    intro p mark n a b h hi
    simp only [execRepeat]
    obtain ⟨h1, h2, h3⟩ := ih.prim p a b h hi
    rw [h1]
    by_cases hab : (execPrim prog w fuel p b).1.isAbort = true
    · simp only [hab, if_true]; exact ⟨trivial, rfl, h2, h3⟩
    · simp only [hab, Bool.false_eq_true, if_false]
      cases hres : (execPrim prog w fuel p b).1 with
      | ok e => simp only []; rw [h2.pos]; exact ih.rep p _ (n + 1) _ _ h2 h3
      | fail e => exact ⟨rfl, rfl, h2.reset mark, CacheInv.of_cache_eq rfl h3⟩
      | raised => exact ⟨rfl, rfl, h2.reset mark, CacheInv.of_cache_eq rfl h3⟩
      | undecided => exact ⟨rfl, rfl, h2.reset mark, CacheInv.of_cache_eq rfl h3⟩
      | tokErr => exact ⟨rfl, rfl, h2.reset mark, CacheInv.of_cache_eq rfl h3⟩
      | outOfFuel => exact ⟨rfl, rfl, h2.reset mark, CacheInv.of_cache_eq rfl h3⟩
  case sepRep =>
    intro e sp mark n a b h hi
    simp only [execSepRepeat]
    obtain ⟨h1, h2, h3⟩ := ih.prim sp a b h hi
    rw [h1]
    by_cases hab : (execPrim prog w fuel sp b).1.isAbort = true
    · simp only [hab, if_true]; exact ⟨trivial, rfl, h2, h3⟩
    · simp only [hab, Bool.false_eq_true, if_false]
      cases hres : (execPrim prog w fuel sp b).1 with
      | ok e0 =>
        simp only []
        rw [h2.pos]
        obtain ⟨g1, g2, g3⟩ := ih.seqAlts [e] (execPrim prog w fuel sp b).2.pos _ _ h2 h3
        rw [g1]
        by_cases hab2 : (execSeqAlts prog w fuel [e] (execPrim prog w fuel sp b).2.pos (execPrim prog w fuel sp b).2).1.isAbort = true
        · simp only [hab2, if_true]; exact ⟨trivial, rfl, g2, g3⟩
        · simp only [hab2, Bool.false_eq_true, if_false]
          cases hres2 : (execSeqAlts prog w fuel [e] (execPrim prog w fuel sp b).2.pos (execPrim prog w fuel sp b).2).1 with
          | ok e1 => simp only []; rw [g2.pos]; exact ih.sepRep e sp _ (n + 1) _ _ g2 g3
          | fail e1 => exact ⟨rfl, rfl, g2.reset mark, CacheInv.of_cache_eq rfl g3⟩
          | raised => exact ⟨rfl, rfl, g2.reset mark, CacheInv.of_cache_eq rfl g3⟩
          | undecided => exact ⟨rfl, rfl, g2.reset mark, CacheInv.of_cache_eq rfl g3⟩
          | tokErr => exact ⟨rfl, rfl, g2.reset mark, CacheInv.of_cache_eq rfl g3⟩
          | outOfFuel => exact ⟨rfl, rfl, g2.reset mark, CacheInv.of_cache_eq rfl g3⟩
      | fail e0 => exact ⟨rfl, rfl, h2.reset mark, CacheInv.of_cache_eq rfl h3⟩
      | raised => exact ⟨rfl, rfl, h2.reset mark, CacheInv.of_cache_eq rfl h3⟩
      | undecided => exact ⟨rfl, rfl, h2.reset mark, CacheInv.of_cache_eq rfl h3⟩
      | tokErr => exact ⟨rfl, rfl, h2.reset mark, CacheInv.of_cache_eq rfl h3⟩
      | outOfFuel => exact ⟨rfl, rfl, h2.reset mark, CacheInv.of_cache_eq rfl h3⟩

theorem vinv (w : Array RTok) : ∀ fuel, VInv prog w fuel
  | 0 => vinv_zero w
  | fuel + 1 => vinv_succ w fuel (vinv w fuel)

theorem cacheInv_fresh (n : Nat) (s : St) (h : s.cache = Array.replicate n []) : CacheInv prog s := by
  intro pos id e r hget
  rw [h] at hget
  simp only [cacheGet] at hget
  split at hget
  · rename_i l hl
    rw [Array.getElem?_replicate] at hl
    split at hl
    · injection hl with hl; subst hl; simp at hget
    · simp at hl
  · simp at hget

theorem sim_init (n : Nat) (inv : Bool) : Sim (St.init n inv false) (St.init n inv true) :=
  ⟨rfl, rfl, rfl, rfl, rfl, rfl, rfl, rfl, rfl, rfl⟩

end XV.Peg
