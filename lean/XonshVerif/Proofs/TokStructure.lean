/-
  C08 (structure): INDENT/DEDENT tokens are balanced like brackets and the stream of a finished run ends in exactly
  one ENDMARKER.  Invariant over the line loop: the number of open INDENTs in the tokens emitted so far is the height
  of the indentation stack above its bottom element 0; the scan loop emits neither INDENT, DEDENT nor ENDMARKER and
  does not touch the stack.
-/
import XonshVerif.Proofs.Tokenize
namespace XV.Tz
open XV XV.Rx

/-- token types the scan loop may emit -/
def Inline (t : Tok5) : Prop := t.ty ≠ .INDENT ∧ t.ty ≠ .DEDENT ∧ t.ty ≠ .ENDMARKER
def AllInline (ts : List Tok5) : Prop := ∀ t ∈ ts, Inline t

/-- read INDENT as an opening and DEDENT as a closing bracket: the depth after `ts` when started at depth `d`,
    `none` if a DEDENT arrives at depth 0 -/
def depthAfter : Nat → List Tok5 → Option Nat
  | d, [] => some d
  | d, t :: ts =>
    if t.ty = .INDENT then depthAfter (d + 1) ts
    else if t.ty = .DEDENT then (match d with | 0 => none | d' + 1 => depthAfter d' ts)
    else depthAfter d ts

theorem depthAfter_append (a b : List Tok5) : ∀ d, depthAfter d (a ++ b) = (depthAfter d a).bind (fun d' => depthAfter d' b) := by
  induction a with
  | nil => intro d; rfl
  | cons t ts ih =>
    intro d
    simp only [List.cons_append, depthAfter]
    split
    · exact ih _
    · split
      · cases d with
        | zero => rfl
        | succ d' => exact ih _
      · exact ih _

theorem depthAfter_inline (ts : List Tok5) (h : AllInline ts) : ∀ d, depthAfter d ts = some d := by
  induction ts with
  | nil => intro d; rfl
  | cons t ts ih =>
    intro d
    have ht := h t (List.mem_cons_self)
    simp only [depthAfter, ht.1, ht.2.1, if_false]
    exact ih (fun x hx => h x (List.mem_cons_of_mem _ hx)) d

theorem AllInline.append {a b : List Tok5} (ha : AllInline a) (hb : AllInline b) : AllInline (a ++ b) := by
  intro t ht; rcases List.mem_append.mp ht with h | h
  · exact ha t h
  · exact hb t h
theorem AllInline.nil : AllInline [] := by intro t ht; cases ht
theorem AllInline.single {t : Tok5} (h : Inline t) : AllInline [t] := by
  intro x hx; simp only [List.mem_singleton] at hx; subst hx; exact h

/-! ### the scan loop: no INDENT/DEDENT/ENDMARKER, indentation stack untouched -/

@[simp] theorem popMode_indents (st : TState) (e : Option Pos) : (st.popMode e).indents = st.indents := by
  unfold TState.popMode; split <;> (try split) <;> rfl
@[simp] theorem addProg_indents (st : TState) (s e : Nat) (m : Mode) (p : PatKind) (q : List Nat) : (st.addProg s e m p q).indents = st.indents := rfl
@[simp] theorem progToken_indents (st : TState) (e : Nat) (ty : TT) : (st.progToken e ty).2.indents = st.indents := by
  unfold TState.progToken; split <;> rfl

theorem progToken_ty (st : TState) (e : Nat) (ty : TT) (h : ty ≠ .INDENT ∧ ty ≠ .DEDENT ∧ ty ≠ .ENDMARKER) (hne : st.endProgs ≠ []) :
    Inline (st.progToken e ty).1 := by
  unfold TState.progToken
  split
  · rename_i hnil; exact absurd hnil hne
  · exact h

theorem specialAction_indents (st : TState) (start e : Nat) : (specialAction st start e).indents = st.indents := by
  unfold specialAction
  split
  · rfl
  · split
    · split <;> simp
    · split <;> rfl

theorem mkTok_inline (st : TState) (start e : Nat) (ty : TT) (h : ty ≠ .INDENT ∧ ty ≠ .DEDENT ∧ ty ≠ .ENDMARKER) : Inline (mkTok st start e ty) := h

set_option hygiene false in
macro "fin_tok" : tactic => `(tactic| (injection h with h; injection h with h1 h2; subst h2; subst h1; refine ⟨rfl, fun t ht => ?_⟩; first | (injection ht with ht; subst ht; exact mkTok_inline _ _ _ _ (by decide)) | (injection ht with ht; subst ht; exact mkTok_inline _ _ _ _ (by split <;> decide)) | cases ht))

theorem pseudoAction_struct (st st' : TState) (group : String) (start e : Nat) (tok : Option Tok5)
    (h : pseudoAction st group start e = .ok (tok, st')) : st'.indents = st.indents ∧ ∀ t, tok = some t → Inline t := by
  unfold pseudoAction at h
  split at h
  · split at h <;> fin_tok
  · split at h
    · fin_tok
    · split at h
      · fin_tok
      · split at h
        · fin_tok
        · split at h
          · fin_tok
          · split at h
            · fin_tok
            · split at h
              · fin_tok
              · split at h
                · injection h with h; injection h with h1 h2; subst h2; subst h1
                  exact ⟨specialAction_indents st start e, fun t ht => by injection ht with ht; subst ht; exact mkTok_inline _ _ _ _ (by decide)⟩
                · split at h
                  · fin_tok
                  · cases h

theorem nextPseudoMatches_struct (E : Env) (P : Pats) (st st' : TState) (tok : Option Tok5)
    (h : nextPseudoMatches E P st = .ok (tok, st')) : st'.indents = st.indents ∧ ∀ t, tok = some t → Inline t := by
  unfold nextPseudoMatches at h
  split at h
  · injection h with h; injection h with h1 h2; subst h1; subst h2; exact ⟨rfl, fun t ht => by cases ht⟩
  · split at h
    · cases h
    · injection h with h; injection h with h1 h2; subst h1; subst h2; exact ⟨rfl, fun t ht => by cases ht⟩
    · have := pseudoAction_struct _ _ _ _ _ _ h
      exact this


theorem emitMiddle_struct (st : TState) (m : Nat) (prog : EndProg) (hne : st.endProgs ≠ []) :
    AllInline (emitMiddle st m prog).1 ∧ (emitMiddle st m prog).2.indents = st.indents ∧ (emitMiddle st m prog).2.endProgs ≠ [] := by
  unfold emitMiddle
  split
  · refine ⟨AllInline.single (progToken_ty st m .FSTRING_MIDDLE (by decide) hne), progToken_indents _ _ _, ?_⟩
    unfold TState.progToken
    split
    · rename_i h; exact absurd h hne
    · simp
  · exact ⟨AllInline.nil, rfl, hne⟩

theorem handleFstringProgs_struct (E : Env) (P : Pats) (st st' : TState) (ts : List Tok5) (mt : Bool)
    (h : handleFstringProgs E P st = .ok (ts, st', mt)) : AllInline ts ∧ st'.indents = st.indents := by
  unfold handleFstringProgs at h
  split at h
  · injection h with h; injection h with h1 h; injection h with h2 _; subst h1; subst h2
    exact ⟨AllInline.nil, rfl⟩
  · rename_i prog rest hprogs
    have hne : st.endProgs ≠ [] := by rw [hprogs]; simp
    split at h
    · cases h
    · injection h with h; injection h with h1 h; injection h with h2 _; subst h1; subst h2
      exact ⟨AllInline.nil, rfl⟩
    · rename_i group e hm
      simp only [] at h
      split at h
      · injection h with h; injection h with h1 h; injection h with h2 _; subst h1; subst h2
        exact ⟨AllInline.nil, rfl⟩
      · split at h
        · injection h with h; injection h with h1 h; injection h with h2 _; subst h1; subst h2
          obtain ⟨a, b, _⟩ := emitMiddle_struct st (e - prog.quote.length) prog hne
          refine ⟨a.append (AllInline.single ⟨by simp, by simp, by simp⟩), ?_⟩
          simp only [popMode_indents]; exact b
        · split at h
          · injection h with h; injection h with h1 h; injection h with h2 _; subst h1; subst h2
            obtain ⟨a, b, _⟩ := emitMiddle_struct st (e - 1) prog hne
            refine ⟨a.append (AllInline.single ⟨by simp, by simp, by simp⟩), ?_⟩
            simp only [addProg_indents]; exact b
          · injection h with h; injection h with h1 h; injection h with h2 _; subst h1; subst h2
            obtain ⟨a, b, _⟩ := emitMiddle_struct st (e - 1) prog hne
            refine ⟨a.append (AllInline.single ⟨by simp, by simp, by simp⟩), ?_⟩
            simp only [popMode_indents]; exact b

theorem handleEndProgs_struct (E : Env) (P : Pats) (st st' : TState) (ts : List Tok5)
    (h : handleEndProgs E P st = .ok (ts, st')) : AllInline ts ∧ st'.indents = st.indents := by
  unfold handleEndProgs at h
  split at h
  · injection h with h; injection h with h1 h2; subst h1; subst h2; exact ⟨AllInline.nil, rfl⟩
  · rename_i prog rest hprogs
    have hne : st.endProgs ≠ [] := by rw [hprogs]; simp
    split at h
    · cases h
    · split at h
      · injection h with h; injection h with h1 h2; subst h1; subst h2; exact ⟨AllInline.nil, rfl⟩
      · split at h
        · cases h
        · rename_i ts1 s1 matched early hstep
          have hs1 : AllInline ts1 ∧ s1.indents = st.indents := by
            unfold endProgStep at hstep
            split at hstep
            · split at hstep
              · cases hstep
              · rename_i ts0 s0 m0 hf
                injection hstep with hstep; injection hstep with h1 hstep; injection hstep with h2 _; subst h1; subst h2
                exact handleFstringProgs_struct E P st _ _ _ hf
            · split at hstep
              · cases hstep
              · injection hstep with hstep; injection hstep with h1 hstep; injection hstep with h2 _; subst h1; subst h2
                refine ⟨AllInline.single (progToken_ty st _ .STRING (by decide) hne), ?_⟩
                simp
              · injection hstep with hstep; injection hstep with h1 hstep; injection hstep with h2 _; subst h1; subst h2
                exact ⟨AllInline.nil, rfl⟩
          unfold endProgFinish at h
          split at h
          · injection h with h; injection h with h1 h2; subst h1; subst h2; exact hs1
          · split at h
            · injection h with h; injection h with h1 h2; subst h1; subst h2; exact hs1
            · split at h
              · injection h with h; injection h with h1 h2; subst h1; subst h2; exact hs1
              · split at h
                · split at h
                  · injection h with h; injection h with h1 h2; subst h1; subst h2; exact hs1
                  · injection h with h; injection h with h1 h2; subst h1; subst h2; exact ⟨hs1.1, hs1.2⟩
                · split at h
                  · cases h
                  · injection h with h; injection h with h1 h2; subst h1; subst h2; exact hs1

/-- the scan loop of one line: only inline tokens are added and the indentation stack is left alone -/
theorem scanLine_struct (E : Env) (P : Pats) : ∀ (fuel : Nat) (st : TState) (acc : List Tok5) (st' : TState) (acc' : List Tok5),
    scanLine E P fuel st acc = .ok (st', acc') → st'.indents = st.indents ∧ ∃ ts, acc' = acc ++ ts ∧ AllInline ts := by
  intro fuel
  induction fuel with
  | zero => intro st acc st' acc' h; simp [scanLine] at h
  | succ fuel ih =>
    intro st acc st' acc' h
    unfold scanLine at h
    split at h
    · split at h
      · cases h
      · rename_i ts1 st1 h1
        obtain ⟨hi1, hd1⟩ := handleEndProgs_struct E P st st1 ts1 h1
        split at h
        · cases h
        · rename_i t st2 h2
          obtain ⟨hd2, ht2⟩ := nextPseudoMatches_struct E P st1 st2 (some t) h2
          obtain ⟨hd, ts, hts, hin⟩ := ih st2 _ st' acc' h
          exact ⟨by rw [hd, hd2, hd1], ts1 ++ [t] ++ ts, by rw [hts]; simp, (hi1.append (AllInline.single (ht2 t rfl))).append hin⟩
        · rename_i st2 h2
          obtain ⟨hd2, _⟩ := nextPseudoMatches_struct E P st1 st2 none h2
          simp only [] at h
          split at h
          · obtain ⟨hd, ts, hts, hin⟩ := ih _ _ st' acc' h
            refine ⟨by rw [hd]; simp only []; rw [hd2, hd1], _, by rw [hts, List.append_assoc, List.append_assoc], (hi1.append ((AllInline.single ?_).append hin))⟩
            exact ⟨by simp, by simp, by simp⟩
          · obtain ⟨hd, ts, hts, hin⟩ := ih st2 _ st' acc' h
            exact ⟨by rw [hd, hd2, hd1], ts1 ++ ts, by rw [hts]; simp, hi1.append hin⟩
    · injection h with h; injection h with h1 h2; subst h1; subst h2
      exact ⟨rfl, [], by simp, AllInline.nil⟩


/-! ### the line level: INDENT pushes, DEDENT pops -/

def NoEnd (ts : List Tok5) : Prop := ∀ t ∈ ts, t.ty ≠ .ENDMARKER

theorem NoEnd.append {a b : List Tok5} (ha : NoEnd a) (hb : NoEnd b) : NoEnd (a ++ b) := by
  intro t ht; rcases List.mem_append.mp ht with h | h
  · exact ha t h
  · exact hb t h
theorem NoEnd.nil : NoEnd [] := by intro t ht; cases ht
theorem AllInline.noEnd {ts : List Tok5} (h : AllInline ts) : NoEnd ts := fun t ht => (h t ht).2.2

theorem length_ge_two_of_mem_ne_last (l : List Nat) (c top : Nat) (hl : l.getLast? = some top) (hc : l.contains c = true) (hne : c ≠ top) :
    2 ≤ l.length := by
  match l, hl, hc with
  | [], hl, _ => simp at hl
  | [x], hl, hc =>
    simp at hl hc
    omega
  | _ :: _ :: _, _, _ => simp

theorem dedents_struct (col lnum pos : Nat) (line : List Nat) : ∀ (fuel : Nat) (ind : List Nat) (acc : List Tok5) (ind' : List Nat) (acc' : List Tok5),
    ind ≠ [] → dedents col lnum pos line fuel ind acc = .ok (ind', acc') →
    ind' ≠ [] ∧ ∃ ts, acc' = acc ++ ts ∧ NoEnd ts ∧ depthAfter (ind.length - 1) ts = some (ind'.length - 1)
  | 0, ind, acc, ind', acc', hne, h => by
    simp only [dedents] at h; injection h with h; injection h with h1 h2; subst h1; subst h2
    exact ⟨hne, [], by simp, NoEnd.nil, rfl⟩
  | fuel + 1, ind, acc, ind', acc', hne, h => by
    simp only [dedents] at h
    split at h
    · injection h with h; injection h with h1 h2; subst h1; subst h2
      exact ⟨hne, [], by simp, NoEnd.nil, rfl⟩
    · rename_i top htop
      split at h
      · rename_i hlt
        split at h
        · cases h
        · rename_i hcont
          have hc : ind.contains col = true := by simpa using hcont
          have h2 := length_ge_two_of_mem_ne_last ind col top htop hc (by omega)
          have hne' : ind.dropLast ≠ [] := by
            intro hnil
            have := congrArg List.length hnil
            simp at this; omega
          obtain ⟨a, ts, hts, hno, hd⟩ := dedents_struct col lnum pos line fuel _ _ ind' acc' hne' h
          refine ⟨a, [{ ty := .DEDENT, str := [], start := ⟨lnum, pos⟩, stop := ⟨lnum, pos⟩, line := line }] ++ ts, by rw [hts, List.append_assoc], ?_, ?_⟩
          · intro t ht
            rw [List.singleton_append] at ht
            rcases List.mem_cons.mp ht with h1 | h1
            · subst h1; simp
            · exact hno t h1
          · simp only [List.singleton_append, depthAfter]
            have hl : ind.length - 1 = (ind.dropLast.length - 1) + 1 := by simp; omega
            rw [hl]
            simp only [show (TT.DEDENT = TT.INDENT) = False by simp, if_false, if_true]
            exact hd
      · injection h with h; injection h with h1 h2; subst h1; subst h2
        exact ⟨hne, [], by simp, NoEnd.nil, rfl⟩

theorem nextStatement_struct (P : Pats) (st st' : TState) (ts : List Tok5) (a : StmtAction) (hne : st.indents ≠ [])
    (h : nextStatement P st = .ok (ts, st', a)) :
    st'.indents ≠ [] ∧ NoEnd ts ∧ depthAfter (st.indents.length - 1) ts = some (st'.indents.length - 1) := by
  unfold nextStatement at h
  split at h
  · injection h with h; injection h with h0 h; injection h with h1 h2; subst h0; subst h1
    exact ⟨hne, NoEnd.nil, rfl⟩
  · simp only [] at h
    split at h
    · injection h with h; injection h with h0 h; injection h with h1 h2; subst h0; subst h1
      exact ⟨hne, NoEnd.nil, rfl⟩
    · split at h
      · split at h
        · injection h with h; injection h with h0 h; injection h with h1 h2; subst h0; subst h1
          refine ⟨hne, ?_, ?_⟩
          · intro t ht
            simp only [List.mem_cons, List.mem_singleton, List.not_mem_nil, or_false] at ht
            rcases ht with ht | ht <;> (subst ht; simp)
          · simp [depthAfter]
        · injection h with h; injection h with h0 h; injection h with h1 h2; subst h0; subst h1
          refine ⟨hne, ?_, ?_⟩
          · intro t ht
            simp only [List.mem_singleton] at ht
            subst ht; simp
          · simp [depthAfter]
      · split at h
        · cases h
        · rename_i ind2 toks2 hd
          injection h with h; injection h with h0 h; injection h with h1 h2; subst h0; subst h1
          simp only []
          split at hd <;> simp only [] at hd
          · -- deeper: one INDENT, then no DEDENT can follow (but the loop is still asked)
            obtain ⟨a, ts, hts, hno, hdp⟩ := dedents_struct _ _ _ _ _ _ _ ind2 toks2 (by simp) hd
            refine ⟨a, ?_, ?_⟩
            · rw [hts]
              refine NoEnd.append ?_ hno
              intro t ht; simp only [List.mem_singleton] at ht; subst ht; simp
            · rw [hts]
              simp only [List.singleton_append, depthAfter, if_true]
              have hlen : st.indents.length ≠ 0 := by intro h0; exact hne (List.length_eq_zero_iff.mp h0)
              have : st.indents.length - 1 + 1 = (st.indents ++ [(measureIndent P.tabsize st.line (st.max + 1) 0 st.pos).fst]).length - 1 := by
                simp; omega
              rw [this]; exact hdp
          · obtain ⟨a, ts, hts, hno, hdp⟩ := dedents_struct _ _ _ _ _ _ _ ind2 toks2 hne hd
            refine ⟨a, ?_, ?_⟩
            · rw [hts]; simpa using hno
            · rw [hts]; simpa using hdp

theorem lineHead_struct (E : Env) (P : Pats) (st s : TState) (ts : List Tok5) (cont brk : Bool) (hne : st.indents ≠ [])
    (h : lineHead E P st = .ok (s, ts, cont, brk)) :
    s.indents ≠ [] ∧ NoEnd ts ∧ depthAfter (st.indents.length - 1) ts = some (s.indents.length - 1) := by
  unfold lineHead at h
  split at h
  · split at h
    · cases h
    · rename_i ts0 s0 h0
      injection h with h; injection h with h1 h; injection h with h2 _; subst h1; subst h2
      obtain ⟨a, b⟩ := handleEndProgs_struct E P _ _ _ h0
      simp only [] at b
      exact ⟨by rw [b]; exact hne, a.noEnd, by rw [b]; exact depthAfter_inline _ a _⟩
  · split at h
    · split at h
      · cases h
      all_goals
        rename_i ts0 s0 h0
        injection h with h; injection h with h1 h; injection h with h2 _; subst h1; subst h2
        exact nextStatement_struct P st _ _ _ hne h0
    · split at h
      · cases h
      · injection h with h; injection h with h1 h; injection h with h2 _; subst h1; subst h2
        exact ⟨hne, NoEnd.nil, rfl⟩

theorem depthAfter_dedents (f : Nat → Tok5) (hf : ∀ x, (f x).ty = .DEDENT) : ∀ (l : List Nat) (d : Nat), depthAfter (d + l.length) (l.map f) = some d := by
  intro l
  induction l with
  | nil => intro d; rfl
  | cons x xs ih =>
    intro d
    simp only [List.map_cons, depthAfter, hf, List.length_cons]
    simp only [show (TT.DEDENT = TT.INDENT) = False by simp, if_false, if_true]
    exact ih d

theorem nextEndTokens_struct (ll : List Nat) (lc : Bool) (st : TState) (hne : st.indents ≠ []) :
    ∃ body e, nextEndTokens ll lc st = body ++ [e] ∧ e.ty = .ENDMARKER ∧ NoEnd body ∧ depthAfter (st.indents.length - 1) body = some 0 := by
  unfold nextEndTokens
  refine ⟨_, _, rfl, rfl, ?_, ?_⟩
  · apply NoEnd.append
    · intro t ht
      split at ht
      · split at ht
        · simp only [List.mem_singleton] at ht; subst ht; simp
        · cases ht
      · cases ht
    · intro t ht
      simp only [List.mem_map] at ht
      obtain ⟨_, _, rfl⟩ := ht; simp
  · rw [depthAfter_append]
    have hnl : ∀ (nl : List Tok5), (∀ t ∈ nl, t.ty = .NEWLINE) → ∀ d, depthAfter d nl = some d := by
      intro nl h d
      exact depthAfter_inline nl (fun t ht => by rw [Inline, h t ht]; simp) d
    rw [hnl _ (by
      intro t ht
      split at ht
      · split at ht
        · simp only [List.mem_singleton] at ht; subst ht; rfl
        · cases ht
      · cases ht)]
    simp only [Option.bind_some]
    have := depthAfter_dedents (fun _ => ({ ty := .DEDENT, str := [], start := ⟨st.lnum, 0⟩, stop := ⟨st.lnum, 0⟩, line := [] } : Tok5)) (fun _ => rfl) (st.indents.drop 1) 0
    simpa using this

/-- **the line loop**: started with a consistent stack it ends with all INDENTs closed and one final ENDMARKER -/
theorem tokenizeLines_struct (E : Env) (P : Pats) : ∀ (fuel : Nat) (lines : List (List Nat)) (st : TState) (acc ts : List Tok5),
    st.indents ≠ [] → NoEnd acc → depthAfter 0 acc = some (st.indents.length - 1) →
    tokenizeLines E P fuel lines st acc = .ok ts →
    depthAfter 0 ts = some 0 ∧ ∃ body e, ts = body ++ [e] ∧ e.ty = .ENDMARKER ∧ NoEnd body := by
  intro fuel
  induction fuel with
  | zero => intro lines st acc ts _ _ _ h; simp [tokenizeLines] at h
  | succ fuel ih =>
    intro lines st acc ts hne hno hd h
    unfold tokenizeLines at h
    split at h
    · cases h
    · rename_i s ts1 cont brk hh
      have hne0 : (st.moveNextLine (lines.headD [])).indents ≠ [] := hne
      obtain ⟨a, b, c⟩ := lineHead_struct E P _ s ts1 cont brk hne0 hh
      have hc : depthAfter 0 (acc ++ ts1) = some (s.indents.length - 1) := by
        rw [depthAfter_append, hd]; exact c
      split at h
      · injection h with h; subst h
        obtain ⟨body, e, he, hty, hnb, hdb⟩ := nextEndTokens_struct st.line.toList st.commentLine s a
        refine ⟨?_, acc ++ ts1 ++ body, e, by rw [he]; simp, hty, (hno.append b).append hnb⟩
        rw [he, ← List.append_assoc, depthAfter_append, depthAfter_append, hc]
        simp only [Option.bind_some, hdb]
        simp [depthAfter, hty]
      · split at h
        · exact ih _ s _ ts a (hno.append b) hc h
        · split at h
          · cases h
          · rename_i s2 acc2 hs
            obtain ⟨hi2, tsx, htsx, hin⟩ := scanLine_struct E P _ s _ s2 acc2 hs
            refine ih _ s2 acc2 ts (by rw [hi2]; exact a) ?_ ?_ h
            · rw [htsx]; exact (hno.append b).append hin.noEnd
            · rw [htsx, depthAfter_append, hc]; simp only [Option.bind_some]; rw [hi2]; exact depthAfter_inline _ hin _

end XV.Tz
