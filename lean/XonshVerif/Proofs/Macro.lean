import XonshVerif.Model.Macro
namespace XV.Macro
open XV

/-- a delimiter: `,` or `)` operator -/
def isDelim (t : Tok) : Bool := isExact t 41 || isExact t 44

/-- **capture_partition.**  When a call-macro argument is captured (any outcome but end of input / unmatched
    bracket), the generator is split as  consumed ++ [delimiter] ++ rest: the argument is made of exactly
    the tokens before the delimiter, the delimiter is a `,` or `)` operator, and `)` is the one pushed back. -/
theorem loop_partition (isSpace : Nat → Bool) : ∀ (gen : List Tok) (stack : List Nat) (acc : List Tok)
    (out : Out) (consumed : List Tok) (pushed : Bool) (rest : List Tok),
    loop isSpace gen stack acc = (out, consumed, pushed, rest) →
    (match out with | .eof => False | .unmatched _ => False | _ => True) →
    ∃ new d, consumed = acc.reverse ++ new ∧ gen = new ++ d :: rest ∧ isDelim d = true ∧ (pushed = isExact d 41) := by
  intro gen
  induction gen with
  | nil =>
    intro stack acc out consumed pushed rest h hout
    simp [loop] at h
    obtain ⟨h1, _⟩ := h
    subst h1
    simp at hout
  | cons t ts ih =>
    intro stack acc out consumed pushed rest h hout
    unfold loop at h
    simp only [] at h
    split at h
    · rename_i top below hst
      split at h
      · rename_i opener hcl
        split at h
        · obtain ⟨new, d, h1, h2, h3, h4⟩ := ih below (t :: acc) out consumed pushed rest h hout
          exact ⟨t :: new, d, by simp [h1], by simp [h2], h3, h4⟩
        · injection h with h1 h; subst h1; simp at hout
      · obtain ⟨new, d, h1, h2, h3, h4⟩ := ih _ (t :: acc) out consumed pushed rest h hout
        exact ⟨t :: new, d, by simp [h1], by simp [h2], h3, h4⟩
    · rename_i hst
      split at h
      · rename_i hp
        injection h with _ h; injection h with h2 h; injection h with h3 h4
        subst h2; subst h3; subst h4
        exact ⟨[], t, by simp, by simp, by simp [isDelim, hp], by simp [hp]⟩
      · rename_i hp
        split at h
        · rename_i hc
          injection h with _ h; injection h with h2 h; injection h with h3 h4
          subst h2; subst h3; subst h4
          exact ⟨[], t, by simp, by simp, by simp [isDelim, hc], by simp [hp]⟩
        · obtain ⟨new, d, h1, h2, h3, h4⟩ := ih [] (t :: acc) out consumed pushed rest h hout
          exact ⟨t :: new, d, by simp [h1], by simp [h2], h3, h4⟩

/-- the MACRO_PARAM string is the concatenation of the consumed tokens' strings, and its span runs from the
    first consumed token's start to the last one's end -/
theorem param_is_concat (isSpace : Nat → Bool) (consumed : List Tok) (pushed : Option Tok) (last : Tok)
    (str : List Nat) (a b : Pos) (h : loop.finishOut isSpace consumed pushed last = .param str a b) :
    str = (consumed.map (·.str)).flatten ∧
    ∃ first, consumed.head? = some first ∧ a = first.start ∧ b = ((consumed.getLast?).getD first).stop := by
  unfold loop.finishOut at h
  simp only [] at h
  split at h
  · cases h
  · cases h
  · rename_i _ first tl
    split at h
    · split at h <;> cases h
    · split at h
      · cases h
      · injection h with h1 h2 h3
        exact ⟨h1.symm, first, by simp, h2.symm, h3.symm⟩

/-- tokens laid out without gaps on one source line -/
def Contig (line : List Nat) : List Tok → Prop
  | [] => True
  | [t] => t.str = (line.drop t.start.col).take (t.stop.col - t.start.col) ∧ t.start.col ≤ t.stop.col
  | t :: u :: rest =>
      t.str = (line.drop t.start.col).take (t.stop.col - t.start.col) ∧ t.start.col ≤ t.stop.col ∧
      t.stop.col = u.start.col ∧ Contig line (u :: rest)

theorem take_add_drop (l : List Nat) (a b c : Nat) (hab : a ≤ b) (hbc : b ≤ c) :
    (l.drop a).take (b - a) ++ (l.drop b).take (c - b) = (l.drop a).take (c - a) := by
  have h1 : l.drop b = (l.drop a).drop (b - a) := by
    rw [List.drop_drop]; congr 1; omega
  rw [h1]
  have h2 : c - a = (b - a) + (c - b) := by omega
  rw [h2, List.take_add]

/-- **verbatim_text.**  If the consumed tokens tile the source line without gaps (what C08 establishes for
    the raw token stream, WS tokens included), the concatenation of their strings is exactly the source text
    from the start of the first token to the end of the last one. -/
theorem concat_is_source_slice (line : List Nat) : ∀ (first : Tok) (rest : List Tok),
    Contig line (first :: rest) →
    ((first :: rest).map (·.str)).flatten
      = (line.drop first.start.col).take ((((first :: rest).getLast?).getD first).stop.col - first.start.col)
    ∧ first.start.col ≤ (((first :: rest).getLast?).getD first).stop.col := by
  intro first rest
  induction rest generalizing first with
  | nil =>
    intro h
    simp only [Contig] at h
    simp [h.1, h.2]
  | cons u rest ih =>
    intro h
    simp only [Contig] at h
    obtain ⟨h1, h2, h3, h4⟩ := h
    obtain ⟨ih1, ih2⟩ := ih u h4
    have hlast : ((first :: u :: rest).getLast?).getD first = ((u :: rest).getLast?).getD u := by
      cases rest with
      | nil => simp
      | cons v vs =>
        simp only [List.getLast?_cons_cons]
        cases hl : (v :: vs).getLast? with
        | none => simp at hl
        | some x => simp
    rw [hlast]
    constructor
    · have e1 : ((first :: u :: rest).map (·.str)).flatten = first.str ++ ((u :: rest).map (·.str)).flatten := by simp
      rw [e1, ih1, h1, ← h3]
      exact take_add_drop line first.start.col first.stop.col _ h2 (by rw [h3]; exact ih2)
    · omega

end XV.Macro
