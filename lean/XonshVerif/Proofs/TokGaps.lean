/-
  C08 - the gap clause: every character of the source that lies between two consecutive tokens (or before the first /
  after the last) is a blank, a tab, a form feed (line-leading indentation) or a backslash, CR, LF (a backslash
  continuation).  A third overlay next to the order invariant (Proofs/TokOrder) and the text invariant
  (Proofs/FstringText): the source between the end of the last token and the start of the prog on top of the mode stack
  - or the scan position when no literal is being accumulated - consists of such characters only.
-/
import XonshVerif.Proofs.FstringText
import XonshVerif.Proofs.TokCover
import XonshVerif.Proofs.RegexChars
set_option linter.unusedSimpArgs false
namespace XV.Tz
open XV XV.Rx

def wsChar (c : Nat) : Bool := c = 32 || c = 9 || c = 12
def contChar (c : Nat) : Bool := c = 92 || c = 13 || c = 10
def gapChar (c : Nat) : Bool := wsChar c || contChar c

/-- a gap: what may lie between the end of one token and the start of the next.  Built from runs of blanks / tabs / form
    feeds that START AT COLUMN 0 of a line (line-leading indentation), stretches of backslash / CR / LF (what the `End`
    branch of the master pattern consumes: a backslash continuation), and nothing at all. -/
inductive Gap (lines : List (List Nat)) : Pos → Pos → Prop
  | empty {a b : Pos} : srcText lines a b = [] → Gap lines a b
  | indent {n c : Nat} (l : List Nat) : 1 ≤ n → lines[n - 1]? = some l → c ≤ l.length →
      (∀ i, i < c → ∃ x, l[i]? = some x ∧ wsChar x = true) → Gap lines ⟨n, 0⟩ ⟨n, c⟩
  | cont {n c1 c2 : Nat} (l : List Nat) : 1 ≤ n → lines[n - 1]? = some l → c1 ≤ c2 → c2 ≤ l.length →
      (∀ i, c1 ≤ i → i < c2 → ∃ x, l[i]? = some x ∧ contChar x = true) → Gap lines ⟨n, c1⟩ ⟨n, c2⟩
  | trans {a b c : Pos} : Gap lines a b → Gap lines b c → Gap lines a c
  | congr {a b b' : Pos} : off lines b = off lines b' → Gap lines a b → Gap lines a b'

theorem mem_srcText (lines : List (List Nat)) (a b : Pos) (x : Nat) :
    x ∈ srcText lines a b ↔ ∃ i, off lines a ≤ i ∧ i < off lines b ∧ lines.flatten[i]? = some x := by
  unfold srcText
  constructor
  · intro h
    obtain ⟨j, hj, hx⟩ := List.mem_iff_getElem.mp h
    simp only [List.length_take, List.length_drop] at hj
    rw [List.getElem_take, List.getElem_drop] at hx
    refine ⟨off lines a + j, by omega, by omega, ?_⟩
    rw [← hx]
    exact List.getElem?_eq_getElem _
  · intro ⟨i, h1, h2, h3⟩
    have hlt : i < lines.flatten.length := by
      have := List.getElem?_eq_some_iff.mp h3
      exact this.1
    apply List.mem_iff_getElem.mpr
    refine ⟨i - off lines a, by simp only [List.length_take, List.length_drop]; omega, ?_⟩
    rw [List.getElem_take, List.getElem_drop]
    have := List.getElem?_eq_some_iff.mp h3
    obtain ⟨_, hv⟩ := this
    rw [← hv]
    congr 1
    omega

theorem Gap.refl (lines : List (List Nat)) (a : Pos) : Gap lines a a := .empty (by simp [srcText])
theorem Gap.congr_off {lines : List (List Nat)} {a b b' : Pos} (h : off lines b = off lines b') (h1 : Gap lines a b) : Gap lines a b' := .congr h h1
theorem Gap.of_empty {lines : List (List Nat)} {a b : Pos} (h : srcText lines a b = []) : Gap lines a b := .empty h

/-- on the current line, from column 0: indentation -/
theorem Gap.on_line_ws (lines : List (List Nat)) (st : TState) (hl : LineOK lines st) (c : Nat) (h2 : c ≤ st.max)
    (h : allIn wsChar st.line 0 c) : Gap lines ⟨st.lnum, 0⟩ ⟨st.lnum, c⟩ := by
  refine .indent st.line.toList hl.one hl.cur (by rw [hl.max] at h2; simpa using h2) ?_
  intro i hi
  obtain ⟨x, hx1, hx2⟩ := h i (Nat.zero_le _) hi
  exact ⟨x, by simpa using hx1, hx2⟩

/-- on the current line: what a continuation skipped -/
theorem Gap.on_line_cont (lines : List (List Nat)) (st : TState) (hl : LineOK lines st) (c1 c2 : Nat) (h12 : c1 ≤ c2) (h2 : c2 ≤ st.max)
    (h : allIn contChar st.line c1 c2) : Gap lines ⟨st.lnum, c1⟩ ⟨st.lnum, c2⟩ := by
  refine .cont st.line.toList hl.one hl.cur h12 (by rw [hl.max] at h2; simpa using h2) ?_
  intro i hi1 hi2
  obtain ⟨x, hx1, hx2⟩ := h i hi1 hi2
  exact ⟨x, by simpa using hx1, hx2⟩

/-- character `i` of the text is line-leading indentation: it stands on a line of the text and everything before it on
    that line is a blank, a tab or a form feed -/
def LineLeading (lines : List (List Nat)) (i : Nat) : Prop :=
  ∃ n l, 1 ≤ n ∧ lines[n - 1]? = some l ∧ off lines ⟨n, 0⟩ ≤ i ∧ i < off lines ⟨n, 0⟩ + l.length ∧
    ∀ j, off lines ⟨n, 0⟩ ≤ j → j ≤ i → ∃ x, lines.flatten[j]? = some x ∧ wsChar x = true

theorem flatten_at (lines : List (List Nat)) (n : Nat) (l : List Nat) (hn : 1 ≤ n) (h : lines[n - 1]? = some l) (k : Nat) (hk : k < l.length) :
    lines.flatten[off lines ⟨n, 0⟩ + k]? = l[k]? := by
  obtain ⟨rest, hr⟩ := flatten_drop_prefix lines (n - 1) l h
  have : off lines ⟨n, 0⟩ = prefixLen lines (n - 1) := by simp [off]
  rw [this, ← List.getElem?_drop, hr, List.getElem?_append_left hk]

/-- **what a gap holds, character by character**: every character of a gap is either a blank / tab / form feed that is
    line-leading indentation, or a backslash / CR / LF -/
theorem Gap.chars {lines : List (List Nat)} {a b : Pos} (h : Gap lines a b) :
    ∀ i x, off lines a ≤ i → i < off lines b → lines.flatten[i]? = some x →
      (wsChar x = true ∧ LineLeading lines i) ∨ contChar x = true := by
  induction h with
  | empty he =>
    intro i x h1 h2 h3
    have : x ∈ srcText lines _ _ := (mem_srcText lines _ _ x).mpr ⟨i, h1, h2, h3⟩
    rw [he] at this; cases this
  | @indent n c l hn hl hc hall =>
    intro i x h1 h2 h3
    have ho : off lines ⟨n, c⟩ = off lines ⟨n, 0⟩ + c := by simp [off]
    rw [ho] at h2
    have hk : i - off lines ⟨n, 0⟩ < l.length := by omega
    have hfa := flatten_at lines n l hn hl (i - off lines ⟨n, 0⟩) hk
    rw [show off lines ⟨n, 0⟩ + (i - off lines ⟨n, 0⟩) = i by omega, h3] at hfa
    obtain ⟨y, hy1, hy2⟩ := hall (i - off lines ⟨n, 0⟩) (by omega)
    rw [← hfa] at hy1
    injection hy1 with hy1
    subst hy1
    refine Or.inl ⟨hy2, n, l, hn, hl, h1, by omega, ?_⟩
    intro j hj1 hj2
    obtain ⟨z, hz1, hz2⟩ := hall (j - off lines ⟨n, 0⟩) (by omega)
    refine ⟨z, ?_, hz2⟩
    have := flatten_at lines n l hn hl (j - off lines ⟨n, 0⟩) (by omega)
    rw [show off lines ⟨n, 0⟩ + (j - off lines ⟨n, 0⟩) = j by omega] at this
    rw [this]; exact hz1
  | @cont n c1 c2 l hn hl h12 hc hall =>
    intro i x h1 h2 h3
    have ho1 : off lines ⟨n, c1⟩ = off lines ⟨n, 0⟩ + c1 := by simp [off]
    have ho2 : off lines ⟨n, c2⟩ = off lines ⟨n, 0⟩ + c2 := by simp [off]
    rw [ho1] at h1
    rw [ho2] at h2
    have hfa := flatten_at lines n l hn hl (i - off lines ⟨n, 0⟩) (by omega)
    rw [show off lines ⟨n, 0⟩ + (i - off lines ⟨n, 0⟩) = i by omega, h3] at hfa
    obtain ⟨y, hy1, hy2⟩ := hall (i - off lines ⟨n, 0⟩) (by omega) (by omega)
    rw [← hfa] at hy1
    injection hy1 with hy1
    subst hy1
    exact Or.inr hy2
  | @trans a' b' c' _ _ ih1 ih2 =>
    intro i x h1 h2 h3
    by_cases h : i < off lines b'
    · exact ih1 i x h1 h h3
    · exact ih2 i x (by omega) h2 h3
  | congr he _ ih =>
    intro i x h1 h2 h3
    exact ih i x h1 (by rw [he]; exact h2) h3

/-- the end of the last token after `ts`, starting from `g` -/
def lastStop (g : Pos) : List Tok5 → Pos
  | [] => g
  | t :: ts => lastStop t.stop ts

/-- between `g` and the first token, and between every two consecutive tokens, there are gap characters only -/
def Gaps (lines : List (List Nat)) (g : Pos) : List Tok5 → Prop
  | [] => True
  | t :: ts => Gap lines g t.start ∧ Gaps lines t.stop ts

theorem lastStop_append (g : Pos) (a b : List Tok5) : lastStop g (a ++ b) = lastStop (lastStop g a) b := by
  induction a generalizing g with
  | nil => rfl
  | cons t ts ih => exact ih t.stop

theorem Gaps.append {lines : List (List Nat)} {g : Pos} {a b : List Tok5} (h1 : Gaps lines g a) (h2 : Gaps lines (lastStop g a) b) :
    Gaps lines g (a ++ b) := by
  induction a generalizing g with
  | nil => exact h2
  | cons t ts ih => exact ⟨h1.1, ih h1.2 h2⟩

theorem Gaps.one {lines : List (List Nat)} {g : Pos} {t : Tok5} (h : Gap lines g t.start) : Gaps lines g [t] := ⟨h, trivial⟩

/-- the gap invariant -/
structure GI (lines : List (List Nat)) (g : Pos) (st : TState) : Prop where
  top : ∀ p rest, st.endProgs = p :: rest → isB p = false → Gap lines g p.start
  free : TopB st → Gap lines g (cur st)


theorem emitMiddle_g (lines : List (List Nat)) (g : Pos) (st : TState) (me : Nat) (prog : EndProg) (rest : List EndProg)
    (hp : st.endProgs = prog :: rest) (hg : Gap lines g prog.start) (ht : TextAt lines prog (cur st)) :
    Gaps lines g (emitMiddle st me prog).1 ∧ Gap lines (lastStop g (emitMiddle st me prog).1) (cur (emitMiddle st me prog).2) := by
  unfold emitMiddle
  split
  · unfold TState.progToken; rw [hp]
    exact ⟨⟨hg, trivial⟩, Gap.refl _ _⟩
  · rename_i hno
    simp only [Bool.or_eq_true, decide_eq_true_eq, not_or, Bool.not_eq_true', Bool.not_eq_false] at hno
    refine ⟨trivial, Gap.trans hg (Gap.of_empty ?_)⟩
    rw [← ht.1]
    simpa using hno.2

/-- the state `{ s with pos := e }`-style results: what `cur` is -/
theorem handleFstringProgs_g (lines : List (List Nat)) (E : Env) (P : Pats) (hF : FstrLen P) (hw g : Pos) (st st' : TState)
    (ts : List Tok5) (mt : Bool) (hI : OInv hw st) (hft : FT lines st) (hg : GI lines g st)
    (h : handleFstringProgs E P st = .ok (ts, st', mt)) : Gaps lines g ts ∧ GI lines (lastStop g ts) st' := by
  unfold handleFstringProgs at h
  split at h
  · injection h with h; injection h with h1 h; injection h with h2 h3; subst h1; subst h2
    exact ⟨trivial, hg⟩
  · rename_i prog rest hprogs
    split at h
    · cases h
    · injection h with h; injection h with h1 h; injection h with h2 h3; subst h1; subst h2
      exact ⟨trivial, hg⟩
    · rename_i group e hm
      obtain ⟨r, hmem, hlen⟩ := matchBranches_minLen _ _ _ _ _ _ _ hm
      have hsh : Shape (prog :: rest) := hprogs ▸ hI.shape
      simp only [] at h
      split at h
      · injection h with h; injection h with h1 h; injection h with h2 h3; subst h1; subst h2
        exact ⟨trivial, hg⟩
      · rename_i hne
        have hfacts := fstr_match_facts P hF prog hsh.ok group r hmem hne
        have hnb : isB prog = false := by
          rcases hfacts with ⟨_, a, _⟩ | ⟨_, a, _⟩ | ⟨_, a, _⟩
          · exact isM_notB a
          · exact isM_notB a
          · exact isC_notB a
        have hgs := hg.top prog rest hprogs hnb
        have htext := hft.top prog rest hprogs hnb
        -- in all three cases: the literal part (if any), then one delimiter token that starts at the scan position
        have key : ∀ (me : Nat) (t : Tok5) (s' : TState), t.start = cur (emitMiddle st me prog).2 → t.stop = cur s' →
            (∀ q more, s'.endProgs = q :: more → isB q = false → q.start = cur s') →
            Gaps lines g ((emitMiddle st me prog).1 ++ [t]) ∧ GI lines (lastStop g ((emitMiddle st me prog).1 ++ [t])) s' := by
          intro me t s' hts htp hrest
          obtain ⟨a, b⟩ := emitMiddle_g lines g st me prog rest hprogs hgs htext
          refine ⟨Gaps.append a (Gaps.one (by rw [hts]; exact b)), ?_⟩
          rw [lastStop_append]
          show GI lines t.stop s'
          rw [htp]
          exact ⟨fun q more hq hqb => by rw [hrest q more hq hqb]; exact Gap.refl _ _, fun _ => Gap.refl _ _⟩
        split at h
        · -- End
          rename_i hE
          injection h with h; injection h with h1 h; injection h with h2 h3; subst h1; subst h2
          have hM : isM prog = true := by
            rcases hfacts with ⟨_, a, _⟩ | ⟨hg', _, _⟩ | ⟨hg', _, _⟩
            · exact a
            · rw [hE] at hg'; exact absurd hg' (by decide)
            · rw [hE] at hg'; exact absurd hg' (by decide)
          apply key
          · rfl
          · simp only [cur, popMode_lnum]
          · intro q more hq hqb
            obtain ⟨p', hp', _⟩ := emitMiddle_stack st (e - prog.quote.length) prog prog rest hprogs
            change ((emitMiddle st (e - prog.quote.length) prog).2.popMode none).endProgs = q :: more at hq
            rw [popMode_endProgs_none _ p' rest hp'] at hq; subst hq
            rw [hsh.below_notB (isM_notB hM)] at hqb; cases hqb
        · rename_i hnE
          split at h
          · -- LBrace
            injection h with h; injection h with h1 h; injection h with h2 h3; subst h1; subst h2
            apply key
            · rfl
            · simp only [cur, TState.addProg]
            · intro q more hq hqb
              simp only [TState.addProg, List.cons.injEq] at hq
              obtain ⟨hq1, _⟩ := hq
              subst hq1
              cases hqb
          · -- RBrace
            rename_i hnL
            injection h with h; injection h with h1 h; injection h with h2 h3; subst h1; subst h2
            have hC : isC prog = true := by
              rcases hfacts with ⟨hg', _, _⟩ | ⟨hg', _, _⟩ | ⟨_, a, _⟩
              · exact absurd hg' hnE
              · exact absurd hg' hnL
              · exact a
            apply key
            · rfl
            · simp only [cur, popMode_lnum]
            · obtain ⟨p', hp', _⟩ := emitMiddle_stack st (e - 1) prog prog rest hprogs
              cases rest with
              | nil =>
                rcases hsh.2 with hM | hN
                · unfold isM at hM; unfold isC at hC; cases hmm : prog.mode <;> simp [hmm] at hM hC
                · unfold isN at hN; unfold isC at hC; cases hmm : prog.mode <;> simp [hmm] at hN hC
              | cons b rest2 =>
                have hB : isB b = true := hsh.below_notB (isC_notB hC)
                obtain ⟨m, rest3, hr2, hMm⟩ := (hsh.tail).below_B hB
                subst hr2
                have e1 : (({ (emitMiddle st (e - 1) prog).2 with parenlev := (emitMiddle st (e - 1) prog).2.parenlev - 1 } : TState).popMode none).endProgs = b :: m :: rest3 :=
                  popMode_endProgs_none _ p' _ hp'
                have e2 := popMode_endProgs_some (({ (emitMiddle st (e - 1) prog).2 with parenlev := (emitMiddle st (e - 1) prog).2.parenlev - 1 } : TState).popMode none) b (m :: rest3)
                  ⟨(emitMiddle st (e - 1) prog).2.lnum, e⟩ e1
                simp only [] at e2
                intro q more hq _
                change (TState.popMode _ _).endProgs = q :: more at hq
                rw [e2] at hq
                simp only [List.cons.injEq] at hq
                obtain ⟨hq1, _⟩ := hq
                subst hq1
                simp only [cur, popMode_lnum]


theorem endProgStep_g (lines : List (List Nat)) (E : Env) (P : Pats) (hF : FstrLen P) (hw g : Pos) (st st' : TState) (prog : EndProg)
    (rest : List EndProg) (ts : List Tok5) (mt early : Bool) (hp : st.endProgs = prog :: rest) (hnb : st.inBraces = false)
    (hI : OInv hw st) (hft : FT lines st) (hg : GI lines g st) (h : endProgStep E P st prog = .ok (ts, st', mt, early)) :
    Gaps lines g ts ∧ GI lines (lastStop g ts) st' := by
  unfold endProgStep at h
  split at h
  · split at h
    · cases h
    · rename_i ts0 s0 m0 hf
      injection h with h; injection h with h1 h; injection h with h2 h; subst h1; subst h2
      exact handleFstringProgs_g lines E P hF hw g st _ _ _ hI hft hg hf
  · rename_i hnmc
    split at h
    · cases h
    · rename_i nm e hm
      injection h with h; injection h with h1 h; injection h with h2 h; subst h1; subst h2
      have hN : isN prog = true := by
        rw [inBraces_eq st prog rest hp] at hnb
        rw [inMiddle_eq st prog rest hp, inColon_eq st prog rest hp] at hnmc
        rcases kind_cases prog with h | h | h | h
        · exact h
        · simp [h] at hnmc
        · rw [h] at hnb; cases hnb
        · simp [h] at hnmc
      have hsh : Shape (prog :: rest) := hp ▸ hI.shape
      have hgs := hg.top prog rest hp (isN_notB hN)
      have htok : (st.progToken e .STRING).1.start = prog.start ∧ (st.progToken e .STRING).1.stop = ⟨st.lnum, e⟩ := by
        unfold TState.progToken; rw [hp]; exact ⟨rfl, rfl⟩
      have hpos : (st.progToken e .STRING).2.pos = e ∧ (st.progToken e .STRING).2.lnum = st.lnum := by
        unfold TState.progToken; rw [hp]; exact ⟨rfl, rfl⟩
      have hend : ((st.progToken e .STRING).2.popMode none).endProgs = rest := by
        apply popMode_endProgs_none _ { prog with text := prog.text ++ slice st.line st.pos e } rest
        unfold TState.progToken; rw [hp]
      refine ⟨Gaps.one (by rw [htok.1]; exact hgs), ?_⟩
      show GI lines (st.progToken e .STRING).1.stop _
      rw [htok.2]
      have hcur : cur ((st.progToken e .STRING).2.popMode none) = ⟨st.lnum, e⟩ := by
        simp only [cur, popMode_lnum, popMode_pos, hpos.1, hpos.2]
      refine ⟨?_, fun _ => by rw [hcur]; exact Gap.refl _ _⟩
      intro q more hq hqb
      rw [hend] at hq; subst hq
      rw [hsh.below_notB (isN_notB hN)] at hqb; cases hqb
    · injection h with h; injection h with h1 h; injection h with h2 h; subst h1; subst h2
      exact ⟨trivial, hg⟩

theorem endProgFinish_g (lines : List (List Nat)) (g : Pos) (ts ts' : List Tok5) (s s' : TState) (matched early : Bool)
    (hg : GI lines g s) (h : endProgFinish ts s matched early = .ok (ts', s')) : GI lines g s' := by
  unfold endProgFinish at h
  split at h
  · injection h with h; injection h with h1 h2; subst h2; exact hg
  · split at h
    · injection h with h; injection h with h1 h2; subst h2; exact hg
    · rename_i hnbe
      split at h
      · injection h with h; injection h with h1 h2; subst h2; exact hg
      · split at h
        · split at h
          · injection h with h; injection h with h1 h2; subst h2; exact hg
          · rename_i p rest hp
            injection h with h; injection h with h1 h2; subst h2
            have hpb : isB p = false := by
              simp only [Bool.or_eq_true, not_or, Bool.not_eq_true] at hnbe
              rw [← inBraces_eq s p rest hp]; exact hnbe.1
            refine ⟨?_, ?_⟩
            · intro q more hq _
              simp only [List.cons.injEq] at hq
              obtain ⟨hq1, _⟩ := hq
              subst hq1
              exact hg.top p rest hp hpb
            · intro hB
              have := hB _ rest rfl
              have hpb' : isB ({ p with text := p.text ++ slice s.line s.pos s.line.size, contline := p.contline ++ s.line.toList } : EndProg) = isB p := rfl
              rw [hpb', hpb] at this; cases this
        · split at h
          · cases h
          · injection h with h; injection h with h1 h2; subst h2; exact hg

theorem endProgFinish_ts (ts ts' : List Tok5) (s s' : TState) (matched early : Bool)
    (h : endProgFinish ts s matched early = .ok (ts', s')) : ts' = ts := by
  unfold endProgFinish at h
  split at h
  · injection h with h; injection h with h1 h2; exact h1.symm
  · split at h
    · injection h with h; injection h with h1 h2; exact h1.symm
    · split at h
      · injection h with h; injection h with h1 h2; exact h1.symm
      · split at h
        · split at h
          · injection h with h; injection h with h1 h2; exact h1.symm
          · injection h with h; injection h with h1 h2; exact h1.symm
        · split at h
          · cases h
          · injection h with h; injection h with h1 h2; exact h1.symm

theorem handleEndProgs_g (lines : List (List Nat)) (E : Env) (P : Pats) (hF : FstrLen P) (hw g : Pos) (st st' : TState) (ts : List Tok5)
    (hI : OInv hw st) (hft : FT lines st) (hg : GI lines g st) (h : handleEndProgs E P st = .ok (ts, st')) :
    Gaps lines g ts ∧ GI lines (lastStop g ts) st' := by
  unfold handleEndProgs at h
  split at h
  · injection h with h; injection h with h1 h2; subst h1; subst h2; exact ⟨trivial, hg⟩
  · rename_i prog rest hp
    split at h
    · cases h
    · split at h
      · injection h with h; injection h with h1 h2; subst h1; subst h2; exact ⟨trivial, hg⟩
      · rename_i hnb
        split at h
        · cases h
        · rename_i ts1 s1 m1 e1 hstep
          obtain ⟨a, b⟩ := endProgStep_g lines E P hF hw g st s1 prog rest ts1 m1 e1 hp (by simpa using hnb) hI hft hg hstep
          rw [endProgFinish_ts _ _ _ _ _ _ h]
          exact ⟨a, endProgFinish_g lines _ ts1 ts s1 st' m1 e1 b h⟩


/-- right after a token that ends at the scan position: nothing is pending -/
theorem GI.at_cur (lines : List (List Nat)) (s : TState) (c : Pos) (hcur : cur s = c)
    (htop : ∀ q more, s.endProgs = q :: more → isB q = false → q.start = c) : GI lines c s :=
  ⟨fun q more hq hqb => by rw [htop q more hq hqb]; exact Gap.refl _ _, fun _ => by rw [hcur]; exact Gap.refl _ _⟩

theorem specialAction_g (lines : List (List Nat)) (st : TState) (start e : Nat) (hsh : Shape st.endProgs) (hB : TopB st)
    (hpos : st.pos = e) (hsz : e ≤ st.line.size) : GI lines ⟨st.lnum, e⟩ (specialAction st start e) := by
  obtain ⟨f1, f2, f3, f4⟩ := specialAction_frame st start e
  apply GI.at_cur
  · simp only [cur, f3, f4, hpos]
  have hsame : ∀ s : TState, s.endProgs = st.endProgs → ∀ q more, s.endProgs = q :: more → isB q = false → q.start = (⟨st.lnum, e⟩ : Pos) := by
    intro s h1 q more hq hqb
    rw [h1] at hq
    rw [hB q more hq] at hqb; cases hqb
  unfold specialAction
  split
  · exact hsame _ rfl
  · split
    · by_cases hc : (st.inBraces && st.atParenlev) = true
      · simp only [hc, if_true]
        simp only [Bool.and_eq_true] at hc
        cases hst : st.endProgs with
        | nil => have := hc.1; unfold TState.inBraces at this; rw [hst] at this; cases this
        | cons b rest =>
          have hbB : isB b = true := hB b rest hst
          obtain ⟨m, more, hr, hM⟩ := (hst ▸ hsh : Shape (b :: rest)).below_B hbB
          subst hr
          have e2 := popMode_endProgs_some st b (m :: more) ⟨st.lnum, e⟩ hst
          simp only [] at e2
          intro q more' hq _
          change (st.popMode _).endProgs = q :: more' at hq
          rw [e2] at hq
          simp only [List.cons.injEq] at hq
          obtain ⟨hq1, _⟩ := hq
          subst hq1
          rfl
      · simp only [hc, if_false, Bool.false_eq_true]
        exact hsame _ rfl
    · split
      · rename_i hcol
        simp only [Bool.and_eq_true, decide_eq_true_eq] at hcol
        obtain ⟨⟨hs, _⟩, _⟩ := hcol
        have hlen := slice_len st.line start e hsz
        rw [hs] at hlen
        simp only [List.length_singleton] at hlen
        intro q more hq _
        simp only [TState.addProg, List.cons.injEq] at hq
        obtain ⟨hq1, _⟩ := hq
        subst hq1
        show (⟨st.lnum, start + 1⟩ : Pos) = ⟨st.lnum, e⟩
        have : start + 1 = e := by omega
        rw [this]
      · exact hsame _ rfl

set_option hygiene false in
macro "g_ok" : tactic => `(tactic| (injection h with h; injection h with h1 h2; subst h1; subst h2; exact tokcase _))

theorem pseudoAction_g (lines : List (List Nat)) (g : Pos) (st st' : TState) (group : String) (start e : Nat) (tok : Option Tok5)
    (hsh : Shape st.endProgs) (hB : TopB st) (hl : LineOK lines st) (hse : start ≤ e) (hpos : st.pos = e)
    (hfree : Gap lines g ⟨st.lnum, start⟩) (hend : group = "End" → allIn contChar st.line start e)
    (h : pseudoAction st group start e = .ok (tok, st')) :
    Gaps lines g tok.toList ∧ GI lines (lastStop g tok.toList) st' := by
  have hemax : e ≤ st.max := by rw [← hpos]; exact hl.pos
  have hcur : cur st = ⟨st.lnum, e⟩ := by simp only [cur, hpos]
  have hsameB : ∀ s : TState, s.endProgs = st.endProgs → ∀ q more, s.endProgs = q :: more → isB q = false → q.start = (⟨st.lnum, e⟩ : Pos) := by
    intro s h1 q more hq hqb
    rw [h1] at hq
    rw [hB q more hq] at hqb; cases hqb
  have tokcase : ∀ ty, Gaps lines g (some (mkTok st start e ty)).toList ∧ GI lines (lastStop g (some (mkTok st start e ty)).toList) st := fun ty =>
    ⟨Gaps.one hfree, GI.at_cur lines st _ hcur (hsameB st rfl)⟩
  unfold pseudoAction at h
  split at h
  · split at h
    · injection h with h; injection h with h1 h2; subst h1; subst h2
      refine ⟨Gaps.one hfree, GI.at_cur lines _ _ (by simp only [cur, TState.addProg, hpos]; rfl) ?_⟩
      intro q more hq _
      simp only [TState.addProg, List.cons.injEq] at hq
      obtain ⟨hq1, _⟩ := hq
      subst hq1
      rfl
    · injection h with h; injection h with h1 h2; subst h1; subst h2
      refine ⟨trivial, ?_, ?_⟩
      · intro q more hq _
        simp only [TState.addProg, List.cons.injEq] at hq
        obtain ⟨hq1, _⟩ := hq
        subst hq1
        exact hfree
      · intro hB'
        have := hB' _ _ rfl
        cases this
  · split at h
    · g_ok
    · split at h
      · g_ok
      · split at h
        · g_ok
        · split at h
          · g_ok
          · split at h
            · g_ok
            · split at h
              · g_ok
              · split at h
                · injection h with h; injection h with h1 h2; subst h1; subst h2
                  exact ⟨Gaps.one hfree, specialAction_g lines st start e hsh hB hpos (by rw [← hl.max]; exact hemax)⟩
                · split at h
                  · rename_i hE
                    injection h with h; injection h with h1 h2; subst h1; subst h2
                    refine ⟨trivial, ?_, ?_⟩
                    · intro q more hq hqb
                      rw [hB q more hq] at hqb; cases hqb
                    · intro _
                      show Gap lines g ⟨st.lnum, st.pos⟩
                      rw [hpos]
                      exact Gap.trans hfree (Gap.on_line_cont lines st hl start e hse hemax (hend hE))
                  · cases h


/-- what the `End` branch of the master pattern may skip: backslash, CR, LF (certificate on the shipped pattern) -/
def EndGap (P : Pats) : Prop := ∀ b ∈ P.pseudo, b.1 = "End" → onlyChars contChar b.2 = true

theorem nextPseudoMatches_g (lines : List (List Nat)) (E : Env) (P : Pats) (hEG : EndGap P) (hw g : Pos) (st st' : TState) (tok : Option Tok5)
    (hI : OInv hw st) (hft : FT lines st) (hg : GI lines g st) (hpre : TopB st ∨ st.pos = st.max ∨ st.inMiddle = true)
    (h : nextPseudoMatches E P st = .ok (tok, st')) :
    Gaps lines g tok.toList ∧ GI lines (lastStop g tok.toList) st' := by
  unfold nextPseudoMatches at h
  split at h
  · injection h with h; injection h with h1 h2; subst h1; subst h2
    exact ⟨trivial, hg⟩
  · rename_i hno
    simp only [Bool.or_eq_true, decide_eq_true_eq, not_or] at hno
    have hB : TopB st := by
      rcases hpre with h | h | h
      · exact h
      · exact absurd h hno.1
      · exact absurd h hno.2
    split at h
    · cases h
    · injection h with h; injection h with h1 h2; subst h1; subst h2
      exact ⟨trivial, hg⟩
    · rename_i group e hm
      have hge := matchBranches_ge _ _ _ _ _ _ _ hm
      have hbd : e ≤ st.max := by rw [hft.line.max]; exact matchBranches_le _ _ _ _ _ _ _ (by rw [← hft.line.max]; exact hft.line.pos) hm
      obtain ⟨r, hmem, hmat⟩ := matchBranches_sound _ _ _ _ _ _ _ hm
      exact pseudoAction_g lines g { st with pos := e } st' group st.pos e tok hI.shape hB
        ⟨hft.line.one, hft.line.cur, hft.line.max, hbd⟩ hge rfl (hg.free hB)
        (fun hE => matchAt_onlyChars contChar E _ r st.line st.pos e (hEG (group, r) hmem hE) hmat) h

/-- the scan loop of one line -/
theorem scanLine_g (lines : List (List Nat)) (E : Env) (P : Pats) (hP : PseudoProgress P) (hF : FstrLen P) (hE : FstrEnds P) (hEG : EndGap P) :
    ∀ (fuel : Nat) (hw g0 : Pos) (st st' : TState) (acc acc' : List Tok5),
      OInv hw st → FT lines st → Gaps lines g0 acc → GI lines (lastStop g0 acc) st →
      scanLine E P fuel st acc = .ok (st', acc') →
      Gaps lines g0 acc' ∧ GI lines (lastStop g0 acc') st' := by
  intro fuel
  induction fuel with
  | zero => intro hw g0 st st' acc acc' _ _ _ _ h; simp [scanLine] at h
  | succ fuel ih =>
    intro hw g0 st st' acc acc' hI hft hacc hg h
    have hmax := hft.line.max
    have hle := hft.line.pos
    unfold scanLine at h
    split at h
    · rename_i hlt
      split at h
      · cases h
      · rename_i ts1 st1 h1
        obtain ⟨a1, b1⟩ := handleEndProgs_adv E P st st1 ts1 hmax hle h1
        have hmax1 : st1.max = st1.line.size := by rw [a1.max, a1.line]; exact hmax
        obtain ⟨hw1, _, i1, post1⟩ := handleEndProgs_ord E P hF hw st st1 ts1 hle hI h1
        obtain ⟨_, f1⟩ := handleEndProgs_ft lines E P hF hE hw st st1 ts1 hI hft h1
        obtain ⟨gs1, g1⟩ := handleEndProgs_g lines E P hF hw _ st st1 ts1 hI hft hg h1
        have hacc1 : Gaps lines g0 (acc ++ ts1) := Gaps.append hacc gs1
        rw [← lastStop_append] at g1
        have hpre : TopB st1 ∨ st1.pos = st1.max ∨ st1.inMiddle = true := by
          rcases post1 with x | x | x
          · exact Or.inl x
          · exact Or.inr (Or.inl x)
          · exact Or.inr (Or.inr x.2)
        split at h
        · cases h
        · rename_i t st2 h2
          obtain ⟨hw2, _, i2, _⟩ := nextPseudoMatches_ord E P hP hw1 st1 st2 (some t) hmax1 b1 i1 hpre h2
          obtain ⟨_, f2⟩ := nextPseudoMatches_ft lines E P hw1 st1 st2 (some t) i1 f1 hpre h2
          obtain ⟨gs2, g2⟩ := nextPseudoMatches_g lines E P hEG hw1 _ st1 st2 (some t) i1 f1 g1 hpre h2
          rw [← lastStop_append] at g2
          exact ih hw2 g0 st2 st' _ acc' i2 f2 (Gaps.append hacc1 gs2) g2 h
        · rename_i st2 h2
          obtain ⟨a2, b2, _⟩ := nextPseudo_adv E P hP st1 st2 none hmax1 b1 h2
          obtain ⟨hw2, _, i2, s2⟩ := nextPseudoMatches_ord E P hP hw1 st1 st2 none hmax1 b1 i1 hpre h2
          obtain ⟨_, f2⟩ := nextPseudoMatches_ft lines E P hw1 st1 st2 none i1 f1 hpre h2
          obtain ⟨_, g2⟩ := nextPseudoMatches_g lines E P hEG hw1 _ st1 st2 none i1 f1 g1 hpre h2
          simp only [Option.toList, lastStop] at g2
          simp only [] at h
          split at h
          · rename_i heq
            have hp1 : st1.pos = st.pos := by have := a1.ge; have := a2.ge; omega
            have hB1 : TopB st1 := by
              rcases post1 with x | x | x
              · exact x
              · have := a1.max; omega
              · omega
            have hB2 : TopB st2 := by
              intro q more hq
              rw [s2 rfl (by omega)] at hq
              exact hB1 q more hq
            refine ih ⟨st2.lnum, st2.pos + 1⟩ g0 { st2 with pos := st2.pos + 1 } st' _ acc' ?_ ?_ ?_ ?_ h
            · exact OInv.same i2.shape hB2 rfl (Pos.le_refl' _)
            · exact FT.same ⟨f2.line.one, f2.line.cur, f2.line.max, by show st2.pos + 1 ≤ st2.max; have := a1.max; have := a2.max; omega⟩ hB2 rfl
            · exact Gaps.append hacc1 (Gaps.one (g2.free hB2))
            · rw [lastStop_append]
              exact GI.at_cur lines _ _ rfl (by intro q more hq hqb; rw [hB2 q more hq] at hqb; cases hqb)
          · exact ih hw2 g0 st2 st' _ acc' i2 f2 hacc1 g2 h
    · injection h with h; injection h with h1 h2; subst h1; subst h2
      exact ⟨hacc, hg⟩


theorem allIn_mono {ok ok' : Nat → Bool} (h : ∀ c, ok c = true → ok' c = true) {s : Array Nat} {a b : Nat} (h1 : allIn ok s a b) : allIn ok' s a b := by
  intro i hi1 hi2
  obtain ⟨c, hc1, hc2⟩ := h1 i hi1 hi2
  exact ⟨c, hc1, h c hc2⟩

/-- the indentation loop skips blanks, tabs and form feeds only -/
theorem measureIndent_ws (tabsize : Nat) (line : Array Nat) : ∀ (fuel col pos : Nat),
    allIn wsChar line pos (measureIndent tabsize line fuel col pos).2 := by
  intro fuel
  induction fuel with
  | zero => intro col pos; simp only [measureIndent]; exact allIn_refl _ _ _
  | succ fuel ih =>
    intro col pos
    simp only [measureIndent]
    split
    · rename_i h; exact allIn_trans (allIn_step h (by decide)) (ih _ _)
    · rename_i h; exact allIn_trans (allIn_step h (by decide)) (ih _ _)
    · rename_i h; exact allIn_trans (allIn_step h (by decide)) (ih _ _)
    · exact allIn_refl _ _ _

theorem dedents_g (lines : List (List Nat)) (g : Pos) (col lnum pos : Nat) (line : List Nat) : ∀ (fuel : Nat) (ind : List Nat) (acc : List Tok5) (ind' : List Nat) (acc' : List Tok5),
    Gaps lines g acc → Gap lines (lastStop g acc) ⟨lnum, pos⟩ → dedents col lnum pos line fuel ind acc = .ok (ind', acc') →
    Gaps lines g acc' ∧ Gap lines (lastStop g acc') ⟨lnum, pos⟩ := by
  intro fuel
  induction fuel with
  | zero => intro ind acc ind' acc' h1 h2 h; simp only [dedents] at h; injection h with h; injection h with _ h2'; subst h2'; exact ⟨h1, h2⟩
  | succ fuel ih =>
    intro ind acc ind' acc' h1 h2 h
    simp only [dedents] at h
    split at h
    · injection h with h; injection h with _ h2'; subst h2'; exact ⟨h1, h2⟩
    · split at h
      · split at h
        · cases h
        · refine ih _ _ _ _ (Gaps.append h1 (Gaps.one h2)) ?_ h
          rw [lastStop_append]
          exact Gap.refl _ _
      · injection h with h; injection h with _ h2'; subst h2'; exact ⟨h1, h2⟩

/-- `next_statement` at the start of a line (empty mode stack): the indentation it skips is a gap -/
theorem nextStatement_g (lines : List (List Nat)) (P : Pats) (g : Pos) (st st' : TState) (ts : List Tok5) (a : StmtAction)
    (hl : LineOK lines st) (hpos : st.pos = 0) (hfree : Gap lines g ⟨st.lnum, 0⟩)
    (h : nextStatement P st = .ok (ts, st', a)) :
    Gaps lines g ts ∧ (a = .proceed → Gap lines (lastStop g ts) (cur st')) ∧
    (a = .continueLoop → Gap lines (lastStop g ts) ⟨st.lnum, st.max⟩) ∧ (a = .breakLoop → ts = []) := by
  have hws := measureIndent_ws P.tabsize st.line (st.max + 1) 0 st.pos
  have hple := measureIndent_le P.tabsize st.line (st.max + 1) 0 st.pos (by rw [hpos]; exact Nat.zero_le _)
  rw [hpos] at hws hple
  have hsz : st.line.toList.length = st.max := by rw [hl.max]; simp
  have hskip : Gap lines g ⟨st.lnum, (measureIndent P.tabsize st.line (st.max + 1) 0 0).2⟩ :=
    Gap.trans hfree (Gap.on_line_ws lines st hl _ (by have := hl.max; omega) hws)
  unfold nextStatement at h
  rw [hpos] at h
  split at h
  · injection h with h; injection h with h1 h; injection h with h2 h3; subst h1; subst h3
    exact ⟨trivial, (by intro hc; cases hc), (by intro hc; cases hc), fun _ => rfl⟩
  · simp only [] at h
    split at h
    · injection h with h; injection h with h1 h; injection h with h2 h3; subst h1; subst h3
      exact ⟨trivial, (by intro hc; cases hc), (by intro hc; cases hc), fun _ => rfl⟩
    · split at h
      · split at h
        · injection h with h; injection h with h1 h; injection h with h2 h3; subst h1; subst h3
          refine ⟨⟨hskip, Gap.refl _ _, trivial⟩, (by intro hc; cases hc), fun _ => ?_, (by intro hc; cases hc)⟩
          show Gap lines ⟨st.lnum, st.line.toList.length⟩ _
          rw [hsz]; exact Gap.refl _ _
        · injection h with h; injection h with h1 h; injection h with h2 h3; subst h1; subst h3
          refine ⟨⟨hskip, trivial⟩, (by intro hc; cases hc), fun _ => ?_, (by intro hc; cases hc)⟩
          show Gap lines ⟨st.lnum, st.line.toList.length⟩ _
          rw [hsz]; exact Gap.refl _ _
      · split at h
        · cases h
        · rename_i ind2 toks2 hd
          injection h with h; injection h with h1 h; injection h with h2 h3; subst h1; subst h2; subst h3
          have := dedents_g lines g _ _ _ _ _ _ _ _ _ ?_ ?_ hd
          · exact ⟨this.1, fun _ => this.2, (by intro hc; cases hc), (by intro hc; cases hc)⟩
          · split
            · exact ⟨hfree, trivial⟩
            · trivial
          · split
            · exact Gap.refl _ _
            · exact hskip


theorem lineHead_g (lines : List (List Nat)) (E : Env) (P : Pats) (hF : FstrLen P) (hw g : Pos) (st s : TState) (ts : List Tok5) (cont brk : Bool)
    (hI : OInv hw st) (hft : FT lines st) (hg : GI lines g st) (hpos : st.pos = 0)
    (h : lineHead E P st = .ok (s, ts, cont, brk)) :
    Gaps lines g ts ∧ (brk = true → ts = []) ∧
    (brk = false → cont = true → Gap lines (lastStop g ts) ⟨st.lnum, st.max⟩) ∧
    (brk = false → cont = false → GI lines (lastStop g ts) s) := by
  unfold lineHead at h
  split at h
  · split at h
    · cases h
    · rename_i ts0 s0 h0
      injection h with h; injection h with h1 h; injection h with h2 h; injection h with h3 h4
      subst h1; subst h2; subst h3; subst h4
      have hft0 : FT lines { st with continued := false } := ⟨⟨hft.line.one, hft.line.cur, hft.line.max, hft.line.pos⟩, hft.top⟩
      have hg0 : GI lines g { st with continued := false } := ⟨hg.top, hg.free⟩
      obtain ⟨a, b⟩ := handleEndProgs_g lines E P hF hw g _ _ _ (show OInv hw { st with continued := false } from hI) hft0 hg0 h0
      exact ⟨a, (by intro hc; cases hc), (by intro _ hc; cases hc), fun _ _ => b⟩
  · rename_i hemp
    have hnil : st.endProgs = [] := by simpa using hemp
    have hB : TopB st := by intro q more hq; rw [hnil] at hq; cases hq
    have hfree : Gap lines g ⟨st.lnum, 0⟩ := by have := hg.free hB; simp only [cur, hpos] at this; exact this
    split at h
    · split at h
      · cases h
      · rename_i ts0 s0 h0
        injection h with h; injection h with h1 h; injection h with h2 h; injection h with h3 h4
        subst h1; subst h2; subst h3; subst h4
        obtain ⟨a, _, c, _⟩ := nextStatement_g lines P g st _ _ _ hft.line hpos hfree h0
        exact ⟨a, (by intro hc; cases hc), fun _ _ => c rfl, (by intro _ hc; cases hc)⟩
      · rename_i ts0 s0 h0
        injection h with h; injection h with h1 h; injection h with h2 h; injection h with h3 h4
        subst h1; subst h2; subst h3; subst h4
        obtain ⟨a, _, _, d⟩ := nextStatement_g lines P g st _ _ _ hft.line hpos hfree h0
        exact ⟨a, fun _ => d rfl, (by intro hc; cases hc), (by intro hc; cases hc)⟩
      · rename_i ts0 s0 h0
        injection h with h; injection h with h1 h; injection h with h2 h; injection h with h3 h4
        subst h1; subst h2; subst h3; subst h4
        obtain ⟨a, b, _, _⟩ := nextStatement_g lines P g st _ _ _ hft.line hpos hfree h0
        obtain ⟨_, hep⟩ := nextStatement_noString P st _ _ _ h0
        refine ⟨a, (by intro hc; cases hc), (by intro _ hc; cases hc), fun _ _ => ⟨?_, fun _ => b rfl⟩⟩
        intro q more hq; rw [hep, hnil] at hq; cases hq
    · split at h
      · cases h
      · injection h with h; injection h with h1 h; injection h with h2 h; injection h with h3 h4
        subst h1; subst h2; subst h3; subst h4
        exact ⟨trivial, (by intro hc; cases hc), (by intro _ hc; cases hc), fun _ _ => ⟨hg.top, hg.free⟩⟩

theorem gaps_const {α : Type} (lines : List (List Nat)) (p : Pos) (t : Tok5) (h1 : t.start = p) (h2 : t.stop = p) :
    ∀ l : List α, Gaps lines p (l.map (fun _ => t)) ∧ lastStop p (l.map (fun _ => t)) = p := by
  intro l
  induction l with
  | nil => exact ⟨trivial, rfl⟩
  | cons x xs ih =>
    refine ⟨⟨by rw [h1]; exact Gap.refl _ _, by rw [h2]; exact ih.1⟩, ?_⟩
    show lastStop t.stop _ = p
    rw [h2]; exact ih.2

theorem off_succ_col (lines : List (List Nat)) (n c : Nat) : off lines ⟨n, c + 1⟩ = off lines ⟨n, c⟩ + 1 := by
  unfold off; simp only []; omega

/-- the implicit NEWLINE, the closing DEDENTs and the ENDMARKER: no characters are skipped -/
theorem nextEndTokens_g (lines : List (List Nat)) (g : Pos) (ll : List Nat) (lc : Bool) (s : TState)
    (hoff : off lines ⟨s.lnum - 1, ll.length⟩ = off lines ⟨s.lnum, 0⟩) (hg : Gap lines g ⟨s.lnum - 1, ll.length⟩) :
    Gaps lines g (nextEndTokens ll lc s) ∧ lastStop g (nextEndTokens ll lc s) = ⟨s.lnum, 0⟩ := by
  unfold nextEndTokens
  simp only []
  have hg' : Gap lines g ⟨s.lnum, 0⟩ := Gap.congr_off hoff hg
  have hback : Gap lines ⟨s.lnum - 1, ll.length + 1⟩ ⟨s.lnum, 0⟩ := by
    apply Gap.of_empty
    unfold srcText
    rw [off_succ_col, hoff]
    simp
  obtain ⟨d1, d2⟩ := gaps_const lines ⟨s.lnum, 0⟩ ({ ty := .DEDENT, str := [], start := ⟨s.lnum, 0⟩, stop := ⟨s.lnum, 0⟩, line := [] } : Tok5) rfl rfl (s.indents.drop 1)
  have htail : ∀ (nl : List Tok5), Gaps lines g nl → Gap lines (lastStop g nl) ⟨s.lnum, 0⟩ →
      Gaps lines g (nl ++ (s.indents.drop 1).map (fun _ => ({ ty := .DEDENT, str := [], start := ⟨s.lnum, 0⟩, stop := ⟨s.lnum, 0⟩, line := [] } : Tok5)) ++
        [({ ty := .ENDMARKER, str := [], start := ⟨s.lnum, 0⟩, stop := ⟨s.lnum, 0⟩, line := [] } : Tok5)]) ∧
      lastStop g (nl ++ (s.indents.drop 1).map (fun _ => ({ ty := .DEDENT, str := [], start := ⟨s.lnum, 0⟩, stop := ⟨s.lnum, 0⟩, line := [] } : Tok5)) ++
        [({ ty := .ENDMARKER, str := [], start := ⟨s.lnum, 0⟩, stop := ⟨s.lnum, 0⟩, line := [] } : Tok5)]) = ⟨s.lnum, 0⟩ := by
    intro nl h1 h2
    refine ⟨Gaps.append (Gaps.append h1 ?_) ?_, ?_⟩
    · cases hd : s.indents.drop 1 with
      | nil => trivial
      | cons x xs =>
        rw [hd] at d1
        exact ⟨h2, d1.2⟩
    · rw [lastStop_append]
      refine Gaps.one ?_
      cases hd : s.indents.drop 1 with
      | nil => exact h2
      | cons x xs =>
        rw [hd] at d2
        show Gap lines (lastStop _ (_ :: _)) _
        simp only [List.map_cons, lastStop] at d2 ⊢
        rw [d2]; exact Gap.refl _ _
    · rw [lastStop_append]; rfl
  apply htail
  · split
    · split
      · exact ⟨hg, trivial⟩
      · trivial
    · trivial
  · split
    · split
      · exact hback
      · exact hg'
    · exact hg'


/-- between two lines -/
def BG (lines : List (List Nat)) (g : Pos) (st : TState) : Prop :=
  (∀ p rest, st.endProgs = p :: rest → isB p = false → Gap lines g p.start) ∧ (TopB st → Gap lines g ⟨st.lnum + 1, 0⟩)

theorem prev_off (lines : List (List Nat)) (st : TState) (hprev : PrevOK lines st) :
    off lines ⟨st.lnum, st.line.toList.length⟩ = off lines ⟨st.lnum + 1, 0⟩ := by
  rcases hprev with ⟨h0, hnil⟩ | ⟨h1, hcur⟩
  · rw [h0, hnil]; simp [off, prefixLen]
  · exact off_line_end lines st.lnum st.line.toList h1 hcur

theorem lineHead_brk_nil (E : Env) (P : Pats) (st s : TState) (ts : List Tok5) (cont : Bool)
    (h : lineHead E P st = .ok (s, ts, cont, true)) : st.endProgs = [] := by
  unfold lineHead at h
  split at h
  · split at h
    · cases h
    · injection h with h; injection h with _ h; injection h with _ h; injection h with _ h4; cases h4
  · rename_i hemp; simpa using hemp

theorem gi_of_bg (lines : List (List Nat)) (g : Pos) (st : TState) (l : List Nat) (hb : BG lines g st) : GI lines g (st.moveNextLine l) :=
  ⟨hb.1, hb.2⟩

theorem bg_of_gi (lines : List (List Nat)) (g : Pos) (st : TState) (hl : LineOK lines st) (hg : GI lines g st) (hend : st.pos = st.max) : BG lines g st := by
  refine ⟨hg.top, fun hB => ?_⟩
  have := hg.free hB
  have he := off_line_end lines st.lnum st.line.toList hl.one hl.cur
  simp only [Array.length_toList] at he
  simp only [cur, hend, hl.max] at this
  exact Gap.congr_off he this

/-- `break` happens only on a line that holds nothing but indentation (or on the empty line at the end of input) -/
theorem lineHead_brk_ws (E : Env) (P : Pats) (st s : TState) (ts : List Tok5) (cont : Bool) (hpos : st.pos = 0) (hmax : st.max = st.line.size)
    (h : lineHead E P st = .ok (s, ts, cont, true)) : allIn wsChar st.line 0 st.max := by
  unfold lineHead at h
  split at h
  · split at h
    · cases h
    · injection h with h; injection h with _ h; injection h with _ h; injection h with _ h4; cases h4
  · split at h
    · split at h
      · cases h
      · injection h with h; injection h with _ h; injection h with _ h; injection h with _ h4; cases h4
      · rename_i ts0 s0 h0
        unfold nextStatement at h0
        split at h0
        · rename_i hemp
          intro i _ hi
          have : st.line.size = 0 := by simpa using hemp
          omega
        · simp only [] at h0
          split at h0
          · rename_i hge
            have hws := measureIndent_ws P.tabsize st.line (st.max + 1) 0 st.pos
            rw [hpos] at hws hge
            intro i hi1 hi2
            exact hws i hi1 (by simp only [ge_iff_le] at hge; omega)
          · split at h0
            · split at h0 <;> (injection h0 with h0; injection h0 with _ h0; injection h0 with _ h3; cases h3)
            · split at h0
              · cases h0
              · injection h0 with h0; injection h0 with _ h0; injection h0 with _ h3; cases h3
      · injection h with h; injection h with _ h; injection h with _ h; injection h with _ h4; cases h4
    · split at h
      · cases h
      · injection h with h; injection h with _ h; injection h with _ h; injection h with _ h4; cases h4

/-- after the ENDMARKER: what is left of the text is a final line of indentation only -/
theorem brk_trailing (lines : List (List Nat)) (hnl : NonLastEndNL lines) (E : Env) (P : Pats) (st s : TState) (ts : List Tok5) (cont : Bool)
    (rest : List (List Nat)) (hprev : PrevOK lines st) (hrest : rest = lines.drop st.lnum)
    (hh : lineHead E P (st.moveNextLine (rest.headD [])) = .ok (s, ts, cont, true)) (hl' : s.lnum = st.lnum + 1) :
    Gap lines ⟨s.lnum, 0⟩ ⟨lines.length + 1, 0⟩ := by
  have hle : st.lnum ≤ lines.length := by
    rcases hprev with ⟨h0, _⟩ | ⟨h1, hcur⟩
    · omega
    · have := (List.getElem?_eq_some_iff.mp hcur).1; omega
  cases hr : rest with
  | nil =>
    have : lines.length ≤ st.lnum := by
      have := hrest.symm.trans hr
      exact List.drop_eq_nil_iff.mp this
    have he : lines.length = st.lnum := by omega
    rw [hl', he]; exact Gap.refl _ _
  | cons l rest' =>
    rw [hr] at hh
    simp only [List.headD_cons] at hh
    have hll : lines[st.lnum]? = some l := by
      have : (lines.drop st.lnum)[0]? = some l := by rw [← hrest, hr]; rfl
      simpa [List.getElem?_drop] using this
    have hws := lineHead_brk_ws E P _ s ts cont (by simp [TState.moveNextLine]) (moveNextLine_max st l) hh
    have hl0 : LineOK lines (st.moveNextLine l) :=
      ⟨by simp [TState.moveNextLine], by simp only [TState.moveNextLine, Nat.add_sub_cancel, List.toList_toArray]; exact hll,
       by simp [TState.moveNextLine], by simp [TState.moveNextLine]⟩
    have hmx : (st.moveNextLine l).max = l.length := rfl
    have hln : (st.moveNextLine l).lnum = st.lnum + 1 := rfl
    have hgap : Gap lines ⟨st.lnum + 1, 0⟩ ⟨st.lnum + 1, l.length⟩ := by
      have := Gap.on_line_ws lines (st.moveNextLine l) hl0 l.length (by rw [hmx]; exact Nat.le_refl _)
        (by rw [hmx] at hws; exact hws)
      rw [hln] at this; exact this
    have hlast : lines.length = st.lnum + 1 := by
      have hlt := (List.getElem?_eq_some_iff.mp hll).1
      rcases Nat.lt_or_ge (st.lnum + 1) lines.length with hlt2 | hge
      · exfalso
        have h10 := hnl st.lnum l hll hlt2
        cases hl : l with
        | nil => rw [hl] at h10; simp at h10
        | cons c cs =>
          have hne : l ≠ [] := by rw [hl]; simp
          have hidx : l.length - 1 < l.length := by rw [hl]; simp
          obtain ⟨d, hd1, hd2⟩ := hws (l.length - 1) (Nat.zero_le _) (by rw [hmx]; exact hidx)
          have hd1' : l[l.length - 1]? = some d := by simpa [TState.moveNextLine] using hd1
          rw [List.getLast?_eq_getElem?] at h10
          rw [h10] at hd1'
          injection hd1' with hd1'
          rw [← hd1'] at hd2
          simp [wsChar] at hd2
      · omega
    have he := off_line_end lines (st.lnum + 1) l (by omega) (by simpa using hll)
    rw [hl', hlast]
    exact Gap.congr_off he hgap

/-- the whole line loop: between consecutive tokens (and before the first) there are gap characters only -/
theorem tokenizeLines_g (lines : List (List Nat)) (hnl : NonLastEndNL lines) (E : Env) (P : Pats) (hP : PseudoProgress P) (hF : FstrLen P) (hE : FstrEnds P) (hEG : EndGap P) :
    ∀ (fuel : Nat) (rest : List (List Nat)) (st : TState) (acc out : List Tok5) (hw g0 : Pos),
      st.max = st.line.size → OI hw st.endProgs ⟨st.lnum, st.max⟩ → BT lines st → PrevOK lines st → rest = lines.drop st.lnum →
      Gaps lines g0 acc → BG lines (lastStop g0 acc) st → MidOK lines acc →
      tokenizeLines E P fuel rest st acc = .ok out → Gaps lines g0 out ∧ Gap lines (lastStop g0 out) ⟨lines.length + 1, 0⟩ := by
  intro fuel
  induction fuel with
  | zero => intro rest st acc out hw g0 _ _ _ _ _ _ _ _ h; simp [tokenizeLines] at h
  | succ fuel ih =>
    intro rest st acc out hw g0 hmax hI hb hprev hrest hacc hbg hmid h
    unfold tokenizeLines at h
    split at h
    · cases h
    · rename_i s ts cont brk hh
      have hspec := lineHead_spec E P _ s ts cont brk (moveNextLine_max st _) (by simp) hh
      have hI0 : OInv hw (st.moveNextLine (rest.headD [])) := OI.mono hI (Pos.le_next _ _ _)
      obtain ⟨hl, hw', _, hbrk, hcont, hpro⟩ := lineHead_ord E P hF hw _ s ts cont brk (moveNextLine_max st _) rfl hI0 hh
      have hl' : s.lnum = st.lnum + 1 := hl
      split at h
      · rename_i hbk
        injection h with h
        subst h
        subst hbk
        rw [hbrk rfl, List.append_nil]
        have hnil : st.endProgs = [] := lineHead_brk_nil E P (st.moveNextLine (rest.headD [])) s ts cont hh
        have hB : TopB st := by intro q more hq; rw [hnil] at hq; cases hq
        have hoff := prev_off lines st hprev
        have hg1 : Gap lines (lastStop g0 acc) ⟨st.lnum, st.line.toList.length⟩ := Gap.congr_off hoff.symm (hbg.2 hB)
        have := nextEndTokens_g lines (lastStop g0 acc) st.line.toList st.commentLine s
          (by rw [hl', Nat.add_sub_cancel]; exact hoff) (by rw [hl', Nat.add_sub_cancel]; exact hg1)
        refine ⟨Gaps.append hacc this.1, ?_⟩
        rw [lastStop_append, this.2]
        exact brk_trailing lines hnl E P st s ts cont rest hprev hrest hh hl'
      · rename_i hnb
        have hnb' : brk = false := by simpa using hnb
        cases hr : rest with
        | nil =>
          rw [hr] at hh
          have := lineHead_eof E P _ s ts cont brk (by simp [TState.moveNextLine]) (by simp [TState.moveNextLine]) hh
          rw [this] at hnb'; cases hnb'
        | cons l rest' =>
          rw [hr] at hh h
          simp only [List.tail_cons] at h
          simp only [List.headD_cons] at hh
          have hll : lines[st.lnum]? = some l := by
            have : (lines.drop st.lnum)[0]? = some l := by rw [← hrest, hr]; rfl
            simpa [List.getElem?_drop] using this
          have hrest' : rest' = lines.drop (st.lnum + 1) := by
            have := congrArg List.tail (hrest.symm.trans hr)
            simp only [List.tail_drop, List.tail_cons] at this
            exact this.symm
          have hft0 := ft_of_bt lines st l hb hll
          have hI0' : OInv hw (st.moveNextLine l) := OI.mono hI (Pos.le_next _ _ _)
          have hg0 := gi_of_bg lines (lastStop g0 acc) st l hbg
          obtain ⟨hmts, hgo, hcnil⟩ := lineHead_ft lines E P hF hE hw _ s ts cont brk hI0' hft0 hh
          obtain ⟨gs, _, gcont, gpro⟩ := lineHead_g lines E P hF hw _ _ s ts cont brk hI0' hft0 hg0 (by simp [TState.moveNextLine]) hh
          have hline : s.line = (st.moveNextLine l).line := lineHead_line E P _ s ts cont brk hft0.line.max hft0.line.pos hh
          have hprevS : PrevOK lines s := by
            right
            refine ⟨by omega, ?_⟩
            rw [hl', Nat.add_sub_cancel, hline]
            simpa [TState.moveNextLine] using hll
          have hacc1 : Gaps lines g0 (acc ++ ts) := Gaps.append hacc gs
          split at h
          · rename_i hc
            have hbs : BT lines s := by intro p r hp; rw [hcnil hc] at hp; cases hp
            refine ih rest' s _ out hw' g0 hspec.1 (hcont hnb' hc) hbs hprevS (by rw [hl']; exact hrest') hacc1 ?_ (MidOK.append hmid hmts) h
            rw [lastStop_append]
            refine ⟨(by intro p r hp; rw [hcnil hc] at hp; cases hp), fun _ => ?_⟩
            have hgc := gcont hnb' hc
            have hoffS := prev_off lines s hprevS
            have hmaxS : (st.moveNextLine l).max = s.line.toList.length := by
              rw [hline]; simp [TState.moveNextLine]
            have hlnS : (st.moveNextLine l).lnum = s.lnum := by rw [hl']; rfl
            rw [hmaxS, hlnS] at hgc
            exact Gap.congr_off hoffS hgc
          · rename_i hnc
            have hnc' : cont = false := by simpa using hnc
            split at h
            · cases h
            · rename_i s2 acc2 hs
              have hfts := hgo hnc' hnb'
              have hgs := gpro hnb' hnc'
              rw [← lastStop_append] at hgs
              obtain ⟨hmid2, hft2, hend2, hw2, i2⟩ := scanLine_ft lines E P hP hF hE _ hw' s s2 _ acc2 (hpro hnb' hnc') hfts (MidOK.append hmid hmts) hs
              obtain ⟨hacc2, hg2⟩ := scanLine_g lines E P hP hF hE hEG _ hw' g0 s s2 _ acc2 (hpro hnb' hnc') hfts hacc1 hgs hs
              obtain ⟨hk1, hk2⟩ := scanLine_keeps E P hP _ s _ s2 acc2 hfts.line.max hfts.line.pos hs
              exact ih rest' s2 _ out hw2 g0 hft2.line.max (OI.mono i2 (cur_le_col s2 s2.max hft2.line.pos)) (bt_of_ft lines s2 hft2 hend2)
                (Or.inr ⟨hft2.line.one, hft2.line.cur⟩) (by rw [hk1, hl']; exact hrest') hacc2 (bg_of_gi lines _ s2 hft2.line hg2 hend2) hmid2 h

end XV.Tz
