/-
  C10 / C08: FSTRING_START and FSTRING_END tokens are balanced like brackets.
  Invariant over the scan: the number of f-strings opened and not yet closed in the tokens emitted so far is the number of
  f-string (middle-mode) records on the mode stack; uses the shape invariant of Proofs/StringTiling.
-/
import XonshVerif.Proofs.StringTiling
import XonshVerif.Proofs.TokCompose
import XonshVerif.Proofs.TokCover
namespace XV.Tz
open XV XV.Rx

/-- FSTRING_START opens, FSTRING_END closes: depth after `ts` when started at `d` (`none`: an END without an open START) -/
def fdepthAfter : Nat → List Tok5 → Option Nat
  | d, [] => some d
  | d, t :: ts =>
    if t.ty = .FSTRING_START then fdepthAfter (d + 1) ts
    else if t.ty = .FSTRING_END then (match d with | 0 => none | d' + 1 => fdepthAfter d' ts)
    else fdepthAfter d ts

def FNeutral (ts : List Tok5) : Prop := ∀ t ∈ ts, t.ty ≠ .FSTRING_START ∧ t.ty ≠ .FSTRING_END

theorem fdepthAfter_append (a b : List Tok5) : ∀ d, fdepthAfter d (a ++ b) = (fdepthAfter d a).bind (fun d' => fdepthAfter d' b) := by
  induction a with
  | nil => intro d; rfl
  | cons t ts ih =>
    intro d
    simp only [List.cons_append, fdepthAfter]
    split
    · exact ih _
    · split
      · cases d with
        | zero => rfl
        | succ d' => exact ih _
      · exact ih _

theorem fdepthAfter_neutral (ts : List Tok5) (h : FNeutral ts) : ∀ d, fdepthAfter d ts = some d := by
  induction ts with
  | nil => intro d; rfl
  | cons t ts ih =>
    intro d
    have ht := h t (List.mem_cons_self)
    simp only [fdepthAfter, ht.1, ht.2, if_false]
    exact ih (fun x hx => h x (List.mem_cons_of_mem _ hx)) d

theorem FNeutral.append {a b : List Tok5} (ha : FNeutral a) (hb : FNeutral b) : FNeutral (a ++ b) := by
  intro t ht; rcases List.mem_append.mp ht with h | h
  · exact ha t h
  · exact hb t h
theorem FNeutral.nil : FNeutral [] := by intro t ht; cases ht
theorem FNeutral.single {t : Tok5} (h : t.ty ≠ .FSTRING_START ∧ t.ty ≠ .FSTRING_END) : FNeutral [t] := by
  intro x hx; simp only [List.mem_singleton] at hx; subst hx; exact h

/-- the f-strings that are open: middle-mode records on the stack -/
def fcount (ps : List EndProg) : Nat := ps.countP isM

theorem fcount_retop (p p' : EndProg) (rest : List EndProg) (hm : p'.mode = p.mode) : fcount (p' :: rest) = fcount (p :: rest) := by
  unfold fcount; simp only [List.countP_cons]
  have : isM p' = isM p := by unfold isM; rw [hm]
  rw [this]

theorem fcount_cons (p : EndProg) (rest : List EndProg) : fcount (p :: rest) = fcount rest + (if isM p then 1 else 0) := by
  unfold fcount; rw [List.countP_cons]

/-- what one call does to the depth: the tokens it emits take the depth from the open f-strings before to those after -/
def FStep (st st' : TState) (ts : List Tok5) : Prop := fdepthAfter (fcount st.endProgs) ts = some (fcount st'.endProgs)

theorem FStep.of_neutral {st st' : TState} {ts : List Tok5} (hn : FNeutral ts) (hc : fcount st'.endProgs = fcount st.endProgs) : FStep st st' ts := by
  unfold FStep; rw [fdepthAfter_neutral ts hn, hc]

theorem emitMiddle_fneutral (st : TState) (m : Nat) (prog : EndProg) (hne : st.endProgs ≠ []) : FNeutral (emitMiddle st m prog).1 := by
  unfold emitMiddle
  split
  · intro t ht
    simp only [List.mem_singleton] at ht
    subst ht
    unfold TState.progToken
    split
    · rename_i h; exact absurd h hne
    · exact ⟨by simp, by simp⟩
  · exact FNeutral.nil

theorem isM_of_kind_fstr (p : EndProg) (hk : kindOK p = true) (q : String) (hp : p.pat = .fstr q) : isM p = true := by
  unfold kindOK at hk; unfold isM
  rw [hp] at hk
  cases hm : p.mode <;> simp [hm] at hk ⊢

theorem notM_of_kind (p : EndProg) (hk : kindOK p = true) (hp : p.pat = .rbrace ∨ p.pat = .empty ∨ ∃ q, p.pat = .endpat q) : isM p = false := by
  unfold kindOK at hk; unfold isM
  rcases hp with hp | hp | ⟨q, hp⟩ <;> rw [hp] at hk <;> cases hm : p.mode <;> simp [hm] at hk ⊢


theorem popMode_some_fcount (st : TState) (pos : Pos) (b : EndProg) (rest : List EndProg) (h : st.endProgs = b :: rest) :
    fcount (st.popMode (some pos)).endProgs = fcount rest := by
  rw [popMode_endProgs_some st b rest pos h]
  cases rest with
  | nil => rfl
  | cons q more => exact fcount_retop q _ more rfl

theorem okAbove_C_lo_isB (up lo : EndProg) (hup : isC up = true) (h : okAbove up lo = true) : isB lo = true := by
  unfold okAbove at h
  unfold isB
  unfold isC at hup
  cases hm : lo.mode <;> simp [hm] at h ⊢
  · unfold isB at h; cases hu : up.mode <;> simp [hu] at h hup
  · unfold isM isN at h; cases hu : up.mode <;> simp [hu] at h hup

theorem isB_notM (p : EndProg) (h : isB p = true) : isM p = false := by
  unfold isB at h; unfold isM; cases hm : p.mode <;> simp [hm] at h ⊢
theorem isC_notM (p : EndProg) (h : isC p = true) : isM p = false := by
  unfold isC at h; unfold isM; cases hm : p.mode <;> simp [hm] at h ⊢
theorem isN_notM (p : EndProg) (h : isN p = true) : isM p = false := by
  unfold isN at h; unfold isM; cases hm : p.mode <;> simp [hm] at h ⊢

theorem handleFstringProgs_fstep (E : Env) (P : Pats) (st st' : TState) (ts : List Tok5) (mt : Bool)
    (hv : validStack st.endProgs = true) (h : handleFstringProgs E P st = .ok (ts, st', mt)) : FStep st st' ts := by
  unfold handleFstringProgs at h
  split at h
  · injection h with h; injection h with h1 h; injection h with h2 _; subst h1; subst h2; exact FStep.of_neutral FNeutral.nil rfl
  · rename_i prog rest hprogs
    have hne : st.endProgs ≠ [] := by rw [hprogs]; simp
    split at h
    · cases h
    · injection h with h; injection h with h1 h; injection h with h2 _; subst h1; subst h2; exact FStep.of_neutral FNeutral.nil rfl
    · rename_i group e hm
      obtain ⟨r, hmem, _⟩ := matchBranches_sound _ _ _ _ _ _ _ hm
      have hname := patBranches_name P prog.pat group r hmem
      have hkind := validStack_kind prog rest (hprogs ▸ hv)
      simp only [] at h
      split at h
      · injection h with h; injection h with h1 h; injection h with h2 _; subst h1; subst h2; exact FStep.of_neutral FNeutral.nil rfl
      · rename_i hgrp
        split at h
        · -- End
          rename_i hE
          injection h with h; injection h with h1 h; injection h with h2 _; subst h1; subst h2
          obtain ⟨p', hp', hm', _⟩ := emitMiddle_stack st (e - prog.quote.length) prog prog rest hprogs
          have hM : isM prog = true := by
            rcases hname with ⟨q, _, hn⟩ | ⟨q, hq, _⟩ | ⟨_, hn⟩ | ⟨_, hn⟩
            · rw [hE] at hn; exact absurd hn (by decide)
            · exact isM_of_kind_fstr prog hkind q hq
            · rw [hE] at hn; exact absurd hn (by decide)
            · rw [hE] at hn; exact absurd hn (by decide)
          unfold FStep
          rw [fdepthAfter_append, fdepthAfter_neutral _ (emitMiddle_fneutral st _ prog hne)]
          simp only [Option.bind_some, hprogs, fcount_cons, hM, if_true]
          simp only [fdepthAfter, show (TT.FSTRING_END = TT.FSTRING_START) = False by simp, if_false, if_true]
          rw [popMode_endProgs_none _ p' rest hp']
        · rename_i hnotE
          obtain ⟨p', hp', hm', _⟩ := emitMiddle_stack st (e - 1) prog prog rest hprogs
          have hneutral : ∀ (c : Nat) (a b : Pos) (l : List Nat), FNeutral ((emitMiddle st (e - 1) prog).1 ++ [({ ty := .OP, str := [c], start := a, stop := b, line := l } : Tok5)]) :=
            fun c a b l => (emitMiddle_fneutral st _ prog hne).append (FNeutral.single ⟨by simp, by simp⟩)
          split at h
          · -- LBrace
            injection h with h; injection h with h1 h; injection h with h2 _; subst h1; subst h2
            refine FStep.of_neutral (hneutral _ _ _ _) ?_
            simp only [TState.addProg]
            rw [hp', hprogs, fcount_cons, fcount_retop prog p' rest hm']
            simp [isM]
          · -- RBrace
            rename_i hL
            injection h with h; injection h with h1 h; injection h with h2 _; subst h1; subst h2
            refine FStep.of_neutral (hneutral _ _ _ _) ?_
            have hC : isC prog = true := by
              rcases hname with ⟨q, hq, hn⟩ | ⟨q, hq, hn⟩ | ⟨hq, _⟩ | ⟨hq, hn⟩
              · exact absurd hn hgrp
              · rcases hn with hn | hn
                · exact absurd hn hL
                · exact absurd hn hnotE
              · unfold kindOK at hkind; unfold isC; rw [hq] at hkind
                cases hmo : prog.mode <;> simp [hmo] at hkind ⊢
              · exact absurd hn hgrp
            have hs2 : ({ (emitMiddle st (e - 1) prog).2 with parenlev := (emitMiddle st (e - 1) prog).2.parenlev - 1 } : TState).endProgs = p' :: rest := hp'
            have h1 := popMode_endProgs_none _ p' rest hs2
            simp only []
            rw [hprogs, fcount_cons, isC_notM prog hC]
            simp only [Bool.false_eq_true, if_false, Nat.add_zero]
            cases hr : rest with
            | nil =>
              rw [hr] at h1
              rw [popMode_nil _ _ h1, h1]
            | cons b more =>
              rw [hr] at h1
              rw [popMode_some_fcount _ _ b more h1, fcount_cons]
              have hvv : validStack (prog :: b :: more) = true := by rw [← hr, ← hprogs]; exact hv
              simp only [validStack, Bool.and_eq_true] at hvv
              have hB := okAbove_C_lo_isB prog b hC hvv.1.2
              rw [isB_notM b hB]
              simp


theorem progToken_endProgs (st : TState) (e : Nat) (ty : TT) (p : EndProg) (rest : List EndProg) (h : st.endProgs = p :: rest) :
    ∃ p', (st.progToken e ty).2.endProgs = p' :: rest ∧ p'.mode = p.mode := by
  unfold TState.progToken; simp only [h]; exact ⟨_, rfl, rfl⟩

theorem handleEndProgs_fstep (E : Env) (P : Pats) (st st' : TState) (ts : List Tok5)
    (hv : validStack st.endProgs = true) (h : handleEndProgs E P st = .ok (ts, st')) : FStep st st' ts := by
  unfold handleEndProgs at h
  split at h
  · injection h with h; injection h with h1 h2; subst h1; subst h2; exact FStep.of_neutral FNeutral.nil rfl
  · rename_i prog rest hprogs
    have hne : st.endProgs ≠ [] := by rw [hprogs]; simp
    have hkind := validStack_kind prog rest (hprogs ▸ hv)
    split at h
    · cases h
    · split at h
      · injection h with h; injection h with h1 h2; subst h1; subst h2; exact FStep.of_neutral FNeutral.nil rfl
      · rename_i hnB
        split at h
        · cases h
        · rename_i ts1 s1 matched early hstep
          have hs1 : FStep st s1 ts1 := by
            unfold endProgStep at hstep
            split at hstep
            · split at hstep
              · cases hstep
              · rename_i ts0 s0 m0 hf
                injection hstep with hstep; injection hstep with h1 hstep; injection hstep with h2 _; subst h1; subst h2
                exact handleFstringProgs_fstep E P st _ _ _ hv hf
            · rename_i hnMC
              -- a plain string: the top record is in text mode
              have hN : isM prog = false := by
                simp only [TState.inMiddle, TState.inColon, hprogs, Bool.or_eq_true, not_or] at hnMC
                unfold isM; cases hm : prog.mode <;> simp [hm] at hnMC ⊢
              split at hstep
              · cases hstep
              · injection hstep with hstep; injection hstep with h1 hstep; injection hstep with h2 _; subst h1; subst h2
                obtain ⟨p', hp', hm'⟩ := progToken_endProgs st _ .STRING prog rest hprogs
                refine FStep.of_neutral (FNeutral.single ?_) ?_
                · unfold TState.progToken; rw [hprogs]; exact ⟨by simp, by simp⟩
                · rw [popMode_endProgs_none _ p' rest hp', hprogs, fcount_cons, hN]; simp
              · injection hstep with hstep; injection hstep with h1 hstep; injection hstep with h2 _; subst h1; subst h2
                exact FStep.of_neutral FNeutral.nil rfl
          unfold endProgFinish at h
          split at h
          · injection h with h; injection h with h1 h2; subst h1; subst h2; exact hs1
          · split at h
            · injection h with h; injection h with h1 h2; subst h1; subst h2; exact hs1
            · split at h
              · injection h with h; injection h with h1 h2; subst h1; subst h2; exact hs1
              · split at h
                · split at h
                  · injection h with h; injection h with h1 h2; subst h1; subst h2; exact hs1
                  · rename_i p rest' hp
                    injection h with h; injection h with h1 h2; subst h1; subst h2
                    unfold FStep at hs1 ⊢
                    rw [hs1]
                    simp only []
                    rw [hp]
                    exact congrArg some (fcount_retop p _ rest' rfl)
                · split at h
                  · cases h
                  · injection h with h; injection h with h1 h2; subst h1; subst h2; exact hs1

theorem specialAction_fcount (st : TState) (start e : Nat) (hv : validStack st.endProgs = true) :
    fcount (specialAction st start e).endProgs = fcount st.endProgs := by
  unfold specialAction
  split
  · rfl
  · split
    · simp only []
      split
      · rename_i hc
        simp only [Bool.and_eq_true] at hc
        cases hs : st.endProgs with
        | nil => rw [popMode_nil _ _ hs, hs]
        | cons b rest =>
          have hB : isB b = true := by
            have := hc.1; unfold TState.inBraces at this; rw [hs] at this
            unfold isB; cases hm : b.mode <;> simp [hm] at this ⊢
          rw [popMode_some_fcount st _ b rest hs, fcount_cons, isB_notM b hB]; simp
      · rfl
    · split
      · simp only [TState.addProg, fcount_cons, isM]; simp
      · rfl

theorem pseudoAction_fstep (st st' : TState) (group : String) (start e : Nat) (tok : Option Tok5)
    (hv : validStack st.endProgs = true) (h : pseudoAction st group start e = .ok (tok, st')) : FStep st st' tok.toList := by
  unfold pseudoAction at h
  split at h
  · split at h
    · injection h with h; injection h with h1 h2; subst h1; subst h2
      unfold FStep
      simp only [Option.toList, fdepthAfter, mkTok, if_true, TState.addProg, fcount_cons, isM]
    · injection h with h; injection h with h1 h2; subst h1; subst h2
      refine FStep.of_neutral FNeutral.nil ?_
      simp only [TState.addProg, fcount_cons, isM]; simp
  · have plain : ∀ (ty : TT), ty ≠ .FSTRING_START ∧ ty ≠ .FSTRING_END → FStep st st (some (mkTok st start e ty)).toList :=
      fun ty hty => FStep.of_neutral (FNeutral.single hty) rfl
    split at h
    · injection h with h; injection h with h1 h2; subst h1; subst h2; exact plain _ ⟨by decide, by decide⟩
    · split at h
      · injection h with h; injection h with h1 h2; subst h1; subst h2; exact plain _ ⟨by decide, by decide⟩
      · split at h
        · injection h with h; injection h with h1 h2; subst h1; subst h2; exact plain _ ⟨by decide, by decide⟩
        · split at h
          · injection h with h; injection h with h1 h2; subst h1; subst h2; exact plain _ ⟨by decide, by decide⟩
          · split at h
            · injection h with h; injection h with h1 h2; subst h1; subst h2; exact plain _ ⟨by decide, by decide⟩
            · split at h
              · injection h with h; injection h with h1 h2; subst h1; subst h2
                exact plain _ ⟨by split <;> decide, by split <;> decide⟩
              · split at h
                · injection h with h; injection h with h1 h2; subst h1; subst h2
                  exact FStep.of_neutral (FNeutral.single ⟨by simp [mkTok], by simp [mkTok]⟩) (specialAction_fcount st start e hv)
                · split at h
                  · injection h with h; injection h with h1 h2; subst h1; subst h2
                    exact FStep.of_neutral FNeutral.nil rfl
                  · cases h

theorem nextPseudoMatches_fstep (E : Env) (P : Pats) (st st' : TState) (tok : Option Tok5)
    (hv : validStack st.endProgs = true) (h : nextPseudoMatches E P st = .ok (tok, st')) : FStep st st' tok.toList := by
  unfold nextPseudoMatches at h
  split at h
  · injection h with h; injection h with h1 h2; subst h1; subst h2; exact FStep.of_neutral FNeutral.nil rfl
  · split at h
    · cases h
    · injection h with h; injection h with h1 h2; subst h1; subst h2; exact FStep.of_neutral FNeutral.nil rfl
    · have := pseudoAction_fstep _ _ _ _ _ _ (by exact hv) h
      exact this


/-! ### the scan loop, line heads, the line loop -/

/-- invariant of the accumulated tokens: the f-strings left open are the middle-mode records on the stack -/
def FAcc (st : TState) (acc : List Tok5) : Prop := fdepthAfter 0 acc = some (fcount st.endProgs)

theorem FAcc.step {st st' : TState} {acc ts : List Tok5} (h : FAcc st acc) (hs : FStep st st' ts) : FAcc st' (acc ++ ts) := by
  unfold FAcc at *; unfold FStep at hs
  rw [fdepthAfter_append, h]; exact hs

theorem scanLine_fbal (lines : List (List Nat)) (E : Env) (P : Pats) (hP : PseudoProgress P) :
    ∀ (fuel : Nat) (st : TState) (acc : List Tok5) (st' : TState) (acc' : List Tok5),
      Inv lines st → FAcc st acc → scanLine E P fuel st acc = .ok (st', acc') → FAcc st' acc' := by
  intro fuel
  induction fuel with
  | zero => intro st acc st' acc' _ _ h; simp [scanLine] at h
  | succ fuel ih =>
    intro st acc st' acc' hinv hacc h
    unfold scanLine at h
    split at h
    · rename_i hlt
      split at h
      · cases h
      · rename_i ts1 st1 h1
        obtain ⟨hinv1, _, hat1⟩ := handleEndProgs_inv lines E P st st1 ts1 hinv h1
        have hf1 := hacc.step (handleEndProgs_fstep E P st st1 ts1 hinv.shape h1)
        have hadv1 := handleEndProgs_adv E P st st1 ts1 hinv.line.max hinv.line.pos h1
        split at h
        · cases h
        · rename_i t st2 h2
          obtain ⟨hinv2, _, _⟩ := nextPseudoMatches_inv lines E P hP st1 st2 (some t) hinv1 hat1 h2
          have hf2 := hf1.step (nextPseudoMatches_fstep E P st1 st2 (some t) hinv1.shape h2)
          exact ih st2 _ st' acc' hinv2 (by simpa [Option.toList] using hf2) h
        · rename_i st2 h2
          obtain ⟨hinv2, _, hprog⟩ := nextPseudoMatches_inv lines E P hP st1 st2 none hinv1 hat1 h2
          obtain ⟨hadv2, _, _⟩ := nextPseudo_adv E P hP st1 st2 none hinv1.line.max hinv1.line.pos h2
          have hf2 := hf1.step (nextPseudoMatches_fstep E P st1 st2 none hinv1.shape h2)
          simp only [Option.toList, List.append_nil] at hf2
          simp only [] at h
          split at h
          · rename_i heq
            have hnotN : ∀ q more, st2.endProgs = q :: more → isN q = false := by
              intro q more hq
              cases hN : isN q with
              | false => rfl
              | true =>
                exfalso
                rcases hprog q more hq hN with he | hlt2
                · have := hat1 q more (he ▸ hq) hN
                  have h1m := hadv1.1.max
                  have : st2.pos = st2.max := by rw [he]; exact this
                  have := hadv2.max; have := hadv1.1.max
                  omega
                · have := hadv1.1.ge; omega
            have hlt2 : st2.pos < st2.max := by
              have := hadv2.max; have := hadv1.1.max; omega
            refine ih { st2 with pos := st2.pos + 1 } _ st' acc' ⟨⟨hinv2.line.one, hinv2.line.cur, hinv2.line.max, by simp only []; omega⟩, hinv2.shape, topOK_of_notN lines _ hnotN⟩ ?_ h
            have : FStep st2 { st2 with pos := st2.pos + 1 } [({ ty := .ERRORTOKEN, str := [st2.line[st2.pos]?.getD 0], start := ⟨st2.lnum, st2.pos⟩, stop := ⟨st2.lnum, st2.pos + 1⟩, line := st2.line.toList } : Tok5)] :=
              FStep.of_neutral (FNeutral.single ⟨by simp, by simp⟩) rfl
            exact hf2.step this
          · exact ih st2 _ st' acc' hinv2 hf2 h
    · injection h with h; injection h with h1 h2; subst h1; subst h2
      exact hacc

theorem dedents_fneutral (col lnum pos : Nat) (line : List Nat) : ∀ (fuel : Nat) (ind : List Nat) (acc : List Tok5) (ind' : List Nat) (acc' : List Tok5),
    FNeutral acc → dedents col lnum pos line fuel ind acc = .ok (ind', acc') → FNeutral acc'
  | 0, ind, acc, ind', acc', ha, h => by
    simp only [dedents] at h; injection h with h; injection h with _ h2; subst h2; exact ha
  | fuel + 1, ind, acc, ind', acc', ha, h => by
    simp only [dedents] at h
    split at h
    · injection h with h; injection h with _ h2; subst h2; exact ha
    · split at h
      · split at h
        · cases h
        · exact dedents_fneutral col lnum pos line fuel _ _ ind' acc' (ha.append (FNeutral.single ⟨by simp, by simp⟩)) h
      · injection h with h; injection h with _ h2; subst h2; exact ha

theorem nextStatement_fneutral (P : Pats) (st st' : TState) (ts : List Tok5) (a : StmtAction)
    (h : nextStatement P st = .ok (ts, st', a)) : FNeutral ts := by
  unfold nextStatement at h
  split at h
  · injection h with h; injection h with h0 _; subst h0; exact FNeutral.nil
  · simp only [] at h
    split at h
    · injection h with h; injection h with h0 _; subst h0; exact FNeutral.nil
    · split at h
      · split at h
        · injection h with h; injection h with h0 _; subst h0
          intro t ht
          simp only [List.mem_cons, List.not_mem_nil, or_false] at ht
          rcases ht with ht | ht <;> (subst ht; exact ⟨by simp, by simp⟩)
        · injection h with h; injection h with h0 _; subst h0
          exact FNeutral.single ⟨by simp, by simp⟩
      · split at h
        · cases h
        · rename_i ind2 toks2 hd
          injection h with h; injection h with h0 _; subst h0
          refine dedents_fneutral _ _ _ _ _ _ _ ind2 toks2 ?_ hd
          split
          · exact FNeutral.single ⟨by simp, by simp⟩
          · exact FNeutral.nil

theorem lineHead_fstep (E : Env) (P : Pats) (st s : TState) (ts : List Tok5) (cont brk : Bool)
    (hv : validStack st.endProgs = true) (h : lineHead E P st = .ok (s, ts, cont, brk)) :
    FStep st s ts ∧ (brk = true → s.endProgs = []) := by
  unfold lineHead at h
  split at h
  · split at h
    · cases h
    · rename_i ts0 s0 h0
      injection h with h; injection h with h1 h; injection h with h2 h; injection h with _ h4; subst h1; subst h2; subst h4
      have hh := handleEndProgs_fstep E P _ _ _ (by exact hv) h0
      exact ⟨hh, by intro hc; cases hc⟩
  · rename_i hemp
    have hnil : st.endProgs = [] := by simpa using hemp
    split at h
    · split at h
      · cases h
      all_goals
        rename_i ts0 s0 h0
        injection h with h; injection h with h1 h; injection h with h2 _; subst h1; subst h2
        have hep := (nextStatement_noString P st _ _ _ h0).2
        exact ⟨FStep.of_neutral (nextStatement_fneutral P st _ _ _ h0) (by rw [hep]), fun _ => by rw [hep, hnil]⟩
    · split at h
      · cases h
      · injection h with h; injection h with h1 h; injection h with h2 h; injection h with _ h4; subst h1; subst h2; subst h4
        exact ⟨FStep.of_neutral FNeutral.nil rfl, by intro hc; cases hc⟩

theorem nextEndTokens_fneutral (ll : List Nat) (lc : Bool) (st : TState) : FNeutral (nextEndTokens ll lc st) := by
  unfold nextEndTokens
  intro t ht
  simp only [List.mem_append, List.mem_map, List.mem_singleton] at ht
  rcases ht with (ht | ht) | ht
  · split at ht
    · split at ht
      · simp only [List.mem_singleton] at ht; subst ht; exact ⟨by simp, by simp⟩
      · cases ht
    · cases ht
  · obtain ⟨_, _, rfl⟩ := ht; exact ⟨by simp, by simp⟩
  · subst ht; exact ⟨by simp, by simp⟩

theorem tokenizeLines_fbal (lines : List (List Nat)) (E : Env) (P : Pats) (hP : PseudoProgress P) :
    ∀ (fuel : Nat) (rest : List (List Nat)) (st : TState) (acc out : List Tok5),
      Between lines st → rest = lines.drop st.lnum → FAcc st acc → StrOK lines acc →
      tokenizeLines E P fuel rest st acc = .ok out → fdepthAfter 0 out = some 0 := by
  intro fuel
  induction fuel with
  | zero => intro rest st acc out _ _ _ _ h; simp [tokenizeLines] at h
  | succ fuel ih =>
    intro rest st acc out hb hrest hacc hstr h
    simp only [tokenizeLines] at h
    have hacc0 : FAcc (st.moveNextLine (rest.headD [])) acc := hacc
    have hv0 : validStack (st.moveNextLine (rest.headD [])).endProgs = true := hb.shape
    split at h
    · cases h
    · rename_i s ts cont brk hlh
      obtain ⟨hfs, hbrk⟩ := lineHead_fstep E P _ s ts cont brk hv0 hlh
      have hacc1 := hacc0.step hfs
      cases hr : rest with
      | nil =>
        rw [hr] at hlh
        have hempty : (st.moveNextLine []).line.isEmpty = true := by simp [TState.moveNextLine]
        have hb1 := lineHead_eof E P _ s ts cont brk hempty (by simp [TState.moveNextLine]) hlh
        subst hb1
        simp only [if_true] at h
        injection h with h; subst h
        unfold FAcc at hacc1
        rw [fdepthAfter_append, hacc1, hbrk rfl]
        simp only [Option.bind_some]
        exact fdepthAfter_neutral _ (nextEndTokens_fneutral _ _ _) _
      | cons l rest' =>
        rw [hr] at hlh h
        simp only [List.headD_cons, List.tail_cons] at hlh h
        have hl : lines[st.lnum]? = some l := by
          have : (lines.drop st.lnum)[0]? = some l := by rw [← hrest, hr]; rfl
          simpa [List.getElem?_drop] using this
        have hrest' : rest' = lines.drop (st.lnum + 1) := by
          have := congrArg List.tail (hrest.symm.trans hr)
          simp only [List.tail_drop, List.tail_cons] at this
          exact this.symm
        have hinv0 := inv_of_between lines st l hb hl
        obtain ⟨hts, hgo, hcont⟩ := lineHead_inv lines E P _ s ts cont brk hinv0 hlh
        have hlnum : s.lnum = st.lnum + 1 := by
          have := lineHead_lnum E P _ s ts cont brk hinv0.line.max hinv0.line.pos hlh
          rw [this]; rfl
        cases brk with
        | true =>
          simp only [if_true] at h
          injection h with h; subst h
          unfold FAcc at hacc1
          rw [fdepthAfter_append, hacc1, hbrk rfl]
          simp only [Option.bind_some]
          exact fdepthAfter_neutral _ (nextEndTokens_fneutral _ _ _) _
        | false =>
          simp only [Bool.false_eq_true, if_false] at h
          cases cont with
          | true =>
            simp only [if_true] at h
            have hbs : Between lines s := ⟨by rw [hcont rfl]; rfl, by intro p r hp; rw [hcont rfl] at hp; cases hp⟩
            exact ih rest' s _ out hbs (by rw [hlnum]; exact hrest') hacc1 (hstr.append hts) h
          | false =>
            simp only [Bool.false_eq_true, if_false] at h
            have hinvs := hgo rfl rfl
            split at h
            · cases h
            · rename_i s2 acc2 hsc
              obtain ⟨hinv2, hstr2, hend2⟩ := scanLine_inv lines E P hP _ s _ s2 acc2 hinvs (hstr.append hts) hsc
              have hf2 := scanLine_fbal lines E P hP _ s _ s2 acc2 hinvs hacc1 hsc
              obtain ⟨hk1, _⟩ := scanLine_keeps E P hP _ s _ s2 acc2 hinvs.line.max hinvs.line.pos hsc
              exact ih rest' s2 _ out (between_of_inv lines s2 hinv2 hend2) (by rw [hk1, hlnum]; exact hrest') hf2 hstr2 h

end XV.Tz
