/-
  C05 - the documented translations, as theorems about the builder model: what Python text each builder's tree stands for,
  and that every node a builder creates carries the span of the construct.
-/
import XonshVerif.Model.Desugar
namespace XV.Desugar
open XV

def q (s : List Nat) : String := "'" ++ String.ofList (s.map Char.ofNat) ++ "'"

mutual
/-- the Python text a tree stands for (holes print as `?i`) -/
def render : X → String
  | .name id _ => id
  | .attr v a _ => render v ++ "." ++ a
  | .const s _ => q s
  | .call f args _ => render f ++ "(" ++ renderList args ++ ")"
  | .subscript v sl _ _ => render v ++ "[" ++ render sl ++ "]"
  | .starred v _ => "*" ++ render v
  | .tuple es _ => "(" ++ renderList es ++ ")"
  | .hole i => "?" ++ toString i
def renderList : List X → String
  | [] => ""
  | [x] => render x
  | x :: y :: r => render x ++ ", " ++ renderList (y :: r)
end

mutual
/-- the spans of all nodes CREATED by the builders (holes are not) -/
def spans : X → List Sp
  | .name _ sp => [sp]
  | .attr v _ sp => sp :: spans v
  | .const _ sp => [sp]
  | .call f args sp => sp :: (spans f ++ spansList args)
  | .subscript v sl _ sp => sp :: (spans v ++ spans sl)
  | .starred v sp => sp :: spans v
  | .tuple es sp => sp :: spansList es
  | .hole _ => []
def spansList : List X → List Sp
  | [] => []
  | x :: r => spans x ++ spansList r
end

/-- **the documented translations** -/
theorem env_name_translation (s : List Nat) (ctx : Ctx) (sp : Sp) : render (expandEnvName s ctx sp) = "__xonsh__.env[" ++ q s ++ "]" := by
  simp [expandEnvName, loadChain, render]
theorem env_expr_translation (ctx : Ctx) (sp : Sp) : render (expandEnvExpr (.hole 0) ctx sp) = "__xonsh__.env[str(?0)]" := by
  simp [expandEnvExpr, xonshCall, loadChain, render, renderList]; rfl
theorem search_path_translation (s : List Nat) (sp : Sp) : render (expandSearchPath s sp) = "__xonsh__.pathsearch(" ++ q s ++ ")" := by
  simp [expandSearchPath, xonshCall, loadChain, render, renderList]
theorem pyexpr_translation (sp : Sp) : render (procPyexpr (.hole 0) sp) = "*__xonsh__.list_of_strs_or_callables(?0)" := by
  simp [procPyexpr, xonshCall, loadChain, render, renderList]; rfl
theorem proc_translation (m : String) (args : List X) (sp : Sp) : render (handleProc m args sp) = "__xonsh__." ++ m ++ "(" ++ renderList args ++ ")" := by
  simp [handleProc, xonshCall, loadChain, render]
theorem inject_translation (args : List X) (sp : Sp) : render (procInject args sp) = "*__xonsh__.subproc_captured_inject(" ++ renderList args ++ ")" := by
  simp [procInject, xonshCall, loadChain, render]
  rw [← String.toList_inj]; simp [String.toList_append]
theorem macro_call_translation (params : List (List Nat × Sp)) (sp : Sp) :
    render (macroCall (.hole 0) params sp) =
      "__xonsh__.call_macro(?0, (" ++ renderList (params.map (fun p => X.const p.1 p.2)) ++ "), globals(), locals())" := by
  simp [macroCall, xonshCall, loadChain, render, renderList]
  rw [← String.toList_inj]; simp [String.toList_append]

/-- `a?.b??` -/
example : (expandHelp [⟨.hole 0, ⟨⟨1, 0⟩, ⟨1, 1⟩⟩, some "a", false, ⟨1, 2⟩⟩, ⟨.hole 1, ⟨⟨1, 3⟩, ⟨1, 4⟩⟩, some "b", true, ⟨1, 6⟩⟩]).map render =
    some "__xonsh__.superhelp(__xonsh__.help(?0).b)" := by decide

/-- **construct_span**: every node these builders create carries the span of the whole construct -/
theorem env_name_spans (s : List Nat) (ctx : Ctx) (sp : Sp) : ∀ x ∈ spans (expandEnvName s ctx sp), x = sp := by
  simp [expandEnvName, loadChain, spans]
theorem env_expr_spans (e : X) (he : spans e = []) (ctx : Ctx) (sp : Sp) : ∀ x ∈ spans (expandEnvExpr e ctx sp), x = sp := by
  simp [expandEnvExpr, xonshCall, loadChain, spans, spansList, he]
theorem search_path_spans (s : List Nat) (sp : Sp) : ∀ x ∈ spans (expandSearchPath s sp), x = sp := by
  simp [expandSearchPath, xonshCall, loadChain, spans, spansList]
theorem pyexpr_spans (e : X) (he : spans e = []) (sp : Sp) : ∀ x ∈ spans (procPyexpr e sp), x = sp := by
  simp [procPyexpr, xonshCall, loadChain, spans, spansList, he]

/-- a help chain starts at its first atom and ends at its last mark -/
theorem help_single_span (a : HelpAtom) : ∃ f, expandHelp [a] = some (.call f [a.node] ⟨a.sp.a, a.markEnd⟩) := by
  simp [expandHelp, xonshCall]

end XV.Desugar
