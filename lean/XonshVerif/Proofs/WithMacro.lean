/-
  C07 (with-macros): what `consume_with_macro_params` captures is made of the line texts the tokenizer reports,
  each source line at most once, in the order in which the lines were first met.
-/
import XonshVerif.Model.WithMacro
namespace XV.WithMacro
open XV

/-- where a captured line can come from: the `line` attribute of a consumed token that starts on that line (whole, cut to
    its first physical line for a token that spans lines, or from the token's column on for the very first line of the
    one-line form), or a line strictly inside a token that spans three or more lines -/
def FromTok (t : WTok) (k : Nat) (v : List Nat) : Prop :=
  (k = t.start.line ∧ (v = t.line ∨ v = firstPhysical t.line ∨ v = t.line.drop t.start.col ∨ v = (firstPhysical t.line).drop t.start.col)) ∨
  (∃ off txt, txt ∈ innerLines t.str ∧ 1 ≤ off ∧ k = t.start.line + off ∧ v = txt ++ [10])

/-- every captured (line number, text) pair has a source -/
def Prov (getLine : Nat → List Nat) (toks : List WTok) (ls : List (Nat × List Nat)) : Prop :=
  ∀ kv ∈ ls, (∃ t ∈ toks, FromTok t kv.1 kv.2) ∨ kv.2 = getLine kv.1

def KeysNodup (ls : List (Nat × List Nat)) : Prop := (ls.map (·.1)).Nodup

theorem Prov.mono {g : Nat → List Nat} {a b : List WTok} {ls : List (Nat × List Nat)} (h : Prov g a ls) (hab : ∀ t ∈ a, t ∈ b) : Prov g b ls := by
  intro kv hkv
  rcases h kv hkv with ⟨t, ht, hf⟩ | h2
  · exact Or.inl ⟨t, hab t ht, hf⟩
  · exact Or.inr h2

theorem hasKey_iff (ls : List (Nat × List Nat)) (k : Nat) : hasKey ls k = true ↔ k ∈ ls.map (·.1) := by
  unfold hasKey
  simp only [List.any_eq_true, decide_eq_true_eq, List.mem_map]

theorem keysNodup_append (ls : List (Nat × List Nat)) (k : Nat) (v : List Nat) (h : KeysNodup ls) (hk : hasKey ls k = false) :
    KeysNodup (ls ++ [(k, v)]) := by
  unfold KeysNodup at *
  rw [List.map_append, List.nodup_append]
  refine ⟨h, by simp, ?_⟩
  intro a ha b hb
  simp only [List.map_cons, List.map_nil, List.mem_singleton] at hb
  subst hb
  intro hab
  subst hab
  have := (hasKey_iff ls a).mpr ha
  rw [this] at hk; cases hk

theorem setDefault_nodup (ls : List (Nat × List Nat)) (k : Nat) (v : List Nat) (h : KeysNodup ls) : KeysNodup (setDefault ls k v) := by
  unfold setDefault
  cases hk : hasKey ls k with
  | true => simpa using h
  | false => simpa using keysNodup_append ls k v h hk

theorem setDefault_prov (g : Nat → List Nat) (toks : List WTok) (ls : List (Nat × List Nat)) (k : Nat) (v : List Nat)
    (h : Prov g toks ls) (hv : (∃ t ∈ toks, FromTok t k v) ∨ v = g k) : Prov g toks (setDefault ls k v) := by
  unfold setDefault
  split
  · exact h
  · intro kv hkv
    rcases List.mem_append.mp hkv with h1 | h1
    · exact h kv h1
    · simp only [List.mem_singleton] at h1; subst h1; exact hv

theorem addInner_facts (g : Nat → List Nat) (toks : List WTok) (t : WTok) (ht : t ∈ toks) :
    ∀ (txts : List (List Nat)) (off : Nat) (ls : List (Nat × List Nat)), (∀ x ∈ txts, x ∈ innerLines t.str) → 1 ≤ off →
      KeysNodup ls → Prov g toks ls →
      KeysNodup (addInner ls t.start.line txts off) ∧ Prov g toks (addInner ls t.start.line txts off) := by
  intro txts
  induction txts with
  | nil => intro off ls _ _ h1 h2; exact ⟨h1, h2⟩
  | cons x xs ih =>
    intro off ls hmem hoff h1 h2
    simp only [addInner]
    apply ih (off + 1) _ (fun y hy => hmem y (List.mem_cons_of_mem _ hy)) (by omega) (setDefault_nodup _ _ _ h1)
    exact setDefault_prov g toks ls _ _ h2 (Or.inl ⟨t, ht, Or.inr ⟨off, x, hmem x (List.mem_cons_self), hoff, rfl, rfl⟩⟩)

theorem tail_facts (g : Nat → List Nat) (toks : List WTok) (t : WTok) (ht : t ∈ toks) (s : WS)
    (h1 : KeysNodup s.lines) (h2 : Prov g toks s.lines) : KeysNodup (tail t s).lines ∧ Prov g toks (tail t s).lines := by
  unfold tail
  simp only []
  have base : ∀ (s1 : WS), s1.lines = s.lines →
      KeysNodup (if hasKey s1.lines t.start.line then s1.lines else
        s1.lines ++ [(t.start.line, if s1.block || !s1.lines.isEmpty then (if t.start.line = t.stop.line then t.line else firstPhysical t.line)
                                    else (if t.start.line = t.stop.line then t.line else firstPhysical t.line).drop t.start.col)]) ∧
      Prov g toks (if hasKey s1.lines t.start.line then s1.lines else
        s1.lines ++ [(t.start.line, if s1.block || !s1.lines.isEmpty then (if t.start.line = t.stop.line then t.line else firstPhysical t.line)
                                    else (if t.start.line = t.stop.line then t.line else firstPhysical t.line).drop t.start.col)]) := by
    intro s1 hs1
    rw [hs1]
    cases hk : hasKey s.lines t.start.line with
    | true => simp only [if_true]; exact ⟨h1, h2⟩
    | false =>
      simp only [Bool.false_eq_true, if_false]
      refine ⟨keysNodup_append _ _ _ h1 hk, ?_⟩
      intro kv hkv
      rcases List.mem_append.mp hkv with h3 | h3
      · exact h2 kv h3
      · simp only [List.mem_singleton] at h3
        subst h3
        refine Or.inl ⟨t, ht, Or.inl ⟨rfl, ?_⟩⟩
        simp only []
        by_cases hb : (s1.block || !s.lines.isEmpty) = true <;> by_cases hl : t.start.line = t.stop.line <;> simp [hb, hl]
  have hb1 := base (if t.ty = .NL || t.ty = .COMMENT then s else { s with bodyStarted := true }) (by split <;> rfl)
  split
  · exact addInner_facts g toks t ht _ 1 _ (fun x hx => hx) (Nat.le_refl _) hb1.1 hb1.2
  · exact hb1

theorem step_facts (g : Nat → List Nat) (toks : List WTok) (idx : Nat) (t : WTok) (ht : t ∈ toks) (s : WS)
    (h1 : KeysNodup s.lines) (h2 : Prov g toks s.lines) :
    KeysNodup (step g idx t s).1.lines ∧ Prov g toks (step g idx t s).1.lines := by
  unfold step
  split
  · exact ⟨h1, h2⟩
  · split
    · split
      · exact ⟨h1, h2⟩
      · exact tail_facts g toks t ht _ h1 h2
    · split
      · split
        · exact ⟨h1, h2⟩
        · exact ⟨h1, h2⟩
      · split
        · -- NEWLINE: possibly the last line of a string that began earlier
          have hs1 : KeysNodup (nlState g t s).lines ∧ Prov g toks (nlState g t s).lines := by
            unfold nlState
            split
            · rename_i hc
              simp only [Bool.and_eq_true, Bool.not_eq_true'] at hc
              refine ⟨keysNodup_append _ _ _ h1 hc.2, ?_⟩
              intro kv hkv
              rcases List.mem_append.mp hkv with h3 | h3
              · exact h2 kv h3
              · simp only [List.mem_singleton] at h3
                subst h3
                by_cases he : t.line.isEmpty = true
                · right; simp [he]
                · left; exact ⟨t, ht, Or.inl ⟨rfl, Or.inl (by simp [he])⟩⟩
            · exact ⟨h1, h2⟩
          split
          · exact hs1
          · split
            · exact hs1
            · exact tail_facts g toks t ht _ hs1.1 hs1.2
        · exact tail_facts g toks t ht _ h1 h2

/-- **with_macro_lines_verbatim.**  Whatever tokens the generator delivers: every line of the captured body is the text the
    tokenizer attached to a consumed token that starts on that line (`tok.line`, cut to its first physical line for a token
    spanning lines; from the token's own column on for the first line of the one-line form), or a line strictly inside a
    consumed multi-line token, or - for the final line of a string that ends the input - what `get_lines` returns for it;
    and no line number is captured twice. -/
theorem with_macro_lines_verbatim (g : Nat → List Nat) (all : List WTok) :
    ∀ (gen : List WTok) (idx : Nat) (s : WS), (∀ t ∈ gen, t ∈ all) → KeysNodup s.lines → Prov g all s.lines →
      KeysNodup (loop g gen idx s).1.lines ∧ Prov g all (loop g gen idx s).1.lines := by
  intro gen
  induction gen with
  | nil => intro idx s _ h1 h2; exact ⟨h1, h2⟩
  | cons t ts ih =>
    intro idx s hall h1 h2
    have hst := step_facts g all idx t (hall t (List.mem_cons_self)) s h1 h2
    simp only [loop]
    cases hstep : step g idx t s with
    | mk s1 c =>
      rw [hstep] at hst
      cases c with
      | go => exact ih (idx + 1) s1 (fun x hx => hall x (List.mem_cons_of_mem _ hx)) hst.1 hst.2
      | stop b => exact hst

end XV.WithMacro

namespace XV.WithMacro
/-! Non-vacuity: the raw tokens after `with! a:` in `with! a:⏎    x⏎    y⏎z⏎` - NEWLINE INDENT x NEWLINE y NEWLINE DEDENT z.  The loop
    consumes seven tokens (up to the DEDENT), clears the flag, and the captured body is the two block lines, dedented. -/
def l2 : List Nat := [32, 32, 32, 32, 120, 10]
def l3 : List Nat := [32, 32, 32, 32, 121, 10]
def exToks : List WTok := [
  ⟨.NEWLINE, [10], ⟨1, 8⟩, ⟨1, 9⟩, [119, 105, 116, 104, 33, 32, 97, 58, 10]⟩,
  ⟨.INDENT, [32, 32, 32, 32], ⟨2, 0⟩, ⟨2, 4⟩, l2⟩, ⟨.NAME, [120], ⟨2, 4⟩, ⟨2, 5⟩, l2⟩, ⟨.NEWLINE, [10], ⟨2, 5⟩, ⟨2, 6⟩, l2⟩,
  ⟨.NAME, [121], ⟨3, 4⟩, ⟨3, 5⟩, l3⟩, ⟨.NEWLINE, [10], ⟨3, 5⟩, ⟨3, 6⟩, l3⟩,
  ⟨.DEDENT, [], ⟨4, 0⟩, ⟨4, 0⟩, [122, 10]⟩, ⟨.NAME, [122], ⟨4, 0⟩, ⟨4, 1⟩, [122, 10]⟩]
example : consumeWithMacro (fun _ => []) exToks = ([120, 10, 121, 10], 7, true) := by decide +kernel
example : (loop (fun _ => []) exToks 0 {}).1.lines = [(2, l2), (3, l3)] := by decide +kernel
/-- `textwrap.dedent` on a block with a deeper line and a whitespace-only line -/
example : dedent [32, 32, 97, 10, 32, 32, 32, 32, 98, 10, 32, 9, 10, 32, 32, 99, 10] = [97, 10, 32, 32, 98, 10, 10, 99, 10] := by decide +kernel
end XV.WithMacro
