/-
  C17 - the recogniser model against a DECLARATIVE semantics of parsing expression grammars (ordered choice, sequence with
  optional items, greedy `*` / `+`, separated lists, look-aheads, cut, forced items, memoisation transparent), for the
  fragment without left recursion, `invalid_` guards and falsy actions: whatever `execRule` answers (without running out of
  fuel or raising) is derivable in the semantics.  Soundness of the interpreter - and of packrat memoisation - by induction
  on fuel; positions come from `rule_consumes_exactly_its_match`.
-/
import XonshVerif.Proofs.PegConsume
namespace XV.Peg

/-- the token test of a leaf primitive -/
def leafTest : Prim → Option (RTok → Bool)
  | .expect sid => some (fun t => t.strId = sid)
  | .token ty => some (fun t => t.ty = ty)
  | .name => some (fun t => t.ty = .NAME && !t.isKw)
  | .keyword => some (fun t => t.ty = .NAME && t.isKw)
  | .softKeyword => some (fun t => t.ty = .NAME && t.isSoft)
  | .anyToken => some (fun _ => true)
  | .rule _ => none

section
variable (prog : Prog) (w : Array RTok)

mutual
/-- `SPrim q p r`: primitive `q` at position `p` succeeds ending at `e` (`r = some e`) or fails (`r = none`) -/
inductive SPrim : Prim → Nat → Option Nat → Prop
  | hit (q : Prim) (test : RTok → Bool) (p : Nat) (t : RTok) : leafTest q = some test → w[p]? = some t → test t = true → SPrim q p (some (p + 1))
  | miss (q : Prim) (test : RTok → Bool) (p : Nat) (t : RTok) : leafTest q = some test → w[p]? = some t → test t = false → SPrim q p none
  | rule (id p : Nat) (r : Option Nat) : SRule id p r → SPrim (.rule id) p r
inductive SRule : Nat → Nat → Option Nat → Prop
  | mk (id p : Nat) (r : Option Nat) (rule : Rule) : prog[id]? = some rule → SBody rule.body p r → SRule id p r
inductive SBody : Body → Nat → Option Nat → Prop
  | seqAlts (ps : List Prim) (p : Nat) (r : Option Nat) : SSeq ps p r → SBody (.seqAlts ps) p r
  | alts (as : List Alt) (wo ul : Bool) (p : Nat) (r : Option Nat) : SAlts as p r → SBody (.alts as wo ul) p r
/-- ordered choice of primitives -/
inductive SSeq : List Prim → Nat → Option Nat → Prop
  | nil (p : Nat) : SSeq [] p none
  | hit (q : Prim) (qs : List Prim) (p e : Nat) : SPrim q p (some e) → SSeq (q :: qs) p (some e)
  | miss (q : Prim) (qs : List Prim) (p : Nat) (r : Option Nat) : SPrim q p none → SSeq qs p r → SSeq (q :: qs) p r
/-- ordered choice of alternatives, with cut -/
inductive SAlts : List Alt → Nat → Option Nat → Prop
  | nil (p : Nat) : SAlts [] p none
  | hit (a : Alt) (as : List Alt) (p e : Nat) (c : Bool) : SItems a.items p false (some e) c → SAlts (a :: as) p (some e)
  | cut (a : Alt) (as : List Alt) (p : Nat) : SItems a.items p false none true → SAlts (a :: as) p none
  | miss (a : Alt) (as : List Alt) (p : Nat) (r : Option Nat) : SItems a.items p false none false → SAlts as p r → SAlts (a :: as) p r
/-- a sequence of items from `p` with the cut flag `c` so far: the end (or failure) and the cut flag at that point -/
inductive SItems : List AltItem → Nat → Bool → Option Nat → Bool → Prop
  | nil (p : Nat) (c : Bool) : SItems [] p c (some p) c
  | setCut (o : Bool) (its : List AltItem) (p : Nat) (c : Bool) (r : Option Nat) (c' : Bool) : SItems its p true r c' → SItems (⟨.setCut, o⟩ :: its) p c r c'
  | ok (it : AltItem) (its : List AltItem) (p q : Nat) (c : Bool) (r : Option Nat) (c' : Bool) :
      it.item ≠ .setCut → SItem it.item p (some q) → SItems its q c r c' → SItems (it :: its) p c r c'
  | skip (it : AltItem) (its : List AltItem) (p : Nat) (c : Bool) (r : Option Nat) (c' : Bool) :
      it.item ≠ .setCut → it.opt = true → SItem it.item p none → SItems its p c r c' → SItems (it :: its) p c r c'
  | fail (it : AltItem) (its : List AltItem) (p : Nat) (c : Bool) :
      it.item ≠ .setCut → it.opt = false → SItem it.item p none → SItems (it :: its) p c none c
inductive SItem : Item → Nat → Option Nat → Prop
  | call (q : Prim) (p : Nat) (r : Option Nat) : SPrim q p r → SItem (.call q) p r
  | seqAlts (ps : List Prim) (p : Nat) (r : Option Nat) : SSeq ps p r → SItem (.seqAlts ps) p r
  | plusOk (q : Prim) (p n e : Nat) : SStar q p (n + 1) e → SItem (.repeated q) p (some e)
  | plusFail (q : Prim) (p : Nat) : SStar q p 0 p → SItem (.repeated q) p none
  | gatherOk (el sp : Prim) (p q n e : Nat) : SSeq [el] p (some q) → SSep el sp q n e → SItem (.gathered el sp) p (some e)
  | gatherFail (el sp : Prim) (p : Nat) : SSeq [el] p none → SItem (.gathered el sp) p none
  | posOk (q : Prim) (p e : Nat) : SPrim q p (some e) → SItem (.posLook q) p (some p)
  | posFail (q : Prim) (p : Nat) : SPrim q p none → SItem (.posLook q) p none
  | negOk (q : Prim) (p : Nat) : SPrim q p none → SItem (.negLook q) p (some p)
  | negFail (q : Prim) (p e : Nat) : SPrim q p (some e) → SItem (.negLook q) p none
  | forced (q : Prim) (what : Nat) (p e : Nat) : SPrim q p (some e) → SItem (.forced q what) p (some e)
/-- greedy repetition from `p`: `n` successes, ending at `e` (where the next attempt fails) -/
inductive SStar : Prim → Nat → Nat → Nat → Prop
  | stop (q : Prim) (p : Nat) : SPrim q p none → SStar q p 0 p
  | step (q : Prim) (p e n e' : Nat) : SPrim q p (some e) → SStar q e n e' → SStar q p (n + 1) e'
/-- `(sep elem)*` after a first element -/
inductive SSep : Prim → Prim → Nat → Nat → Nat → Prop
  | stopSep (el sp : Prim) (p : Nat) : SPrim sp p none → SSep el sp p 0 p
  | stopElem (el sp : Prim) (p q : Nat) : SPrim sp p (some q) → SSeq [el] q none → SSep el sp p 0 p
  | step (el sp : Prim) (p q r n e : Nat) : SPrim sp p (some q) → SSeq [el] q (some r) → SSep el sp r n e → SSep el sp p (n + 1) e
end
end


/-- what a result claims in the semantics -/
def Snd (P : Option Nat → Prop) (res : Res) : Prop := (∀ e, res = .ok e → P (some e)) ∧ (∀ m, res = .fail m → P none)

theorem Snd.ofOk {P : Option Nat → Prop} {e : Nat} (h : P (some e)) : Snd P (.ok e) :=
  ⟨(fun e' he => by injection he with he; rw [← he]; exact h), (fun m hm => by cases hm)⟩
theorem Snd.ofFail {P : Option Nat → Prop} {m : Nat} (h : P none) : Snd P (.fail m) :=
  ⟨(fun e' he => by cases he), (fun m' hm => h)⟩
theorem Snd.abort {P : Option Nat → Prop} {res : Res} (ha : res.isAbort = true) : Snd P res := by
  refine ⟨?_, ?_⟩
  · intro e he; subst he; simp [Res.isAbort] at ha
  · intro m hm; subst hm; simp [Res.isAbort] at ha

/-- every memo entry is what the semantics derives -/
def CSound (prog : Prog) (w : Array RTok) (s : St) : Prop := ∀ p id r, cacheGet s.cache p id = some r → Snd (SRule prog w id p) r

def itemPlain : Item → Bool
  | .guardInvalid => false
  | _ => true

def PlainBody : Body → Prop
  | .alts as _ _ => ∀ a ∈ as, actNF a.act = true ∧ ∀ it ∈ a.items, itemPlain it.item = true
  | _ => True

/-- the fragment: no left-recursive rule, no `invalid_` guard, no falsy action -/
def Plain (prog : Prog) : Prop := ∀ (id : Nat) (r : Rule), prog[id]? = some r → r.deco ≠ .leftrec ∧ PlainBody r.body

theorem Plain.noFalsy {prog : Prog} (h : Plain prog) : NoFalsy prog := by
  intro id r hr
  have := (h id r hr).2
  unfold PlainBody at this
  unfold BodyNF
  split
  · rename_i as wo ul hb
    rw [hb] at this
    exact fun a ha => (this a ha).1
  · trivial

theorem cSound_of_eq {prog : Prog} {w : Array RTok} {s s' : St} (h : s'.cache = s.cache) (hs : CSound prog w s) : CSound prog w s' := by
  unfold CSound at *; rw [h]; exact hs

theorem cSound_put {prog : Prog} {w : Array RTok} {s : St} (hs : CSound prog w s) (p i : Nat) (r : Res) (hr : Snd (SRule prog w i p) r) (s' : St)
    (h : s'.cache = cachePut s.cache p i r) : CSound prog w s' := by
  intro p' i' r' hg
  rw [h, cacheGet_cachePut] at hg
  split at hg
  · rename_i hc
    injection hg with hg
    rw [← hg, hc.1, hc.2.1]; exact hr
  · exact hs p' i' r' hg

variable {prog : Prog}

structure SpecInv (prog : Prog) (w : Array RTok) (fuel : Nat) : Prop where
  prim : ∀ p s, CacheOK s → CSound prog w s → Snd (SPrim prog w p s.pos) (execPrim prog w fuel p s).1 ∧ CSound prog w (execPrim prog w fuel p s).2
  rule : ∀ id s, CacheOK s → CSound prog w s → Snd (SRule prog w id s.pos) (execRule prog w fuel id s).1 ∧ CSound prog w (execRule prog w fuel id s).2
  body : ∀ rid b s, PlainBody b → CacheOK s → CSound prog w s → Snd (SBody prog w b s.pos) (execBody prog w fuel rid b s).1 ∧ CSound prog w (execBody prog w fuel rid b s).2
  seqAlts : ∀ ps mark s, s.pos = mark → CacheOK s → CSound prog w s → Snd (SSeq prog w ps mark) (execSeqAlts prog w fuel ps mark s).1 ∧ CSound prog w (execSeqAlts prog w fuel ps mark s).2
  alts : ∀ rid idx as mark s, (∀ a ∈ as, actNF a.act = true ∧ ∀ it ∈ a.items, itemPlain it.item = true) → s.pos = mark → CacheOK s → CSound prog w s →
          Snd (SAlts prog w as mark) (execAlts prog w fuel rid idx as mark s).1 ∧ CSound prog w (execAlts prog w fuel rid idx as mark s).2
  items : ∀ its cut oks s, (∀ it ∈ its, itemPlain it.item = true) → CacheOK s → CSound prog w s →
          CSound prog w (execItems prog w fuel its cut oks s).2.2.2.1 ∧ CacheOK (execItems prog w fuel its cut oks s).2.2.2.1 ∧
          ((execItems prog w fuel its cut oks s).2.2.1.isAbort = false →
            ((execItems prog w fuel its cut oks s).1 = true → SItems prog w its s.pos cut (some (execItems prog w fuel its cut oks s).2.2.2.1.pos) (execItems prog w fuel its cut oks s).2.1) ∧
            ((execItems prog w fuel its cut oks s).1 = false → SItems prog w its s.pos cut none (execItems prog w fuel its cut oks s).2.1))
  item : ∀ it s, itemPlain it = true → it ≠ .setCut → CacheOK s → CSound prog w s → Snd (SItem prog w it s.pos) (execItem prog w fuel it s).1 ∧ CSound prog w (execItem prog w fuel it s).2
  rep : ∀ p mark n s, s.pos = mark → CacheOK s → CSound prog w s →
          CSound prog w (execRepeat prog w fuel p mark n s).2.2 ∧ CacheOK (execRepeat prog w fuel p mark n s).2.2 ∧
          ((execRepeat prog w fuel p mark n s).2.1.isAbort = false →
            ∃ k, (execRepeat prog w fuel p mark n s).1 = n + k ∧ SStar prog w p mark k (execRepeat prog w fuel p mark n s).2.2.pos)
  sepRep : ∀ e sp mark n s, s.pos = mark → CacheOK s → CSound prog w s →
          CSound prog w (execSepRepeat prog w fuel e sp mark n s).2.2 ∧ CacheOK (execSepRepeat prog w fuel e sp mark n s).2.2 ∧
          ((execSepRepeat prog w fuel e sp mark n s).2.1.isAbort = false →
            ∃ k, SSep prog w e sp mark k (execSepRepeat prog w fuel e sp mark n s).2.2.pos)

theorem specInv_zero (w : Array RTok) : SpecInv prog w 0 := by
  refine ⟨?_, ?_, ?_, ?_, ?_, ?_, ?_, ?_, ?_⟩
  · intro p s _ hs; simp only [execPrim]; exact ⟨Snd.abort rfl, hs⟩
  · intro id s _ hs; simp only [execRule]; exact ⟨Snd.abort rfl, hs⟩
  · intro rid b s _ _ hs; simp only [execBody]; exact ⟨Snd.abort rfl, hs⟩
  · intro ps mark s _ _ hs; simp only [execSeqAlts]; exact ⟨Snd.abort rfl, hs⟩
  · intro rid idx as mark s _ _ _ hs; simp only [execAlts]; exact ⟨Snd.abort rfl, hs⟩
  · intro its cut oks s _ hc hs; simp only [execItems]; exact ⟨hs, hc, (fun h => by simp [Res.isAbort] at h)⟩
  · intro it s _ _ _ hs; simp only [execItem]; exact ⟨Snd.abort rfl, hs⟩
  · intro p mark n s _ hc hs; simp only [execRepeat]; exact ⟨hs, hc, (fun h => by simp [Res.isAbort] at h)⟩
  · intro e sp mark n s _ hc hs; simp only [execSepRepeat]; exact ⟨hs, hc, (fun h => by simp [Res.isAbort] at h)⟩


theorem leaf_spec (w : Array RTok) (q : Prim) (test : RTok → Bool) (s : St) (hq : leafTest q = some test) :
    Snd (SPrim prog w q s.pos) (leaf w test s).1 ∧ (leaf w test s).2.cache = s.cache := by
  unfold leaf peekTok
  cases ht : w[s.pos]? with
  | none => exact ⟨Snd.abort rfl, rfl⟩
  | some t =>
    simp only []
    cases htest : test t with
    | true => simp only [if_true]; exact ⟨Snd.ofOk (SPrim.hit q test s.pos t hq ht htest), by first | rfl | trivial⟩
    | false => simp only [Bool.false_eq_true, if_false]; exact ⟨Snd.ofFail (SPrim.miss q test s.pos t hq ht htest), by first | rfl | trivial⟩

theorem execItems_cons_generic (w : Array RTok) (fuel : Nat) (it : AltItem) (its : List AltItem) (cut : Bool) (oks : List Bool) (s : St)
    (h1 : it.item ≠ .setCut) (h2 : it.item ≠ .guardInvalid) :
    execItems prog w (fuel + 1) (it :: its) cut oks s =
      (if (execItem prog w fuel it.item s).1.isAbort then (false, cut, (execItem prog w fuel it.item s).1, (execItem prog w fuel it.item s).2, oks)
       else if (execItem prog w fuel it.item s).1.isOk || it.opt then execItems prog w fuel its cut ((execItem prog w fuel it.item s).1.isOk :: oks) (execItem prog w fuel it.item s).2
       else (false, cut, (execItem prog w fuel it.item s).1, (execItem prog w fuel it.item s).2, oks)) := by
  cases hi : it.item <;> simp_all [execItems]

theorem sstar_zero {prog : Prog} {w : Array RTok} {q : Prim} {p e : Nat}
    (h : SStar prog w q p 0 e) : e = p := by
  generalize hk : 0 = k at h
  cases h with
  | stop => rfl
  | step => cases hk

theorem specInv_succ (w : Array RTok) (hpl : Plain prog) (fuel : Nat) (ih : SpecInv prog w fuel) : SpecInv prog w (fuel + 1) := by
  have hcons := consInv (prog := prog) w hpl.noFalsy fuel
  refine ⟨?prim, ?rule, ?body, ?seqAlts, ?alts, ?items, ?item, ?rep, ?sepRep⟩
  case prim =>
    intro p s hc hs
    cases p with
    | rule id =>
      simp only [execPrim]
      obtain ⟨a, b⟩ := ih.rule id s hc hs
      exact ⟨⟨(fun e he => SPrim.rule id s.pos _ (a.1 e he)), (fun m hm => SPrim.rule id s.pos _ (a.2 m hm))⟩, b⟩
    | expect sid => simp only [execPrim]; obtain ⟨a, b⟩ := leaf_spec (prog := prog) w (.expect sid) _ s rfl; exact ⟨a, cSound_of_eq b hs⟩
    | token ty => simp only [execPrim]; obtain ⟨a, b⟩ := leaf_spec (prog := prog) w (.token ty) _ s rfl; exact ⟨a, cSound_of_eq b hs⟩
    | name => simp only [execPrim]; obtain ⟨a, b⟩ := leaf_spec (prog := prog) w .name _ s rfl; exact ⟨a, cSound_of_eq b hs⟩
    | keyword => simp only [execPrim]; obtain ⟨a, b⟩ := leaf_spec (prog := prog) w .keyword _ s rfl; exact ⟨a, cSound_of_eq b hs⟩
    | softKeyword => simp only [execPrim]; obtain ⟨a, b⟩ := leaf_spec (prog := prog) w .softKeyword _ s rfl; exact ⟨a, cSound_of_eq b hs⟩
    | anyToken =>
      simp only [execPrim]
      cases ht : w[s.pos]? with
      | none => exact ⟨Snd.abort rfl, hs⟩
      | some t => exact ⟨Snd.ofOk (SPrim.hit .anyToken (fun _ => true) s.pos t rfl ht rfl), cSound_of_eq rfl hs⟩
  case rule =>
    intro id s hc hs
    simp only [execRule]
    cases hr : prog[id]? with
    | none => exact ⟨Snd.abort rfl, hs⟩
    | some r =>
      obtain ⟨hnl, hb⟩ := hpl id r hr
      simp only []
      have lift : ∀ res, Snd (SBody prog w r.body s.pos) res → Snd (SRule prog w id s.pos) res := fun res h =>
        ⟨(fun e he => SRule.mk id s.pos _ r hr (h.1 e he)), (fun m hm => SRule.mk id s.pos _ r hr (h.2 m hm))⟩
      cases hd : r.deco with
      | none => simp only []; obtain ⟨a, b⟩ := ih.body id r.body s hb hc hs; exact ⟨lift _ a, b⟩
      | logger => simp only []; obtain ⟨a, b⟩ := ih.body id r.body s hb hc hs; exact ⟨lift _ a, b⟩
      | leftrec => exact absurd hd hnl
      | memo =>
        simp only []
        cases hcg : cacheGet s.cache s.pos id with
        | some v =>
          have hv := hs s.pos id v hcg
          cases v with
          | ok e => exact ⟨hv, cSound_of_eq rfl hs⟩
          | fail e => exact ⟨hv, cSound_of_eq rfl hs⟩
          | raised => exact ⟨Snd.abort rfl, hs⟩
          | undecided => exact ⟨Snd.abort rfl, hs⟩
          | tokErr => exact ⟨Snd.abort rfl, hs⟩
          | outOfFuel => exact ⟨Snd.abort rfl, hs⟩
        | none =>
          simp only []
          obtain ⟨a, b⟩ := ih.body id r.body s hb hc hs
          have hcl := hcons.body id r.body s (hpl.noFalsy id r hr) hc
          generalize execBody prog w fuel id r.body s = rb at a b hcl
          obtain ⟨res, s1⟩ := rb
          simp only [] at a b hcl ⊢
          cases ha : res.isAbort with
          | true => simp only [if_true]; exact ⟨Snd.abort ha, b⟩
          | false =>
            simp only [Bool.false_eq_true, if_false]
            rcases isAbort_false_cases ha with ⟨e, rfl⟩ | ⟨m, rfl⟩
            · refine ⟨lift _ a, cSound_put b s.pos id _ ?_ _ rfl⟩
              rw [hcl.1 e rfl]; exact lift _ a
            · refine ⟨lift _ a, cSound_put b s.pos id _ ?_ _ rfl⟩
              exact Snd.ofFail ((lift _ a).2 m rfl)
  case body =>
    intro rid b s hb hc hs
    cases b with
    | unmodelled => simp only [execBody]; exact ⟨Snd.abort rfl, hs⟩
    | seqAlts ps =>
      simp only [execBody]
      obtain ⟨a, b⟩ := ih.seqAlts ps s.pos s rfl hc hs
      exact ⟨⟨(fun e he => SBody.seqAlts ps s.pos _ (a.1 e he)), (fun m hm => SBody.seqAlts ps s.pos _ (a.2 m hm))⟩, b⟩
    | alts as wo usesLoc =>
      simp only [execBody]
      cases hE : bodyEntry w wo usesLoc s with
      | none => exact ⟨Snd.abort rfl, hs⟩
      | some sB =>
        simp only []
        obtain ⟨e1, e2⟩ := bodyEntry_same w wo usesLoc s sB hE
        obtain ⟨a, b⟩ := ih.alts rid 0 as sB.pos sB hb rfl (cacheOK_of_eq e2 hc) (cSound_of_eq e2 hs)
        obtain ⟨_, x2⟩ := bodyExit_same wo s.invalid (execAlts prog w fuel rid 0 as sB.pos sB).1 (execAlts prog w fuel rid 0 as sB.pos sB).2
        have a' : Snd (SAlts prog w as s.pos) (execAlts prog w fuel rid 0 as sB.pos sB).1 := by rw [← e1]; exact a
        exact ⟨⟨(fun e he => SBody.alts as wo usesLoc s.pos _ (a'.1 e he)), (fun m hm => SBody.alts as wo usesLoc s.pos _ (a'.2 m hm))⟩, cSound_of_eq x2 b⟩
  case seqAlts =>
    intro ps mark s hpos hc hs
    cases ps with
    | nil => simp only [execSeqAlts]; exact ⟨Snd.ofFail (SSeq.nil mark), hs⟩
    | cons q qs =>
      simp only [execSeqAlts]
      obtain ⟨a, b⟩ := ih.prim q s hc hs
      have hcl := hcons.prim q s hc
      generalize execPrim prog w fuel q s = rp at a b hcl
      obtain ⟨res, s1⟩ := rp
      simp only [] at a b hcl ⊢
      rw [hpos] at a
      cases ha : res.isAbort with
      | true => simp only [if_true]; exact ⟨Snd.abort ha, b⟩
      | false =>
        simp only [Bool.false_eq_true, if_false]
        rcases isAbort_false_cases ha with ⟨e, rfl⟩ | ⟨m, rfl⟩
        · simp only []; exact ⟨Snd.ofOk (SSeq.hit q qs mark e (a.1 e rfl)), b⟩
        · simp only []
          obtain ⟨a2, b2⟩ := ih.seqAlts qs mark (s1.reset mark) rfl (cacheOK_of_eq rfl hcl.2.2) (cSound_of_eq rfl b)
          exact ⟨⟨(fun e he => SSeq.miss q qs mark _ (a.2 m rfl) (a2.1 e he)), (fun m' hm' => SSeq.miss q qs mark _ (a.2 m rfl) (a2.2 m' hm'))⟩, b2⟩
  case alts =>
    intro rid idx as mark s hacts hpos hc hs
    cases as with
    | nil => simp only [execAlts]; exact ⟨Snd.ofFail (SAlts.nil mark), hs⟩
    | cons a as =>
      simp only [execAlts]
      obtain ⟨hact, hitems⟩ := hacts a (by simp)
      obtain ⟨i1, i2, i3⟩ := ih.items a.items false [] s hitems hc hs
      generalize execItems prog w fuel a.items false [] s = ri at i1 i2 i3
      obtain ⟨ok, cut, res, s0, oks⟩ := ri
      simp only [] at i1 i2 i3 ⊢
      rw [hpos] at i3
      cases ha : res.isAbort with
      | true => simp only [if_true]; exact ⟨Snd.abort ha, i1⟩
      | false =>
        simp only [Bool.false_eq_true, if_false]
        obtain ⟨j1, j2⟩ := i3 ha
        cases ok with
        | true =>
          simp only [if_true]
          have hhit : SAlts prog w (a :: as) mark (some s0.pos) := SAlts.hit a as mark s0.pos cut (j1 rfl)
          cases hk : a.act with
          | truthy => exact ⟨Snd.ofOk hhit, cSound_of_eq rfl i1⟩
          | none => rw [hk] at hact; cases hact
          | raises => exact ⟨Snd.abort rfl, cSound_of_eq rfl i1⟩
          | mayRaise => exact ⟨Snd.ofOk hhit, cSound_of_eq rfl i1⟩
          | viaItem i => rw [hk] at hact; cases hact
          | unknown => exact ⟨Snd.abort rfl, cSound_of_eq rfl i1⟩
          | gate m => exact ⟨Snd.ofOk hhit, cSound_of_eq rfl i1⟩
        | false =>
          simp only [Bool.false_eq_true, if_false]
          have hmiss := j2 rfl
          cases cut with
          | true => simp only [if_true]; exact ⟨Snd.ofFail (SAlts.cut a as mark hmiss), cSound_of_eq rfl i1⟩
          | false =>
            simp only [Bool.false_eq_true, if_false]
            obtain ⟨a2, b2⟩ := ih.alts rid (idx + 1) as mark (s0.reset mark) (fun a' ha' => hacts a' (List.mem_cons_of_mem _ ha')) rfl (cacheOK_of_eq rfl i2) (cSound_of_eq rfl i1)
            exact ⟨⟨(fun e he => SAlts.miss a as mark _ hmiss (a2.1 e he)), (fun m hm => SAlts.miss a as mark _ hmiss (a2.2 m hm))⟩, b2⟩
  case items =>
    intro its cut oks s hpl' hc hs
    cases its with
    | nil =>
      simp only [execItems]
      exact ⟨hs, hc, (fun _ => ⟨(fun _ => SItems.nil s.pos cut), (fun h => by cases h)⟩)⟩
    | cons it its =>
      have hrest : ∀ it' ∈ its, itemPlain it'.item = true := fun it' h' => hpl' it' (List.mem_cons_of_mem _ h')
      have hit : itemPlain it.item = true := hpl' it (by simp)
      by_cases hsc : it.item = .setCut
      · have heq : execItems prog w (fuel + 1) (it :: its) cut oks s = execItems prog w fuel its true (true :: oks) s := by
          simp only [execItems, hsc]
        rw [heq]
        obtain ⟨k1, k2, k3⟩ := ih.items its true (true :: oks) s hrest hc hs
        refine ⟨k1, k2, fun ha => ?_⟩
        obtain ⟨l1, l2⟩ := k3 ha
        have hcons' : it = ⟨.setCut, it.opt⟩ := by cases it; simp_all
        rw [hcons']
        exact ⟨(fun h => SItems.setCut it.opt its s.pos cut _ _ (l1 h)), (fun h => SItems.setCut it.opt its s.pos cut _ _ (l2 h))⟩
      · have hng : it.item ≠ .guardInvalid := by intro hg; rw [hg] at hit; cases hit
        rw [execItems_cons_generic (prog := prog) w fuel it its cut oks s hsc hng]
        obtain ⟨a, b⟩ := ih.item it.item s hit hsc hc hs
        have hcl := hcons.item it.item s hc
        generalize execItem prog w fuel it.item s = rp at a b hcl
        obtain ⟨res, s1⟩ := rp
        simp only [] at a b hcl ⊢
        cases ha : res.isAbort with
        | true => simp only [if_true]; exact ⟨b, hcl.2.2, (fun h => by rw [ha] at h; cases h)⟩
        | false =>
          simp only [Bool.false_eq_true, if_false]
          rcases isAbort_false_cases ha with ⟨e, rfl⟩ | ⟨m, rfl⟩
          · -- the item matched: go on from e
            simp only [Res.isOk, Bool.true_or, if_true]
            obtain ⟨k1, k2, k3⟩ := ih.items its cut (true :: oks) s1 hrest hcl.2.2 b
            refine ⟨k1, k2, fun ha' => ?_⟩
            obtain ⟨l1, l2⟩ := k3 ha'
            have hp1 : s1.pos = e := hcl.1 e rfl
            rw [hp1] at l1 l2
            exact ⟨(fun h => SItems.ok it its s.pos e cut _ _ hsc (a.1 e rfl) (l1 h)), (fun h => SItems.ok it its s.pos e cut _ _ hsc (a.1 e rfl) (l2 h))⟩
          · simp only [Res.isOk, Bool.false_or]
            have hp1 : s1.pos = s.pos := hcl.2.1 m rfl
            cases hopt : it.opt with
            | true =>
              simp only [if_true]
              obtain ⟨k1, k2, k3⟩ := ih.items its cut (false :: oks) s1 hrest hcl.2.2 b
              refine ⟨k1, k2, fun ha' => ?_⟩
              obtain ⟨l1, l2⟩ := k3 ha'
              rw [hp1] at l1 l2
              exact ⟨(fun h => SItems.skip it its s.pos cut _ _ hsc hopt (a.2 m rfl) (l1 h)), (fun h => SItems.skip it its s.pos cut _ _ hsc hopt (a.2 m rfl) (l2 h))⟩
            | false =>
              simp only [Bool.false_eq_true, if_false]
              exact ⟨b, hcl.2.2, (fun _ => ⟨(fun h => by cases h), (fun _ => SItems.fail it its s.pos cut hsc hopt (a.2 m rfl))⟩)⟩
  case item =>
    intro it s hit hnc hc hs
    cases it with
    | call q =>
      simp only [execItem]
      obtain ⟨a, b⟩ := ih.prim q s hc hs
      exact ⟨⟨(fun e he => SItem.call q s.pos _ (a.1 e he)), (fun m hm => SItem.call q s.pos _ (a.2 m hm))⟩, b⟩
    | seqAlts ps =>
      simp only [execItem]
      obtain ⟨a, b⟩ := ih.seqAlts ps s.pos s rfl hc hs
      exact ⟨⟨(fun e he => SItem.seqAlts ps s.pos _ (a.1 e he)), (fun m hm => SItem.seqAlts ps s.pos _ (a.2 m hm))⟩, b⟩
    | repeated q =>
      simp only [execItem]
      obtain ⟨r1, r2, r3⟩ := ih.rep q s.pos 0 s rfl hc hs
      generalize execRepeat prog w fuel q s.pos 0 s = rr at r1 r2 r3
      obtain ⟨n, res, s1⟩ := rr
      simp only [] at r1 r2 r3 ⊢
      cases ha : res.isAbort with
      | true => simp only [if_true]; exact ⟨Snd.abort ha, r1⟩
      | false =>
        simp only [Bool.false_eq_true, if_false]
        obtain ⟨k, hk, hstar⟩ := r3 ha
        simp only [Nat.zero_add] at hk
        subst hk
        split
        · rename_i hn
          subst hn
          have : s1.pos = s.pos := sstar_zero hstar
          rw [this] at hstar ⊢
          exact ⟨Snd.ofFail (SItem.plusFail q s.pos hstar), r1⟩
        · rename_i hn
          obtain ⟨k', rfl⟩ : ∃ k', n = k' + 1 := ⟨n - 1, by omega⟩
          exact ⟨Snd.ofOk (SItem.plusOk q s.pos k' s1.pos hstar), r1⟩
    | gathered el sp =>
      simp only [execItem]
      obtain ⟨a, b⟩ := ih.seqAlts [el] s.pos s rfl hc hs
      have hcl := hcons.seqAlts [el] s.pos s rfl hc
      generalize execSeqAlts prog w fuel [el] s.pos s = r1 at a b hcl
      obtain ⟨res, s1⟩ := r1
      simp only [] at a b hcl ⊢
      cases ha : res.isAbort with
      | true => simp only [if_true]; exact ⟨Snd.abort ha, b⟩
      | false =>
        simp only [Bool.false_eq_true, if_false]
        rcases isAbort_false_cases ha with ⟨e, rfl⟩ | ⟨m, rfl⟩
        · simp only []
          have hp1 : s1.pos = e := hcl.1 e rfl
          obtain ⟨q1, q2, q3⟩ := ih.sepRep el sp s1.pos 0 s1 rfl hcl.2.2 b
          generalize execSepRepeat prog w fuel el sp s1.pos 0 s1 = r2 at q1 q2 q3
          obtain ⟨n2, res2, s2⟩ := r2
          simp only [] at q1 q2 q3 ⊢
          cases ha2 : res2.isAbort with
          | true => simp only [if_true]; exact ⟨Snd.abort ha2, q1⟩
          | false =>
            simp only [Bool.false_eq_true, if_false]
            obtain ⟨k, hsep⟩ := q3 ha2
            rw [hp1] at hsep
            exact ⟨Snd.ofOk (SItem.gatherOk el sp s.pos e k s2.pos (a.1 e rfl) hsep), q1⟩
        · simp only []
          exact ⟨Snd.ofFail (SItem.gatherFail el sp s.pos (a.2 m rfl)), cSound_of_eq rfl b⟩
    | posLook q =>
      simp only [execItem]
      obtain ⟨a, b⟩ := ih.prim q s hc hs
      generalize execPrim prog w fuel q s = rp at a b
      obtain ⟨res, s1⟩ := rp
      simp only [] at a b ⊢
      cases ha : res.isAbort with
      | true => simp only [if_true]; exact ⟨Snd.abort ha, b⟩
      | false =>
        simp only [Bool.false_eq_true, if_false]
        rcases isAbort_false_cases ha with ⟨e, rfl⟩ | ⟨m, rfl⟩
        · simp only [Res.isOk, if_true]; exact ⟨Snd.ofOk (SItem.posOk q s.pos e (a.1 e rfl)), cSound_of_eq rfl b⟩
        · simp only [Res.isOk, Bool.false_eq_true, if_false]; exact ⟨Snd.ofFail (SItem.posFail q s.pos (a.2 m rfl)), cSound_of_eq rfl b⟩
    | negLook q =>
      simp only [execItem]
      obtain ⟨a, b⟩ := ih.prim q s hc hs
      generalize execPrim prog w fuel q s = rp at a b
      obtain ⟨res, s1⟩ := rp
      simp only [] at a b ⊢
      cases ha : res.isAbort with
      | true => simp only [if_true]; exact ⟨Snd.abort ha, b⟩
      | false =>
        simp only [Bool.false_eq_true, if_false]
        rcases isAbort_false_cases ha with ⟨e, rfl⟩ | ⟨m, rfl⟩
        · simp only [Res.isOk, if_true]; exact ⟨Snd.ofFail (SItem.negFail q s.pos e (a.1 e rfl)), cSound_of_eq rfl b⟩
        · simp only [Res.isOk, Bool.false_eq_true, if_false]; exact ⟨Snd.ofOk (SItem.negOk q s.pos (a.2 m rfl)), cSound_of_eq rfl b⟩
    | forced q what =>
      simp only [execItem]
      obtain ⟨a, b⟩ := ih.prim q s hc hs
      generalize execPrim prog w fuel q s = rp at a b
      obtain ⟨res, s1⟩ := rp
      simp only [] at a b ⊢
      cases ha : res.isAbort with
      | true => simp only [if_true]; exact ⟨Snd.abort ha, b⟩
      | false =>
        simp only [Bool.false_eq_true, if_false]
        rcases isAbort_false_cases ha with ⟨e, rfl⟩ | ⟨m, rfl⟩
        · simp only [Res.isOk, if_true]; exact ⟨Snd.ofOk (SItem.forced q what s.pos e (a.1 e rfl)), b⟩
        · simp only [Res.isOk, Bool.false_eq_true, if_false]; exact ⟨Snd.abort rfl, b⟩
    | setCut => exact absurd rfl hnc
    | guardInvalid => cases hit
  case rep =>
    intro q mark n s hpos hc hs
    simp only [execRepeat]
    obtain ⟨a, b⟩ := ih.prim q s hc hs
    have hcl := hcons.prim q s hc
    generalize execPrim prog w fuel q s = rp at a b hcl
    obtain ⟨res, s1⟩ := rp
    simp only [] at a b hcl ⊢
    rw [hpos] at a
    cases ha : res.isAbort with
    | true => simp only [if_true]; exact ⟨b, hcl.2.2, (fun h => by rw [ha] at h; cases h)⟩
    | false =>
      simp only [Bool.false_eq_true, if_false]
      rcases isAbort_false_cases ha with ⟨e, rfl⟩ | ⟨m, rfl⟩
      · simp only []
        have hp1 : s1.pos = e := hcl.1 e rfl
        obtain ⟨r1, r2, r3⟩ := ih.rep q s1.pos (n + 1) s1 rfl hcl.2.2 b
        refine ⟨r1, r2, fun h => ?_⟩
        obtain ⟨k, hk, hstar⟩ := r3 h
        have ha1 : SPrim prog w q mark (some s1.pos) := by rw [hp1]; exact a.1 e rfl
        exact ⟨k + 1, by omega, SStar.step q mark s1.pos k _ ha1 hstar⟩
      · simp only []
        exact ⟨cSound_of_eq rfl b, cacheOK_of_eq rfl hcl.2.2, (fun _ => ⟨0, rfl, SStar.stop q mark (a.2 m rfl)⟩)⟩
  case sepRep =>
    intro el sp mark n s hpos hc hs
    simp only [execSepRepeat]
    obtain ⟨a, b⟩ := ih.prim sp s hc hs
    have hcl := hcons.prim sp s hc
    generalize execPrim prog w fuel sp s = rp at a b hcl
    obtain ⟨res, s1⟩ := rp
    simp only [] at a b hcl ⊢
    rw [hpos] at a
    cases ha : res.isAbort with
    | true => simp only [if_true]; exact ⟨b, hcl.2.2, (fun h => by rw [ha] at h; cases h)⟩
    | false =>
      simp only [Bool.false_eq_true, if_false]
      rcases isAbort_false_cases ha with ⟨q, rfl⟩ | ⟨m, rfl⟩
      · simp only []
        have hp1 : s1.pos = q := hcl.1 q rfl
        obtain ⟨a2, b2⟩ := ih.seqAlts [el] s1.pos s1 rfl hcl.2.2 b
        have hcl2 := hcons.seqAlts [el] s1.pos s1 rfl hcl.2.2
        generalize execSeqAlts prog w fuel [el] s1.pos s1 = r2 at a2 b2 hcl2
        obtain ⟨res2, s2⟩ := r2
        simp only [] at a2 b2 hcl2 ⊢
        rw [hp1] at a2
        cases ha2 : res2.isAbort with
        | true => simp only [if_true]; exact ⟨b2, hcl2.2.2, (fun h => by rw [ha2] at h; cases h)⟩
        | false =>
          simp only [Bool.false_eq_true, if_false]
          rcases isAbort_false_cases ha2 with ⟨r, rfl⟩ | ⟨m2, rfl⟩
          · simp only []
            have hp2 : s2.pos = r := hcl2.1 r rfl
            obtain ⟨r1, r2', r3⟩ := ih.sepRep el sp s2.pos (n + 1) s2 rfl hcl2.2.2 b2
            refine ⟨r1, r2', fun h => ?_⟩
            obtain ⟨k, hsep⟩ := r3 h
            have ha2 : SSeq prog w [el] q (some s2.pos) := by rw [hp2]; exact a2.1 r rfl
            exact ⟨k + 1, SSep.step el sp mark q s2.pos k _ (a.1 q rfl) ha2 hsep⟩
          · simp only []
            exact ⟨cSound_of_eq rfl b2, cacheOK_of_eq rfl hcl2.2.2, (fun _ => ⟨0, SSep.stopElem el sp mark q (a.1 q rfl) (a2.2 m2 rfl)⟩)⟩
      · simp only []
        exact ⟨cSound_of_eq rfl b, cacheOK_of_eq rfl hcl.2.2, (fun _ => ⟨0, SSep.stopSep el sp mark (a.2 m rfl)⟩)⟩

theorem specInv (w : Array RTok) (hpl : Plain prog) : ∀ fuel, SpecInv prog w fuel
  | 0 => specInv_zero w
  | fuel + 1 => specInv_succ w hpl fuel (specInv w hpl fuel)

theorem cSound_init (w : Array RTok) (n : Nat) (a b : Bool) : CSound prog w (St.init n a b) := by
  intro p id r h
  simp only [St.init, cacheGet] at h
  split at h
  · rename_i l hl
    have : l = [] := by
      have := Array.getElem?_eq_some_iff.mp hl
      obtain ⟨hlt, hv⟩ := this
      simpa using hv.symm
    subst this
    simp at h
  · cases h

/-- decidable form of `Plain` -/
def plainB (prog : Prog) : Bool :=
  prog.all (fun r => r.deco != .leftrec && (match r.body with
    | .alts as _ _ => as.all (fun a => actNF a.act && a.items.all (fun it => itemPlain it.item))
    | _ => true))

theorem plain_of_B (prog : Prog) (h : plainB prog = true) : Plain prog := by
  intro id r hr
  unfold plainB at h
  rw [Array.all_eq_true] at h
  have hlt := (Array.getElem?_eq_some_iff.mp hr).1
  have hv := (Array.getElem?_eq_some_iff.mp hr).2
  have := h id hlt
  rw [hv] at this
  simp only [Bool.and_eq_true, bne_iff_ne, ne_eq] at this
  refine ⟨this.1, ?_⟩
  have h2 := this.2
  unfold PlainBody
  split
  · rename_i as wo ul hb
    rw [hb] at h2
    simp only [List.all_eq_true, Bool.and_eq_true] at h2
    exact h2
  · trivial

end XV.Peg
