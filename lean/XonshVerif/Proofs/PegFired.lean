/-
  The "fired alternatives" invariant: with a valid dead-rule witness, on a token list of the Python
  lexicon, no alternative that is marked dead ever has its action run - in any rule, at any depth,
  in either pass (induction on fuel over all functions of the interpreter).
-/
import XonshVerif.Model.PegDead
import XonshVerif.Proofs.PegDead
namespace XV.Peg

/-- the k-th alternative of rule `rid`, if the rule has the standard shape -/
def altAt (prog : Prog) (rid k : Nat) : Option Alt :=
  match prog[rid]? with
  | some r => (match r.body with | .alts as _ _ => as[k]? | _ => none)
  | none => none

/-- no alternative that fired so far is a dead one -/
def FiredOK (L : Lexicon) (prog : Prog) (W : DeadSet) (s : St) : Prop :=
  ∀ x ∈ s.fired, ∀ a, altAt prog x.1 x.2 = some a → deadAlt L W a = false

def AltsAt (prog : Prog) (rid idx : Nat) (as : List Alt) : Prop :=
  ∀ j a, as[j]? = some a → altAt prog rid (idx + j) = some a

def BodyOf (prog : Prog) (rid : Nat) : Body → Prop
  | .alts as _ _ => AltsAt prog rid 0 as
  | _ => True

variable {L : Lexicon} {prog : Prog} {W : DeadSet}

theorem firedOK_of_fired_eq {s s' : St} (h : s'.fired = s.fired) (hs : FiredOK L prog W s) : FiredOK L prog W s' := by
  unfold FiredOK at *; rw [h]; exact hs

@[simp] theorem reset_fired (s : St) (p : Nat) : (s.reset p).fired = s.fired := rfl

theorem leaf_fired (w : Array RTok) (test : RTok → Bool) (s : St) : (leaf w test s).2.fired = s.fired := by
  unfold leaf peekTok
  split
  · rename_i t s1 heq
    split at heq
    · injection heq with _ h2; subst h2
      split <;> rfl
    · injection heq with h1 _; cases h1
  · rename_i s1 heq
    split at heq
    · injection heq with h1 _; cases h1
    · injection heq with _ h2; subst h2; rfl

theorem bodyEntry_fired (w : Array RTok) (wo ul : Bool) (s sB : St) (h : bodyEntry w wo ul s = some sB) : sB.fired = s.fired := by
  unfold bodyEntry peekTok at h
  simp only [] at h
  split at h
  · split at h
    · rename_i t s1 heq
      split at heq
      · injection heq with _ h2; injection h with h; subst h; subst h2
        split <;> rfl
      · injection heq with h1 _; cases h1
    · cases h
  · injection h with h; subst h; split <;> rfl

theorem bodyExit_fired (wo prev : Bool) (res : Res) (s : St) : (bodyExit wo prev res s).fired = s.fired := by
  unfold bodyExit; split <;> rfl

end XV.Peg

namespace XV.Peg
variable {L : Lexicon} {prog : Prog} {W : DeadSet}

structure FiredInv (L : Lexicon) (prog : Prog) (w : Array RTok) (W : DeadSet) (fuel : Nat) : Prop where
  prim : ∀ p s, FiredOK L prog W s → FiredOK L prog W (execPrim prog w fuel p s).2
  rule : ∀ id s, FiredOK L prog W s → FiredOK L prog W (execRule prog w fuel id s).2
  grow : ∀ id body mark last lastmark s, BodyOf prog id body → FiredOK L prog W s →
          FiredOK L prog W (grow prog w fuel id body mark last lastmark s).2
  body : ∀ rid b s, BodyOf prog rid b → FiredOK L prog W s → FiredOK L prog W (execBody prog w fuel rid b s).2
  seqAlts : ∀ ps mark s, FiredOK L prog W s → FiredOK L prog W (execSeqAlts prog w fuel ps mark s).2
  alts : ∀ rid idx as mark s, AltsAt prog rid idx as → FiredOK L prog W s → FiredOK L prog W (execAlts prog w fuel rid idx as mark s).2
  items : ∀ its cut oks s, FiredOK L prog W s → FiredOK L prog W (execItems prog w fuel its cut oks s).2.2.2.1
  item : ∀ it s, FiredOK L prog W s → FiredOK L prog W (execItem prog w fuel it s).2
  rep : ∀ p mark n s, FiredOK L prog W s → FiredOK L prog W (execRepeat prog w fuel p mark n s).2.2
  sepRep : ∀ e sp mark n s, FiredOK L prog W s → FiredOK L prog W (execSepRepeat prog w fuel e sp mark n s).2.2

end XV.Peg


namespace XV.Peg
variable {L : Lexicon} {prog : Prog} {W : DeadSet}

theorem firedInv_zero (w : Array RTok) : FiredInv L prog w W 0 := by
  constructor <;> intros <;> simp_all [execPrim, execRule, grow, execBody, execSeqAlts, execAlts, execItems, execItem, execRepeat, execSepRepeat]

theorem finish_fired (id mark : Nat) (last : Option Nat) (lastmark : Nat) (s : St) :
    (grow.finish id mark last lastmark s).2.fired = s.fired := by
  unfold grow.finish
  split <;> rfl

theorem altAt_of_prog {rid : Nat} {r : Rule} (h : prog[rid]? = some r) : BodyOf prog rid r.body := by
  unfold BodyOf
  split
  · rename_i as wo ul hb
    intro j a hj
    simp [altAt, h, hb, hj]
  · trivial

end XV.Peg

namespace XV.Peg
variable {L : Lexicon} {prog : Prog} {W : DeadSet}

theorem firedInv_succ (w : Array RTok) (hc : deadCert L prog W = true) (hw : PyLex L w)
    (fuel : Nat) (ih : FiredInv L prog w W fuel) : FiredInv L prog w W (fuel + 1) := by
  have hdead := dead_never_succeeds L prog w W hc hw fuel
  refine ⟨?prim, ?rule, ?grow, ?body, ?seqAlts, ?alts, ?items, ?item, ?rep, ?sepRep⟩
  case prim =>
    intro p s hs
    cases p with
    | rule id => simp only [execPrim]; exact ih.rule id s hs
    | expect sid => simp only [execPrim]; exact firedOK_of_fired_eq (leaf_fired w _ s) hs
    | token ty => simp only [execPrim]; exact firedOK_of_fired_eq (leaf_fired w _ s) hs
    | name => simp only [execPrim]; exact firedOK_of_fired_eq (leaf_fired w _ s) hs
    | keyword => simp only [execPrim]; exact firedOK_of_fired_eq (leaf_fired w _ s) hs
    | softKeyword => simp only [execPrim]; exact firedOK_of_fired_eq (leaf_fired w _ s) hs
    | anyToken =>
      simp only [execPrim]
      split
      · exact firedOK_of_fired_eq rfl hs
      · exact hs
  case rule =>
    intro id s hs
    simp only [execRule]
    split
    · exact hs
    · rename_i r hr
      have hb := altAt_of_prog (prog := prog) hr
      split
      · exact ih.body id r.body s hb hs
      · exact ih.body id r.body s hb hs
      · -- memo
        split
        · exact firedOK_of_fired_eq rfl hs
        · exact firedOK_of_fired_eq rfl hs
        · exact hs
        · have h1 := ih.body id r.body s hb hs
          split
          · exact h1
          · exact firedOK_of_fired_eq rfl h1
      · -- leftrec
        split
        · exact firedOK_of_fired_eq rfl hs
        · split
          · exact hs
          · exact firedOK_of_fired_eq rfl hs
        · exact hs
        · exact ih.grow id r.body _ none _ _ hb (firedOK_of_fired_eq rfl hs)
  case grow =>
    intro id body mark last lastmark s hb hs
    simp only [grow]
    have h1 := ih.body id body (s.reset mark) hb (firedOK_of_fired_eq rfl hs)
    split
    · exact h1
    · split
      · split
        · exact firedOK_of_fired_eq (finish_fired _ _ _ _ _) h1
        · exact ih.grow id body mark _ _ _ hb (firedOK_of_fired_eq rfl h1)
      · exact firedOK_of_fired_eq (finish_fired _ _ _ _ _) h1
  case body =>
    intro rid b s hb hs
    cases b with
    | unmodelled => simp only [execBody]; exact hs
    | seqAlts ps => simp only [execBody]; exact ih.seqAlts ps s.pos s hs
    | alts as wo usesLoc =>
      simp only [execBody]
      split
      · exact hs
      · rename_i sB hE
        have hsB : FiredOK L prog W sB := firedOK_of_fired_eq (bodyEntry_fired w wo usesLoc s sB hE) hs
        exact firedOK_of_fired_eq (bodyExit_fired _ _ _ _) (ih.alts rid 0 as sB.pos sB hb hsB)
  case seqAlts =>
    intro ps mark s hs
    cases ps with
    | nil => simp only [execSeqAlts]; exact hs
    | cons p ps =>
      simp only [execSeqAlts]
      have h1 := ih.prim p s hs
      split
      · exact h1
      · split
        · exact h1
        · exact ih.seqAlts ps mark _ (firedOK_of_fired_eq rfl h1)
  case alts =>
    intro rid idx as mark s hat hs
    cases as with
    | nil => simp only [execAlts]; exact hs
    | cons a as =>
      simp only [execAlts]
      have h1 := ih.items a.items false [] s hs
      have ha : altAt prog rid idx = some a := by
        have := hat 0 a (by simp)
        simpa using this
      split
      · exact h1
      · split
        · rename_i hok
          -- all conjuncts truthy: this alternative is not dead
          have hnd : deadAlt L W a = false := by
            cases hda : deadAlt L W a with
            | false => rfl
            | true =>
              have := hdead.items a.items false [] s (by simpa [deadAlt] using hda)
              rw [this] at hok
              simp at hok
          have hfired : FiredOK L prog W { (execItems prog w fuel a.items false [] s).2.2.2.1 with
                fired := (rid, idx) :: (execItems prog w fuel a.items false [] s).2.2.2.1.fired } := by
            intro x hx b hb
            simp only [List.mem_cons] at hx
            rcases hx with rfl | hx
            · simp only at hb
              rw [ha] at hb
              injection hb with hb
              subst hb
              exact hnd
            · exact h1 x hx b hb
          split <;> first | exact hfired | exact firedOK_of_fired_eq rfl hfired | (split <;> exact hfired)
        · split
          · exact firedOK_of_fired_eq rfl h1
          · apply ih.alts rid (idx + 1) as mark ((execItems prog w fuel a.items false [] s).2.2.2.1.reset mark) ?_ (firedOK_of_fired_eq rfl h1)
            intro j b hj
            have := hat (j + 1) b (by simpa using hj)
            simpa [Nat.add_assoc, Nat.add_comm 1 j] using this
  case items =>
    intro its cut oks s hs
    cases its with
    | nil => simp only [execItems]; exact hs
    | cons it its =>
      simp only [execItems]
      split
      · exact ih.items its true _ s hs
      · split
        · exact ih.items its cut _ s hs
        · exact hs
      · have h1 := ih.item it.item s hs
        split
        · exact h1
        · split
          · exact ih.items its cut _ _ h1
          · exact h1
  case item =>
    intro it s hs
    cases it with
    | call p => simp only [execItem]; exact ih.prim p s hs
    | seqAlts ps => simp only [execItem]; exact ih.seqAlts ps s.pos s hs
    | repeated p =>
      simp only [execItem]
      have h1 := ih.rep p s.pos 0 s hs
      split
      · exact h1
      · split <;> exact h1
    | gathered elem sep =>
      simp only [execItem]
      have h1 := ih.seqAlts [elem] s.pos s hs
      split
      · exact h1
      · split
        · have h2 := ih.sepRep elem sep (execSeqAlts prog w fuel [elem] s.pos s).2.pos 0 _ h1
          split
          · exact h2
          · exact h2
        · exact firedOK_of_fired_eq rfl h1
    | posLook p =>
      simp only [execItem]
      have h1 := ih.prim p s hs
      split
      · exact h1
      · split <;> exact firedOK_of_fired_eq rfl h1
    | negLook p =>
      simp only [execItem]
      have h1 := ih.prim p s hs
      split
      · exact h1
      · split <;> exact firedOK_of_fired_eq rfl h1
    | forced p what =>
      simp only [execItem]
      have h1 := ih.prim p s hs
      split
      · exact h1
      · split <;> exact h1
    | setCut => simp only [execItem]; exact hs
    | guardInvalid => simp only [execItem]; split <;> exact hs
  case rep =>
    intro p mark n s hs
    simp only [execRepeat]
    have h1 := ih.prim p s hs
    split
    · exact h1
    · split
      · exact ih.rep p _ _ _ h1
      · exact firedOK_of_fired_eq rfl h1
  case sepRep =>
    intro e sp mark n s hs
    simp only [execSepRepeat]
    have h1 := ih.prim sp s hs
    split
    · exact h1
    · split
      · have h2 := ih.seqAlts [e] (execPrim prog w fuel sp s).2.pos _ h1
        split
        · exact h2
        · split
          · exact ih.sepRep e sp _ _ _ h2
          · exact firedOK_of_fired_eq rfl h2
      · exact firedOK_of_fired_eq rfl h1

end XV.Peg

namespace XV.Peg
variable {L : Lexicon} {prog : Prog} {W : DeadSet}

theorem firedInv (w : Array RTok) (hc : deadCert L prog W = true) (hw : PyLex L w) : ∀ fuel, FiredInv L prog w W fuel := by
  intro fuel
  induction fuel with
  | zero => exact firedInv_zero w
  | succ n ih => exact firedInv_succ w hc hw n ih

theorem firedOK_init (n : Nat) (b : Bool) : FiredOK L prog W (St.init n b) := by
  intro x hx; simp [St.init] at hx

end XV.Peg
