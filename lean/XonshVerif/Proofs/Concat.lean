/-
  C10 / C01 - what `concatenate_strings` does to adjacent string literals and f-strings: nothing of the text and none of the
  replacement fields is lost or reordered, the merged f-string has no two adjacent literal parts and no empty literal part
  (as in CPython's trees), and a plain Constant comes out exactly when no f-string is among the parts.
-/
import XonshVerif.Model.Concat
namespace XV.Concat
open XV

/-- what a list of values says: literal characters (`inl`) and replacement fields (`inr id`), in order -/
def render : List Val → List (Nat ⊕ Nat)
  | [] => []
  | .const s _ _ _ _ :: vs => s.map .inl ++ render vs
  | .fmt i :: vs => .inr i :: render vs

def partsRender : List Part → List (Nat ⊕ Nat)
  | [] => []
  | .tok v _ _ _ _ :: ps => v.map .inl ++ partsRender ps
  | .joined vals _ _ :: ps => render vals ++ partsRender ps

theorem render_append (a b : List Val) : render (a ++ b) = render a ++ render b := by
  induction a with
  | nil => rfl
  | cons v vs ih => cases v <;> simp [render, ih]

theorem concatTokens_render (ss : List TokP) (c : Val) (h : concatTokens ss = some c) :
    render [c] = ((ss.map (·.value)).flatten).map .inl := by
  cases ss with
  | nil => simp [concatTokens] at h
  | cons t ts =>
    simp only [concatTokens] at h
    split at h
    · injection h with h; subst h; simp [render]
    · cases h

theorem gather_render : ∀ (parts : List Part) (values : List Val) (ss : List TokP) (seen : Bool) (out : List Val) (seen' : Bool),
    gather parts values ss seen = some (out, seen') →
    render out = render values ++ ((ss.map (·.value)).flatten).map .inl ++ partsRender parts := by
  intro parts
  induction parts with
  | nil =>
    intro values ss seen out seen' h
    cases ss with
    | nil => simp only [gather] at h; injection h with h; injection h with h1 _; subst h1; simp [partsRender]
    | cons t ts =>
      simp only [gather] at h
      cases hc : concatTokens (t :: ts) with
      | none => rw [hc] at h; simp at h
      | some c =>
        rw [hc] at h
        simp only [Option.map_some, Option.some.injEq, Prod.mk.injEq] at h
        obtain ⟨h1, _⟩ := h
        subst h1
        rw [render_append, concatTokens_render _ _ hc]
        simp [partsRender]
  | cons p ps ih =>
    intro values ss seen out seen' h
    cases p with
    | tok v b u a e =>
      simp only [gather] at h
      rw [ih _ _ _ _ _ h]
      simp [partsRender, List.append_assoc]
    | joined vals a e =>
      simp only [gather] at h
      cases ss with
      | nil =>
        simp only [] at h
        rw [ih _ _ _ _ _ h, render_append]
        simp [partsRender, List.append_assoc]
      | cons t ts =>
        simp only [] at h
        cases hc : concatTokens (t :: ts) with
        | none => rw [hc] at h; simp at h
        | some c =>
          rw [hc] at h
          simp only [] at h
          rw [ih _ _ _ _ _ h, render_append, render_append, concatTokens_render _ _ hc]
          simp [partsRender, List.append_assoc]

theorem render_dropLast_const (acc : List Val) (s : List Nat) (b u : Bool) (a e : Pos) (h : acc.getLast? = some (.const s b u a e)) :
    render acc = render acc.dropLast ++ s.map .inl := by
  have hne : acc ≠ [] := by intro hc; rw [hc] at h; simp at h
  have := List.dropLast_concat_getLast hne
  have hl : acc.getLast hne = .const s b u a e := by
    rw [List.getLast?_eq_some_getLast hne] at h; injection h
  rw [hl] at this
  conv => lhs; rw [← this]
  rw [render_append]; simp [render]

theorem consolidate_render : ∀ (vs acc : List Val), render (consolidate acc vs) = render acc ++ render vs := by
  intro vs
  induction vs with
  | nil => intro acc; simp [consolidate, render]
  | cons v vs ih =>
    intro acc
    simp only [consolidate]
    split
    · rename_i s b u a e0 s2 b2 u2 a2 e2 hlast
      rw [ih, render_append, render_dropLast_const acc s b u a e0 hlast]
      simp [render, List.append_assoc]
    · rename_i v0 _ _ _
      rw [ih, render_append]
      cases v0 <;> simp [render, List.append_assoc]

theorem filter_render (vs : List Val) : render (vs.filter (fun v => !isEmptyStr v)) = render vs := by
  induction vs with
  | nil => rfl
  | cons v vs ih =>
    simp only [List.filter]
    cases hv : (!isEmptyStr v)
    · simp only []
      rw [ih]
      cases v with
      | const s b u a e =>
        simp only [isEmptyStr, Bool.not_eq_false', Bool.and_eq_true, List.isEmpty_iff] at hv
        rw [hv.1]; simp [render]
      | fmt i => simp [isEmptyStr] at hv
    · simp only []
      cases v <;> simp [render, ih]

/-- **concat_preserves_text_and_fields.**  Whatever `concatenate_strings` returns without raising says exactly what the
    parts said: the same literal characters and the same replacement fields in the same order. -/
theorem concat_preserves_text_and_fields (parts : List Part) :
    (∀ v, concatStrings parts = .node v → render [v] = partsRender parts) ∧
    (∀ vals a e, concatStrings parts = .joinedStr vals a e → render vals = partsRender parts) := by
  unfold concatStrings
  cases hg : gather parts [] [] false with
  | none => simp
  | some r =>
    obtain ⟨values, seen⟩ := r
    have hr := gather_render parts [] [] false values seen hg
    simp only [render, List.map_nil, List.flatten_nil, List.nil_append] at hr
    simp only []
    split
    · simp
    · split
      · rename_i s b u a e
        refine ⟨fun v hv => ?_, fun vals a' e' hv => (by cases hv)⟩
        injection hv with hv; subst hv; exact hr
      · refine ⟨fun v hv => (by cases hv), fun vals a' e' hv => ?_⟩
        injection hv with h1 _ _
        subst h1
        rw [filter_render, consolidate_render]
        simpa [render] using hr


def isConst : Val → Bool
  | .const _ _ _ _ _ => true
  | .fmt _ => false

/-- no two neighbours are both literal parts -/
def noAdj : List Val → Bool
  | [] => true
  | [_] => true
  | x :: y :: r => !(isConst x && isConst y) && noAdj (y :: r)

theorem noAdj_snoc : ∀ (l : List Val) (v : Val),
    noAdj (l ++ [v]) = (noAdj l && (match l.getLast? with | some x => !(isConst x && isConst v) | none => true)) := by
  intro l
  induction l with
  | nil => intro v; rfl
  | cons a l ih =>
    intro v
    cases l with
    | nil => simp [noAdj]
    | cons b r =>
      have := ih v
      simp only [List.cons_append, noAdj] at this ⊢
      rw [this]
      simp [List.getLast?_cons_cons, Bool.and_assoc]

theorem consolidate_noAdj : ∀ (vs acc : List Val), noAdj acc = true → noAdj (consolidate acc vs) = true := by
  intro vs
  induction vs with
  | nil => intro acc h; simpa [consolidate] using h
  | cons v vs ih =>
    intro acc h
    simp only [consolidate]
    split
    · rename_i s b u a e0 s2 b2 u2 a2 e2 hlast
      apply ih
      have hne : acc ≠ [] := by intro hc; rw [hc] at hlast; simp at hlast
      have hcat := List.dropLast_concat_getLast hne
      have hl : acc.getLast hne = .const s b u a e0 := by
        rw [List.getLast?_eq_some_getLast hne] at hlast; injection hlast
      rw [hl] at hcat
      rw [← hcat, noAdj_snoc] at h
      rw [noAdj_snoc]
      simpa [isConst] using h
    · rename_i v0 _ _ hno
      apply ih
      rw [noAdj_snoc, h, Bool.true_and]
      cases hg : acc.getLast? with
      | none => rfl
      | some x =>
        simp only []
        cases x with
        | fmt i => simp [isConst]
        | const s b u a e =>
          cases v0 with
          | fmt i => simp [isConst]
          | const s2 b2 u2 a2 e2 => exact absurd rfl (hno s b u a e s2 b2 u2 a2 e2 hg)

theorem noAdj_tail {x : Val} {l : List Val} (h : noAdj (x :: l) = true) : noAdj l = true := by
  cases l with
  | nil => rfl
  | cons y r => simp only [noAdj, Bool.and_eq_true] at h; exact h.2

theorem noAdj_cons_fmt (i : Nat) (l : List Val) : noAdj (.fmt i :: l) = noAdj l := by
  cases l with
  | nil => rfl
  | cons y r => simp [noAdj, isConst]

/-- removing literal parts from a list without adjacent literal parts leaves one -/
theorem noAdj_filter (p : Val → Bool) (hp : ∀ v, p v = false → isConst v = true) : ∀ (l : List Val), noAdj l = true → noAdj (l.filter p) = true := by
  intro l
  induction l with
  | nil => intro _; rfl
  | cons x l ih =>
    intro h
    have ht := ih (noAdj_tail h)
    simp only [List.filter]
    cases hx : p x
    · exact ht
    · simp only []
      cases x with
      | fmt i => rw [noAdj_cons_fmt]; exact ht
      | const s b u a e =>
        -- the next element of `l` is not a literal part, so it is kept
        cases l with
        | nil => rfl
        | cons y r =>
          simp only [noAdj, Bool.and_eq_true, Bool.not_eq_true'] at h
          have hy : p y = true := by
            cases hpy : p y
            · have := hp y hpy
              have h1 := h.1
              rw [this] at h1
              simp [isConst] at h1
            · rfl
          simp only [List.filter, hy] at ht ⊢
          simp only [noAdj, Bool.and_eq_true, Bool.not_eq_true']
          exact ⟨h.1, ht⟩

/-- **joined_parts_are_normalised.**  The values of a merged f-string never hold two adjacent literal parts, and never an
    empty (text) literal part - the shape CPython gives its `JoinedStr` nodes. -/
theorem joined_parts_are_normalised (parts : List Part) (vals : List Val) (a e : Pos) (h : concatStrings parts = .joinedStr vals a e) :
    noAdj vals = true ∧ ∀ v ∈ vals, isEmptyStr v = false := by
  unfold concatStrings at h
  cases hg : gather parts [] [] false with
  | none => rw [hg] at h; cases h
  | some r =>
    obtain ⟨values, seen⟩ := r
    rw [hg] at h
    simp only [] at h
    split at h
    · cases h
    · split at h
      · cases h
      · injection h with h1 _ _
        subst h1
        refine ⟨noAdj_filter _ ?_ _ (consolidate_noAdj values [] rfl), ?_⟩
        · intro v hv
          cases v with
          | fmt i => simp [isEmptyStr] at hv
          | const s b u a e => rfl
        · intro v hv
          have := (List.mem_filter.mp hv).2
          simpa using this

def hasJoined : List Part → Bool
  | [] => false
  | .tok _ _ _ _ _ :: ps => hasJoined ps
  | .joined _ _ _ :: _ => true

theorem gather_seen : ∀ (parts : List Part) (values : List Val) (ss : List TokP) (seen : Bool) (out : List Val) (seen' : Bool),
    gather parts values ss seen = some (out, seen') → seen' = (seen || hasJoined parts) := by
  intro parts
  induction parts with
  | nil =>
    intro values ss seen out seen' h
    cases ss with
    | nil => simp only [gather] at h; injection h with h; injection h with _ h2; simp [hasJoined, h2]
    | cons t ts =>
      simp only [gather] at h
      cases hc : concatTokens (t :: ts) with
      | none => rw [hc] at h; simp at h
      | some c => rw [hc] at h; simp at h; simp [hasJoined, h.2]
  | cons p ps ih =>
    intro values ss seen out seen' h
    cases p with
    | tok v b u a e => simp only [gather] at h; rw [ih _ _ _ _ _ h]; simp [hasJoined]
    | joined vals a e =>
      simp only [gather] at h
      cases ss with
      | nil => simp only [] at h; rw [ih _ _ _ _ _ h]; simp [hasJoined]
      | cons t ts =>
        simp only [] at h
        cases hc : concatTokens (t :: ts) with
        | none => rw [hc] at h; simp at h
        | some c => rw [hc] at h; simp only [] at h; rw [ih _ _ _ _ _ h]; simp [hasJoined]

/-- **constant_iff_no_fstring.**  A plain Constant comes out only when no f-string is among the parts; with an f-string
    among them the result is a JoinedStr (or the bytes/str mix error). -/
theorem constant_only_without_fstring (parts : List Part) (v : Val) (h : concatStrings parts = .node v) : hasJoined parts = false := by
  unfold concatStrings at h
  cases hg : gather parts [] [] false with
  | none => rw [hg] at h; cases h
  | some r =>
    obtain ⟨values, seen⟩ := r
    rw [hg] at h
    have hs := gather_seen parts [] [] false values seen hg
    simp only [Bool.false_or] at hs
    simp only [] at h
    split at h
    · cases h
    · split at h
      · rw [← hs]
      · cases h

/-- Non-vacuity: `'a' f'{x}b' 'c' ''` - the literal parts around the field are merged, the empty one disappears. -/
example : concatStrings [.tok [97] false false ⟨1, 0⟩ ⟨1, 3⟩, .joined [.fmt 7, .const [98] false false ⟨1, 9⟩ ⟨1, 10⟩] ⟨1, 4⟩ ⟨1, 11⟩,
      .tok [99] false false ⟨1, 12⟩ ⟨1, 15⟩, .tok [] false false ⟨1, 16⟩ ⟨1, 18⟩] =
    .joinedStr [.const [97] false false ⟨1, 0⟩ ⟨1, 3⟩, .fmt 7, .const [98, 99] false false ⟨1, 9⟩ ⟨1, 18⟩] ⟨1, 0⟩ ⟨1, 18⟩ := by decide

end XV.Concat
