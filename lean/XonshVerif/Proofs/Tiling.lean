/-
  C08 (partial): single-line tokens are source slices.
-/
import XonshVerif.Proofs.Tokenize
namespace XV.Tz
open XV XV.Rx

/-- a token that lies on one line and whose text is exactly the slice of that line between its columns -/
def IsLineSlice (line : Array Nat) (lnum : Nat) (t : Tok5) : Prop :=
  t.start.line = lnum ∧ t.stop.line = lnum ∧ t.start.col ≤ t.stop.col ∧ t.str = slice line t.start.col t.stop.col

theorem mkTok_isLineSlice (st : TState) (start e : Nat) (ty : TT) (h : start ≤ e) :
    IsLineSlice st.line st.lnum (mkTok st start e ty) := ⟨rfl, rfl, h, rfl⟩

/-- every token `pseudoAction` returns is `mkTok st start e _` -/
theorem pseudoAction_tok (st st' : TState) (group : String) (start e : Nat) (t : Tok5)
    (h : pseudoAction st group start e = .ok (some t, st')) : ∃ ty, t = mkTok st start e ty := by
  unfold pseudoAction at h
  split at h
  · split at h
    · injection h with h; injection h with h1 _; injection h1 with h1; exact ⟨_, h1.symm⟩
    · injection h with h; injection h with h1 _; cases h1
  · split at h
    · injection h with h; injection h with h1 _; injection h1 with h1; exact ⟨_, h1.symm⟩
    · split at h
      · injection h with h; injection h with h1 _; injection h1 with h1; exact ⟨_, h1.symm⟩
      · split at h
        · injection h with h; injection h with h1 _; injection h1 with h1; exact ⟨_, h1.symm⟩
        · split at h
          · injection h with h; injection h with h1 _; injection h1 with h1; exact ⟨_, h1.symm⟩
          · split at h
            · injection h with h; injection h with h1 _; injection h1 with h1; exact ⟨_, h1.symm⟩
            · split at h
              · injection h with h; injection h with h1 _; injection h1 with h1; exact ⟨_, h1.symm⟩
              · split at h
                · injection h with h; injection h with h1 _; injection h1 with h1; exact ⟨_, h1.symm⟩
                · split at h
                  · injection h with h; injection h with h1 _; cases h1
                  · cases h

/-- **pseudo_token_is_source_slice (C08, single-line tokens).**  Every token produced by the master-regex branch of
    the scan loop (names, numbers, operators, comments, whitespace, search paths, NEWLINE/NL, FSTRING_START) lies on
    the current line, starts exactly at the scan position, ends where the scan continues, and its text is the source
    slice between its coordinates. -/
theorem pseudo_token_is_source_slice (E : Env) (P : Pats) (st st' : TState) (t : Tok5)
    (h : nextPseudoMatches E P st = .ok (some t, st')) :
    IsLineSlice st.line st.lnum t ∧ t.start.col = st.pos ∧ t.stop.col = st'.pos := by
  unfold nextPseudoMatches at h
  split at h
  · injection h with h; injection h with h1 _; cases h1
  · split at h
    · cases h
    · injection h with h; injection h with h1 _; cases h1
    · rename_i group e hm
      have hge := matchBranches_ge _ _ _ _ _ _ _ hm
      obtain ⟨ty, ht⟩ := pseudoAction_tok _ _ _ _ _ _ h
      obtain ⟨_, _, _, f4⟩ := pseudoAction_frame _ _ _ _ _ _ h
      subst ht
      exact ⟨mkTok_isLineSlice _ _ _ _ hge, rfl, by simp [mkTok, f4]⟩

end XV.Tz
