/-
  C15 (py_version half): lowering the version can only turn acceptance of a gated alternative into a raised SyntaxError.
  Two programs that differ only in that some actions are `raises` in the first and `truthy` in the second (what
  `gateProg v` and `gateProg v'` are for v <= v') run in lock step until the first such action; there the first raises.
-/
import XonshVerif.Model.Peg
namespace XV.Peg

def ActLe (a b : ActKind) : Prop := a = b ∨ (a = .raises ∧ b = .truthy)
def AltLe (a b : Alt) : Prop := a.items = b.items ∧ a.cut = b.cut ∧ ActLe a.act b.act
inductive AltsLe : List Alt → List Alt → Prop
  | nil : AltsLe [] []
  | cons {a b as bs} : AltLe a b → AltsLe as bs → AltsLe (a :: as) (b :: bs)
def BodyLe : Body → Body → Prop
  | .alts as wo ul, .alts bs wo' ul' => AltsLe as bs ∧ wo = wo' ∧ ul = ul'
  | .seqAlts ps, .seqAlts qs => ps = qs
  | .unmodelled, .unmodelled => True
  | _, _ => False
/-- `P` is `P'` with some truthy actions replaced by raises -/
def ProgLe (P P' : Prog) : Prop :=
  ∀ id : Nat, (P[id]? = none ∧ P'[id]? = none) ∨ ∃ r r' : Rule, P[id]? = some r ∧ P'[id]? = some r' ∧ r.deco = r'.deco ∧ BodyLe r.body r'.body

/-- the run under the lower version raised, or the two runs are equal -/
abbrev RLe (x y : Res × St) : Prop := x.1 = .raised ∨ x = y
abbrev RLe3 (x y : Nat × Res × St) : Prop := x.2.1 = .raised ∨ x = y
abbrev RLe5 (x y : Bool × Bool × Res × St × List Bool) : Prop := x.2.2.1 = .raised ∨ x = y

variable {P P' : Prog} {w : Array RTok}

structure GInv (P P' : Prog) (w : Array RTok) (n : Nat) : Prop where
  prim : ∀ p s, RLe (execPrim P w n p s) (execPrim P' w n p s)
  rule : ∀ id s, RLe (execRule P w n id s) (execRule P' w n id s)
  grow : ∀ id b b' mark last lastmark s, BodyLe b b' → RLe (grow P w n id b mark last lastmark s) (grow P' w n id b' mark last lastmark s)
  body : ∀ rid b b' s, BodyLe b b' → RLe (execBody P w n rid b s) (execBody P' w n rid b' s)
  seqAlts : ∀ ps mark s, RLe (execSeqAlts P w n ps mark s) (execSeqAlts P' w n ps mark s)
  alts : ∀ rid idx as bs mark s, AltsLe as bs → RLe (execAlts P w n rid idx as mark s) (execAlts P' w n rid idx bs mark s)
  items : ∀ its cut oks s, RLe5 (execItems P w n its cut oks s) (execItems P' w n its cut oks s)
  item : ∀ it s, RLe (execItem P w n it s) (execItem P' w n it s)
  rep : ∀ p mark k s, RLe3 (execRepeat P w n p mark k s) (execRepeat P' w n p mark k s)
  sepRep : ∀ e sp mark k s, RLe3 (execSepRepeat P w n e sp mark k s) (execSepRepeat P' w n e sp mark k s)

theorem ginv_zero : GInv P P' w 0 := by
  constructor <;> intros <;> right <;>
    simp [execPrim, execRule, grow, execBody, execSeqAlts, execAlts, execItems, execItem, execRepeat, execSepRepeat]

theorem isAbort_raised' : Res.raised.isAbort = true := rfl

theorem ginv_succ (hP : ProgLe P P') (n : Nat) (ih : GInv P P' w n) : GInv P P' w (n+1) := by
  refine ⟨?prim, ?rule, ?grow, ?body, ?seqAlts, ?alts, ?items, ?item, ?rep, ?sepRep⟩
  case prim =>
    intro p s
    cases p with
    | rule id => rw [execPrim, execPrim]; exact ih.rule id s
    | expect sid => right; rw [execPrim, execPrim]
    | token ty => right; rw [execPrim, execPrim]
    | name => right; rw [execPrim, execPrim]
    | keyword => right; rw [execPrim, execPrim]
    | softKeyword => right; rw [execPrim, execPrim]
    | anyToken => right; rw [execPrim, execPrim]
  case rule =>
    intro id s
    rw [execRule, execRule]
    rcases hP id with ⟨h1, h2⟩ | ⟨r, r', h1, h2, hd, hb⟩
    · rw [h1, h2]; right; rfl
    · rw [h1, h2]
      simp only []
      rw [← hd]
      cases hdeco : r.deco with
      | none => exact ih.body id _ _ s hb
      | logger => exact ih.body id _ _ s hb
      | memo =>
        simp only []
        cases hc : cacheGet s.cache s.pos id with
        | some res => cases res <;> (right; rfl)
        | none =>
          simp only []
          rcases ih.body id r.body r'.body s hb with h | h
          · left; simp [h, isAbort_raised']
          · rw [h]; right; rfl
      | leftrec =>
        simp only []
        cases hc : cacheGet s.cache s.pos id with
        | some res => cases res <;> (right; rfl)
        | none => exact ih.grow _ _ _ _ _ _ _ hb
  case grow =>
    intro id b b' mark last lastmark s hb
    rw [grow, grow]
    simp only []
    rcases ih.body id b b' (s.reset mark) hb with h | h
    · left; simp [h, isAbort_raised']
    · rw [h]
      by_cases hab : (execBody P' w n id b' (s.reset mark)).1.isAbort = true
      · simp only [hab, if_true]; right; trivial
      · simp only [hab, Bool.false_eq_true, if_false]
        cases hres : (execBody P' w n id b' (s.reset mark)).1 with
        | ok e =>
          simp only []
          by_cases hle : (execBody P' w n id b' (s.reset mark)).2.pos ≤ lastmark
          · simp only [hle, if_true]; right; trivial
          · simp only [hle, if_false]; exact ih.grow _ _ _ _ _ _ _ hb
        | _ => right; trivial
  case body =>
    intro rid b b' s hb
    cases b with
    | unmodelled => cases b' <;> simp [BodyLe] at hb; right; rw [execBody, execBody]
    | seqAlts ps =>
      cases b' <;> simp [BodyLe] at hb
      subst hb
      rw [execBody, execBody]; exact ih.seqAlts ps s.pos s
    | alts as wo ul =>
      cases b' with
      | alts bs wo' ul' =>
        simp only [BodyLe] at hb
        obtain ⟨hab, hwo, hul⟩ := hb
        subst hwo; subst hul
        rw [execBody, execBody]
        cases hbe : bodyEntry w wo ul s with
        | none => right; rfl
        | some sB =>
          simp only []
          rcases ih.alts rid 0 as bs sB.pos sB hab with h | h
          · left; simp [h]
          · rw [h]; right; rfl
      | seqAlts qs => simp [BodyLe] at hb
      | unmodelled => simp [BodyLe] at hb
  case seqAlts =>
    intro ps mark s
    cases ps with
    | nil => right; rw [execSeqAlts, execSeqAlts]
    | cons p ps =>
      rw [execSeqAlts, execSeqAlts]
      simp only []
      rcases ih.prim p s with h | h
      · left; simp [h, isAbort_raised']
      · rw [h]
        by_cases hab : (execPrim P' w n p s).1.isAbort = true
        · simp only [hab, if_true]; right; trivial
        · simp only [hab, Bool.false_eq_true, if_false]
          cases hres : (execPrim P' w n p s).1 with
          | ok e => right; trivial
          | _ => exact ih.seqAlts _ _ _
  case alts =>
    intro rid idx as bs mark s hab
    cases hab with
    | nil => right; rw [execAlts, execAlts]
    | @cons a b as bs hhead htail =>
      obtain ⟨hitems, hcut, hact⟩ := hhead
      rw [execAlts, execAlts]
      simp only []
      rw [hitems]
      rcases ih.items b.items false [] s with h | h
      · left; simp [h, isAbort_raised']
      · rw [h]
        by_cases habt : (execItems P' w n b.items false [] s).2.2.1.isAbort = true
        · simp only [habt, if_true]; right; trivial
        · simp only [habt, Bool.false_eq_true, if_false]
          by_cases hok : (execItems P' w n b.items false [] s).1 = true
          · simp only [hok, if_true]
            rcases hact with hact | ⟨ha, hb⟩
            · rw [hact]; right; trivial
            · rw [ha, hb]; left; rfl
          · simp only [hok, Bool.false_eq_true, if_false]
            by_cases hcut2 : (execItems P' w n b.items false [] s).2.1 = true
            · simp only [hcut2, if_true]; right; trivial
            · simp only [hcut2, Bool.false_eq_true, if_false]; exact ih.alts _ _ _ _ _ _ htail
  case items =>
    intro its cut oks s
    cases its with
    | nil => right; rw [execItems, execItems]
    | cons it its =>
      rw [execItems, execItems]
      have generic : ∀ item, it.item = item →
          RLe5 (if (execItem P w n item s).1.isAbort = true then (false, cut, (execItem P w n item s).1, (execItem P w n item s).2, oks)
               else if ((execItem P w n item s).1.isOk || it.opt) = true then execItems P w n its cut ((execItem P w n item s).1.isOk :: oks) (execItem P w n item s).2
               else (false, cut, (execItem P w n item s).1, (execItem P w n item s).2, oks))
              (if (execItem P' w n item s).1.isAbort = true then (false, cut, (execItem P' w n item s).1, (execItem P' w n item s).2, oks)
               else if ((execItem P' w n item s).1.isOk || it.opt) = true then execItems P' w n its cut ((execItem P' w n item s).1.isOk :: oks) (execItem P' w n item s).2
               else (false, cut, (execItem P' w n item s).1, (execItem P' w n item s).2, oks)) := by
        intro item _
        rcases ih.item item s with h | h
        · left; simp [h, isAbort_raised']
        · rw [h]
          by_cases hab : (execItem P' w n item s).1.isAbort = true
          · simp only [hab, if_true]; right; trivial
          · simp only [hab, Bool.false_eq_true, if_false]
            by_cases hok : ((execItem P' w n item s).1.isOk || it.opt) = true
            · simp only [hok, if_true]; exact ih.items _ _ _ _
            · simp only [hok, Bool.false_eq_true, if_false]; right; trivial
      cases hit : it.item with
      | setCut => simp only []; exact ih.items _ _ _ _
      | guardInvalid =>
        simp only []
        by_cases hi : s.invalid = true
        · simp only [hi, if_true]; exact ih.items _ _ _ _
        · simp only [hi, Bool.false_eq_true, if_false]; right; trivial
      | call p => exact generic _ hit
      | repeated p => exact generic _ hit
      | gathered e sp => exact generic _ hit
      | seqAlts ps => exact generic _ hit
      | posLook p => exact generic _ hit
      | negLook p => exact generic _ hit
      | forced p x => exact generic _ hit
  case item =>
    intro it s
    cases it with
    | call p => rw [execItem, execItem]; exact ih.prim p s
    | seqAlts ps => rw [execItem, execItem]; exact ih.seqAlts ps s.pos s
    | repeated p =>
      rw [execItem, execItem]; simp only []
      rcases ih.rep p s.pos 0 s with h | h
      · left; simp [h, isAbort_raised']
      · rw [h]; right; rfl
    | gathered e sp =>
      rw [execItem, execItem]; simp only []
      rcases ih.seqAlts [e] s.pos s with h | h
      · left; simp [h, isAbort_raised']
      · rw [h]
        by_cases hab : (execSeqAlts P' w n [e] s.pos s).1.isAbort = true
        · simp only [hab, if_true]; right; trivial
        · simp only [hab, Bool.false_eq_true, if_false]
          cases hres : (execSeqAlts P' w n [e] s.pos s).1 with
          | ok x =>
            simp only []
            rcases ih.sepRep e sp (execSeqAlts P' w n [e] s.pos s).2.pos 0 (execSeqAlts P' w n [e] s.pos s).2 with h2 | h2
            · left; simp [h2, isAbort_raised']
            · rw [h2]; right; rfl
          | _ => right; trivial
    | posLook p =>
      rw [execItem, execItem]; simp only []
      rcases ih.prim p s with h | h
      · left; simp [h, isAbort_raised']
      · rw [h]; right; rfl
    | negLook p =>
      rw [execItem, execItem]; simp only []
      rcases ih.prim p s with h | h
      · left; simp [h, isAbort_raised']
      · rw [h]; right; rfl
    | forced p x =>
      rw [execItem, execItem]; simp only []
      rcases ih.prim p s with h | h
      · left; simp [h, isAbort_raised']
      · rw [h]; right; rfl
    | setCut => right; rw [execItem, execItem]
    | guardInvalid => right; rw [execItem, execItem]
  case rep =>
    intro p mark k s
    rw [execRepeat, execRepeat]; simp only []
    rcases ih.prim p s with h | h
    · left; simp [h, isAbort_raised']
    · rw [h]
      by_cases hab : (execPrim P' w n p s).1.isAbort = true
      · simp only [hab, if_true]; right; trivial
      · simp only [hab, Bool.false_eq_true, if_false]
        cases hres : (execPrim P' w n p s).1 with
        | ok e => exact ih.rep _ _ _ _
        | _ => right; trivial
  case sepRep =>
    intro e sp mark k s
    rw [execSepRepeat, execSepRepeat]; simp only []
    rcases ih.prim sp s with h | h
    · left; simp [h, isAbort_raised']
    · rw [h]
      by_cases hab : (execPrim P' w n sp s).1.isAbort = true
      · simp only [hab, if_true]; right; trivial
      · simp only [hab, Bool.false_eq_true, if_false]
        cases hres : (execPrim P' w n sp s).1 with
        | ok x =>
          simp only []
          rcases ih.seqAlts [e] (execPrim P' w n sp s).2.pos (execPrim P' w n sp s).2 with h2 | h2
          · left; simp [h2, isAbort_raised']
          · rw [h2]
            by_cases hab2 : (execSeqAlts P' w n [e] (execPrim P' w n sp s).2.pos (execPrim P' w n sp s).2).1.isAbort = true
            · simp only [hab2, if_true]; right; trivial
            · simp only [hab2, Bool.false_eq_true, if_false]
              cases hres2 : (execSeqAlts P' w n [e] (execPrim P' w n sp s).2.pos (execPrim P' w n sp s).2).1 with
              | ok y => exact ih.sepRep _ _ _ _ _
              | _ => right; trivial
        | _ => right; trivial


theorem ginv_all (hP : ProgLe P P') (n : Nat) : GInv P P' w n := by
  induction n with
  | zero => exact ginv_zero
  | succ n ih => exact ginv_succ hP n ih

theorem gateAlt_le (v v' : Nat) (h : v ≤ v') (a : Alt) : AltLe (gateAlt v a) (gateAlt v' a) := by
  unfold gateAlt
  cases hact : a.act with
  | gate m =>
    simp only []
    refine ⟨rfl, rfl, ?_⟩
    by_cases h1 : m ≤ v
    · have h2 : m ≤ v' := Nat.le_trans h1 h
      simp only [h1, h2, if_true]; exact Or.inl rfl
    · by_cases h2 : m ≤ v'
      · simp only [h1, h2, if_true, if_false]; exact Or.inr ⟨rfl, rfl⟩
      · simp only [h1, h2, if_false]; exact Or.inl rfl
  | _ => exact ⟨rfl, rfl, Or.inl rfl⟩

theorem gateAlts_le (v v' : Nat) (h : v ≤ v') (as : List Alt) : AltsLe (as.map (gateAlt v)) (as.map (gateAlt v')) := by
  induction as with
  | nil => exact .nil
  | cons a as ih => exact .cons (gateAlt_le v v' h a) ih

theorem gateBody_le (v v' : Nat) (h : v ≤ v') (b : Body) : BodyLe (gateBody v b) (gateBody v' b) := by
  cases b with
  | alts as wo ul => exact ⟨gateAlts_le v v' h as, rfl, rfl⟩
  | seqAlts ps => simp [gateBody, BodyLe]
  | unmodelled => simp [gateBody, BodyLe]

theorem gateProg_le (prog : Prog) (v v' : Nat) (h : v ≤ v') : ProgLe (gateProg v prog) (gateProg v' prog) := by
  intro id
  unfold gateProg
  cases hr : prog[id]? with
  | none => left; simp [hr]
  | some r =>
    right
    exact ⟨gateRule v r, gateRule v' r, by simp [hr], by simp [hr], rfl, gateBody_le v v' h r.body⟩

/-- **py_version_monotone (recogniser level).**  For every program, token list, fuel, start rule and verbosity, and all
    effective versions (3, v) <= (3, v'): the whole result of `Parser.parse` under the lower version - outcome, first-pass
    result, final states of both passes - is IDENTICAL to the result under the higher version, unless the lower run
    raised a SyntaxError (at a version gate, or at a raise both runs share). -/
theorem parse_gate_mono (prog : Prog) (w : Array RTok) (n start : Nat) (vb : Bool) (v v' : Nat) (h : v ≤ v') :
    (parse (gateProg v prog) w n start vb).1 = .raised ∨
      parse (gateProg v prog) w n start vb = parse (gateProg v' prog) w n start vb := by
  have hP := gateProg_le prog v v' h
  unfold parse
  simp only []
  rcases (ginv_all (w := w) hP n).rule start (St.init w.size false vb) with h1 | h1
  · left; rw [h1]
  · rw [h1]
    cases hr : (execRule (gateProg v' prog) w n start (St.init w.size false vb)).1 with
    | fail e =>
      simp only []
      rcases (ginv_all (w := w) hP n).rule start
          { ((execRule (gateProg v' prog) w n start (St.init w.size false vb)).2.reset 0) with invalid := true, cache := Array.replicate (w.size + 1) [] } with h2 | h2
      · left; rw [h2]
      · rw [h2]; right; rfl
    | _ => right; rfl

/-- at or above every threshold the grammar contains, the version does not matter at all -/
theorem gateAlt_saturated (v v' : Nat) (a : Alt) (h : ∀ m, a.act = .gate m → m ≤ v ∧ m ≤ v') : gateAlt v a = gateAlt v' a := by
  unfold gateAlt
  cases hact : a.act with
  | gate m => obtain ⟨h1, h2⟩ := h m hact; simp [h1, h2]
  | _ => rfl

end XV.Peg
