/-
  Two more sound syntactic analyses of the regular expressions (next to `nonNull` and `minLen`):
  `fixedLen r = some n` - every match of `r` consumes exactly `n` characters;
  `endsWith r w = true` - every match of `r` ends with the literal characters `w`.
  Used for the text of FSTRING_END and of the brace operators the f-string scanner emits (C08).
-/
import XonshVerif.Proofs.RegexMinLen
namespace XV.Rx

def fixedLen : Re → Option Nat
  | .eps => some 0
  | .chr _ | .notChr _ | .any | .set _ _ => some 1
  | .seq a b => match fixedLen a, fixedLen b with
    | some x, some y => some (x + y)
    | _, _ => none
  | .alt a b => match fixedLen a, fixedLen b with
    | some x, some y => if x = y then some x else none
    | _, _ => none
  | .star _ _ => none
  | .look _ _ => some 0
  | .eoi => some 0

theorem restrict_true (k : Nat → MR) : restrict (fun _ => true) k = k := by
  funext q; simp [restrict]

/-- the matcher only ever calls its continuation at `pos + n` when `fixedLen r = some n` -/
theorem m_fixedLen (E : Env) (s : Array Nat) : ∀ (fuel : Nat) (r : Re) (pos : Nat) (k : Nat → MR) (n : Nat), fixedLen r = some n →
    m E s fuel r pos k = m E s fuel r pos (restrict (fun q => q == pos + n) k) := by
  intro fuel
  induction fuel with
  | zero => intros; rfl
  | succ fuel ih =>
    intro r pos k n hn
    cases r with
    | eps => simp only [fixedLen, Option.some.injEq] at hn; subst hn; simp [m, restrict]
    | chr c => simp only [fixedLen, Option.some.injEq] at hn; subst hn; simp only [m, restrict]; split <;> simp
    | notChr c => simp only [fixedLen, Option.some.injEq] at hn; subst hn; simp only [m, restrict]; split <;> (try split) <;> simp
    | any => simp only [fixedLen, Option.some.injEq] at hn; subst hn; simp only [m, restrict]; split <;> (try split) <;> simp
    | set neg items => simp only [fixedLen, Option.some.injEq] at hn; subst hn; simp only [m, restrict]; split <;> (try split) <;> simp
    | seq a b =>
      simp only [fixedLen] at hn
      cases ha : fixedLen a with
      | none => rw [ha] at hn; simp at hn
      | some x =>
        cases hb : fixedLen b with
        | none => rw [ha, hb] at hn; simp at hn
        | some y =>
          rw [ha, hb] at hn
          simp only [Option.some.injEq] at hn
          subst hn
          simp only [m]
          rw [ih a pos _ x ha, ih a pos (fun p => m E s fuel b p (restrict (fun q => q == pos + (x + y)) k)) x ha]
          congr 1
          funext p
          simp only [restrict]
          split
          · rename_i hp
            have hp' : p = pos + x := by simpa using hp
            rw [ih b p k y hb, ih b p (restrict (fun q => q == pos + (x + y)) k) y hb]
            congr 1
            funext q
            simp only [restrict]
            split
            · rename_i hq
              have hq' : q = p + y := by simpa using hq
              have : q = pos + (x + y) := by omega
              simp [this]
            · rfl
          · rfl
    | alt a b =>
      simp only [fixedLen] at hn
      cases ha : fixedLen a with
      | none => rw [ha] at hn; simp at hn
      | some x =>
        cases hb : fixedLen b with
        | none => rw [ha, hb] at hn; simp at hn
        | some y =>
          rw [ha, hb] at hn
          simp only [] at hn
          split at hn
          · rename_i hxy
            simp only [Option.some.injEq] at hn
            subst hn; subst hxy
            simp only [m]
            rw [ih a pos k x ha, ih b pos k x hb]
          · cases hn
    | star g body => simp [fixedLen] at hn
    | look neg body => simp only [fixedLen, Option.some.injEq] at hn; subst hn; simp [m, restrict]
    | eoi => simp only [fixedLen, Option.some.injEq] at hn; subst hn; simp only [m, restrict]; split <;> simp

/-- the `|w|` characters before `q` are `w` -/
def sufB (s : Array Nat) (w : List Nat) (q : Nat) : Bool := decide (w.length ≤ q ∧ (s.extract (q - w.length) q).toList = w)

/-- every match of `r` ends with the literal `w` (sound, not complete) -/
def endsWith : Re → List Nat → Bool
  | _, [] => true
  | .set false [], _ => true                      -- matches nothing at all
  | .chr c, [d] => c = d
  | .seq a b, w =>
    endsWith b w ||
      (match fixedLen b with
       | some n => decide (n ≤ w.length) && endsWith b (w.drop (w.length - n)) && endsWith a (w.take (w.length - n))
       | none => false)
  | .alt a b, w => endsWith a w && endsWith b w
  | _, _ => false


theorem sufB_nil (s : Array Nat) : sufB s [] = fun _ => true := by
  funext q; simp [sufB]

theorem sufB_chr (s : Array Nat) (pos c : Nat) (h : s[pos]? = some c) : sufB s [c] (pos + 1) = true := by
  have hlt := getElem?_some_lt h
  simp only [sufB, List.length_singleton, decide_eq_true_eq, Nat.add_sub_cancel]
  refine ⟨by omega, ?_⟩
  have hg : s[pos] = c := by
    have := Array.getElem?_eq_getElem hlt
    rw [this] at h; injection h
  apply List.ext_getElem
  · simp; omega
  · intro i h1 h2
    simp at h1 h2
    have : i = 0 := by omega
    subst this
    simp [hg]

theorem sufB_append (s : Array Nat) (w1 w2 : List Nat) (p q : Nat) (h1 : sufB s w1 p = true) (h2 : sufB s w2 q = true)
    (hq : q = p + w2.length) : sufB s (w1 ++ w2) q = true := by
  simp only [sufB, decide_eq_true_eq] at h1 h2 ⊢
  obtain ⟨a1, b1⟩ := h1
  obtain ⟨a2, b2⟩ := h2
  refine ⟨by simp; omega, ?_⟩
  have e1 : q - w2.length = p := by omega
  rw [e1] at b2
  have e2 : q - (w1 ++ w2).length = p - w1.length := by simp; omega
  rw [e2]
  have hcat : s.extract (p - w1.length) p ++ s.extract p q = s.extract (p - w1.length) q := by
    rw [Array.extract_append_extract]
    congr 1 <;> omega
  rw [← hcat, Array.toList_append, b1, b2]

theorem restrict_restrict (p : Nat → Bool) (k : Nat → MR) : restrict p (restrict p k) = restrict p k := by
  funext q; simp only [restrict]; split <;> simp [*]

/-- **endsWith soundness**: the matcher only ever calls its continuation where the text just read ends with `w` -/
theorem m_endsWith (E : Env) (s : Array Nat) : ∀ (fuel : Nat) (r : Re) (pos : Nat) (k : Nat → MR) (w : List Nat), endsWith r w = true →
    m E s fuel r pos k = m E s fuel r pos (restrict (sufB s w) k) := by
  intro fuel
  induction fuel with
  | zero => intros; rfl
  | succ fuel ih =>
    intro r pos k w hw
    cases w with
    | nil => rw [sufB_nil, restrict_true]
    | cons d ds =>
      cases r with
      | eps => simp [endsWith] at hw
      | notChr c => simp [endsWith] at hw
      | any => simp [endsWith] at hw
      | star g body => simp [endsWith] at hw
      | look neg body => simp [endsWith] at hw
      | eoi => simp [endsWith] at hw
      | set neg items =>
        cases neg with
        | true => simp [endsWith] at hw
        | false =>
          cases items with
          | cons it its => simp [endsWith] at hw
          | nil => simp only [m]; split <;> simp
      | chr c =>
        cases ds with
        | cons d2 ds2 => simp [endsWith] at hw
        | nil =>
          simp only [endsWith, decide_eq_true_eq] at hw
          subst hw
          simp only [m, restrict]
          split
          · rename_i hc
            rw [sufB_chr s pos c hc]; simp
          · rfl
      | alt a b =>
        simp only [endsWith, Bool.and_eq_true] at hw
        simp only [m]
        rw [ih a pos k _ hw.1, ih b pos k _ hw.2]
      | seq a b =>
        simp only [endsWith, Bool.or_eq_true] at hw
        simp only [m]
        rcases hw with hb | hfix
        · congr 1
          funext p
          rw [ih b p k _ hb, ih b p (restrict (sufB s (d :: ds)) k) _ hb, restrict_restrict]
        · cases hfl : fixedLen b with
          | none => rw [hfl] at hfix; simp at hfix
          | some n =>
            rw [hfl] at hfix
            simp only [Bool.and_eq_true, decide_eq_true_eq] at hfix
            obtain ⟨⟨hn, hb2⟩, ha1⟩ := hfix
            rw [ih a pos _ _ ha1, ih a pos (fun p => m E s fuel b p (restrict (sufB s (d :: ds)) k)) _ ha1]
            congr 1
            funext p
            simp only [restrict]
            split
            · rename_i hp
              rw [m_fixedLen E s fuel b p k n hfl, m_fixedLen E s fuel b p (restrict (sufB s (d :: ds)) k) n hfl]
              rw [ih b p _ _ hb2, ih b p (restrict (fun q => q == p + n) (restrict (sufB s (d :: ds)) k)) _ hb2]
              congr 1
              funext q
              simp only [restrict]
              split
              · rename_i hq2
                split
                · rename_i hqn
                  have hqn' : q = p + n := by simpa using hqn
                  have hlen : ((d :: ds).drop ((d :: ds).length - n)).length = n := by rw [List.length_drop]; omega
                  have := sufB_append s _ _ p q hp hq2 (by rw [hlen]; exact hqn')
                  rw [List.take_append_drop] at this
                  simp [this]
                · rfl
              · rfl
            · rfl

/-- a match of `r` ends with `w` -/
theorem matchAt_endsWith (E : Env) (fuel : Nat) (r : Re) (s : Array Nat) (pos e : Nat) (w : List Nat) (hw : endsWith r w = true)
    (h : matchAt E fuel r s pos = .matched e) : w.length ≤ e ∧ (s.extract (e - w.length) e).toList = w := by
  unfold matchAt at h
  rw [m_endsWith E s fuel r pos _ w hw] at h
  obtain ⟨p, hp⟩ := m_result E s fuel r pos _ e h
  simp only [restrict] at hp
  split at hp
  · rename_i hq
    injection hp with hp
    subst hp
    simpa [sufB] using hq
  · cases hp

end XV.Rx
